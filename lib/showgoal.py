#!/usr/bin/env python3
# usage: showgoal.py File.v LINE 'old' 'new'  -- compile File.v up to LINE with text replacement on that line, then Show.
import sys,subprocess,os
f,line,old,new=sys.argv[1],int(sys.argv[2]),sys.argv[3],sys.argv[4]
L=open(f).read().split('\n')
t=L[:line-1]+[L[line-1].replace(old,new),'Show.','Abort All.']
tmp=os.path.join(os.path.dirname(f),'_t.v')
open(tmp,'w').write('\n'.join(t))
out=subprocess.run(['coqc','-Q','/verif/coq','Ebu',tmp],capture_output=True,text=True,cwd='/verif/coq')
o=out.stdout+out.stderr
i=o.find('goal')
print(o[max(0,i-200):i+int(sys.argv[5]) if len(sys.argv)>5 else i+2500])
for e in ('.v','.vo','.glob','.vok','.vos'):
    try: os.unlink(tmp[:-2]+e)
    except: pass
