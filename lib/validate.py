#!/usr/bin/env python3
"""Validate MANIFEST.json and every evidence file against the schemas under /root/.vp (run with python3-vt: needs jsonschema)."""
import json, sys, glob, os
import jsonschema
root = os.path.dirname(os.path.dirname(os.path.abspath(__file__)))
ms = json.load(open('/root/.vp/MANIFEST.schema.json')); es = json.load(open('/root/.vp/EVIDENCE.schema.json'))
m = json.load(open(os.path.join(root, 'MANIFEST.json'))); jsonschema.validate(m, ms)
ids = [c['property_id'] for c in m['checks']]
bad = 0
for pid in ids:
    p = os.path.join(root, 'evidence', pid + '.json')
    if not os.path.exists(p):
        print('missing evidence', pid); bad += 1; continue
    try:
        jsonschema.validate(json.load(open(p)), es)
    except Exception as e:
        print('invalid evidence', pid, str(e)[:200]); bad += 1
print('manifest ok, %d checks, %d evidence problems' % (len(ids), bad))
sys.exit(1 if bad else 0)
