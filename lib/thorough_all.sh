#!/bin/bash
# usage: thorough_all.sh <out-dir> <property ids...> : thorough tier of each check in a sandbox (frozen /verif snapshot, frozen /repo worktree)
out=$1; shift
mkdir -p $out
wt=$(mktemp -d /tmp/thwt.XXXXXX); rmdir $wt
vf=$(mktemp -d /tmp/thvf.XXXXXX); rmdir $vf
git -C /repo worktree add -q --detach $wt HEAD || exit 2
git -C /verif worktree add -q --detach $vf HEAD || exit 2
cd $vf
( cd coq && coq_makefile -f _CoqProject -o Makefile >/dev/null && make -j16 >/dev/null 2>&1 ) || echo "coq build failed" | tee -a $out/log.txt
for p in "$@"; do
  sb=$(mktemp -d /tmp/thsb.XXXXXX)
  t0=$(date +%s)
  o=$(VERIF_REPO=$wt VERIF_SANDBOX=$sb ./check $p --tier thorough 2>&1); rc=$?
  echo "$p rc=$rc $(( $(date +%s) - t0 ))s $(echo "$o" | tail -1)" | tee -a $out/log.txt
  if [ $rc -ne 0 ]; then mkdir -p $out/$p; echo "$o" > $out/$p/output.txt; cp -r $sb/replays $out/$p/ 2>/dev/null; fi
  cp $sb/evidence/$p.json $out/$p.evidence.json 2>/dev/null
  rm -rf $sb
done
git -C /repo worktree remove --force $wt
git -C /verif worktree remove --force $vf
