#!/bin/bash
# usage: repeat.sh <out-dir> <reps> <property ids...> : the quick checks at seed 1, repeated, from a frozen snapshot (flake hunting)
out=$1; reps=$2; shift 2
mkdir -p $out
wt=$(mktemp -d /tmp/repwt.XXXXXX); rmdir $wt
vf=$(mktemp -d /tmp/repvf.XXXXXX); rmdir $vf
git -C /repo worktree add -q --detach $wt HEAD || exit 2
git -C /verif worktree add -q --detach $vf HEAD || exit 2
cd $vf
( cd coq && coq_makefile -f _CoqProject -o Makefile >/dev/null && make -j16 >/dev/null 2>&1 ) || echo "coq build failed" | tee -a $out/log.txt
for r in $(seq 1 $reps); do
  for p in "$@"; do
    sb=$(mktemp -d /tmp/repsb.XXXXXX)
    o=$(VERIF_SEED=1 VERIF_REPO=$wt VERIF_SANDBOX=$sb ./check $p --tier quick 2>&1); rc=$?
    echo "rep=$r $p rc=$rc $(echo "$o" | tail -1)" >> $out/log.txt
    if [ $rc -ne 0 ]; then mkdir -p $out/$p-$r; echo "$o" > $out/$p-$r/output.txt; cp -r $sb/replays $out/$p-$r/ 2>/dev/null; fi
    rm -rf $sb
  done
done
git -C /repo worktree remove --force $wt
git -C /verif worktree remove --force $vf
