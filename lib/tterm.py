"""T-terms: the one term language shared by the Go harness, the evidence files
and the Coq correspondence files.  A T-term is JSON:

  {"c": "Ctor", "a": [t1, ...]}   constructor application (a optional)
  {"n": 5}  nat      {"z": -5} / {"z": "123456789012345678901"}  Z      {"N": 5}  N
  {"s": "text"}      Coq string (bytes 32..126 only; the generators guarantee it)
  {"b": true}        bool
  {"l": [t, ...]}    list
  {"t": [t, ...]}    tuple
  {"o": t} / {"o": null}   option

to_gallina prints it as a closed Gallina term.  The printer is deliberately dumb
and symmetric: inputs and observations go through the same function.
"""


class TermError(Exception):
    pass


def _str(s):
    for ch in s:
        o = ord(ch)
        if o < 32 or o > 126:
            raise TermError("non-printable byte in string literal: %r" % s)
    return '"' + s.replace('"', '""') + '"%string'


def to_gallina(t):
    if not isinstance(t, dict) or len(t) == 0:
        raise TermError("bad term: %r" % (t,))
    if "c" in t:
        args = t.get("a") or []
        if not args:
            return t["c"]
        return "(" + t["c"] + " " + " ".join(to_gallina(x) for x in args) + ")"
    if "n" in t:
        v = int(t["n"])
        if v < 0 or v > 5000:
            raise TermError("nat literal out of range: %r" % v)
        return "%d%%nat" % v
    if "z" in t:
        return "(%d)%%Z" % int(t["z"])
    if "N" in t:
        v = int(t["N"])
        if v < 0:
            raise TermError("negative N")
        return "%d%%N" % v
    if "s" in t:
        return _str(t["s"])
    if "b" in t:
        return "true" if t["b"] else "false"
    if "l" in t:
        return "[" + "; ".join(to_gallina(x) for x in t["l"]) + "]"
    if "t" in t:
        return "(" + ", ".join(to_gallina(x) for x in t["t"]) + ")"
    if "o" in t:
        if t["o"] is None:
            return "None"
        return "(Some " + to_gallina(t["o"]) + ")"
    raise TermError("bad term: %r" % (t,))


def selftest():
    assert to_gallina({"c": "Reg", "a": [{"n": 1}, {"s": 'a"b'}]}) == '(Reg 1%nat "a""b"%string)'
    assert to_gallina({"l": [{"b": True}, {"b": False}]}) == "[true; false]"
    assert to_gallina({"t": [{"z": -3}, {"o": None}, {"o": {"N": 7}}]}) == "((-3)%Z, None, (Some 7%N))"
    try:
        to_gallina({"s": "\x01"})
    except TermError:
        pass
    else:
        raise AssertionError("printer accepted a control byte")


if __name__ == "__main__":
    selftest()
    print("ok")
