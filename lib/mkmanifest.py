#!/usr/bin/env python3
"""Regenerates MANIFEST.json from lib/props.py (single source of truth)."""
import json, os, sys
ROOT = os.path.dirname(os.path.dirname(os.path.abspath(__file__)))
sys.path.insert(0, os.path.join(ROOT, "lib"))
from props import PROPS, NOT_CLAIMED

ALL = ["C%02d" % i for i in range(1, 21)]
checks = []
for pid in ALL:
    if pid not in PROPS:
        continue
    P = PROPS[pid]
    checks.append(dict(
        property_id=pid,
        quick_cmd="./check %s --tier quick" % pid,
        thorough_cmd="./check %s --tier thorough" % pid,
        evidence_file="evidence/%s.json" % pid,
        replay_cmd_template="./check %s --replay {path}" % pid,
        engine="coq-model+correspondence",
        level_claimed=dict(category="proof", text=P["level_text"], design_ref=P.get("design_ref", "DESIGN.md section 6, " + pid)),
        level_note=P["level_note"],
        technique=P.get("technique", "machine-checked proof in Coq 8.16.1 over a hand-written executable model + differential correspondence check against the Go implementation (vm_compute over generated cases)"),
    ))
na = [dict(property_id=p, reason=NOT_CLAIMED[p]) for p in ALL if p not in PROPS]
m = dict(
    version=1,
    setup_cmd="./setup.sh",
    hooks=dict(guard="verif", enable="go build -tags verif (harness modules under harness/go use replace => /repo)",
               baseline_off_cmd="for m in . otel stores/sqlite stores/durablestream; do (cd /repo/$m && GOFLAGS=-mod=mod GOPROXY=off go test -vet=off -count=1 -timeout 25m ./...); done",
               source_commits=["14cb23b verif hook: build-tagged setter for the SQLite database opener (stores/sqlite/verif_hooks.go)"], add_only=True),
    engines=[dict(name="coq-model+correspondence", path="check", serves_properties=[c["property_id"] for c in checks],
                  kind_free_text="Coq 8.16.1 theorems over executable Gallina models (coq/), tied to /repo by a differential "
                                 "correspondence check: Go harness built from the working tree, cases.v evaluated by vm_compute")],
    checks=checks,
    notes="One entry point: ./check Cnn --tier quick|thorough [--replay path]. known_findings.json is read-only at run time.",
    not_applicable=na,
)
json.dump(m, open(os.path.join(ROOT, "MANIFEST.json"), "w"), indent=1)
print("MANIFEST.json: %d checks, %d not claimed" % (len(checks), len(na)))
