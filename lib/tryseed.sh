#!/bin/bash
# usage: tryseed.sh <seed-dir-name> <property ids...>
# Applies seeded/<name>/patch.diff to a scratch worktree of /repo (never to /repo itself), runs the checks against that
# worktree in a sandbox (nothing is written under /verif), prints one line per check, removes worktree and sandbox.
name=$1; shift
cd ${VERIF_HOME:-/verif}
wt=$(mktemp -d /tmp/seedwt.XXXXXX); sb=$(mktemp -d /tmp/seedsb.XXXXXX)
rmdir $wt
git -C /repo worktree add -q --detach $wt HEAD || exit 2
git -C $wt apply ${VERIF_HOME:-/verif}/seeded/$name/patch.diff || { git -C /repo worktree remove --force $wt; rm -rf $sb; exit 2; }
for p in "$@"; do
  out=$(VERIF_REPO=$wt VERIF_SANDBOX=$sb ./check $p --tier ${TIER:-quick} 2>&1); rc=$?
  echo "[$name] $p rc=$rc :: $(echo "$out" | grep -E 'VIOLATION|KNOWN|INFRA' | head -3 | tr '\n' ' ') $(echo "$out" | tail -1)"
done
git -C /repo worktree remove --force $wt
rm -rf $sb
