#!/bin/bash
# usage: tryseed.sh <seed-dir-name> <property ids...>   applies seeded/<name>/patch.diff to /repo, runs the checks, reverts.
name=$1; shift
cd /verif
git -C /repo diff --quiet || { echo "/repo has uncommitted changes"; exit 2; }
git -C /repo apply /verif/seeded/$name/patch.diff || exit 2
for p in "$@"; do
  out=$(./check $p --tier quick 2>&1); rc=$?
  echo "[$name] $p rc=$rc :: $(echo "$out" | grep -E 'VIOLATION|KNOWN|INFRA' | head -3 | tr '\n' ' ') $(echo "$out" | tail -1)"
done
git -C /repo checkout -- .
git -C /repo status --short | head -3
