#!/bin/bash
# usage: verify_seed.sh <worktree> <pkgdir-relative> <run-regexp> [module dirs to test...]
# confirms: existing suite passes with the change; demo fails with it; demo passes without it.
set -u
export GOFLAGS=-mod=mod GOPROXY=off
wt=$1; pkg=$2; re=$3; shift 3
mods=${@:-.}
cd $wt || exit 2
git diff --quiet && { echo "worktree has no change applied"; exit 2; }
for m in $mods; do
  ( cd $wt/$m && go test -count=1 ./... >/tmp/vs_suite.log 2>&1 ) || { echo "SUITE FAILS with change in $m"; tail -20 /tmp/vs_suite.log; exit 1; }
done
echo "suite passes with change: $mods"
cp _seed/demo_test.go $pkg/zz_seed_demo_test.go
( cd $pkg && timeout 300 go test -count=1 -run "$re" . >/tmp/vs_with.log 2>&1 ); rc_with=$?
git diff > /tmp/vs_change.$$.diff; git apply -R /tmp/vs_change.$$.diff
( cd $pkg && timeout 300 go test -count=1 -run "$re" . >/tmp/vs_without.log 2>&1 ); rc_without=$?
git apply /tmp/vs_change.$$.diff; rm -f /tmp/vs_change.$$.diff
rm -f $pkg/zz_seed_demo_test.go
echo "demo with change rc=$rc_with (want !=0); without rc=$rc_without (want 0)"
[ $rc_with -ne 0 ] && [ $rc_without -eq 0 ] && echo VERIFIED || { echo NOT-VERIFIED; tail -5 /tmp/vs_with.log /tmp/vs_without.log; exit 1; }
