#!/bin/bash
# usage: sweep.sh <out-dir> <seed-from> <seed-to> <property ids...>
# Runs the quick checks for several seeds from a frozen snapshot of committed /verif against a frozen copy of /repo's
# HEAD, all in scratch directories; keeps output and replays of every non-zero exit under <out-dir>.
out=$1; a=$2; b=$3; shift 3
mkdir -p $out
wt=$(mktemp -d /tmp/sweepwt.XXXXXX); rmdir $wt
vf=$(mktemp -d /tmp/sweepvf.XXXXXX); rmdir $vf
git -C /repo worktree add -q --detach $wt HEAD || exit 2
git -C /verif worktree add -q --detach $vf HEAD || exit 2
cd $vf
( cd coq && coq_makefile -f _CoqProject -o Makefile >/dev/null && make -j16 >/dev/null 2>&1 ) || { echo "coq build failed" | tee -a $out/log.txt; }
for seed in $(seq $a $b); do
  for p in "$@"; do
    sb=$(mktemp -d /tmp/sweepsb.XXXXXX)
    o=$(VERIF_SEED=$seed VERIF_REPO=$wt VERIF_SANDBOX=$sb ./check $p --tier ${TIER:-quick} 2>&1); rc=$?
    echo "seed=$seed $p rc=$rc $(echo "$o" | tail -1)" | tee -a $out/log.txt
    if [ $rc -ne 0 ]; then mkdir -p $out/$p-$seed; echo "$o" > $out/$p-$seed/output.txt; cp -r $sb/replays $out/$p-$seed/ 2>/dev/null; fi
    rm -rf $sb
  done
done
git -C /repo worktree remove --force $wt
git -C /verif worktree remove --force $vf
