"""Per-property configuration: which Coq files hold the theorems and the model, and which
harness suites tie them to /repo.  A suite = (Go module under harness/go, family name,
Coq Corr module, check function : input * obs -> bool(agree) * bool(ok) * nat(known))."""

PROPS = {
    "C16": dict(
        title="Upcaster registration can never create a cycle and upcasting always terminates",
        theorems="Properties/C16.v",
        proof_files=["Upcast/UpcastModel.v", "Upcast/UpcastProofs.v", "Properties/C16.v"],
        suites=[dict(name="upcast", mod="core", family="upcast", corr="Corr.CorrUpcast", check="check16")],
        level_text="Proved in Coq for every registry, every operation sequence and every behaviour of the registered "
                   "functions: register accepts iff the four argument conditions hold and the target does not reach the "
                   "source (DFS sound, complete, fuel-sufficient); every registry reachable through register/clear/"
                   "clearType is acyclic; apply never runs out of fuel. The model is tied to upcast.go by running both on "
                   "generated operation sequences (incl. racing registration pairs and raw upcasters returning arbitrary types).",
        level_note="Trusted: Coq kernel + vm_compute; the hand-written model of upcast.go (checked against the implementation "
                   "on sampled cases only); Go sync.RWMutex serialises registrations (modelled as atomic steps); harness and printer.",
        rule="cases = seeded random sequences of RegisterUpcastFunc/ClearUpcasts/ClearUpcastsForType/racing "
             "registration pairs/ReplayWithUpcast over 3-8 type names (plus a directed corpus run first); "
             "non-trivial = at least one registration rejected, one event actually upcast, one step failed or "
             "one replay diverged; distinct = distinct input term",
    ),
    "C17": dict(
        title="Upcasting applies the whole chain or nothing",
        theorems="Properties/C17.v",
        proof_files=["Upcast/UpcastModel.v", "Upcast/UpcastProofs.v", "Properties/C17.v"],
        suites=[dict(name="upcast", mod="core", family="upcast", corr="Corr.CorrUpcast", check="check17"),
                dict(name="upcasttyped", mod="core", family="upcasttyped", corr="Corr.CorrUpcast", check="check17t")],
        level_text="Proved in Coq for every acyclic registry, payload and function behaviour honouring its declared target: "
                   "apply equals the deterministic chain of first-registered upcasters; events without upcasters are "
                   "untouched; on a failed step the callback gets the original event with one error report; offset and "
                   "timestamp never change; typed upcasters = encode . f . decode. Tied to upcast.go/persist.go by "
                   "differential runs of ReplayWithUpcast on generated registries, logs and failure positions.",
        level_note="Trusted: Coq kernel + vm_compute; hand-written model of upcast.go apply and of ReplayWithUpcast's wrapper; "
                   "encoding/json for the typed upcaster is a Section variable (encode/decode); harness and printer.",
        rule="same generator as C16; non-trivial = an event was actually upcast or a step failed; distinct = distinct input term",
    ),
}

PROPS["C18"] = dict(
    title="Materialized state is the fold of the message log",
    theorems="Properties/C18.v",
    proof_files=["State/StateModel.v", "State/StateProofs.v", "Properties/C18.v"],
    suites=[dict(name="state", mod="core", family="state", corr="Corr.CorrState", check="check18"),
            dict(name="statector", mod="core", family="statector", corr="Corr.CorrState", check="check18")],
    level_text="Proved in Coq for every message sequence, every decode outcome, strict and non-strict mode: one Apply "
               "refines one step of the last-writer-wins specification; after any sequence each registered collection "
               "holds exactly the fold and no key of another type (composite keys are injective per collection, so "
               "keys containing the separator cannot collide); LastOffset is the position of the last event whose "
               "Apply returned nil; two replay sessions (second resumed from LastOffset) equal one session for every "
               "split point, also when an event is rejected. Tied to state/materializer.go by differential runs "
               "(direct Apply, Materializer.Replay through bus and store in one and in two sessions).",
    level_note="Trusted: Coq kernel + vm_compute; the hand-written model of Materializer.Apply over decoded documents "
               "(encoding/json is not modelled: the harness renders each abstract document to bytes); Go maps as "
               "association lists; harness and printer.",
    rule="cases = seeded random logs (3-25 messages, thorough up to 52) of insert/update/delete/reset/snapshot/other-"
         "operation/undecodable documents over 1-3 registered collections (names incl. 'a' and 'a/b'), an unregistered "
         "type, keys containing '/', strict and non-strict, a random split point; plus logs built by the helper "
         "constructors and published through a bus and store; non-trivial = the log contains a reset, a delete, a "
         "rejected event or a key with the separator; distinct = distinct input term",
)
PROPS["C19"] = dict(
    title="State messages survive the round trip; bad input is rejected without damage",
    theorems="Properties/C19.v",
    proof_files=["State/StateModel.v", "State/StateProofs.v", "Properties/C19.v"],
    suites=[dict(name="statector", mod="core", family="statector", corr="Corr.CorrState", check="check19"),
            dict(name="state", mod="core", family="state", corr="Corr.CorrState", check="check19"),
            dict(name="statefuzz", mod="core", family="statefuzz", corr="Corr.CorrState", check="checkfuzz", shard=1000)],
    level_text="Partial proof. Proved in Coq for every state and every decode outcome of the event bytes: an Apply that "
               "returns an error leaves every collection and LastOffset unchanged, and a decoded change message updates "
               "exactly its key of its collection. The round trip through the helper constructors, Publish, the store, "
               "Replay and encoding/json is checked differentially (entities with nested/unicode/empty/numeric-edge "
               "values, unicode keys, all option combinations, protocol field names). NOT proved: that decoding "
               "arbitrary bytes never panics (a fact about encoding/json and the Go runtime, which no Gallina model "
               "exhibits) - sampled by a byte-level fuzz stream with recover.",
    level_note="Trusted: Coq kernel + vm_compute; model of Apply over decoded documents; encoding/json unmodelled "
               "(round trip and no-panic are sampled only); harness and printer.",
    rule="cases = (a) logs built with state.Insert/Update/UpdateWithOldValue/Delete/DeleteWithOldValue/Reset/Snapshot* "
         "and all ChangeOption combinations, published by value and by pointer through a persistent bus; (b) raw JSON "
         "documents incl. malformed ones; (c) fuzzed byte strings (truncations, byte flips, deep nesting, huge numbers, "
         "invalid UTF-8, random bytes) applied to a non-empty materializer; non-trivial = a rejected/errored input or a "
         "log with reset/delete/separator keys; distinct = distinct input term (fuzz: distinct observation)",
)

PROPS["C10"] = dict(
    title="Every bundled store behaves as one append-only, resumable log",
    theorems="Properties/C10.v",
    proof_files=["Store/Lex.v", "Store/StoreModel.v", "Store/StoreProofs.v", "Properties/C10.v"],
    suites=[dict(name="storemem", mod="core", family="storemem", corr="Corr.CorrStore", check="check10_mem", shard=50),
            dict(name="storesqlitefile", mod="core", family="storesqlitefile", corr="Corr.CorrStore", check="check10_sq", shard=20,
                 env={"VERIF_TMP": "/verif/.build/tmp"}),
            dict(name="storesqlitemem", mod="core", family="storesqlitemem", corr="Corr.CorrStore", check="check10_sq", shard=20),
            dict(name="storeds", mod="core", family="storeds", corr="Corr.CorrStore", check="check10_ds", shard=20)],
    level_text="Proved in Coq, for every state reachable by appends and every position/limit: MemoryStore offsets are the "
               "zero-padded counter and increase lexicographically (digits_lex, counter < 10^20); Read(o,n) from oldest or "
               "any issued offset returns exactly the first n (all if n<=0) later events and a next offset denoting the "
               "position after them; ReadStream equals Read; any chain of reads over a store meeting that read "
               "specification returns a gap-free, repeat-free segment and an empty read means the end (generic chain "
               "theorem, instantiated for memory and SQLite); SQLite positions strictly increase numerically, never "
               "repeat, and decimal offsets round-trip (parse . format = id up to 2^63-1); saved subscription offsets "
               "are returned per id; operations on one store value leave the other unchanged. Refuted by computation "
               "(known findings): SQLite offsets are not lexicographic at 9->10; the durable-streams store breaks the "
               "read/next/event-offset clauses (three witnesses). Each store model is tied to the code by differential "
               "runs of random Append/Read/ReadStream/SaveOffset/LoadOffset histories on two separately created stores; "
               "an independent oracle (also in Coq) judges every observed history against the property.",
    level_note="Trusted: Coq kernel + vm_compute; hand-written models of MemoryStore, SQLiteStore (five SQL statements with "
               "SQL semantics; AUTOINCREMENT) and the durable-streams store over the in-memory server; payload "
               "identity (type, canonical JSON, instant) is matched by the harness, the models treat payloads as "
               "opaque ids; strconv/fmt are modelled by dec/parse_int/pad; saving the empty offset on SQLite returns "
               "\"0\" (same position) and is excluded from generation; harness and printer.",
    rule="cases = seeded random histories (8-38 ops, thorough up to 88) of Append/Read/ReadStream/SaveOffset/LoadOffset on two "
         "separately created stores of the same kind (memory; SQLite file; SQLite :memory:; durable-streams over an "
         "in-process server with 1/2/3/5/unlimited messages per chunk), limits from {-1,0,1,2,3,n-1,n,n+1,100}, resume points "
         "from every returned next/event offset plus never-issued offsets, payloads with unicode types, nested JSON, "
         "timestamps in UTC/Local/fixed zones incl. unusual zone names, years 1..9999, nanoseconds; a directed case "
         "crosses 9->10->12 appends and chains reads with limits 1,2,5,0; non-trivial = some read hit its limit or "
         "resumed from a non-empty offset; distinct = distinct operation history",
    assumptions=["SQLite executes each prepared statement with SQL semantics", "the durable-streams server used is the in-memory reference storage"],
)

PROPS["C11"] = dict(
    title="Replay delivers every event after the offset, or says that it did not",
    theorems="Properties/C11.v",
    proof_files=["Store/ReplayModel.v", "Store/ReplayProofs.v", "Store/StoreProofs.v", "Properties/C11.v"],
    suites=[dict(name="replay", mod="core", family="replay", corr="Corr.CorrReplay", check="check11",
                 env={"VERIF_TMP": "/verif/.build/tmp"})],
    level_text="Proved in Coq for every log, start offset, batch size >= 1 and fault (callback failure, cancellation, "
               "row-fetch error, failing Read call): each Replay path (MemoryStore stream, SQLite cursor stream, SQLite "
               "batched stream, paged fallback over any store meeting C10's read specification) hands the callback a "
               "gap-free, duplicate-free prefix in log order and returns nil only if that prefix is everything; the "
               "paged and batched loops terminate within remaining+2 iterations (fuel sufficiency). Tied to persist.go "
               "and stores/sqlite/store.go by differential runs over (store x configuration x batch x length x start x "
               "fault kind x fault position), with SQLite row errors injected through the verif-tagged opener hook.",
    level_note="Trusted: Coq kernel + vm_compute; hand-written models of Replay, ReadStream, streamRows/streamBatched/"
               "streamBatch; database/sql closes the rows of a cancelled query (the harness waits for that before the "
               "callback returns, making it deterministic); the fault-injecting driver wraps modernc sqlite through "
               "the non-context driver interfaces; harness and printer. Replay's purity (no append, no handler) is a "
               "typing fact of the model and is observed, not proved.",
    rule="cases = seeded tuples (store kind in {memory stream, memory paged, SQLite stream, SQLite batched, durable-streams "
         "paged}, batch in {1,2,3,rem-1,rem,rem+1,100,default}, server chunk in {1,2,3,5,unlimited}, log length 0-13 "
         "(thorough 0-25), start position, fault in {none, callback fails at i, context cancelled at i, row fetch fails at "
         "k, j-th Read fails}); 8 directed cases first; non-trivial = at least 2 events remain after the start offset; "
         "distinct = distinct input tuple",
)

PROPS["C01"] = dict(
    title='Publish reaches exactly the subscribed handlers, once each, in order',
    theorems="Properties/C01.v",
    proof_files=["Bus/BusModel.v", "Bus/BusRun.v", "Bus/BusInv.v", "Properties/C01.v"],
    suites=[dict(name="bus01", mod="core", family="bus01", corr="Corr.BusOracle", check="check_bus", shard=25), dict(name="busseq", mod="core", family="busseq", corr="Corr.BusOracle", check="check_bus", shard=25), dict(name="busstress", mod="core", family="busstress", corr="Corr.CorrStress", check="check_stress01", shard=150)],
    level_text="Proved in Coq on the small-step model, for every state/program/routing function: the snapshot step queues exactly the registrations of the published type at that step, in subscription order, each once, never another type's; the per-registration decisions (filter, once-claim, cancellation) are exact; Subscribe appends one registration to its own type only; Unsubscribe removes exactly the first registration of the function or reports not-found and changes nothing; Clear empties exactly its type; each shard step of ClearAll empties exactly the types routed there, for ANY routing; HasHandlers/HandlerCount return the registry's size. Re-entrant calls are ordinary later steps. The model is tied to event_bus.go by replaying controller-driven runs of random re-entrant programs over up to 40 event types (> 32 shards), all option combinations and any-typed publishes; an oracle with its own flat registry judges every observed run (exact snapshot membership, order of sync handlers, filters, exactly-once, count/has results, final counts).",
    level_note='Trusted: Coq kernel + vm_compute; the hand-written small-step model of event_bus.go / persistEvent (flat registry; sync.Mutex, RWMutex, WaitGroup, atomic CAS, goroutine creation and recover are modelled as atomic micro-steps); the controller harness (parks goroutines at user-code callbacks, reads goroutine states from runtime.Stack) and the replay of its log on the model (Bus/BusRun.v); the oracle Corr/BusOracle.v; interleavings strictly inside bus code are not forced by the controller.',
    rule='cases = seeded random programs (threads, handler/filter/hook bodies that call back into the bus, options) run on the real bus under the controller with a seeded random schedule; every run is replayed on the Coq model along the controller log and judged by the oracle; directed witness programs run first; C01: one goroutine, 2-5 or 33-40 event types, all Once/Async/Sequential/filter combinations, SubscribeContext, duplicate functions, bodies that subscribe/unsubscribe/clear/publish to depth 3; non-trivial = every case (each has >= 1 publish reaching a handler or a registry query); distinct = distinct program+schedule',
)
PROPS["C02"] = dict(
    title='Subscribe, unsubscribe and publish stay consistent under every interleaving',
    theorems="Properties/C02.v",
    proof_files=["Bus/BusModel.v", "Bus/BusRun.v", "Bus/BusInv.v", "Properties/C02.v"],
    suites=[dict(name="bus02", mod="core", family="bus02", corr="Corr.BusOracle", check="check_bus", shard=25), dict(name="buscon", mod="core", family="buscon", corr="Corr.BusOracle", check="check_bus", shard=25), dict(name="busstress", mod="core", family="busstress", corr="Corr.CorrStress", check="check_stress02", shard=150)],
    level_text="Proved in Coq for EVERY schedule of every program (induction over micro-steps): registration identities within a type are unique and never reused (no subscription duplicated, none resurrected); every registry operation and the publish snapshot are single atomic micro-steps with exact effect, so each takes effect at one point between call and return. The must-receive / never-receive / at-most-once / final-count clauses are decided on observed runs by the oracle, which linearises the controller's log, keeps its own flat registry and checks snapshot membership, exactly-once delivery, completeness for live contexts and the final HandlerCount. Tied to the code by controller-driven runs of 2-4 goroutines on 1-3 shared types.",
    level_note='Trusted: Coq kernel + vm_compute; the hand-written small-step model of event_bus.go / persistEvent (flat registry; sync.Mutex, RWMutex, WaitGroup, atomic CAS, goroutine creation and recover are modelled as atomic micro-steps); the controller harness (parks goroutines at user-code callbacks, reads goroutine states from runtime.Stack) and the replay of its log on the model (Bus/BusRun.v); the oracle Corr/BusOracle.v; interleavings strictly inside bus code are not forced by the controller.',
    rule='cases = seeded random programs (threads, handler/filter/hook bodies that call back into the bus, options) run on the real bus under the controller with a seeded random schedule; every run is replayed on the Coq model along the controller log and judged by the oracle; directed witness programs run first; C02: 2-4 goroutines x 2-7 operations on 1-3 shared types, random control-point interleavings; non-trivial = every case; distinct = distinct program+schedule',
)
PROPS["C03"] = dict(
    title='Concurrent use of the API is free of data races and deadlocks',
    theorems="Properties/C03.v",
    proof_files=["Bus/BusModel.v", "Bus/BusRun.v", "Bus/BusInv.v", "Bus/BusLeaf.v", "Properties/C03.v"],
    suites=[dict(name="race", mod="core", family="race", corr="Corr.CorrRace", check="check03r", shard=200, race=True, timeout=2400, crash_is_failure=True),
            dict(name="bus03", mod="core", family="bus03", corr="Corr.BusOracle", check="check03d", shard=25),
            dict(name="buscon", mod="core", family="buscon", corr="Corr.BusOracle", check="check03d", shard=25), dict(name="waitstress", mod="core", family="waitstress", corr="Corr.CorrStress", check="check_wait", shard=100, timeout=1800)],
    level_text='Partial. Data-race half: NOT a theorem (the Go memory model is outside the Gallina model, whose micro-steps are atomic); sampled by free-running mixes of every kind of public API call (publish, subscribe, unsubscribe, clear, queries, Wait, Replay, upcast registry, the bundled stores directly, SubscribeWithReplay, the state materializer) from 2-8 goroutines with re-entrant handlers and hooks, under the Go race detector, with a watchdog for global blocking and a count of panics escaping an API call. Deadlock half, proved in Coq on the small-step bus model over every schedule: a Sequential handler mutex has a single owner who still carries the matching deferred unlock; Wait and Shutdown wait exactly on the number of running deliveries; only six kinds of instruction can block at all (handler mutex, store mutex, Wait, the waiter and the select of Shutdown, and the start of an Async+Sequential delivery that is not yet at the head of the queue of its handler - whose head is always an unfinished delivery); no handler mutex is ever orphaned (its recorded holder still carries the deferred unlock), the store-mutex holder can always step, a pending Shutdown always has its waiter, Wait/Shutdown instructions occur only below every delivery frame (for programs whose handlers, filters and hooks do not call them), and - progress - for such programs some goroutine can always step in every reachable state whose handler-mutex waits are acyclic and in which no goroutine has died of an unrecovered panic (the waits of Async+Sequential deliveries for their turn are proved never to close a cycle: C03_progress_mutex_waits_only); and for the programs whose Sequential handlers do not publish (handlers that are not Sequential, filters, hooks and the panic handler may) the acyclicity hypothesis is discharged altogether: the frames of Sequential handlers never nest, whoever waits for a handler mutex holds none, and some goroutine can always step (C03_progress_when_sequential_handlers_do_not_publish); the documented exception (a synchronous Sequential handler whose publish is delivered back to itself) is exhibited as a reachable blocked state. Tied to the code by controller-driven runs (suites bus03, buscon) in which every thread the real bus leaves blocked must be blocked in the model too and must be waiting for a mutex it holds itself.',
    level_note='Trusted: Coq kernel + vm_compute; the Go race detector (finds only races that the sampled interleavings execute); the hand-written small-step model of event_bus.go and the controller harness (see C01); the watchdog budget of 30 s per case.',
    rule='race suite: cases = seeded mixes, 2-8 goroutines x 25-75 calls (thorough 40-160), GOMAXPROCS in {1,2,4,16}, store none/memory/SQLite in-memory, Sequential handlers never call back (self-delivery is the documented exception); bus03/buscon: seeded random programs under the controller, three directed programs first (self-delivery, indirect self-delivery, re-entrant subscribe/unsubscribe/clear/publish from handler, filter and hooks); non-trivial = every case; distinct = distinct program',
)
PROPS["C04"] = dict(
    title='A Once handler fires at most once, and exactly once when eligible',
    theorems="Properties/C04.v",
    proof_files=["Bus/BusModel.v", "Bus/BusRun.v", "Bus/BusInv.v", "Properties/C04.v"],
    suites=[dict(name="bus04", mod="core", family="bus04", corr="Corr.BusOracle", check="check_bus", shard=25), dict(name="buscon", mod="core", family="buscon", corr="Corr.BusOracle", check="check_bus", shard=25), dict(name="oncecancel", mod="core", family="oncecancel", corr="Corr.CorrOnce", check="check04x", shard=50), dict(name="busstress", mod="core", family="busstress", corr="Corr.CorrStress", check="check_stress04", shard=150)],
    level_text="Proved in Coq for EVERY schedule of every program: the number of entries into a Once registration over the whole run is <= 1, and an entry implies its flag was claimed (invariant: entries + deliveries in flight <= claimed flag, preserved by every micro-step incl. panics and async spawns); the claim is reached only after the filter accepted and with a live context, so filtered-out or already-cancelled publishes do not consume it. 'Exactly once when eligible' (liveness) is decided on observed runs by the oracle. Tied to the code by controller-driven runs with 1-3 concurrent publishers, sync/async Once handlers, filters, cancelled contexts. The asynchronous claim/cancel hole (context cancelled after PublishContext returned and before the delivery goroutine of an Async Once handler starts - the usual defer cancel()) is run on one processor against the model on exactly that schedule (suite oncecancel; the defect it showed was repaired by a fix: commit); the synchronous form of the hole (a preemption between two adjacent statements) is REFUTED on the model with a witness schedule and cannot be forced on the real code.",
    level_note='Trusted: Coq kernel + vm_compute; the hand-written small-step model of event_bus.go / persistEvent (flat registry; sync.Mutex, RWMutex, WaitGroup, atomic CAS, goroutine creation and recover are modelled as atomic micro-steps); the controller harness (parks goroutines at user-code callbacks, reads goroutine states from runtime.Stack) and the replay of its log on the model (Bus/BusRun.v); the oracle Corr/BusOracle.v; interleavings strictly inside bus code are not forced by the controller.',
    rule='cases = seeded random programs (threads, handler/filter/hook bodies that call back into the bus, options) run on the real bus under the controller with a seeded random schedule; every run is replayed on the Coq model along the controller log and judged by the oracle; directed witness programs run first; C04: 70% Once handlers, half the publishes on cancellable contexts, 1-3 publishers; directed: cancelled-then-eligible, filtered-then-eligible; non-trivial = every case; distinct = distinct program+schedule',
)
PROPS["C05"] = dict(
    title='A panicking handler never harms the publisher or the other handlers',
    theorems="Properties/C05.v",
    proof_files=["Bus/BusModel.v", "Bus/BusRun.v", "Bus/BusInv.v", "Properties/C05.v"],
    suites=[dict(name="bus05", mod="core", family="bus05", corr="Corr.BusOracle", check="check05", shard=25), dict(name="busseq", mod="core", family="busseq", corr="Corr.BusOracle", check="check05", shard=25)],
    level_text="Proved in Coq: a panic anywhere inside a handler invocation unwinds exactly to that invocation's deferred recover; everything queued behind it (remaining handlers of the publish, once-removal, after hooks, the caller's continuation) is kept; registry, once-flags, wait counter and locks are untouched by the unwinding; then the Sequential lock is released, the panic handler runs exactly once (if set), the completion callback carries the error, an async delivery reaches wg.Done; the wait-counter and lock invariants (C06, C07) hold on every schedule of panicking programs, so Wait returns and a panicking Sequential handler can run again. The panic handler is modelled as user code with a body of its own (it may call back into the bus, e.g. publish the failed event again: theorem C05_panic_handler_step, example C05_retry_from_the_panic_handler); over every schedule of programs in which only handler bodies panic no goroutine ever crashes (C05_handler_panics_never_crash). Tied to the code by controller-driven runs with 60% panicking bodies of every kind/option at random positions, panic handlers with and without a body, and the clause that every thread comes back (the documented self-delivery exception apart); the harness isolates crashes as labels.",
    level_note='Trusted: Coq kernel + vm_compute; the hand-written small-step model of event_bus.go / persistEvent (flat registry; sync.Mutex, RWMutex, WaitGroup, atomic CAS, goroutine creation and recover are modelled as atomic micro-steps); the controller harness (parks goroutines at user-code callbacks, reads goroutine states from runtime.Stack) and the replay of its log on the model (Bus/BusRun.v); the oracle Corr/BusOracle.v; interleavings strictly inside bus code are not forced by the controller.',
    rule='cases = seeded random programs (threads, handler/filter/hook bodies that call back into the bus, options) run on the real bus under the controller with a seeded random schedule; every run is replayed on the Coq model along the controller log and judged by the oracle; directed witness programs run first; C05: 1-2 goroutines, 60% of handler bodies end in a panic, all option combinations, repeated publishes, Wait; non-trivial = every case; distinct = distinct program+schedule',
)
PROPS["C06"] = dict(
    title='Wait and Shutdown return only after all asynchronous work has finished',
    theorems="Properties/C06.v",
    proof_files=["Bus/BusModel.v", "Bus/BusRun.v", "Bus/BusInv.v", "Properties/C06.v"],
    suites=[dict(name="bus06", mod="core", family="bus06", corr="Corr.BusOracle", check="check06", shard=25), dict(name="buscon", mod="core", family="buscon", corr="Corr.BusOracle", check="check06", shard=25), dict(name="waitstress", mod="core", family="waitstress", corr="Corr.CorrStress", check="check_wait", shard=100, timeout=1800)],
    level_text="Proved in Coq for EVERY schedule of every program: the wait counter equals the number of spawned, unfinished async deliveries (the increment is part of the publisher's step); every delivery goroutine carries weight 1 until its wg.Done; Wait - and the goroutine Shutdown waits on - can proceed only when every delivery spawned so far, at any nesting depth, has finished; the store is closed only in the step in which Shutdown returns nil, never on the context-error branch. Tied to the code by controller-driven runs with nested async publishes, Wait at many positions, Shutdown with live and cancelled contexts, a store recording Close.",
    level_note='Trusted: Coq kernel + vm_compute; the hand-written small-step model of event_bus.go / persistEvent (flat registry; sync.Mutex, RWMutex, WaitGroup, atomic CAS, goroutine creation and recover are modelled as atomic micro-steps); the controller harness (parks goroutines at user-code callbacks, reads goroutine states from runtime.Stack) and the replay of its log on the model (Bus/BusRun.v); the oracle Corr/BusOracle.v; interleavings strictly inside bus code are not forced by the controller.',
    rule='cases = seeded random programs (threads, handler/filter/hook bodies that call back into the bus, options) run on the real bus under the controller with a seeded random schedule; every run is replayed on the Coq model along the controller log and judged by the oracle; directed witness programs run first; C06: 70% async handlers, handlers publishing further async work, Wait inside and at the end of threads, Shutdown with live/cancelled contexts on persistent buses; non-trivial = every case; distinct = distinct program+schedule',
)
PROPS["C07"] = dict(
    title='Sequential handlers never overlap and process events in publish order',
    theorems="Properties/C07.v",
    proof_files=["Bus/BusModel.v", "Bus/BusRun.v", "Bus/BusInv.v", "Properties/C07.v"],
    suites=[dict(name="bus07", mod="core", family="bus07", corr="Corr.BusOracle", check="check07", shard=25), dict(name="buscon", mod="core", family="buscon", corr="Corr.BusOracle", check="check07", shard=25), dict(name="busstress", mod="core", family="busstress", corr="Corr.CorrStress", check="check_stress07", shard=150)],
    level_text="Proved in Coq for EVERY schedule of every program: two different actors never hold the lock of the same Sequential registration, and an actor is inside such a handler's body only while holding it (lock-discipline invariant over micro-steps, incl. panics and pending calls). The ordering clause for Async+Sequential handlers (refuted on the model of the original code and reproduced on it by the controller - defect F2, repaired in /repo by ef97bac) is proved for the repaired code's per-handler turn queue, over every schedule: the queue-discipline invariant (C07_turn_queue), deliveries to a handler finish in exactly the order in which they were dispatched (C07_async_sequential_fifo), a delivery starts only when everything dispatched before it has finished (C07_async_sequential_starts_in_turn), and the dispatch step queues the delivery on the publishing goroutine (C07_dispatch_queues_at_end), whose own publishes are sequential. Exactly-once delivery is C01/C02. Tied to the code by controller-driven runs with sync/async Sequential handlers and 1-3 publishers (a delivery that runs out of turn cannot be replayed on the model: disagreement), by the oracle's publish-order clause, and by the free-running busstress suite (per-publisher order at every Sequential handler; bursts to a fresh Async+Sequential handler on one P and on many); the harness itself flags overlapping invocations.",
    level_note='Trusted: Coq kernel + vm_compute; the hand-written small-step model of event_bus.go / persistEvent (flat registry; sync.Mutex, RWMutex, WaitGroup, atomic CAS, goroutine creation and recover are modelled as atomic micro-steps); the controller harness (parks goroutines at user-code callbacks, reads goroutine states from runtime.Stack) and the replay of its log on the model (Bus/BusRun.v); the oracle Corr/BusOracle.v; interleavings strictly inside bus code are not forced by the controller.',
    rule='cases = seeded random programs (threads, handler/filter/hook bodies that call back into the bus, options) run on the real bus under the controller with a seeded random schedule; every run is replayed on the Coq model along the controller log and judged by the oracle; directed witness programs run first; C07: 80% Sequential, 60% async, observability on in half the cases so that async deliveries can be held before the lock; directed: the 2-event reordering (the second delivery goroutine is offered the first turn); busstress: free-running publishers, per-publisher order and single-publisher bursts; non-trivial = every case; distinct = distinct program+schedule',
)
PROPS["C08"] = dict(
    title='Cancellation, context propagation and publish hooks behave predictably',
    theorems="Properties/C08.v",
    proof_files=["Bus/BusModel.v", "Bus/BusRun.v", "Bus/BusInv.v", "Properties/C08.v"],
    suites=[dict(name="bus08", mod="core", family="bus08", corr="Corr.BusOracle", check="check_bus", shard=25), dict(name="busseq", mod="core", family="busseq", corr="Corr.BusOracle", check="check_bus", shard=25)],
    level_text='Proved in Coq: every publish runs observability start, legacy before hook, context-aware before slot, THEN the snapshot, and after the last queued handler the once-removal, legacy after hook, context-aware after hook, observability complete - each exactly once, with or without handlers; a cancelled context stops sync handlers at the last decision before the call, never claims a Once handler, reduces an async delivery to wg.Done; context-aware handlers are entered with the publish context; cancellation is permanent; and at run level, over every schedule of every program: a publish made with an already cancelled context enters no handler at all, ever (C08_precancelled_publish_enters_nothing: invariants on the code of every goroutine and on the entry log). Tied to the code by controller-driven runs over all hook subsets, sync/async/context-aware mixes, cancellation before the call or by any handler/hook/filter body.',
    level_note='Trusted: Coq kernel + vm_compute; the hand-written small-step model of event_bus.go / persistEvent (flat registry; sync.Mutex, RWMutex, WaitGroup, atomic CAS, goroutine creation and recover are modelled as atomic micro-steps); the controller harness (parks goroutines at user-code callbacks, reads goroutine states from runtime.Stack) and the replay of its log on the model (Bus/BusRun.v); the oracle Corr/BusOracle.v; interleavings strictly inside bus code are not forced by the controller.',
    rule='cases = seeded random programs (threads, handler/filter/hook bodies that call back into the bus, options) run on the real bus under the controller with a seeded random schedule; every run is replayed on the Coq model along the controller log and judged by the oracle; directed witness programs run first; C08: one goroutine, every subset of the four hook slots, 70% of publishes on cancellable contexts, cancel actions in handler/hook/filter bodies; non-trivial = every case; distinct = distinct program+schedule',
)
PROPS["C09"] = dict(
    title='Every publish on a persistent bus is recorded once, before it is delivered',
    theorems="Properties/C09.v",
    proof_files=["Bus/BusModel.v", "Bus/BusRun.v", "Bus/BusInv.v", "Properties/C09.v"],
    suites=[dict(name="bus09", mod="core", family="bus09", corr="Corr.BusOracle", check="check_bus", shard=25), dict(name="bus13", mod="core", family="bus13", corr="Corr.BusOracle", check="check_bus", shard=25), dict(name="busstress", mod="core", family="busstress", corr="Corr.CorrStress", check="check_stress09", shard=150), dict(name="subopt", mod="core", family="subopt", corr="Corr.CorrStress", check="check_subopt", shard=50)],
    level_text='Proved in Coq: for EVERY option list containing WithStore (any order, any other hooks, hooks given after the store) the bus has a store and its before-slot contains the persistence step; exactly one such step when WithStore occurs once; the before-slot runs before the snapshot, so no handler of the publish runs before the record is stored; over every schedule the log grows only by the append step, one record per successful append, in append order. Tied to the code by controller-driven runs over random option orders, 1-3 concurrent publishers, handlers that look the record up in the store on entry.',
    level_note='Trusted: Coq kernel + vm_compute; the hand-written small-step model of event_bus.go / persistEvent (flat registry; sync.Mutex, RWMutex, WaitGroup, atomic CAS, goroutine creation and recover are modelled as atomic micro-steps); the controller harness (parks goroutines at user-code callbacks, reads goroutine states from runtime.Stack) and the replay of its log on the model (Bus/BusRun.v); the oracle Corr/BusOracle.v; interleavings strictly inside bus code are not forced by the controller.',
    rule='cases = seeded random programs (threads, handler/filter/hook bodies that call back into the bus, options) run on the real bus under the controller with a seeded random schedule; every run is replayed on the Coq model along the controller log and judged by the oracle; directed witness programs run first; C09: persistent buses, options in random order incl. hooks after the store, 1-3 publishers; directed: WithStore before WithBeforePublishContext; non-trivial = every case; distinct = distinct program+schedule',
)
PROPS["C12"] = dict(
    title='A resumable subscription sees each event of its type once across restarts',
    theorems="Properties/C12.v",
    proof_files=["Store/ResubModel.v", "Store/ResubProofs.v", "Store/ResubLink.v", "Store/ResubDs.v", "Store/ResubDsProofs.v", "Properties/C12.v"],
    suites=[dict(name="resubmem", mod="core", family="resubmem", corr="Corr.CorrResub", check="check12", shard=50),
            dict(name="resubsqlite", mod="core", family="resubsqlite", corr="Corr.CorrResub", check="check12", shard=50),
            dict(name="resubsqlitemem", mod="core", family="resubsqlitemem", corr="Corr.CorrResub", check="check12", shard=50),
            dict(name="resubinner", mod="core", family="resubinner", corr="Corr.CorrResub", check="check12", shard=50),
            dict(name="resubrace", mod="core", family="resubrace", corr="Corr.CorrResub", check="check12r", shard=50),
            dict(name="resubracesqlite", mod="core", family="resubracesqlite", corr="Corr.CorrResub", check="check12r", shard=50),
            dict(name="resubds", mod="core", family="resubds", corr="Corr.CorrResub", check="check12ds", shard=50),
            dict(name="resubdsinner", mod="core", family="resubdsinner", corr="Corr.CorrResub", check="check12ds", shard=50)],
    level_text='Proved in Coq over every history of publishes (any types), SubscribeWithReplay calls (any ids) and restarts, with the process dying after any individual store operation or handler delivery and any single store operation (append, load offset, open stream, fetch, save offset) failing: the saved offset never moves backwards; every delivery of a persisted event happens while the saved position is below it, so a saved position is never delivered again; nothing at or below a saved position is undelivered and a live subscription is up to date (no loss), and after a restart + SubscribeWithReplay everything persisted of the type has arrived; when nothing fails the delivered positions are strictly increasing over the whole history, of the subscribed type only, and complete (exactly once, in log order); operations on one id neither deliver to nor move the offset of another. REFUTED with a witness (known finding): an event published while SubscribeWithReplay is running is lost for that subscription. The two defects of the pinned code (empty offset saved; LoadOffset error ignored) are stated as refuted for the pinned variant and were repaired by fix: commits. REFUTED with a witness and reproduced on the real bus (known finding F10c, suites resubrace): with two overlapping publishers the live handler saves the offset of the other event, and a crash before that event is handled loses it. The third store: over the durable-streams store (own model Store/ResubDs.v: paged replay, synthetic per-event offsets resuming from the end of the page; suites resubds, resubdsinner on the real store and in-process server) the saved offset is proved monotone and within the log over every history, and "no event is lost when the process dies" is REFUTED with a witness reproduced on the real code (known finding F8d: an interrupted replay skips the rest of the page); no loss is proved there for the histories in which no SubscribeWithReplay is cut short (publishes may still die or fail at any point) and the log fits one page (C12_ds_nothing_lost_when_replays_complete, C12_ds_caught_up_after_resubscribe); and exactly once in log order is proved there for the histories in which nothing fails (C12_ds_exactly_once_in_order, C12_ds_exactly_once_complete). Partial: other concurrent interleavings of publishers are outside the sequential model.',
    level_note='Trusted: Coq kernel + vm_compute; the hand-written model Store/ResubModel.v of SubscribeWithReplay / the live wrappedHandler / persistEvent over an abstract store (log = list, offsets = positions; that the bundled memory and SQLite stores behave so is C10); the Go harness resub.go, whose store wrapper counts ticks exactly as the model does and simulates a dead process by refusing every later store operation; the oracle Corr/CorrResub.v. Not modelled: two goroutines publishing concurrently, upcasters inside the replay, contexts.',
    rule='cases = seeded random histories (5-14 ops; thorough up to 28) of publishes of two event types, SubscribeWithReplay of three ids (two sharing a type) and restarts (SQLite file: close and reopen the database); 60% of the histories carry crash budgets (22% of ops, budget 0-6 ticks, followed by a restart) and single failing ticks (22% of ops); every history ends with a clean restart and one SubscribeWithReplay per id; family resubinner additionally publishes from inside replay handlers; families resubds / resubdsinner run the same histories over the durable-streams store (in-process server and offset store kept across restarts; ticks: append, read per page, save-offset, load-offset, deliveries) against the model Store/ResubDs.v; directed histories run first; the model is compared per operation (deliveries, error, saved positions of all ids, dead flag) and on the final log; non-trivial = every case; distinct = distinct history',
)
PROPS["C13"] = dict(
    title='Persistence failures are contained, reported once and never corrupt the log',
    theorems="Properties/C13.v",
    proof_files=["Bus/BusModel.v", "Bus/BusRun.v", "Bus/BusInv.v", "Properties/C13.v"],
    suites=[dict(name="bus13", mod="core", family="bus13", corr="Corr.BusOracle", check="check_bus", shard=25), dict(name="bus09", mod="core", family="bus09", corr="Corr.BusOracle", check="check_bus", shard=25), dict(name="persisttimeout", mod="core", family="persisttimeout", corr="Corr.CorrStress", check="check_pt", shard=100)],
    level_text='Proved in Coq: an unencodable event makes no append attempt and reports once; a rejected or timed-out append leaves log and lastOffset exactly as they were, reports exactly once, releases the store lock; a successful one adds exactly one record; what follows (snapshot, delivery) is untouched in all cases; over every schedule the log is append-only. Tied to the code by controller-driven runs with random fault patterns (reject / timeout / two kinds of unencodable events incl. a MarshalJSON returning invalid JSON), first-publish and consecutive failures.',
    level_note='Trusted: Coq kernel + vm_compute; the hand-written small-step model of event_bus.go / persistEvent (flat registry; sync.Mutex, RWMutex, WaitGroup, atomic CAS, goroutine creation and recover are modelled as atomic micro-steps); the controller harness (parks goroutines at user-code callbacks, reads goroutine states from runtime.Stack) and the replay of its log on the model (Bus/BusRun.v); the oracle Corr/BusOracle.v; interleavings strictly inside bus code are not forced by the controller.',
    rule='cases = seeded random programs (threads, handler/filter/hook bodies that call back into the bus, options) run on the real bus under the controller with a seeded random schedule; every run is replayed on the Coq model along the controller log and judged by the oracle; directed witness programs run first; C13: persistent buses, each published value mapped to ok/reject/timeout/unencodable with probability 3/8 of a fault; family persisttimeout (free-running): real persistence timeouts of 2-7 ms against a store that blocks until its context is done, per publish the number of error reports, handler runs and the log; non-trivial = every case; distinct = distinct program+schedule',
)
PROPS["C14"] = dict(
    title='What the SQLite store acknowledged survives reopening and a killed process',
    theorems="Properties/C14.v",
    proof_files=["Crash/SqliteCrash.v", "Crash/CrashProofs.v", "Properties/C14.v"],
    suites=[dict(name="sqlitekill", mod="core", family="sqlitekill", corr="Corr.CorrCrash", check="check14", shard=50)],
    level_text='Partial. Proved in Coq over every history of process lifetimes (open, appends, offset saves; clean close or kill before/during the open, between operations or during one, whose statement is then lost or committed unacknowledged): the log holds exactly the committed appends in order, so every acknowledged append survives, with at most one unacknowledged event per lifetime; positions are 1,2,3,... without gaps and a new append gets a larger offset than any ever issued; a saved offset is the last SaveOffset that committed; opening is idempotent and a lifetime without operations changes nothing. ASSUMED, not proved: SQLite (WAL, synchronous=NORMAL) keeps a committed statement through the death of the process and makes a statement in flight atomic - that is the part of the property that lives in SQLite and the file system and that no Gallina model can exhibit. Tied to the code by a child process (the harness binary) working on a database file and acknowledging each returned call on a pipe, SIGKILLed by the parent after a chosen number of acknowledgements or at an arbitrary instant (including during the first open / schema migration), or closing cleanly; the parent reopens the file with the real store after every lifetime and compares what it finds with the model (both outcomes of the operation in flight are tried) and with an independent oracle.',
    level_note='Trusted: Coq kernel + vm_compute; the hand-written model Crash/SqliteCrash.v of store.go/schema.go (one auto-committed statement per Append/SaveOffset, acknowledgement after commit, AUTOINCREMENT positions, idempotent migration); the assumption about SQLite above; the Go harness sqlitekill.go (child protocol, kill timing); OS crashes / power loss are outside the property and outside the harness (SIGKILL only).',
    rule='cases = seeded sequences of 3-6 (thorough 3-10) process lifetimes on one database file, each with 0-8 operations (3/4 appends, 1/4 offset saves of existing positions; 1 in 6 lifetimes only opens), ended by a clean close (20%), SIGKILL right after the k-th acknowledgement (40%, k uniform incl. 0 = right after the open) or SIGKILL after a delay of 0-6 ms from process start (40%; first lifetime half of the time 0-2.5 ms: during the first open); the database is reopened and read after every lifetime; non-trivial = cases in which a kill hit an operation in flight or the open; distinct = distinct script+timing outcome',
)
PROPS["C15"] = dict(
    title='One type name per event type, everywhere',
    theorems="Properties/C15.v",
    proof_files=["Names/TypeNames.v", "Names/NamesProofs.v", "Properties/C15.v"],
    suites=[dict(name="names", mod="core", family="names", corr="Corr.CorrNames", check="check15", shard=50)],
    level_text='Proved in Coq by exhaustive case analysis over the finite domain the property quantifies over (6 shapes of event type x 6 name-deriving paths, completeness of the enumeration proved): all paths derive the same name, hence typed replay subscriptions and typed upcasters match what was persisted. Tied to the code by running, for each shape (and the state package messages by value and by pointer), publish+persist, EventType, Replay with an EventType comparison, SubscribeWithReplay[T] on a fresh bus over the same store and RegisterUpcast[T,W] + ReplayWithUpcast against the real code and comparing with the model.',
    level_note='Trusted: Coq kernel + vm_compute; the hand-written model Names/TypeNames.v of how EventType / persistEvent / SubscribeWithReplay / RegisterUpcast derive a name (Go method sets for value and pointer receivers); the Go harness names.go; reflect and encoding/json are not modelled. The shapes are the ones the property lists; generic instantiations, named non-struct types and interface-typed T are not separate shapes in the model.',
    rule='cases = 11 shapes (the 6 of the property + state.ChangeMessage / ControlMessage by value and by pointer + a value receiver whose name depends on the value), each run with seeded payload values, repeated per seed; non-trivial = every case; distinct = distinct shape+payload',
)
PROPS["C20"] = dict(
    title='Observability callbacks are balanced, nested and truthful',
    theorems="Properties/C20.v",
    proof_files=["Bus/BusModel.v", "Bus/BusRun.v", "Bus/BusInv.v", "Otel/OtelModel.v", "Otel/OtelProofs.v", "Properties/C20.v"],
    suites=[dict(name="bus20", mod="core", family="bus20", corr="Corr.BusOracle", check="check_bus", shard=25), dict(name="buscon", mod="core", family="buscon", corr="Corr.BusOracle", check="check_bus", shard=25), dict(name="otel", mod="core", family="otel", corr="Corr.CorrOtel", check="check20o", shard=50)],
    level_text="Proved in Coq (bus half): a publish has one start (first) and one complete (last queued by its snapshot); every handler call is opened by the start callback and - normal return or panic anywhere inside - followed by exactly one complete carrying an error exactly when it panicked; skipped handlers have neither; one persist pair per append attempt with the error flag exactly when it failed, none for unencodable events. The oracle checks on every observed run that the callbacks are well bracketed per goroutine and that each complete received the context its start returned (the harness threads tokens through the contexts). Adapter half, proved in Coq on a model of otel/observability.go as a consumer of the callback trace: for every well-paired trace every started span is ended exactly once, a span's parent is the span of the context its start received (so handler and persist spans are children of the publish span), and the six counters equal the numbers of publishes, handler runs, handler errors, persist attempts and persist failures. Tied to the code by free-running workloads (1-3 publishing goroutines, sync/async/once/sequential/filtered/context handlers, panics, nested publishes with and without the handler context, cancelled contexts, failing and unencodable persistence) on a real bus with the real adapter wired to the SDK's span recorder and manual metric reader; the harness counts on its own what happened per publish and the model's spans, parents, statuses and counters are compared with what the SDK recorded (suite otel).",
    level_note='Trusted: Coq kernel + vm_compute; the hand-written small-step model of event_bus.go / persistEvent (flat registry; sync.Mutex, RWMutex, WaitGroup, atomic CAS, goroutine creation and recover are modelled as atomic micro-steps); the controller harness (parks goroutines at user-code callbacks, reads goroutine states from runtime.Stack) and the replay of its log on the model (Bus/BusRun.v); the oracle Corr/BusOracle.v; interleavings strictly inside bus code are not forced by the controller.',
    rule='cases = seeded random programs (threads, handler/filter/hook bodies that call back into the bus, options) run on the real bus under the controller with a seeded random schedule; every run is replayed on the Coq model along the controller log and judged by the oracle; directed witness programs run first; C20: observability always on, mixes of sync/async/once/sequential/filtered/panicking handlers, cancelled contexts, succeeding and failing persistence; non-trivial = every case; distinct = distinct program+schedule; otel suite: 1-5 handlers with random options, 2-7 publishes per goroutine, values decide panics (1 in 4), append failures (1 in 5) and nested publishes',
)

NOT_CLAIMED = {p: "check not built yet in this session (work in progress; planned per DESIGN.md section 6)" for p in
               ["C%02d" % i for i in range(1, 21)]}
