"""Per-property configuration: which Coq files hold the theorems and the model, and which
harness suites tie them to /repo.  A suite = (Go module under harness/go, family name,
Coq Corr module, check function : input * obs -> bool(agree) * bool(ok) * nat(known))."""

PROPS = {
    "C16": dict(
        title="Upcaster registration can never create a cycle and upcasting always terminates",
        theorems="Properties/C16.v",
        proof_files=["Upcast/UpcastModel.v", "Upcast/UpcastProofs.v", "Properties/C16.v"],
        suites=[dict(name="upcast", mod="core", family="upcast", corr="Corr.CorrUpcast", check="check16")],
        level_text="Proved in Coq for every registry, every operation sequence and every behaviour of the registered "
                   "functions: register accepts iff the four argument conditions hold and the target does not reach the "
                   "source (DFS sound, complete, fuel-sufficient); every registry reachable through register/clear/"
                   "clearType is acyclic; apply never runs out of fuel. The model is tied to upcast.go by running both on "
                   "generated operation sequences (incl. racing registration pairs and raw upcasters returning arbitrary types).",
        level_note="Trusted: Coq kernel + vm_compute; the hand-written model of upcast.go (checked against the implementation "
                   "on sampled cases only); Go sync.RWMutex serialises registrations (modelled as atomic steps); harness and printer.",
        rule="cases = seeded random sequences of RegisterUpcastFunc/ClearUpcasts/ClearUpcastsForType/racing "
             "registration pairs/ReplayWithUpcast over 3-8 type names (plus a directed corpus run first); "
             "non-trivial = at least one registration rejected, one event actually upcast, one step failed or "
             "one replay diverged; distinct = distinct input term",
    ),
    "C17": dict(
        title="Upcasting applies the whole chain or nothing",
        theorems="Properties/C17.v",
        proof_files=["Upcast/UpcastModel.v", "Upcast/UpcastProofs.v", "Properties/C17.v"],
        suites=[dict(name="upcast", mod="core", family="upcast", corr="Corr.CorrUpcast", check="check17")],
        level_text="Proved in Coq for every acyclic registry, payload and function behaviour honouring its declared target: "
                   "apply equals the deterministic chain of first-registered upcasters; events without upcasters are "
                   "untouched; on a failed step the callback gets the original event with one error report; offset and "
                   "timestamp never change; typed upcasters = encode . f . decode. Tied to upcast.go/persist.go by "
                   "differential runs of ReplayWithUpcast on generated registries, logs and failure positions.",
        level_note="Trusted: Coq kernel + vm_compute; hand-written model of upcast.go apply and of ReplayWithUpcast's wrapper; "
                   "encoding/json for the typed upcaster is a Section variable (encode/decode); harness and printer.",
        rule="same generator as C16; non-trivial = an event was actually upcast or a step failed; distinct = distinct input term",
    ),
}

NOT_CLAIMED = {p: "check not built yet in this session (work in progress; planned per DESIGN.md section 6)" for p in
               ["C%02d" % i for i in range(1, 21)]}
