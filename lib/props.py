"""Per-property configuration: which Coq files hold the theorems and the model, and which
harness suites tie them to /repo.  A suite = (Go module under harness/go, family name,
Coq Corr module, check function : input * obs -> bool(agree) * bool(ok) * nat(known))."""

PROPS = {
    "C16": dict(
        title="Upcaster registration can never create a cycle and upcasting always terminates",
        theorems="Properties/C16.v",
        proof_files=["Upcast/UpcastModel.v", "Upcast/UpcastProofs.v", "Properties/C16.v"],
        suites=[dict(name="upcast", mod="core", family="upcast", corr="Corr.CorrUpcast", check="check16")],
        level_text="Proved in Coq for every registry, every operation sequence and every behaviour of the registered "
                   "functions: register accepts iff the four argument conditions hold and the target does not reach the "
                   "source (DFS sound, complete, fuel-sufficient); every registry reachable through register/clear/"
                   "clearType is acyclic; apply never runs out of fuel. The model is tied to upcast.go by running both on "
                   "generated operation sequences (incl. racing registration pairs and raw upcasters returning arbitrary types).",
        level_note="Trusted: Coq kernel + vm_compute; the hand-written model of upcast.go (checked against the implementation "
                   "on sampled cases only); Go sync.RWMutex serialises registrations (modelled as atomic steps); harness and printer.",
        rule="cases = seeded random sequences of RegisterUpcastFunc/ClearUpcasts/ClearUpcastsForType/racing "
             "registration pairs/ReplayWithUpcast over 3-8 type names (plus a directed corpus run first); "
             "non-trivial = at least one registration rejected, one event actually upcast, one step failed or "
             "one replay diverged; distinct = distinct input term",
    ),
    "C17": dict(
        title="Upcasting applies the whole chain or nothing",
        theorems="Properties/C17.v",
        proof_files=["Upcast/UpcastModel.v", "Upcast/UpcastProofs.v", "Properties/C17.v"],
        suites=[dict(name="upcast", mod="core", family="upcast", corr="Corr.CorrUpcast", check="check17"),
                dict(name="upcasttyped", mod="core", family="upcasttyped", corr="Corr.CorrUpcast", check="check17t")],
        level_text="Proved in Coq for every acyclic registry, payload and function behaviour honouring its declared target: "
                   "apply equals the deterministic chain of first-registered upcasters; events without upcasters are "
                   "untouched; on a failed step the callback gets the original event with one error report; offset and "
                   "timestamp never change; typed upcasters = encode . f . decode. Tied to upcast.go/persist.go by "
                   "differential runs of ReplayWithUpcast on generated registries, logs and failure positions.",
        level_note="Trusted: Coq kernel + vm_compute; hand-written model of upcast.go apply and of ReplayWithUpcast's wrapper; "
                   "encoding/json for the typed upcaster is a Section variable (encode/decode); harness and printer.",
        rule="same generator as C16; non-trivial = an event was actually upcast or a step failed; distinct = distinct input term",
    ),
}

PROPS["C18"] = dict(
    title="Materialized state is the fold of the message log",
    theorems="Properties/C18.v",
    proof_files=["State/StateModel.v", "State/StateProofs.v", "Properties/C18.v"],
    suites=[dict(name="state", mod="core", family="state", corr="Corr.CorrState", check="check18"),
            dict(name="statector", mod="core", family="statector", corr="Corr.CorrState", check="check18")],
    level_text="Proved in Coq for every message sequence, every decode outcome, strict and non-strict mode: one Apply "
               "refines one step of the last-writer-wins specification; after any sequence each registered collection "
               "holds exactly the fold and no key of another type (composite keys are injective per collection, so "
               "keys containing the separator cannot collide); LastOffset is the position of the last event whose "
               "Apply returned nil; two replay sessions (second resumed from LastOffset) equal one session for every "
               "split point, also when an event is rejected. Tied to state/materializer.go by differential runs "
               "(direct Apply, Materializer.Replay through bus and store in one and in two sessions).",
    level_note="Trusted: Coq kernel + vm_compute; the hand-written model of Materializer.Apply over decoded documents "
               "(encoding/json is not modelled: the harness renders each abstract document to bytes); Go maps as "
               "association lists; harness and printer.",
    rule="cases = seeded random logs (3-25 messages, thorough up to 52) of insert/update/delete/reset/snapshot/other-"
         "operation/undecodable documents over 1-3 registered collections (names incl. 'a' and 'a/b'), an unregistered "
         "type, keys containing '/', strict and non-strict, a random split point; plus logs built by the helper "
         "constructors and published through a bus and store; non-trivial = the log contains a reset, a delete, a "
         "rejected event or a key with the separator; distinct = distinct input term",
)
PROPS["C19"] = dict(
    title="State messages survive the round trip; bad input is rejected without damage",
    theorems="Properties/C19.v",
    proof_files=["State/StateModel.v", "State/StateProofs.v", "Properties/C19.v"],
    suites=[dict(name="statector", mod="core", family="statector", corr="Corr.CorrState", check="check19"),
            dict(name="state", mod="core", family="state", corr="Corr.CorrState", check="check19"),
            dict(name="statefuzz", mod="core", family="statefuzz", corr="Corr.CorrState", check="checkfuzz", shard=1000)],
    level_text="Partial proof. Proved in Coq for every state and every decode outcome of the event bytes: an Apply that "
               "returns an error leaves every collection and LastOffset unchanged, and a decoded change message updates "
               "exactly its key of its collection. The round trip through the helper constructors, Publish, the store, "
               "Replay and encoding/json is checked differentially (entities with nested/unicode/empty/numeric-edge "
               "values, unicode keys, all option combinations, protocol field names). NOT proved: that decoding "
               "arbitrary bytes never panics (a fact about encoding/json and the Go runtime, which no Gallina model "
               "exhibits) - sampled by a byte-level fuzz stream with recover.",
    level_note="Trusted: Coq kernel + vm_compute; model of Apply over decoded documents; encoding/json unmodelled "
               "(round trip and no-panic are sampled only); harness and printer.",
    rule="cases = (a) logs built with state.Insert/Update/UpdateWithOldValue/Delete/DeleteWithOldValue/Reset/Snapshot* "
         "and all ChangeOption combinations, published by value and by pointer through a persistent bus; (b) raw JSON "
         "documents incl. malformed ones; (c) fuzzed byte strings (truncations, byte flips, deep nesting, huge numbers, "
         "invalid UTF-8, random bytes) applied to a non-empty materializer; non-trivial = a rejected/errored input or a "
         "log with reset/delete/separator keys; distinct = distinct input term (fuzz: distinct observation)",
)

PROPS["C10"] = dict(
    title="Every bundled store behaves as one append-only, resumable log",
    theorems="Properties/C10.v",
    proof_files=["Store/Lex.v", "Store/StoreModel.v", "Store/StoreProofs.v", "Properties/C10.v"],
    suites=[dict(name="storemem", mod="core", family="storemem", corr="Corr.CorrStore", check="check10_mem", shard=50),
            dict(name="storesqlitefile", mod="core", family="storesqlitefile", corr="Corr.CorrStore", check="check10_sq", shard=20,
                 env={"VERIF_TMP": "/verif/.build/tmp"}),
            dict(name="storesqlitemem", mod="core", family="storesqlitemem", corr="Corr.CorrStore", check="check10_sq", shard=20),
            dict(name="storeds", mod="core", family="storeds", corr="Corr.CorrStore", check="check10_ds", shard=20)],
    level_text="Proved in Coq, for every state reachable by appends and every position/limit: MemoryStore offsets are the "
               "zero-padded counter and increase lexicographically (digits_lex, counter < 10^20); Read(o,n) from oldest or "
               "any issued offset returns exactly the first n (all if n<=0) later events and a next offset denoting the "
               "position after them; ReadStream equals Read; any chain of reads over a store meeting that read "
               "specification returns a gap-free, repeat-free segment and an empty read means the end (generic chain "
               "theorem, instantiated for memory and SQLite); SQLite positions strictly increase numerically, never "
               "repeat, and decimal offsets round-trip (parse . format = id up to 2^63-1); saved subscription offsets "
               "are returned per id; operations on one store value leave the other unchanged. Refuted by computation "
               "(known findings): SQLite offsets are not lexicographic at 9->10; the durable-streams store breaks the "
               "read/next/event-offset clauses (three witnesses). Each store model is tied to the code by differential "
               "runs of random Append/Read/ReadStream/SaveOffset/LoadOffset histories on two separately created stores; "
               "an independent oracle (also in Coq) judges every observed history against the property.",
    level_note="Trusted: Coq kernel + vm_compute; hand-written models of MemoryStore, SQLiteStore (five SQL statements with "
               "SQL semantics; AUTOINCREMENT) and the durable-streams store over the in-memory server; payload "
               "identity (type, canonical JSON, instant) is matched by the harness, the models treat payloads as "
               "opaque ids; strconv/fmt are modelled by dec/parse_int/pad; saving the empty offset on SQLite returns "
               "\"0\" (same position) and is excluded from generation; harness and printer.",
    rule="cases = seeded random histories (8-38 ops, thorough up to 88) of Append/Read/ReadStream/SaveOffset/LoadOffset on two "
         "separately created stores of the same kind (memory; SQLite file; SQLite :memory:; durable-streams over an "
         "in-process server with 1/2/3/5/unlimited messages per chunk), limits from {-1,0,1,2,3,n-1,n,n+1,100}, resume points "
         "from every returned next/event offset plus never-issued offsets, payloads with unicode types, nested JSON, "
         "timestamps in UTC/Local/fixed zones incl. unusual zone names, years 1..9999, nanoseconds; a directed case "
         "crosses 9->10->12 appends and chains reads with limits 1,2,5,0; non-trivial = some read hit its limit or "
         "resumed from a non-empty offset; distinct = distinct operation history",
    assumptions=["SQLite executes each prepared statement with SQL semantics", "the durable-streams server used is the in-memory reference storage"],
)

PROPS["C11"] = dict(
    title="Replay delivers every event after the offset, or says that it did not",
    theorems="Properties/C11.v",
    proof_files=["Store/ReplayModel.v", "Store/ReplayProofs.v", "Store/StoreProofs.v", "Properties/C11.v"],
    suites=[dict(name="replay", mod="core", family="replay", corr="Corr.CorrReplay", check="check11",
                 env={"VERIF_TMP": "/verif/.build/tmp"})],
    level_text="Proved in Coq for every log, start offset, batch size >= 1 and fault (callback failure, cancellation, "
               "row-fetch error, failing Read call): each Replay path (MemoryStore stream, SQLite cursor stream, SQLite "
               "batched stream, paged fallback over any store meeting C10's read specification) hands the callback a "
               "gap-free, duplicate-free prefix in log order and returns nil only if that prefix is everything; the "
               "paged and batched loops terminate within remaining+2 iterations (fuel sufficiency). Tied to persist.go "
               "and stores/sqlite/store.go by differential runs over (store x configuration x batch x length x start x "
               "fault kind x fault position), with SQLite row errors injected through the verif-tagged opener hook.",
    level_note="Trusted: Coq kernel + vm_compute; hand-written models of Replay, ReadStream, streamRows/streamBatched/"
               "streamBatch; database/sql closes the rows of a cancelled query (the harness waits for that before the "
               "callback returns, making it deterministic); the fault-injecting driver wraps modernc sqlite through "
               "the non-context driver interfaces; harness and printer. Replay's purity (no append, no handler) is a "
               "typing fact of the model and is observed, not proved.",
    rule="cases = seeded tuples (store kind in {memory stream, memory paged, SQLite stream, SQLite batched, durable-streams "
         "paged}, batch in {1,2,3,rem-1,rem,rem+1,100,default}, server chunk in {1,2,3,5,unlimited}, log length 0-13 "
         "(thorough 0-25), start position, fault in {none, callback fails at i, context cancelled at i, row fetch fails at "
         "k, j-th Read fails}); 8 directed cases first; non-trivial = at least 2 events remain after the start offset; "
         "distinct = distinct input tuple",
)

PROPS["C01"] = dict(
    title="Publish reaches exactly the subscribed handlers, once each, in order",
    theorems="Properties/C01.v",
    proof_files=["Bus/BusModel.v", "Properties/C01.v"],
    suites=[dict(name="busseq", mod="core", family="busseq", corr="Corr.CorrBus", check="check_bus_agree", shard=25),
            dict(name="buscon", mod="core", family="buscon", corr="Corr.CorrBus", check="check_bus_agree", shard=25)],
    level_text="TODO", level_note="TODO", rule="TODO",
)

NOT_CLAIMED = {p: "check not built yet in this session (work in progress; planned per DESIGN.md section 6)" for p in
               ["C%02d" % i for i in range(1, 21)]}
