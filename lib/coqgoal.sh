#!/bin/sh
# usage: coqgoal.sh File.v LINE  -- prints the goal just before LINE (1-based) of File.v
f=$1; n=$2
tmp=$(dirname $f)/_goal_tmp.v
head -n $((n-1)) $f > $tmp
echo "Show. Abort All." >> $tmp
( cd /verif/coq && coqc -Q . Ebu $tmp 2>&1 | head -${3:-60} )
rm -f $tmp $(dirname $f)/_goal_tmp.vo $(dirname $f)/_goal_tmp.glob $(dirname $f)/._goal_tmp.aux $(dirname $f)/_goal_tmp.vok $(dirname $f)/_goal_tmp.vos
