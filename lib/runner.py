"""Driver shared by every property check: Coq build + gates, Go harness build/run from
/repo's working tree, cases.v generation, vm_compute evaluation, verdicts, evidence."""
import concurrent.futures
import fcntl
import hashlib
import json
import os
import re
import subprocess
import sys
import time

ROOT = os.path.dirname(os.path.dirname(os.path.abspath(__file__)))
sys.path.insert(0, os.path.join(ROOT, "lib"))
from tterm import to_gallina, TermError, selftest as tterm_selftest  # noqa: E402

COQ = os.path.join(ROOT, "coq")
# Registered commands always run against /repo and write under /verif.  For experiments (trying a seeded patch on a
# scratch worktree, seed sweeps in parallel) VERIF_REPO points the harness build at another tree and VERIF_SANDBOX
# redirects every output (build, run, replays, evidence) to a scratch directory.
REPO = os.environ.get("VERIF_REPO", "/repo")
SANDBOX = os.environ.get("VERIF_SANDBOX")
BUILD = os.path.join(SANDBOX, "build") if SANDBOX else os.path.join(ROOT, ".build")
OUT = SANDBOX if SANDBOX else ROOT
FORBIDDEN = re.compile(
    r"\b(Admitted|admit|Axiom|Axioms|Parameter|Parameters|Conjecture|Conjectures|"
    r"Unset\s+Guard|bypass_check|type-in-type|impredicative-set|Admit\s+Obligations|native_compute)\b"
)
ALLOWED_AXIOMS = set()  # the development is axiom-free; anything printed by Print Assumptions fails the gate

GOENV = dict(os.environ, GOFLAGS="-mod=mod", GOPROXY="off")
GOENV.pop("GOTOOLCHAIN", None)
GOENV.pop("GOSUMDB", None)

TRUSTED_BASE = [
    "Coq 8.16.1 kernel incl. the vm_compute bytecode VM (no native_compute)",
    "Print Assumptions of every property theorem: Closed under the global context (no axioms)",
    "no extraction (model evaluated inside Coq by vm_compute over generated cases.v)",
    "correspondence machinery: Go harness under /verif/harness/go (case generators, drivers, projection "
    "of observables), lib/tterm.py (T-term to Gallina printer), lib/runner.py (verdicts)",
    "modelled, not verified: Go runtime (sync, atomic, goroutines, recover), reflect, encoding/json, "
    "context, database/sql + modernc SQLite, durable-streams client/server, OpenTelemetry SDK",
]


def log(*a):
    print(*a, flush=True)


def sh(cmd, cwd=None, env=None, timeout=None):
    t0 = time.time()
    try:
        p = subprocess.run(cmd, cwd=cwd, env=env, timeout=timeout, stdout=subprocess.PIPE,
                           stderr=subprocess.STDOUT, text=True, errors="replace")
        return p.returncode, p.stdout, time.time() - t0
    except subprocess.TimeoutExpired as e:
        out = e.stdout or ""
        if isinstance(out, bytes):
            out = out.decode("utf-8", "replace")
        return 124, out + "\n[timeout after %ss]" % timeout, time.time() - t0


class Infra(Exception):
    """The machinery itself failed (not a verdict about /repo)."""


def coq_build():
    os.makedirs(BUILD, exist_ok=True)
    with open(os.path.join(BUILD, "coq.lock"), "w") as lk:
        fcntl.flock(lk, fcntl.LOCK_EX)
        if not os.path.exists(os.path.join(COQ, "Makefile")) or \
                os.path.getmtime(os.path.join(COQ, "Makefile")) < os.path.getmtime(os.path.join(COQ, "_CoqProject")):
            rc, out, _ = sh(["coq_makefile", "-f", "_CoqProject", "-o", "Makefile"], cwd=COQ, timeout=120)
            if rc != 0:
                raise Infra("coq_makefile failed:\n" + out)
        rc, out, dt = sh(["make", "-j16"], cwd=COQ, timeout=3000)
        if rc != 0:
            raise Infra("Coq build failed:\n" + out[-4000:])
        return dt


def forbidden_gate():
    bad = []
    for d, _, fs in os.walk(COQ):
        for f in fs:
            if f.endswith(".v"):
                p = os.path.join(d, f)
                txt = open(p).read()
                txt = re.sub(r"\(\*.*?\*\)", "", txt, flags=re.S)  # comments may mention the words
                for m in FORBIDDEN.finditer(txt):
                    bad.append("%s: %s" % (os.path.relpath(p, ROOT), m.group(0)))
    return bad


def count_statements(files):
    n = 0
    for f in files:
        txt = open(os.path.join(COQ, f)).read()
        txt = re.sub(r"\(\*.*?\*\)", "", txt, flags=re.S)
        n += len(re.findall(r"^\s*(Theorem|Lemma|Example|Corollary|Fact|Remark)\b", txt, flags=re.M))
    return n


def theorem_gate(prop_file):
    """Re-check the property file with coqc and parse Print Assumptions output."""
    rc, out, dt = sh(["coqc", "-Q", ".", "Ebu", prop_file], cwd=COQ, timeout=900)
    src = open(os.path.join(COQ, prop_file)).read()
    src_nc = re.sub(r"\(\*.*?\*\)", "", src, flags=re.S)
    theorems = re.findall(r"^\s*Theorem\s+(\w+)", src_nc, flags=re.M)
    prints = re.findall(r"^\s*Print Assumptions\s+(\w+)", src_nc, flags=re.M)
    closed = out.count("Closed under the global context")
    axioms = []
    if "Axioms:" in out:
        for blk in out.split("Axioms:")[1:]:
            for line in blk.splitlines()[1:]:
                m = re.match(r"^(\S+)\s*:", line)
                if m:
                    axioms.append(m.group(1))
                elif line.strip() == "" or line.startswith("Closed"):
                    break
    problems = []
    if rc != 0:
        problems.append("coqc failed on %s:\n%s" % (prop_file, out[-3000:]))
    if set(theorems) - set(prints):
        problems.append("theorems without Print Assumptions: %s" % sorted(set(theorems) - set(prints)))
    bad_ax = [a for a in axioms if a not in ALLOWED_AXIOMS]
    if bad_ax:
        problems.append("axioms used: %s" % bad_ax)
    if rc == 0 and closed + (1 if axioms else 0) < len(prints):
        problems.append("Print Assumptions produced %d closed results for %d theorems" % (closed, len(prints)))
    return dict(theorems=theorems, closed=closed, axioms=axioms, problems=problems, wall_s=dt, output=out)


def coqchk_gate(prop_file):
    """Thorough tier: re-check the compiled property module and everything it depends on with the independent checker
    and read the axioms it reports."""
    mod = "Ebu." + prop_file[:-2].replace("/", ".")
    rc, out, dt = sh(["coqchk", "-silent", "-o", "-Q", ".", "Ebu", mod], cwd=COQ, timeout=3000)
    problems = []
    if rc != 0:
        problems.append("coqchk failed on %s:\n%s" % (mod, out[-2000:]))
    elif "* Axioms: <none>" not in out:
        problems.append("coqchk reports axioms for %s:\n%s" % (mod, out[-2000:]))
    for bad in ("type-in-type: <none>", "unsafe (co)fixpoints: <none>", "positivity is assumed: <none>"):
        if rc == 0 and bad not in out:
            problems.append("coqchk: unexpected context summary (%s missing)" % bad)
    return dict(problems=problems, wall_s=dt, module=mod)


def go_build(mod, race=False):
    src = os.path.join(ROOT, "harness", "go", mod)
    binp = os.path.join(BUILD, mod + ("-race" if race else ""))
    os.makedirs(BUILD, exist_ok=True)
    with open(os.path.join(BUILD, "go-%s.lock" % mod), "w") as lk:
        fcntl.flock(lk, fcntl.LOCK_EX)
        cmd = ["go", "build", "-tags", "verif"] + (["-race"] if race else []) + ["-o", binp]
        if REPO != "/repo":
            mf = os.path.join(BUILD, mod + "-alt.mod")
            txt = open(os.path.join(src, "go.mod")).read().replace("=> /repo", "=> " + REPO)
            open(mf, "w").write(txt)
            open(mf[:-4] + ".sum", "w").write(open(os.path.join(src, "go.sum")).read())
            cmd += ["-modfile", mf]
        cmd += ["."]
        rc, out, dt = sh(cmd, cwd=src, env=GOENV, timeout=1500)
    return rc, out, binp, dt


def run_harness(binp, family, tier, seed, outp, only=None, count=None, timeout=900, extra_env=None):
    cmd = [binp, "-family", family, "-tier", tier, "-seed", str(seed), "-out", outp]
    if only is not None:
        cmd += ["-only", str(only)]
    if count:
        cmd += ["-count", str(count)]
    env = dict(os.environ)
    env["VERIF_PROGRESS"] = outp + ".progress"
    if extra_env:
        env.update(extra_env)
    rc, out, dt = sh(cmd, env=env, timeout=timeout)
    return rc, out, dt


def write_cases_v(path, corr_mod, check_fn, cases, extra_imports=()):
    lines = ["From Coq Require Import List String ZArith NArith Bool.",
             "Import ListNotations.",
             "From Ebu Require Import %s." % corr_mod]
    for m in extra_imports:
        lines.append("From Ebu Require Import %s." % m)
    lines.append("Local Open Scope list_scope.")
    lines.append("Definition cases := [")
    body = []
    for c in cases:
        body.append("  (" + to_gallina(c["input"]) + ",\n   " + to_gallina(c["obs"]) + ")")
    lines.append(";\n".join(body))
    lines.append("].")
    lines.append("Definition R := Eval vm_compute in (map %s cases)." % check_fn)
    lines.append("Print R.")
    with open(path, "w") as f:
        f.write("\n".join(lines) + "\n")


TRIPLE = re.compile(r"\(\s*(true|false)\s*,\s*(true|false)\s*,\s*(\d+)\s*\)")


def eval_shard(args):
    path, n = args
    d = os.path.dirname(path)
    rc, out, dt = sh(["coqc", "-Q", COQ, "Ebu", "-o", path + "o", path], cwd=d, timeout=900)
    if rc != 0:
        return dict(ok=False, err=out[-3000:], n=n, wall_s=dt)
    triples = [(a == "true", b == "true", int(k)) for a, b, k in TRIPLE.findall(out)]
    if len(triples) != n:
        return dict(ok=False, err="expected %d results, parsed %d\n%s" % (n, len(triples), out[-2000:]), n=n, wall_s=dt)
    return dict(ok=True, triples=triples, n=n, wall_s=dt)


def eval_cases(workdir, corr_mod, check_fn, cases, shard=250, extra_imports=()):
    os.makedirs(workdir, exist_ok=True)
    for f in os.listdir(workdir):
        if f.startswith("cases_"):
            os.unlink(os.path.join(workdir, f))
    jobs = []
    for k in range(0, len(cases), shard):
        path = os.path.join(workdir, "cases_%d.v" % (k // shard))
        chunk = cases[k:k + shard]
        write_cases_v(path, corr_mod, check_fn, chunk, extra_imports)
        jobs.append((path, len(chunk)))
    results = []
    with concurrent.futures.ThreadPoolExecutor(max_workers=16) as ex:
        for r in ex.map(eval_shard, jobs):
            results.append(r)
    triples = []
    for r, (path, n) in zip(results, jobs):
        if not r["ok"]:
            raise Infra("coqc failed on %s:\n%s" % (path, r["err"]))
        triples.extend(r["triples"])
    return triples


def digest(term):
    return hashlib.sha1(json.dumps(term, sort_keys=True).encode()).hexdigest()[:16]


def load_known():
    p = os.path.join(ROOT, "known_findings.json")
    if not os.path.exists(p):
        return {"findings": [], "fixed": []}
    return json.load(open(p))
