#!/bin/bash
# usage: seedsweep.sh <out-dir> [seed-dir-names...]
# Runs every stored seeded change (default: all of seeded/) against the check of the property it breaks, from a frozen
# snapshot of committed /verif; one line per seed in <out-dir>/log.txt; rc=1 (a VIOLATION) is the wanted outcome.
out=$1; shift
mkdir -p $out
vf=$(mktemp -d /tmp/seedvf.XXXXXX); rmdir $vf
git -C /verif worktree add -q --detach $vf HEAD || exit 2
( cd $vf/coq && coq_makefile -f _CoqProject -o Makefile >/dev/null && make -j16 >/dev/null 2>&1 ) || echo "coq build failed" | tee -a $out/log.txt
names=${@:-$(ls $vf/seeded)}
for n in $names; do
  p=$(python3 -c "import json,sys; print(json.load(open('$vf/seeded/$n/meta.json'))['breaks'])" 2>/dev/null || echo "")
  [ -z "$p" ] && { echo "[$n] no meta" | tee -a $out/log.txt; continue; }
  VERIF_HOME=$vf $vf/lib/tryseed.sh $n $p 2>&1 | tee -a $out/log.txt
done
git -C /verif worktree remove --force $vf
