#!/bin/sh
# MANIFEST.setup_cmd: build the Coq development (full .vo build) and warm the Go build caches.
set -e
cd "$(dirname "$0")"
export GOFLAGS=-mod=mod GOPROXY=off
unset GOTOOLCHAIN GOSUMDB || true
mkdir -p .build evidence replays
( cd coq && coq_makefile -f _CoqProject -o Makefile >/dev/null && timeout 3000 make -j16 >/dev/null )
for m in harness/go/*/; do
  ( cd "$m" && go build -tags verif -o "../../../.build/$(basename "$m")" . ) || echo "warning: warm build of $m failed"
  ( cd "$m" && go build -race -tags verif -o "../../../.build/$(basename "$m")-race" . ) || echo "warning: warm -race build of $m failed"
done
echo setup ok
