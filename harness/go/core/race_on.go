//go:build race

package main

const raceDetector = true
