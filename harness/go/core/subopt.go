package main

// Subopt family (C09): WithSubscriptionStore names the store that keeps the subscription offsets, in whatever order it
// is given relative to WithStore - also when the event store could keep them itself.  Every case builds a bus from one
// permutation of the options, replays and handles a few events through SubscribeWithReplay, and reports where the
// offsets went.

import (
	"context"
	"math/rand"
	"time"

	eb "github.com/jilio/ebu"
)

type soEv struct{ V int }

// an event store that cannot keep offsets
type soPlain struct{ m *eb.MemoryStore }

func (s soPlain) Append(ctx context.Context, e *eb.Event) (eb.Offset, error) {
	return s.m.Append(ctx, e)
}
func (s soPlain) Read(ctx context.Context, from eb.Offset, limit int) ([]*eb.StoredEvent, eb.Offset, error) {
	return s.m.Read(ctx, from, limit)
}

func runSubOpt(rng *rand.Rand, idx int, tier string) Case {
	order := idx % 6      // permutation of {store, substore, other}
	plain := idx/6%2 == 1 // the event store has no SubscriptionStore of its own
	events := eb.NewMemoryStore()
	subs := eb.NewMemoryStore()
	var st eb.EventStore = events
	if plain {
		st = soPlain{events}
	}
	oStore := eb.WithStore(st)
	oSubs := eb.WithSubscriptionStore(subs)
	oOther := eb.WithPersistenceTimeout(time.Hour)
	perms := [][]eb.Option{{oStore, oSubs, oOther}, {oSubs, oStore, oOther}, {oOther, oSubs, oStore}, {oStore, oOther, oSubs}, {oSubs, oOther, oStore}, {oOther, oStore, oSubs}}
	bus := eb.New(perms[order]...)
	ctx := context.Background()
	n := 1 + rng.Intn(4)
	for v := 1; v <= n; v++ {
		eb.Publish(bus, soEv{v})
	}
	got := 0
	err := eb.SubscribeWithReplay(ctx, bus, "sub", func(e soEv) { got++ })
	eb.Publish(bus, soEv{n + 1})
	inSubs, _ := subs.LoadOffset(ctx, "sub")
	inEvents, _ := events.LoadOffset(ctx, "sub")
	evs, _, _ := events.Read(ctx, eb.OffsetOldest, 0)
	last := eb.Offset("")
	if len(evs) > 0 {
		last = evs[len(evs)-1].Offset
	}
	return Case{Input: Tup(Nat(order), B(plain), Nat(n)),
		Obs:        C("Build_soobs", B(err == nil), Nat(got), B(inSubs == last && last != ""), B(inEvents == eb.OffsetOldest), B(bus.IsPersistent()), Nat(len(evs))),
		Tags:       []string{"order" + string(rune('0'+order))},
		Nontrivial: true}
}

func init() {
	register(&Family{Name: "subopt", Quick: 24, Thorough: 120, Directed: 0, Run: runSubOpt})
}
