package main

import (
	"fmt"
	"math/rand"
)

type busKnobs struct {
	threads                              int
	ntypes                               int
	async, seq, once                     bool
	panics                               bool
	ctx                                  bool // cancellable contexts and context-aware handlers
	store, obs                           bool
	hooks                                bool
	viaAny                               bool
	pfaults                              bool
	shutdown                             bool
	actsPerThread                        int
	wOnce, wAsync, wSeq, wPanic, wCtxPub int // percentages; 0 = default
	manyTypes                            bool
	reent                                bool // re-entrant publishes of the handler's own type are frequent
}

func genBusProgram(rng *rand.Rand, k busKnobs) *busProgram {
	p := &busProgram{bodies: map[int][]action{0: {}}, filters: map[int]filt{}, pfaults: map[int]string{}, ntypes: k.ntypes}
	// options in random order
	var opts []string
	if k.store {
		opts = append(opts, "store")
		if rng.Intn(2) == 0 {
			opts = append(opts, "persistErr")
		}
	}
	if k.obs {
		opts = append(opts, "obs")
	}
	if k.panics && rng.Intn(3) != 0 {
		opts = append(opts, "panicHandler")
	}
	hookBodies := []int{}
	if k.hooks {
		for _, o := range []string{"beforeLegacy", "afterLegacy", "beforeCtx", "afterCtx"} {
			if rng.Intn(2) == 0 {
				opts = append(opts, o)
			}
		}
		// now and then a hook option is given a nil function (an optional hook that was not configured)
		if rng.Intn(4) == 0 {
			opts = append(opts, []string{"nilBeforeLegacy", "nilAfterLegacy", "nilBeforeCtx", "nilAfterCtx"}[rng.Intn(4)])
		}
	}
	rng.Shuffle(len(opts), func(i, j int) { opts[i], opts[j] = opts[j], opts[i] })
	p.opts = opts
	nextBody := 1
	simpleAct := func() action { // actions allowed anywhere (no publish, no panic)
		t := rng.Intn(k.ntypes)
		switch rng.Intn(6) {
		case 0:
			return action{kind: "count", t: t}
		case 1:
			return action{kind: "has", t: t}
		case 2:
			return action{kind: "unsub", t: t, fn: rng.Intn(4) * 2}
		case 3:
			return action{kind: "clear", t: t}
		case 4:
			if k.ctx {
				return action{kind: "cancel", c: 1 + rng.Intn(2)}
			}
			return action{kind: "count", t: t}
		default:
			return action{kind: "sub", t: t, sp: hspec{fn: rng.Intn(4) * 2, filter: -1, body: 0}}
		}
	}
	for _, o := range opts {
		arg := 0
		switch o {
		case "beforeLegacy", "afterLegacy", "beforeCtx", "afterCtx":
			arg = nextBody
			nextBody++
			var as []action
			for i := rng.Intn(3); i > 0; i-- {
				as = append(as, simpleAct())
			}
			p.bodies[arg] = as
			hookBodies = append(hookBodies, arg)
		}
		p.optArgs = append(p.optArgs, arg)
	}
	// filters
	nf := 3
	for f := 0; f < nf; f++ {
		fl := filt{min: []int{0, 5, 5}[rng.Intn(3)]}
		if k.reent {
			fl.min = 5
		}
		if rng.Intn(3) == 0 {
			fl.acts = append(fl.acts, simpleAct())
		}
		p.filters[f] = fl
	}
	asyncOfType := map[int]bool{}
	var mkSpec func(t int, depth int) hspec
	pubAct := func(minType int) (action, bool) {
		if minType >= k.ntypes {
			return action{}, false
		}
		a := action{kind: "pub", t: minType + rng.Intn(k.ntypes-minType), v: rng.Intn(10)}
		wc := k.wCtxPub
		if wc == 0 {
			wc = 33
		}
		if k.ctx && rng.Intn(100) < wc {
			a.c = 1 + rng.Intn(2)
		}
		if k.viaAny && rng.Intn(6) == 0 {
			a.viaAny = true
		}
		return a, true
	}
	// selfLo/selfAny: the body may publish the handler's own type again - values below 5 when the handler has a filter
	// that rejects them, any value when the handler is a Once handler; either way the recursion is bounded
	mkBody := func(t int, depth int, selfLo, selfAny bool) int {
		if rng.Intn(3) == 0 && !(k.reent && (selfLo || selfAny)) {
			return 0
		}
		id := nextBody
		nextBody++
		var as []action
		nacts := rng.Intn(3)
		if k.reent && (selfLo || selfAny) {
			nacts = 1 + rng.Intn(2)
		}
		for i := nacts; i > 0; i-- {
			if (selfLo || selfAny) && (rng.Intn(3) == 0 || k.reent) {
				a := action{kind: "pub", t: t, v: rng.Intn(5)}
				if selfAny && !selfLo {
					a.v = rng.Intn(10)
				}
				if k.ctx && rng.Intn(4) == 0 {
					a.c = 1 + rng.Intn(2)
				}
				as = append(as, a)
				continue
			}
			if rng.Intn(3) == 0 && depth < 2 {
				if a, ok := pubAct(t + 1); ok {
					as = append(as, a)
					continue
				}
			}
			if rng.Intn(4) == 0 && depth < 2 {
				t2 := rng.Intn(k.ntypes)
				as = append(as, action{kind: "sub", t: t2, sp: mkSpec(t2, depth+1)})
				continue
			}
			as = append(as, simpleAct())
		}
		wp := k.wPanic
		if wp == 0 {
			wp = 25
		}
		if k.panics && rng.Intn(100) < wp {
			as = append(as, action{kind: "panic", v: rng.Intn(5)})
		}
		p.bodies[id] = as
		return id
	}
	mkSpec = func(t int, depth int) hspec {
		sp := hspec{fn: rng.Intn(4) * 2, filter: -1}
		if k.ctx && rng.Intn(3) == 0 {
			sp.ctx = true
			sp.fn++
		}
		pct := func(w, def int) bool {
			if w == 0 {
				w = def
			}
			return rng.Intn(100) < w
		}
		if k.once && pct(k.wOnce, 25) {
			sp.once = true
		}
		if k.async && pct(k.wAsync, 33) && !(k.obs && (asyncOfType[t] || depth > 0)) {
			// with observability on, an async delivery goroutine is first seen in OnHandlerStart, which does not
			// know the handler: keep at most one async registration per type so that it can be identified
			sp.async = true
			asyncOfType[t] = true
		}
		if k.seq && pct(k.wSeq, 33) {
			sp.seq = true
		}
		if rng.Intn(3) == 0 || (k.reent && !sp.once && rng.Intn(2) == 0) {
			sp.filter = rng.Intn(nf)
		}
		selfLo := sp.filter >= 0 && p.filters[sp.filter].min == 5
		// only registrations made by the threads themselves may publish their own type: a handler that subscribes
		// fresh self-publishing Once handlers would recurse without bound
		sp.body = mkBody(t, depth, selfLo && depth == 0, sp.once && depth == 0)
		return sp
	}
	for th := 0; th < k.threads; th++ {
		var as []action
		n := k.actsPerThread/2 + rng.Intn(k.actsPerThread)
		for i := 0; i < n; i++ {
			r := rng.Intn(100)
			switch {
			case r < 35:
				t := rng.Intn(k.ntypes)
				as = append(as, action{kind: "sub", t: t, sp: mkSpec(t, 0)})
			case r < 70:
				a, _ := pubAct(0)
				as = append(as, a)
			case r < 75:
				as = append(as, action{kind: "clearall"})
			case r < 80 && k.async:
				as = append(as, action{kind: "wait"})
			default:
				as = append(as, simpleAct())
			}
		}
		if k.async {
			as = append(as, action{kind: "wait"})
		}
		if k.shutdown && th == 0 {
			c := 0
			if k.ctx && rng.Intn(2) == 0 {
				c = 3
				if rng.Intn(2) == 0 {
					as = append(as, action{kind: "cancel", c: 3})
				}
			}
			as = append(as, action{kind: "shutdown", c: c})
		}
		p.threads = append(p.threads, as)
	}
	if k.pfaults {
		for v := 0; v < 10; v++ {
			switch rng.Intn(8) {
			case 0:
				p.pfaults[v] = "unencodable"
			case 1:
				p.pfaults[v] = "reject"
			case 2:
				p.pfaults[v] = "timeout"
			}
		}
	}
	// the panic handler's body ("retry the failed event": publishes carry values from 50, so that a retry is not
	// retried), generated last so that the rest of the program does not depend on it; only in programs whose other
	// bodies neither publish nor subscribe, so that the retry does not multiply an already recursive program
	fanout := false
	for _, as := range p.bodies {
		for _, a := range as {
			if a.kind == "pub" || a.kind == "sub" {
				fanout = true
			}
		}
	}
	for _, o := range opts {
		if o == "panicHandler" && !fanout && rng.Intn(2) == 0 {
			var as []action
			for i := 1 + rng.Intn(2); i > 0; i-- {
				if rng.Intn(3) != 0 {
					as = append(as, action{kind: "pub", t: rng.Intn(k.ntypes), v: panicRetryBelow + rng.Intn(10)})
				} else {
					as = append(as, simpleAct())
				}
			}
			p.bodies[panicBody] = as
		}
	}
	return p
}

func randomPick(rng *rand.Rand) func([]who) who {
	return func(ps []who) who { return ps[rng.Intn(len(ps))] }
}

// newest-first: always resume the most recently seen actor (forces "the second delivery takes the lock first")
func newestPick(ps []who) who { return ps[len(ps)-1] }

// threads first, then the newest task: lets a goroutine publish several events before any delivery proceeds
func threadsThenNewest(ps []who) who {
	for _, w := range ps {
		if w.thread {
			return w
		}
	}
	return ps[len(ps)-1]
}

// directed programs: witnesses of findings and past failures, run before the random cases of a family
func directedBus(name string, idx int) (*busProgram, func([]who) who) {
	sub := func(t int, sp hspec) action { return action{kind: "sub", t: t, sp: sp} }
	pub := func(t, v, c int) action { return action{kind: "pub", t: t, v: v, c: c} }
	base := func() *busProgram {
		return &busProgram{bodies: map[int][]action{0: {}}, filters: map[int]filt{0: {min: 5}}, pfaults: map[int]string{}, ntypes: 2}
	}
	switch {
	case name == "bus07" && idx == 0:
		// Async+Sequential handler, two events from one goroutine, the second delivery is let through first
		p := base()
		p.opts, p.optArgs = []string{"obs"}, []int{0}
		p.threads = [][]action{{sub(0, hspec{fn: 0, async: true, seq: true, filter: -1}), pub(0, 1, 0), pub(0, 2, 0), {kind: "wait"}}}
		return p, threadsThenNewest
	case name == "bus07" && idx == 1:
		// Async+Sequential handler busy with the first event; two live events queue up, then one with a cancelled
		// context, then a live one: the last must not overtake the two that are still queued
		p := base()
		p.opts, p.optArgs = []string{"obs"}, []int{0}
		p.threads = [][]action{{sub(0, hspec{fn: 0, async: true, seq: true, filter: -1}), pub(0, 1, 0), pub(0, 2, 0), pub(0, 3, 0),
			{kind: "cancel", c: 1}, pub(0, 4, 1), pub(0, 5, 0), {kind: "wait"}}}
		return p, threadsThenNewest
	case name == "bus05" && idx == 0:
		// the retry: a synchronous Sequential handler panics on every event, the panic handler publishes the failed
		// event again (once); a second handler must get both events and the publisher must come back
		p := base()
		p.opts, p.optArgs = []string{"panicHandler"}, []int{0}
		p.bodies[1] = []action{{kind: "panic", v: 1}}
		p.bodies[panicBody] = []action{pub(0, panicRetryBelow+1, 0)}
		p.threads = [][]action{{sub(0, hspec{fn: 0, seq: true, filter: -1, body: 1}), sub(0, hspec{fn: 2, filter: -1}), pub(0, 1, 0), {kind: "count", t: 0}}}
		return p, newestPick
	case name == "bus05" && idx == 1:
		// the same with an asynchronous panicking handler and a Wait
		p := base()
		p.opts, p.optArgs = []string{"panicHandler"}, []int{0}
		p.bodies[1] = []action{{kind: "panic", v: 1}}
		p.bodies[panicBody] = []action{pub(0, panicRetryBelow+1, 0)}
		p.threads = [][]action{{sub(0, hspec{fn: 0, async: true, seq: true, filter: -1, body: 1}), sub(0, hspec{fn: 2, filter: -1}), pub(0, 1, 0), {kind: "wait"}, {kind: "count", t: 0}}}
		return p, newestPick
	case name == "bus07" && idx == 2:
		// two goroutines publish - through a wider static type, so that the handler is called by reflection - to one
		// synchronous Sequential handler; the second is offered the turn whenever it can run: it must wait outside
		p := base()
		p.threads = [][]action{{sub(0, hspec{fn: 0, seq: true, filter: -1}), {kind: "pub", t: 0, v: 1, viaAny: true}, {kind: "pub", t: 0, v: 3, viaAny: true}},
			{{kind: "count", t: 0}, {kind: "pub", t: 0, v: 2, viaAny: true}, {kind: "pub", t: 0, v: 4}}}
		return p, func(ps []who) who {
			for _, w := range ps {
				if w.thread && w.i == 1 {
					return w
				}
			}
			return ps[0]
		}
	case name == "bus08" && idx == 0:
		// the second of five synchronous handlers - a plain one - cancels the publish's context: none of the later ones
		// (plain, context-aware, plain) may start; the hooks still run
		p := base()
		p.bodies[1] = []action{{kind: "cancel", c: 1}}
		p.bodies[2] = []action{}
		p.opts, p.optArgs = []string{"afterCtx"}, []int{2}
		p.threads = [][]action{{sub(0, hspec{fn: 0, filter: -1}), sub(0, hspec{fn: 2, filter: -1, body: 1}), sub(0, hspec{fn: 4, filter: -1}),
			sub(0, hspec{fn: 5, ctx: true, filter: -1}), sub(0, hspec{fn: 6, filter: -1}), pub(0, 1, 1), {kind: "count", t: 0}, pub(0, 2, 1)}}
		return p, newestPick
	case name == "bus08" && idx == 1:
		// the same with a context-aware handler cancelling, and a synchronous Once handler behind it (must not be used up)
		p := base()
		p.bodies[1] = []action{{kind: "cancel", c: 2}}
		p.threads = [][]action{{sub(0, hspec{fn: 1, ctx: true, filter: -1, body: 1}), sub(0, hspec{fn: 2, once: true, filter: -1}), sub(0, hspec{fn: 4, filter: -1}),
			pub(0, 1, 2), {kind: "count", t: 0}, pub(0, 2, 0), {kind: "count", t: 0}}}
		return p, newestPick
	case name == "bus04" && idx == 0:
		// Once handler: a publish with an already-cancelled context, then an eligible one
		p := base()
		p.threads = [][]action{{sub(0, hspec{fn: 0, once: true, filter: -1}), {kind: "cancel", c: 1}, pub(0, 1, 1), {kind: "count", t: 0}, pub(0, 2, 0), {kind: "count", t: 0}}}
		return p, newestPick
	case name == "bus04" && idx == 1:
		// Once handler whose filter rejects the first event
		p := base()
		p.threads = [][]action{{sub(0, hspec{fn: 0, once: true, filter: 0}), pub(0, 1, 0), {kind: "count", t: 0}, pub(0, 7, 0), {kind: "count", t: 0}, pub(0, 8, 0)}}
		return p, newestPick
	case name == "bus09" && idx == 0:
		// WithStore given before WithBeforePublishContext
		p := base()
		p.bodies[1] = []action{}
		p.opts, p.optArgs = []string{"store", "beforeCtx"}, []int{0, 1}
		p.threads = [][]action{{sub(0, hspec{fn: 0, filter: -1}), pub(0, 1, 0)}}
		return p, newestPick
	case name == "bus09" && idx == 1:
		// a nil context hook after WithStore: still persisting
		p := base()
		p.opts, p.optArgs = []string{"store", "nilBeforeCtx"}, []int{0, 0}
		p.threads = [][]action{{sub(0, hspec{fn: 0, filter: -1}), pub(0, 1, 0)}}
		return p, newestPick
	case name == "bus09" && idx == 2:
		// a hook, the store, then the hook cleared with nil
		p := base()
		p.bodies[1] = []action{}
		p.opts, p.optArgs = []string{"beforeCtx", "store", "nilBeforeCtx"}, []int{1, 0, 0}
		p.threads = [][]action{{sub(0, hspec{fn: 0, filter: -1}), pub(0, 1, 0), pub(0, 2, 0)}}
		return p, newestPick
	case name == "bus03" && idx == 0:
		// the documented exception: a synchronous Sequential handler publishes an event that is delivered back to itself
		p := base()
		p.bodies[1] = []action{pub(0, 2, 0)}
		p.threads = [][]action{{sub(0, hspec{fn: 0, seq: true, filter: -1, body: 1}), pub(0, 1, 0), {kind: "count", t: 0}}}
		return p, newestPick
	case name == "bus03" && idx == 1:
		// the same through a second handler: H0 (Sequential, type 0) publishes type 1, whose handler publishes type 0 again
		p := base()
		p.bodies[1] = []action{pub(1, 2, 0)}
		p.bodies[2] = []action{pub(0, 3, 0)}
		p.threads = [][]action{{sub(0, hspec{fn: 0, seq: true, filter: -1, body: 1}), sub(1, hspec{fn: 2, filter: -1, body: 2}), pub(0, 1, 0)}}
		return p, newestPick
	case name == "bus03" && idx == 2:
		// re-entrant subscribe / unsubscribe / clear / publish from handlers, a filter and both kinds of hooks, no Sequential self-delivery
		p := base()
		p.bodies[1] = []action{sub(1, hspec{fn: 2, filter: -1}), pub(1, 2, 0), {kind: "unsub", t: 0, fn: 0}, {kind: "clear", t: 1}}
		p.bodies[2] = []action{{kind: "count", t: 0}, sub(0, hspec{fn: 4, filter: -1})}
		p.bodies[3] = []action{{kind: "has", t: 1}}
		p.filters[1] = filt{min: 0, acts: []action{sub(1, hspec{fn: 6, filter: -1}), {kind: "clear", t: 0}}}
		p.opts, p.optArgs = []string{"beforeLegacy", "afterCtx"}, []int{2, 3}
		p.threads = [][]action{{sub(0, hspec{fn: 0, seq: true, filter: 1, body: 1}), sub(0, hspec{fn: 2, filter: -1}), pub(0, 1, 0), pub(0, 2, 0), {kind: "count", t: 0}}}
		return p, newestPick
	case name == "bus01" && idx == 0:
		// a filtered handler and a publish through an any-typed value
		p := base()
		p.threads = [][]action{{sub(0, hspec{fn: 0, filter: 0}), {kind: "pub", t: 0, v: 1, viaAny: true}, {kind: "pub", t: 0, v: 9, viaAny: true}}}
		return p, newestPick
	case name == "bus02" && idx == 0:
		// a Once handler whose body unsubscribes an earlier handler and subscribes a new one (the list keeps its length):
		// the retirement must remove the Once handler itself, not whatever now sits at its old position
		p := base()
		p.bodies[1] = []action{{kind: "unsub", t: 0, fn: 0}, sub(0, hspec{fn: 4, filter: -1})}
		p.threads = [][]action{{sub(0, hspec{fn: 0, filter: -1}), sub(0, hspec{fn: 2, once: true, filter: -1, body: 1}), pub(0, 1, 0),
			{kind: "count", t: 0}, pub(0, 2, 0), {kind: "unsub", t: 0, fn: 4}, {kind: "count", t: 0}}}
		return p, newestPick
	case name == "bus01" && idx == 2:
		// a Once handler whose body clears the type and subscribes a fresh handler: the retirement of the Once handler
		// (by identity) must leave the fresh registration alone
		p := base()
		p.bodies[1] = []action{{kind: "clear", t: 0}, sub(0, hspec{fn: 4, filter: -1})}
		p.threads = [][]action{{sub(0, hspec{fn: 0, once: true, filter: -1, body: 1}), pub(0, 1, 0), {kind: "count", t: 0}, pub(0, 2, 0), {kind: "count", t: 0}}}
		return p, newestPick
	case name == "bus01" && idx == 3:
		// a nested publish of the same type retires a Once handler that sits between two others while the outer publish
		// is walking its snapshot: the last handler gets each event exactly once
		p := base()
		p.bodies[1] = []action{pub(0, 2, 0)}
		p.threads = [][]action{{sub(0, hspec{fn: 0, filter: 0, body: 1}), sub(0, hspec{fn: 2, once: true, filter: -1}), sub(0, hspec{fn: 4, filter: -1}),
			pub(0, 7, 0), {kind: "count", t: 0}, pub(0, 8, 0)}}
		return p, newestPick
	case name == "bus01" && idx == 1:
		// re-entrant publish from an earlier handler while a once-handler and a later plain handler are registered
		p := base()
		p.bodies[1] = []action{pub(1, 2, 0)}
		p.bodies[2] = []action{}
		p.threads = [][]action{{sub(1, hspec{fn: 0, filter: -1, body: 0}), sub(0, hspec{fn: 0, filter: -1, body: 1}),
			sub(1, hspec{fn: 2, once: true, filter: -1}), sub(1, hspec{fn: 4, filter: -1}), pub(0, 1, 0), pub(1, 3, 0)}}
		return p, newestPick
	}
	return nil, nil
}

func runBusFamily(name string, knobs func(rng *rand.Rand) busKnobs) func(rng *rand.Rand, idx int, tier string) Case {
	return func(rng *rand.Rand, idx int, tier string) Case {
		k := knobs(rng)
		prog, pick := directedBus(name, idx)
		if prog == nil {
			prog = genBusProgram(rng, k)
			pick = randomPick(rng)
		} else {
			k.threads = len(prog.threads)
		}
		in, obs, tags := runControlled(prog, pick)
		tags = append(tags, fmt.Sprintf("threads%d", k.threads))
		return Case{Input: in, Obs: obs, Tags: tags, Nontrivial: true}
	}
}

func b2(rng *rand.Rand) bool { return rng.Intn(2) == 0 }

func init() {
	fam := func(name string, quick, thorough int, kn func(rng *rand.Rand) busKnobs) {
		register(&Family{Name: name, Quick: quick, Thorough: thorough, Run: runBusFamily(name, kn)})
	}
	// general mixes
	fam("busseq", 150, 4000, func(rng *rand.Rand) busKnobs {
		return busKnobs{threads: 1, ntypes: 2 + rng.Intn(3), async: b2(rng), seq: true, once: true,
			panics: b2(rng), ctx: b2(rng), store: rng.Intn(3) == 0, obs: rng.Intn(3) == 0,
			hooks: b2(rng), viaAny: true, pfaults: b2(rng), actsPerThread: 8}
	})
	fam("buscon", 150, 4000, func(rng *rand.Rand) busKnobs {
		return busKnobs{threads: 2 + rng.Intn(2), ntypes: 1 + rng.Intn(3), async: b2(rng), seq: true, once: true,
			panics: rng.Intn(3) == 0, ctx: rng.Intn(3) == 0, store: rng.Intn(4) == 0, obs: rng.Intn(4) == 0,
			hooks: rng.Intn(3) == 0, viaAny: false, pfaults: false, actsPerThread: 4}
	})
	// C01: one goroutine, re-entrant calls, more types than shards in a third of the cases
	fam("bus01", 200, 6000, func(rng *rand.Rand) busKnobs {
		nt := 2 + rng.Intn(4)
		if rng.Intn(3) == 0 {
			nt = 33 + rng.Intn(8)
		}
		if rng.Intn(3) == 0 { // handlers that publish their own type again while it is being delivered
			return busKnobs{threads: 1, ntypes: 1 + rng.Intn(2), async: rng.Intn(4) == 0, seq: rng.Intn(3) == 0, once: true, wOnce: 40,
				reent: true, viaAny: rng.Intn(3) == 0, actsPerThread: 10}
		}
		return busKnobs{threads: 1, ntypes: nt, async: rng.Intn(3) == 0, seq: true, once: true, panics: rng.Intn(4) == 0,
			ctx: rng.Intn(4) == 0, hooks: rng.Intn(3) == 0, viaAny: true, actsPerThread: 10}
	})
	// C03 (deadlock half): several goroutines, re-entrant calls from handlers, filters and hooks, Sequential handlers
	fam("bus03", 200, 6000, func(rng *rand.Rand) busKnobs {
		return busKnobs{threads: 1 + rng.Intn(3), ntypes: 1 + rng.Intn(3), async: b2(rng), seq: true, wSeq: 50, once: true,
			panics: rng.Intn(3) == 0, ctx: rng.Intn(3) == 0, store: rng.Intn(4) == 0, hooks: b2(rng), reent: rng.Intn(3) == 0,
			actsPerThread: 5}
	})
	fam("bus02", 200, 6000, func(rng *rand.Rand) busKnobs {
		return busKnobs{threads: 2 + rng.Intn(3), ntypes: 1 + rng.Intn(3), async: rng.Intn(3) == 0, seq: rng.Intn(3) == 0,
			once: true, actsPerThread: 4}
	})
	// C04: Once handlers, filters, cancelled publishes, 1-3 publishers
	fam("bus04", 200, 6000, func(rng *rand.Rand) busKnobs {
		return busKnobs{threads: 1 + rng.Intn(3), ntypes: 1 + rng.Intn(2), async: b2(rng), seq: rng.Intn(4) == 0, once: true,
			wOnce: 70, ctx: true, wCtxPub: 50, actsPerThread: 6}
	})
	// C05: panicking handlers of every kind at every position
	fam("bus05", 200, 6000, func(rng *rand.Rand) busKnobs {
		return busKnobs{threads: 1 + rng.Intn(2), ntypes: 1 + rng.Intn(3), async: b2(rng), seq: true, once: true, panics: true,
			wPanic: 60, ctx: rng.Intn(3) == 0, obs: rng.Intn(3) == 0, actsPerThread: 6}
	})
	// C06: async work, nested async publishes, Wait at many positions, Shutdown with live and cancelled contexts
	fam("bus06", 200, 6000, func(rng *rand.Rand) busKnobs {
		return busKnobs{threads: 1 + rng.Intn(2), ntypes: 2 + rng.Intn(3), async: true, wAsync: 70, seq: rng.Intn(3) == 0,
			once: rng.Intn(3) == 0, ctx: true, store: b2(rng), shutdown: true, actsPerThread: 6}
	})
	// C07: Sequential handlers, sync and async, concurrent publishers; observability on so that async deliveries can
	// be held before they take the handler's lock
	fam("bus07", 200, 6000, func(rng *rand.Rand) busKnobs {
		return busKnobs{threads: 1 + rng.Intn(3), ntypes: 1 + rng.Intn(2), async: true, wAsync: 60, seq: true, wSeq: 80,
			obs: b2(rng), panics: rng.Intn(4) == 0, viaAny: true, ctx: rng.Intn(3) == 0, wCtxPub: 30, actsPerThread: 5}
	})
	// C08: cancellation at every point, context-aware handlers, all hook subsets
	fam("bus08", 200, 6000, func(rng *rand.Rand) busKnobs {
		return busKnobs{threads: 1, ntypes: 1 + rng.Intn(3), async: rng.Intn(3) == 0, seq: rng.Intn(4) == 0, once: rng.Intn(4) == 0,
			ctx: true, wCtxPub: 70, hooks: true, obs: rng.Intn(4) == 0, actsPerThread: 8}
	})
	// C09 / C13: persistent bus, every order of options, concurrent publishers, persistence faults
	fam("bus09", 200, 6000, func(rng *rand.Rand) busKnobs {
		return busKnobs{threads: 1 + rng.Intn(3), ntypes: 1 + rng.Intn(3), async: rng.Intn(3) == 0, store: true, hooks: true,
			obs: rng.Intn(3) == 0, panics: rng.Intn(4) == 0, ctx: rng.Intn(3) == 0, wCtxPub: 50, actsPerThread: 5}
	})
	fam("bus13", 200, 6000, func(rng *rand.Rand) busKnobs {
		return busKnobs{threads: 1 + rng.Intn(2), ntypes: 1 + rng.Intn(3), async: rng.Intn(3) == 0, store: true, pfaults: true,
			hooks: rng.Intn(3) == 0, obs: rng.Intn(3) == 0, ctx: rng.Intn(3) == 0, wCtxPub: 50, actsPerThread: 7}
	})
	// C20: observability on, everything else mixed
	fam("bus20", 200, 6000, func(rng *rand.Rand) busKnobs {
		return busKnobs{threads: 1 + rng.Intn(2), ntypes: 1 + rng.Intn(3), async: b2(rng), seq: b2(rng), once: b2(rng),
			panics: b2(rng), ctx: b2(rng), store: b2(rng), pfaults: b2(rng), obs: true, hooks: rng.Intn(3) == 0, actsPerThread: 6}
	})
}
