package main

import (
	"fmt"
	"math/rand"
)

type busKnobs struct {
	threads          int
	ntypes           int
	async, seq, once bool
	panics           bool
	ctx              bool // cancellable contexts and context-aware handlers
	store, obs       bool
	hooks            bool
	viaAny           bool
	pfaults          bool
	shutdown         bool
	actsPerThread    int
}

func genBusProgram(rng *rand.Rand, k busKnobs) *busProgram {
	p := &busProgram{bodies: map[int][]action{0: {}}, filters: map[int]filt{}, pfaults: map[int]string{}, ntypes: k.ntypes}
	// options in random order
	var opts []string
	if k.store {
		opts = append(opts, "store")
		if rng.Intn(2) == 0 {
			opts = append(opts, "persistErr")
		}
	}
	if k.obs {
		opts = append(opts, "obs")
	}
	if k.panics && rng.Intn(3) != 0 {
		opts = append(opts, "panicHandler")
	}
	hookBodies := []int{}
	if k.hooks {
		for _, o := range []string{"beforeLegacy", "afterLegacy", "beforeCtx", "afterCtx"} {
			if rng.Intn(2) == 0 {
				opts = append(opts, o)
			}
		}
	}
	rng.Shuffle(len(opts), func(i, j int) { opts[i], opts[j] = opts[j], opts[i] })
	p.opts = opts
	nextBody := 1
	simpleAct := func() action { // actions allowed anywhere (no publish, no panic)
		t := rng.Intn(k.ntypes)
		switch rng.Intn(6) {
		case 0:
			return action{kind: "count", t: t}
		case 1:
			return action{kind: "has", t: t}
		case 2:
			return action{kind: "unsub", t: t, fn: rng.Intn(4) * 2}
		case 3:
			return action{kind: "clear", t: t}
		case 4:
			if k.ctx {
				return action{kind: "cancel", c: 1 + rng.Intn(2)}
			}
			return action{kind: "count", t: t}
		default:
			return action{kind: "sub", t: t, sp: hspec{fn: rng.Intn(4) * 2, filter: -1, body: 0}}
		}
	}
	for _, o := range opts {
		arg := 0
		switch o {
		case "beforeLegacy", "afterLegacy", "beforeCtx", "afterCtx":
			arg = nextBody
			nextBody++
			var as []action
			for i := rng.Intn(3); i > 0; i-- {
				as = append(as, simpleAct())
			}
			p.bodies[arg] = as
			hookBodies = append(hookBodies, arg)
		}
		p.optArgs = append(p.optArgs, arg)
	}
	// filters
	nf := 3
	for f := 0; f < nf; f++ {
		fl := filt{min: []int{0, 5, 5}[rng.Intn(3)]}
		if rng.Intn(3) == 0 {
			fl.acts = append(fl.acts, simpleAct())
		}
		p.filters[f] = fl
	}
	asyncOfType := map[int]bool{}
	var mkSpec func(t int, depth int) hspec
	pubAct := func(minType int) (action, bool) {
		if minType >= k.ntypes {
			return action{}, false
		}
		a := action{kind: "pub", t: minType + rng.Intn(k.ntypes-minType), v: rng.Intn(10)}
		if k.ctx && rng.Intn(3) == 0 {
			a.c = 1 + rng.Intn(2)
		}
		if k.viaAny && rng.Intn(6) == 0 {
			a.viaAny = true
		}
		return a, true
	}
	mkBody := func(t int, depth int) int {
		if rng.Intn(3) == 0 {
			return 0
		}
		id := nextBody
		nextBody++
		var as []action
		for i := rng.Intn(3); i > 0; i-- {
			if rng.Intn(3) == 0 && depth < 2 {
				if a, ok := pubAct(t + 1); ok {
					as = append(as, a)
					continue
				}
			}
			if rng.Intn(4) == 0 && depth < 2 {
				t2 := rng.Intn(k.ntypes)
				as = append(as, action{kind: "sub", t: t2, sp: mkSpec(t2, depth+1)})
				continue
			}
			as = append(as, simpleAct())
		}
		if k.panics && rng.Intn(4) == 0 {
			as = append(as, action{kind: "panic", v: rng.Intn(5)})
		}
		p.bodies[id] = as
		return id
	}
	mkSpec = func(t int, depth int) hspec {
		sp := hspec{fn: rng.Intn(4) * 2, filter: -1}
		if k.ctx && rng.Intn(3) == 0 {
			sp.ctx = true
			sp.fn++
		}
		if k.once && rng.Intn(4) == 0 {
			sp.once = true
		}
		if k.async && rng.Intn(3) == 0 && !(k.obs && asyncOfType[t]) {
			sp.async = true
			asyncOfType[t] = true
		}
		if k.seq && rng.Intn(3) == 0 {
			sp.seq = true
		}
		if rng.Intn(3) == 0 {
			sp.filter = rng.Intn(nf)
		}
		sp.body = mkBody(t, depth)
		return sp
	}
	for th := 0; th < k.threads; th++ {
		var as []action
		n := k.actsPerThread/2 + rng.Intn(k.actsPerThread)
		for i := 0; i < n; i++ {
			r := rng.Intn(100)
			switch {
			case r < 35:
				t := rng.Intn(k.ntypes)
				as = append(as, action{kind: "sub", t: t, sp: mkSpec(t, 0)})
			case r < 70:
				a, _ := pubAct(0)
				as = append(as, a)
			case r < 75:
				as = append(as, action{kind: "clearall"})
			case r < 80 && k.async:
				as = append(as, action{kind: "wait"})
			default:
				as = append(as, simpleAct())
			}
		}
		if k.async {
			as = append(as, action{kind: "wait"})
		}
		if k.shutdown && th == 0 {
			c := 0
			if k.ctx && rng.Intn(2) == 0 {
				c = 3
				if rng.Intn(2) == 0 {
					as = append(as, action{kind: "cancel", c: 3})
				}
			}
			as = append(as, action{kind: "shutdown", c: c})
		}
		p.threads = append(p.threads, as)
	}
	if k.pfaults {
		for v := 0; v < 10; v++ {
			switch rng.Intn(8) {
			case 0:
				p.pfaults[v] = "unencodable"
			case 1:
				p.pfaults[v] = "reject"
			case 2:
				p.pfaults[v] = "timeout"
			}
		}
	}
	return p
}

func randomPick(rng *rand.Rand) func([]who) who {
	return func(ps []who) who { return ps[rng.Intn(len(ps))] }
}

func runBusFamily(name string, knobs func(rng *rand.Rand) busKnobs) func(rng *rand.Rand, idx int, tier string) Case {
	return func(rng *rand.Rand, idx int, tier string) Case {
		k := knobs(rng)
		prog := genBusProgram(rng, k)
		in, obs, tags := runControlled(prog, randomPick(rng))
		tags = append(tags, fmt.Sprintf("threads%d", k.threads))
		return Case{Input: in, Obs: obs, Tags: tags, Nontrivial: true}
	}
}

func init() {
	register(&Family{Name: "busseq", Quick: 150, Thorough: 4000, Run: runBusFamily("busseq", func(rng *rand.Rand) busKnobs {
		return busKnobs{threads: 1, ntypes: 2 + rng.Intn(3), async: rng.Intn(2) == 0, seq: true, once: true,
			panics: rng.Intn(2) == 0, ctx: rng.Intn(2) == 0, store: rng.Intn(3) == 0, obs: rng.Intn(3) == 0,
			hooks: rng.Intn(2) == 0, viaAny: true, pfaults: rng.Intn(2) == 0, actsPerThread: 8}
	})})
	register(&Family{Name: "buscon", Quick: 150, Thorough: 4000, Run: runBusFamily("buscon", func(rng *rand.Rand) busKnobs {
		return busKnobs{threads: 2 + rng.Intn(2), ntypes: 1 + rng.Intn(3), async: rng.Intn(2) == 0, seq: true, once: true,
			panics: rng.Intn(3) == 0, ctx: rng.Intn(3) == 0, store: rng.Intn(4) == 0, obs: rng.Intn(4) == 0,
			hooks: rng.Intn(3) == 0, viaAny: false, pfaults: false, actsPerThread: 4}
	})})
}
