package main

// durable-streams store against the in-process durable-streams server (memorystorage + handler),
// as the repository's own tests do. Messages are made equal in size so that the server's byte
// budget (ChunkSize) is an exact number of messages per chunk.

import (
	"context"
	"fmt"
	"math/rand"
	"net/http"
	"net/http/httptest"
	"sort"
	"time"

	dsproto "github.com/ahimsalabs/durable-streams-go/durablestream"
	"github.com/ahimsalabs/durable-streams-go/durablestream/memorystorage"
	eb "github.com/jilio/ebu"
	dstore "github.com/jilio/ebu/stores/durablestream"
)

type dsEnv struct {
	srv     *httptest.Server
	storage *memorystorage.Storage
	store   *dstore.Store
	stream  string
}

func newDsEnv(chunkBytes int, stream string) *dsEnv {
	st := memorystorage.New()
	var cfg *dsproto.HandlerConfig
	if chunkBytes > 0 {
		cfg = &dsproto.HandlerConfig{ChunkSize: chunkBytes}
	}
	h := dsproto.NewHandler(st, cfg)
	mux := http.NewServeMux()
	mux.Handle("/v1/stream/", http.StripPrefix("/v1/stream/", h))
	srv := httptest.NewServer(mux)
	s, err := dstore.New(srv.URL+"/v1/stream", stream)
	if err != nil {
		panic(err)
	}
	return &dsEnv{srv: srv, storage: st, store: s, stream: stream}
}

func fixedPayload(i int) payload {
	return payload{typ: "main.Ev", data: []byte(fmt.Sprintf(`{"i":"%06d"}`, i)),
		ts: time.Date(2024, 3, 4, 5, 6, 7, 123456789, time.UTC)}
}

// size of one stored message on the server, measured once
func dsMessageSize() int {
	env := newDsEnv(0, "probe")
	defer env.srv.Close()
	p := fixedPayload(1)
	if _, err := env.store.Append(context.Background(), &eb.Event{Type: p.typ, Data: p.data, Timestamp: p.ts}); err != nil {
		panic(err)
	}
	res, err := env.storage.Read(context.Background(), "probe", "", 0)
	if err != nil || len(res.Messages) != 1 {
		panic(fmt.Sprint("probe read: ", err))
	}
	return len(res.Messages[0].Data)
}

var dsMsgSize = 0

type dsOnly struct{ *dstore.Store }

func (d dsOnly) SaveOffset(ctx context.Context, id string, o eb.Offset) error {
	return fmt.Errorf("unsupported")
}
func (d dsOnly) LoadOffset(ctx context.Context, id string) (eb.Offset, error) {
	return "", fmt.Errorf("unsupported")
}

func runDsCase(rng *rand.Rand, idx int, tier string) Case {
	if dsMsgSize == 0 {
		dsMsgSize = dsMessageSize()
	}
	chunk := []int{0, 1, 2, 3, 5}[rng.Intn(5)]
	clean := rng.Intn(2) == 0 // only limit 0 and next-offset resumption: the part of the contract the store keeps
	if idx == 0 {
		chunk, clean = 3, false
	}
	if idx == 1 {
		chunk, clean = 2, true
	}
	chunkBytes := 0
	if chunk > 0 {
		chunkBytes = chunk*dsMsgSize + dsMsgSize/2
	}
	c := &storeCase{kind: "ds", tags: map[string]bool{}, pays: make([][]payload, 2)}
	var envs [2]*dsEnv
	for k := 0; k < 2; k++ {
		envs[k] = newDsEnv(chunkBytes, fmt.Sprintf("s%d", k))
		c.stores[k] = dsOnly{envs[k].store}
	}
	defer func() {
		for _, e := range envs {
			e.srv.Close()
		}
	}()
	ctx := context.Background()
	appendOne := func(k int) {
		id := len(c.pays[k]) + k*1000
		p := fixedPayload(id)
		c.pays[k] = append(c.pays[k], p)
		off, err := c.stores[k].Append(ctx, &eb.Event{Type: p.typ, Data: p.data, Timestamp: p.ts})
		c.ops = append(c.ops, C("SAppend", Nat(k), Nat(id)))
		if err != nil {
			c.obs = append(c.obs, C("RAppend", None()))
		} else {
			c.obs = append(c.obs, C("RAppend", Some(offT(off))))
		}
	}
	var nexts [2][]eb.Offset // next offsets returned so far
	var evoffs [2][]eb.Offset
	read := func(k int, from eb.Offset, limit int) {
		before := len(c.pool[k])
		c.doRead(k, from, limit)
		if len(c.pool[k]) > before {
			nexts[k] = append(nexts[k], c.pool[k][len(c.pool[k])-1])
			evoffs[k] = append(evoffs[k], c.pool[k][before:len(c.pool[k])-1]...)
		}
	}
	if idx == 0 { // directed: 5 events, chunk 3; truncating reads and resumption from a synthetic offset
		for i := 0; i < 5; i++ {
			appendOne(0)
		}
		read(0, "", 2)
		read(0, nexts[0][0], 2)
		read(0, evoffs[0][0], 0)
		return c.finish()
	}
	n := 6 + rng.Intn(20)
	for i := 0; i < n; i++ {
		k := 0
		if rng.Intn(5) == 0 {
			k = 1
		}
		switch r := rng.Intn(10); {
		case r < 5:
			appendOne(k)
		default:
			from := eb.OffsetOldest
			if len(nexts[k]) > 0 && rng.Intn(4) != 0 {
				from = nexts[k][len(nexts[k])-1-rng.Intn(min(2, len(nexts[k])))]
			}
			limit := 0
			if !clean {
				if len(evoffs[k]) > 0 && rng.Intn(3) == 0 {
					from = evoffs[k][rng.Intn(len(evoffs[k]))]
				}
				limit = []int{0, -1, 1, 2, 3, 100}[rng.Intn(6)]
			}
			read(k, from, limit)
		}
	}
	if clean {
		c.tags["clean"] = true
	}
	cs := c.finish()
	cs.Input = Tup(Nat(chunk), cs.Input)
	cs.Tags = append(cs.Tags, fmt.Sprintf("chunk%d", chunk))
	sort.Strings(cs.Tags)
	return cs
}

func init() {
	register(&Family{Name: "storeds", Quick: 80, Thorough: 2000, Directed: 2, Run: func(rng *rand.Rand, idx int, tier string) Case {
		cs := runDsCase(rng, idx, tier)
		if idx == 0 {
			cs.Input = Tup(Nat(3), cs.Input)
		}
		return cs
	}})
}
