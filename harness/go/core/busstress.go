package main

// Busstress family (supporting C01, C02, C04, C07, C09): free-running goroutines, no controller.  Interleavings inside
// the bus's own code (which the controller cannot force: they contain no user callback) are sampled by running many
// publishers, subscription churn and queries concurrently; what is checked needs no global order: every stable handler
// got every event exactly once, Once handlers fired exactly once, Sequential handlers never overlapped and saw each
// publisher's events in the order it published them, the registry ends where it should, and the log holds one record
// per publish in increasing offset order.

import (
	"context"
	"math/rand"
	"runtime"
	"sort"
	"sync"
	"sync/atomic"

	eb "github.com/jilio/ebu"
)

type stE struct{ G, I int }

type stHandler struct {
	mu       sync.Mutex
	seen     map[stE]int
	last     map[int]int // per publishing goroutine: the last event index seen (Sequential handlers)
	misorder int         // events seen after a later event of the same publishing goroutine
	inside   atomic.Int32
	overlaps atomic.Int32
	seq      bool
}

func (h *stHandler) on(e stE) {
	if h.seq {
		if h.inside.Add(1) != 1 {
			h.overlaps.Add(1)
		}
		defer h.inside.Add(-1)
	}
	h.mu.Lock()
	h.seen[e]++
	if h.seq {
		if prev, ok := h.last[e.G]; ok && e.I < prev {
			h.misorder++
		} else {
			h.last[e.G] = e.I
		}
	}
	h.mu.Unlock()
	if e.I%3 == 0 {
		runtime.Gosched()
	}
}

func stTransient0(stE) {}
func stTransient1(stE) {}
func stTransient2(stE) {}

func runBusStress(rng *rand.Rand, idx int, tier string) Case {
	withStore := rng.Intn(2) == 0
	var store *eb.MemoryStore
	var opts []eb.Option
	if withStore {
		store = eb.NewMemoryStore()
		opts = append(opts, eb.WithStore(store))
	}
	bus := eb.New(opts...)
	nst := 1 + rng.Intn(4)
	stable := make([]*stHandler, nst)
	kinds := make([]int, nst)
	for i := range stable {
		h := &stHandler{seen: map[stE]int{}, last: map[int]int{}}
		stable[i] = h
		kinds[i] = rng.Intn(4) // 0 sync, 1 async, 2 sequential, 3 async+sequential
		var so []eb.SubscribeOption
		if kinds[i] == 1 || kinds[i] == 3 {
			so = append(so, eb.Async())
		}
		if kinds[i] >= 2 {
			so = append(so, eb.Sequential())
			h.seq = true
		}
		if rng.Intn(2) == 0 {
			eb.Subscribe(bus, h.on, so...)
		} else {
			eb.SubscribeContext(bus, func(ctx context.Context, e stE) { h.on(e) }, so...)
		}
	}
	nonce := rng.Intn(3)
	fires := make([]atomic.Int32, nonce)
	for i := 0; i < nonce; i++ {
		i := i
		so := []eb.SubscribeOption{eb.Once()}
		if rng.Intn(2) == 0 {
			so = append(so, eb.Async())
		}
		eb.Subscribe(bus, func(e stE) { fires[i].Add(1) }, so...)
	}
	G := 2 + rng.Intn(4)
	M := 10 + rng.Intn(40)
	if tier == "thorough" {
		M = 10 + rng.Intn(60)
	}
	churn := rng.Intn(3)
	procs := []int{2, 4, 16}[rng.Intn(3)]
	old := runtime.GOMAXPROCS(procs)
	defer runtime.GOMAXPROCS(old)
	var escaped atomic.Int32
	guard := func(f func()) {
		defer func() {
			if recover() != nil {
				escaped.Add(1)
			}
		}()
		f()
	}
	start := make(chan struct{})
	var wg sync.WaitGroup
	for g := 0; g < G; g++ {
		wg.Add(1)
		go func(g int) {
			defer wg.Done()
			<-start
			for i := 0; i < M; i++ {
				guard(func() { eb.Publish(bus, stE{g, i}) })
			}
		}(g)
	}
	transients := []func(stE){stTransient0, stTransient1, stTransient2}
	for c := 0; c < churn; c++ {
		wg.Add(1)
		go func(c int) {
			defer wg.Done()
			<-start
			for i := 0; i < M; i++ {
				guard(func() { eb.Subscribe(bus, transients[c]) })
				guard(func() { eb.Unsubscribe[stE](bus, transients[c]) })
			}
		}(c)
	}
	wg.Add(1)
	go func() {
		defer wg.Done()
		<-start
		for i := 0; i < M; i++ {
			guard(func() { eb.HandlerCount[stE](bus); eb.HasHandlers[stE](bus) })
			if i%5 == 0 {
				guard(func() { bus.Wait() })
			}
		}
	}()
	close(start)
	wg.Wait()
	bus.Wait()
	records, disorder := 0, 0
	if withStore {
		evs, _, err := store.Read(context.Background(), eb.OffsetOldest, 0)
		if err != nil {
			disorder = 999
		}
		records = len(evs)
		seen := map[eb.Offset]bool{}
		var prev eb.Offset
		for _, e := range evs {
			if seen[e.Offset] || (prev != "" && !(prev < e.Offset)) {
				disorder++
			}
			seen[e.Offset] = true
			prev = e.Offset
		}
	}
	// ---- phase 2: one live publish to a fresh Once handler while other goroutines publish with a cancelled context ----
	type stO struct{ R int }
	dead, cancelDead := context.WithCancel(context.Background())
	cancelDead()
	stop := make(chan struct{})
	var spin sync.WaitGroup
	for k := 0; k < 2; k++ {
		spin.Add(1)
		go func() {
			defer spin.Done()
			for {
				select {
				case <-stop:
					return
				default:
					guard(func() { eb.PublishContext(bus, dead, stO{-1}) })
				}
			}
		}()
	}
	rounds := 200
	if tier == "thorough" {
		rounds = 1000
	}
	onceLost, onceStale, deadSeen := 0, 0, 0
	for r := 0; r < rounds; r++ {
		var fired atomic.Int32
		var sawDead atomic.Int32
		so := []eb.SubscribeOption{eb.Once()}
		if r%4 == 3 {
			so = append(so, eb.Async())
		}
		eb.Subscribe(bus, func(e stO) {
			if e.R < 0 {
				sawDead.Add(1)
			}
			fired.Add(1)
		}, so...)
		guard(func() { eb.Publish(bus, stO{r}) })
		bus.Wait()
		if fired.Load() != 1 {
			onceLost++
		}
		if eb.HandlerCount[stO](bus) != 0 {
			onceStale++
			eb.Clear[stO](bus)
		}
		if sawDead.Load() != 0 {
			deadSeen++
		}
	}
	close(stop)
	spin.Wait()
	// ---- phase 3: two goroutines unsubscribe and re-subscribe different handlers of one type; a probe event must then
	// reach every handler exactly once (a removal by a stale position would drop one and keep another twice) ----
	type stP struct{ R int }
	var probe [4]atomic.Int32
	pf := [4]func(stP){
		func(stP) { probe[0].Add(1) }, func(stP) { probe[1].Add(1) }, func(stP) { probe[2].Add(1) }, func(stP) { probe[3].Add(1) }}
	for k := 0; k < 4; k++ {
		eb.Subscribe(bus, pf[k])
	}
	iters := 400
	if tier == "thorough" {
		iters = 3000
	}
	var cw sync.WaitGroup
	for _, k := range []int{0, 2} {
		cw.Add(1)
		go func(k int) {
			defer cw.Done()
			for i := 0; i < iters; i++ {
				guard(func() { eb.Unsubscribe[stP](bus, pf[k]) })
				guard(func() { eb.Subscribe(bus, pf[k]) })
			}
		}(k)
	}
	cw.Wait()
	guard(func() { eb.Publish(bus, stP{0}) })
	probeBad := 0
	for k := range probe {
		if probe[k].Load() != 1 {
			probeBad++
		}
	}
	if eb.HandlerCount[stP](bus) != 4 {
		probeBad += 10
	}
	// ---- phase 4: a freshly subscribed synchronous Sequential handler whose first events arrive from several goroutines
	// at once must not overlap itself ----
	type stS struct{ R int }
	seqRounds := 60
	if tier == "thorough" {
		seqRounds = 400
	}
	freshOverlap := 0
	for r := 0; r < seqRounds; r++ {
		var inside, over atomic.Int32
		hfn := func(e stS) {
			if inside.Add(1) != 1 {
				over.Add(1)
			}
			for k := 0; k < 20; k++ {
				runtime.Gosched()
			}
			inside.Add(-1)
		}
		eb.Subscribe(bus, hfn, eb.Sequential())
		gate := make(chan struct{})
		var pw sync.WaitGroup
		for g := 0; g < 4; g++ {
			pw.Add(1)
			go func() {
				defer pw.Done()
				<-gate
				guard(func() { eb.Publish(bus, stS{r}) })
			}()
		}
		close(gate)
		pw.Wait()
		if over.Load() != 0 {
			freshOverlap++
		}
		eb.Clear[stS](bus)
	}
	// ---- phase 5: one goroutine publishes a burst to a fresh Async+Sequential handler, which must process it in
	// publish order however the delivery goroutines are scheduled (every other round on a single P, where the most
	// recently started goroutine runs first) ----
	type stQ struct{ R, I int }
	burstRounds := 30
	if tier == "thorough" {
		burstRounds = 200
	}
	burstBad := 0
	for r := 0; r < burstRounds; r++ {
		var bmu sync.Mutex
		var got []int
		eb.Subscribe(bus, func(e stQ) {
			bmu.Lock()
			got = append(got, e.I)
			bmu.Unlock()
			if e.I == 0 { // keep the first delivery busy so that the others queue up behind it
				for k := 0; k < 30; k++ {
					runtime.Gosched()
				}
			} else if e.I%2 == 0 {
				runtime.Gosched()
			}
		}, eb.Async(), eb.Sequential())
		if r%2 == 0 {
			runtime.GOMAXPROCS(1)
		}
		// every third round: some of the events are published with a cancelled context (not processed at all; the
		// live ones around them must still come in publish order)
		var want []int
		for i := 0; i < 8; i++ {
			if r%3 == 2 && (i == 3 || i == 6) {
				guard(func() { eb.PublishContext(bus, dead, stQ{r, i}) })
				continue
			}
			want = append(want, i)
			guard(func() { eb.Publish(bus, stQ{r, i}) })
		}
		bus.Wait()
		if r%2 == 0 {
			runtime.GOMAXPROCS(procs)
		}
		bad := len(got) != len(want)
		for i, n := range got {
			if i >= len(want) || n != want[i] {
				bad = true
			}
		}
		if bad {
			burstBad++
		}
		eb.Clear[stQ](bus)
	}
	// ---- phase 6 (own bus): ClearAll races with an Unsubscribe that is scanning a long handler list of the same type;
	// once both have returned the registry must be empty and stay empty (a map swapped under the scan would bring the
	// cleared handlers back) ----
	type stC struct{ R int }
	clearRounds, fillers := 6, 1500
	if tier == "thorough" {
		clearRounds = 25
	}
	resurrected := 0
	for r := 0; r < clearRounds; r++ {
		cb := eb.New()
		var later atomic.Int32
		for k := 0; k < fillers; k++ {
			eb.Subscribe(cb, func(stC) { later.Add(1) })
		}
		target := func(stC) { later.Add(1) }
		eb.Subscribe(cb, target)
		ready := make(chan struct{})
		var cw2 sync.WaitGroup
		cw2.Add(2)
		go func() {
			defer cw2.Done()
			close(ready)
			guard(func() { eb.Unsubscribe[stC](cb, target) })
		}()
		go func() {
			defer cw2.Done()
			<-ready
			guard(func() { eb.ClearAll(cb) })
		}()
		cw2.Wait()
		guard(func() { eb.Publish(cb, stC{r}) })
		if eb.HandlerCount[stC](cb) != 0 || eb.HasHandlers[stC](cb) || later.Load() != 0 {
			resurrected++
		}
	}
	// ---- observations ----
	misorder := 0
	var stT []T
	for _, h := range stable {
		h.mu.Lock()
		total, bad := 0, 0
		for g := 0; g < G; g++ {
			for i := 0; i < M; i++ {
				n := h.seen[stE{g, i}]
				total += n
				if n != 1 {
					bad++
				}
			}
		}
		misorder += h.misorder
		h.mu.Unlock()
		stT = append(stT, Tup(Nat(total), Nat(bad), Nat(int(h.overlaps.Load()))))
	}
	var onceT []T
	for i := range fires {
		onceT = append(onceT, Nat(int(fires[i].Load())))
	}
	tags := []string{"churn" + string(rune('0'+churn))}
	for _, k := range kinds {
		tags = append(tags, []string{"sync", "async", "sequential", "async-sequential"}[k])
	}
	if withStore {
		tags = append(tags, "store")
	}
	sort.Strings(tags)
	return Case{Input: Tup(Nat(nst), Nat(nonce), Nat(G*M), B(withStore)),
		Obs: C("Build_stobs", L(stT...), L(onceT...), Nat(eb.HandlerCount[stE](bus)), Nat(records), Nat(disorder), Nat(int(escaped.Load())),
			Nat(onceLost), Nat(onceStale), Nat(deadSeen), Nat(probeBad), Nat(freshOverlap), Nat(misorder), Nat(burstBad), Nat(resurrected)),
		Tags:       tags,
		Nontrivial: true}
}

func init() {
	register(&Family{Name: "busstress", Quick: 300, Thorough: 5000, Directed: 0, Run: runBusStress})
}
