package main

// Waitstress family (supporting C06, C03): free-running.  Several goroutines publish to asynchronous handlers and call
// Wait; after every Wait a goroutine checks that the handlers of all events it had published before the call - and the
// handlers of what those handlers published - have finished.  The count of running handlers keeps touching zero while other goroutines publish - the window inside the
// counter that the controller cannot reach.  A watchdog reports a Wait that never returns.

import (
	"context"
	"math/rand"
	"runtime"
	"sync"
	"sync/atomic"
	"time"

	eb "github.com/jilio/ebu"
)

type wsE struct {
	G, I int
	N    bool // published by a handler (of the other type)
}
type wsF struct {
	G, I int
	N    bool
}

func runWaitStress(rng *rand.Rand, idx int, tier string) Case {
	G := 2 + rng.Intn(5)
	K := 150 + rng.Intn(300)
	if tier == "thorough" {
		K = 500 + rng.Intn(1500)
	}
	every := 1 + rng.Intn(3)
	procs := []int{2, 4, 16}[rng.Intn(3)]
	old := runtime.GOMAXPROCS(procs)
	defer runtime.GOMAXPROCS(old)
	bus := eb.New()
	done := make([][]atomic.Bool, G)
	for g := range done {
		done[g] = make([]atomic.Bool, K)
	}
	nh := 1 + rng.Intn(2)
	// half of the runs: the handlers are Async+Sequential (deliveries queue up behind each other), and some events are
	// published with a context that is already cancelled (they are skipped; Wait must still return)
	seqAll := rng.Intn(2) == 0
	deadEvery := 4 + rng.Intn(5)
	isDead := func(i int) bool { return seqAll && i%deadEvery == deadEvery-1 }
	dead, cancelDead := context.WithCancel(context.Background())
	cancelDead()
	// nested asynchronous work across two event types, in both directions (the types live in different lock shards):
	// the first handler of an event with I%4==1 publishes a wsF, the handler of a directly published wsF (I%4==3)
	// publishes a wsE; Wait must cover the nested handlers too
	doneN := make([][]atomic.Bool, G)
	for g := range doneN {
		doneN[g] = make([]atomic.Bool, K)
	}
	hasNested := func(i int) bool { return !isDead(i) && (i%4 == 1 || i%4 == 3) }
	var running atomic.Int64
	eb.Subscribe(bus, func(e wsF) {
		running.Add(1)
		runtime.Gosched()
		if e.N {
			doneN[e.G][e.I].Store(true)
		} else {
			done[e.G][e.I].Store(true)
			eb.Publish(bus, wsE{e.G, e.I, true})
		}
		running.Add(-1)
	}, eb.Async())
	for h := 0; h < nh; h++ {
		first := h == 0
		eb.Subscribe(bus, func(e wsE) {
			running.Add(1)
			if e.I%2 == 0 {
				runtime.Gosched()
			}
			if first {
				if e.N {
					doneN[e.G][e.I].Store(true)
				} else {
					done[e.G][e.I].Store(true)
					if e.I%4 == 1 {
						eb.Publish(bus, wsF{e.G, e.I, true})
					}
				}
			}
			running.Add(-1)
		}, func() []eb.SubscribeOption {
			if seqAll {
				return []eb.SubscribeOption{eb.Async(), eb.Sequential()}
			}
			return []eb.SubscribeOption{eb.Async()}
		}()...)
	}
	var early, escaped atomic.Int64
	finished := make(chan struct{})
	go func() {
		var wg sync.WaitGroup
		for g := 0; g < G; g++ {
			wg.Add(1)
			go func(g int) {
				defer wg.Done()
				defer func() {
					if recover() != nil {
						escaped.Add(1)
					}
				}()
				for i := 0; i < K; i++ {
					switch {
					case isDead(i):
						eb.PublishContext(bus, dead, wsE{g, i, false})
					case i%4 == 3:
						eb.Publish(bus, wsF{g, i, false})
					default:
						eb.Publish(bus, wsE{g, i, false})
					}
					if i%every == 0 {
						bus.Wait()
						for j := 0; j <= i; j++ {
							if !isDead(j) && (!done[g][j].Load() || (hasNested(j) && !doneN[g][j].Load())) {
								early.Add(1)
								break
							}
						}
					}
				}
			}(g)
		}
		wg.Wait()
		bus.Wait()
		close(finished)
	}()
	stuck := false
	select {
	case <-finished:
	case <-time.After(30 * time.Second):
		stuck = true
	}
	return Case{Input: Tup(Nat(G), Nat(min(K, 4000)), Nat(every)),
		Obs: C("Build_wsobs", Nat(int(min(early.Load(), 4000))), B(stuck), Nat(int(escaped.Load())), Nat(int(running.Load()))),
		Tags: func() []string {
			t := []string{"goroutines" + string(rune('0'+G))}
			if seqAll {
				t = append(t, "async-sequential", "cancelled-publishes")
			}
			return t
		}(),
		Nontrivial: true}
}

func init() {
	register(&Family{Name: "waitstress", Quick: 40, Thorough: 400, Directed: 0, Run: runWaitStress})
}
