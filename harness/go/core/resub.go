package main

// Resub family (C12): histories of publish / SubscribeWithReplay / restart on a real bus over a real store, with the
// process dying after any individual store operation or handler delivery and any single store operation failing.
// A store wrapper counts ticks exactly as Store/ResubModel.v does; a "dead" process touches nothing durable any more.

import (
	"context"
	"encoding/json"
	"errors"
	"fmt"
	"iter"
	"math/rand"
	"os"
	"sort"

	eb "github.com/jilio/ebu"
	sqlite "github.com/jilio/ebu/stores/sqlite"
)

type rsA struct{ V int }
type rsB struct{ V int }

var errRsDead = errors.New("verif: process is dead")
var errRsFault = errors.New("verif: injected store failure")

type tickCtl struct {
	dead   bool
	tickno int
	budget int // -1: none
	failat int // -1: none
	kinds  map[string]int
}

func (t *tickCtl) begin(budget, failat int) {
	t.tickno, t.budget, t.failat = 0, budget, failat
	if budget == 0 {
		t.dead = true
	}
}

func (t *tickCtl) tick(kind string) (perform, fail bool) {
	if t.dead {
		return false, false
	}
	fail = t.failat >= 0 && t.failat == t.tickno
	if t.budget == 0 || t.budget == 1 {
		t.dead = true
	}
	if t.budget > 0 {
		t.budget--
	}
	t.tickno++
	if fail {
		t.kinds["fail-"+kind]++
	}
	if t.dead {
		t.kinds["die-after-"+kind]++
	}
	return true, fail
}

type rsInner interface {
	eb.EventStore
	eb.EventStoreStreamer
	eb.SubscriptionStore
}

// faultStore implements EventStore, EventStoreStreamer and SubscriptionStore over a bundled store
type faultStore struct {
	inner rsInner
	ctl   *tickCtl
}

func (f *faultStore) Append(ctx context.Context, e *eb.Event) (eb.Offset, error) {
	p, fl := f.ctl.tick("append")
	if !p {
		return "", errRsDead
	}
	if fl {
		return "", errRsFault
	}
	return f.inner.Append(ctx, e)
}

func (f *faultStore) Read(ctx context.Context, from eb.Offset, limit int) ([]*eb.StoredEvent, eb.Offset, error) {
	panic("verif: Replay is expected to use the streaming path of the bundled stores")
}

func (f *faultStore) ReadStream(ctx context.Context, from eb.Offset) iter.Seq2[*eb.StoredEvent, error] {
	return func(yield func(*eb.StoredEvent, error) bool) {
		p, fl := f.ctl.tick("open-stream")
		if !p {
			yield(nil, errRsDead)
			return
		}
		if fl {
			yield(nil, errRsFault)
			return
		}
		for ev, err := range f.inner.ReadStream(ctx, from) {
			if err != nil {
				yield(nil, err)
				return
			}
			p, fl := f.ctl.tick("fetch")
			if !p {
				yield(nil, errRsDead)
				return
			}
			if fl {
				yield(nil, errRsFault)
				return
			}
			if !yield(ev, nil) {
				return
			}
		}
	}
}

func (f *faultStore) SaveOffset(ctx context.Context, id string, o eb.Offset) error {
	p, fl := f.ctl.tick("save-offset")
	if !p {
		return errRsDead
	}
	if fl {
		return errRsFault
	}
	return f.inner.SaveOffset(ctx, id, o)
}

func (f *faultStore) LoadOffset(ctx context.Context, id string) (eb.Offset, error) {
	p, fl := f.ctl.tick("load-offset")
	if !p {
		return "", errRsDead
	}
	if fl {
		return "", errRsFault
	}
	return f.inner.LoadOffset(ctx, id)
}

type rsOp struct {
	kind   int // 0 pub, 1 sub, 2 restart, 3 two overlapping publishes then the process dies
	val2   int
	ty     int
	val    int
	id     int
	inner  [][3]int // k, ty, val
	budget int
	failat int
}

func (o rsOp) term() T {
	var op T
	switch o.kind {
	case 0:
		op = C("OPub", Nat(o.ty), Nat(o.val))
	case 1:
		var in []T
		for _, x := range o.inner {
			in = append(in, Tup(Nat(x[0]), Nat(x[1]), Nat(x[2])))
		}
		op = C("OSub", Nat(o.id), L(in...))
	case 3:
		op = C("OPub", Nat(o.ty), Nat(o.val)) // stand-in in the history; the pair itself travels in the input record
	default:
		op = C("ORestart")
	}
	optn := func(v int) T {
		if v < 0 {
			return None()
		}
		return Some(Nat(v))
	}
	return Tup(op, C("Build_plan", optn(o.budget), optn(o.failat)))
}

var rsTys = []int{0, 1, 0} // subscription id -> event type

type rsRun struct {
	kind    string
	inner   rsInner
	path    string
	ctl     *tickCtl
	bus     *eb.EventBus
	live    map[int]bool
	dels    [][2]int
	obs     []T
	tags    map[string]bool
	anomaly int
	pair    *rsPair
	subOpt  bool
	ds      *dsEnv // kind "ds": the durable-streams server and the offsets' store, kept across restarts
	dsSubs  *eb.MemoryStore
}

// two publishers overlapping: while the live handler is handling v1 a second goroutine publishes v2 and gets as far as
// the entry of its own delivery; then the first delivery finishes (its save sees the second append) and the process dies
type rsPair struct {
	ty, v1, v2 int
	started    chan struct{}
	release    chan struct{}
	done       chan struct{}
}

func (r *rsRun) open() {
	if r.kind == "ds" {
		r.openDS()
		return
	}
	switch r.kind {
	case "mem":
		if r.inner == nil {
			r.inner = eb.NewMemoryStore()
		}
	case "sqlite-file":
		if r.inner != nil {
			r.inner.(*sqlite.SQLiteStore).Close()
		}
		s, err := sqlite.New(r.path)
		if err != nil {
			panic(err)
		}
		r.inner = s
	case "sqlite-mem":
		if r.inner == nil {
			s, err := sqlite.New(":memory:")
			if err != nil {
				panic(err)
			}
			r.inner = s
		}
	}
	r.ctl.dead = false
	r.ctl.begin(-1, -1)
	fs := &faultStore{inner: r.inner, ctl: r.ctl}
	if r.subOpt { // the explicit option instead of the store's own SubscriptionStore implementation
		r.bus = eb.New(eb.WithStore(fs), eb.WithSubscriptionStore(fs))
	} else {
		r.bus = eb.New(eb.WithStore(fs))
	}
	r.live = map[int]bool{}
}

func (r *rsRun) publish(ty, val int) {
	if ty == 0 {
		eb.Publish(r.bus, rsA{val})
	} else {
		eb.Publish(r.bus, rsB{val})
	}
}

func (r *rsRun) handler(id int, inner [][3]int, k *int) func(v int) {
	return func(v int) {
		if pr := r.pair; pr != nil && v == pr.v2 {
			close(pr.started) // the second publisher has appended and reached its delivery
			<-pr.release
		}
		p, _ := r.ctl.tick("deliver")
		if !p {
			return
		}
		if pr := r.pair; pr != nil && v == pr.v1 {
			go func() { r.publish(pr.ty, pr.v2); close(pr.done) }()
			<-pr.started
		}
		r.dels = append(r.dels, [2]int{id, v})
		if k != nil {
			for _, x := range inner {
				if x[0] == *k {
					r.tags["publish-during-replay"] = true
					r.publish(x[1], x[2])
				}
			}
			*k++
		}
	}
}

func (r *rsRun) subscribe(id int, inner [][3]int) (err error) {
	defer func() {
		if x := recover(); x != nil {
			err = fmt.Errorf("panic: %v", x)
			r.anomaly = 997
		}
	}()
	ctx := context.Background()
	name := fmt.Sprintf("sub%d", id)
	k := new(int)
	replaying := true
	if rsTys[id] == 0 {
		h := r.handler(id, inner, k)
		hl := r.handler(id, nil, nil)
		err = eb.SubscribeWithReplay(ctx, r.bus, name, func(e rsA) {
			if replaying {
				h(e.V)
			} else {
				hl(e.V)
			}
		})
	} else {
		h := r.handler(id, inner, k)
		hl := r.handler(id, nil, nil)
		err = eb.SubscribeWithReplay(ctx, r.bus, name, func(e rsB) {
			if replaying {
				h(e.V)
			} else {
				hl(e.V)
			}
		})
	}
	replaying = false
	return err
}

// positions of the saved offsets, read from the bundled store directly
func (r *rsRun) savedPositions() []T {
	if r.kind == "ds" {
		return r.savedPositionsDS()
	}
	ctx := context.Background()
	evs, _, err := r.inner.Read(ctx, eb.OffsetOldest, 0)
	if err != nil {
		r.anomaly = 998
	}
	var out []T
	for id := range rsTys {
		o, err := r.inner.LoadOffset(ctx, fmt.Sprintf("sub%d", id))
		if err != nil {
			r.anomaly = 998
		}
		pos := 0
		if o != eb.OffsetOldest {
			pos = 999
			for i, e := range evs {
				if e.Offset == o {
					pos = i + 1
				}
			}
		}
		out = append(out, Nat(pos))
	}
	return out
}

func (r *rsRun) do(o rsOp) {
	r.dels = nil
	errFlag := false
	switch o.kind {
	case 2:
		r.open()
	case 0:
		r.ctl.begin(o.budget, o.failat)
		r.publish(o.ty, o.val)
	case 3:
		r.ctl.begin(-1, -1)
		r.pair = &rsPair{ty: o.ty, v1: o.val, v2: o.val2, started: make(chan struct{}), release: make(chan struct{}), done: make(chan struct{})}
		r.publish(o.ty, o.val) // returns after the first delivery has saved its offset
		r.ctl.dead = true      // the process dies here
		close(r.pair.release)
		<-r.pair.done
		r.pair = nil
		r.tags["overlapping-publishers"] = true
	case 1:
		if r.live[o.id] {
			errFlag = true
			break
		}
		r.ctl.begin(o.budget, o.failat)
		err := r.subscribe(o.id, o.inner)
		if err != nil {
			errFlag = true
		} else {
			r.live[o.id] = true
		}
	}
	var ds []T
	for _, d := range r.dels {
		ds = append(ds, Tup(Nat(d[0]), Nat(d[1])))
	}
	if r.ctl.dead {
		r.tags["died"] = true
	}
	r.obs = append(r.obs, C("Build_oobs", L(ds...), B(errFlag && !r.ctl.dead), L(r.savedPositions()...), B(r.ctl.dead)))
}

func genResub(rng *rand.Rand, tier string, withInner bool) []rsOp {
	n := 5 + rng.Intn(10)
	if tier == "thorough" {
		n = 5 + rng.Intn(24)
	}
	long := rng.Intn(4) == 0 // logs that grow past ten events (offsets "9" -> "10"), mostly publishes
	if long {
		n = 16 + rng.Intn(14)
	}
	faulty := rng.Intn(10) < 6
	val := 1
	live := map[int]bool{}
	var ops []rsOp
	plan := func(o *rsOp) bool {
		o.budget, o.failat = -1, -1
		if !faulty {
			return false
		}
		died := false
		if rng.Intn(100) < 22 {
			o.budget = rng.Intn(7)
			died = true
		}
		if rng.Intn(100) < 22 {
			o.failat = rng.Intn(6)
			if rng.Intn(3) == 0 {
				o.failat = 0
			}
		}
		return died
	}
	for i := 0; i < n; i++ {
		x := rng.Intn(100)
		if long && x >= 50 && rng.Intn(2) == 0 {
			x = 0
		}
		var o rsOp
		switch {
		case x < 50:
			o = rsOp{kind: 0, ty: rng.Intn(2), val: val}
			val++
		case x < 82:
			id := rng.Intn(len(rsTys))
			if live[id] {
				o = rsOp{kind: 0, ty: rsTys[id], val: val}
				val++
			} else {
				o = rsOp{kind: 1, id: id}
				if withInner && rng.Intn(2) == 0 {
					for j := rng.Intn(3) + 1; j > 0; j-- {
						o.inner = append(o.inner, [3]int{rng.Intn(3), rng.Intn(2), val})
						val++
					}
				}
			}
		default:
			o = rsOp{kind: 2}
		}
		if o.kind == 2 {
			o.budget, o.failat = -1, -1
			ops = append(ops, o)
			live = map[int]bool{}
			continue
		}
		died := plan(&o)
		ops = append(ops, o)
		if o.kind == 1 && o.failat < 0 && !died {
			live[o.id] = true // (may still have failed to register; a second attempt is then rejected by the model too)
		}
		if died {
			ops = append(ops, rsOp{kind: 2, budget: -1, failat: -1})
			live = map[int]bool{}
		}
	}
	// closing: a clean restart and one clean SubscribeWithReplay per id, so that everything persisted must have arrived
	ops = append(ops, rsOp{kind: 2, budget: -1, failat: -1})
	for id := range rsTys {
		ops = append(ops, rsOp{kind: 1, id: id, budget: -1, failat: -1})
	}
	return ops
}

func rsDirected(idx int) []rsOp {
	c := func(o rsOp) rsOp { o.budget, o.failat = -1, -1; return o }
	switch idx {
	case 0: // fresh bus after a restart, live subscription, the first append fails: the saved offset must not regress
		return []rsOp{c(rsOp{kind: 0, ty: 0, val: 1}), c(rsOp{kind: 0, ty: 0, val: 2}), c(rsOp{kind: 1, id: 0}), c(rsOp{kind: 2}),
			c(rsOp{kind: 1, id: 0}), {kind: 0, ty: 0, val: 3, budget: -1, failat: 0}, c(rsOp{kind: 2}), c(rsOp{kind: 1, id: 0}),
			c(rsOp{kind: 1, id: 1}), c(rsOp{kind: 1, id: 2})}
	case 1: // LoadOffset fails: nothing whose position was saved may be delivered again
		return []rsOp{c(rsOp{kind: 0, ty: 0, val: 1}), c(rsOp{kind: 0, ty: 0, val: 2}), c(rsOp{kind: 1, id: 0}), c(rsOp{kind: 2}),
			{kind: 1, id: 0, budget: -1, failat: 0}, c(rsOp{kind: 2}), c(rsOp{kind: 1, id: 0}), c(rsOp{kind: 1, id: 1}), c(rsOp{kind: 1, id: 2})}
	case 10: // (family resubinner) the replay handler publishes an event of its own type: the Coq witness h_inner
		return []rsOp{c(rsOp{kind: 0, ty: 0, val: 1}), c(rsOp{kind: 1, id: 0, inner: [][3]int{{0, 0, 2}}}), c(rsOp{kind: 0, ty: 0, val: 3}),
			c(rsOp{kind: 2}), c(rsOp{kind: 1, id: 0}), c(rsOp{kind: 1, id: 1}), c(rsOp{kind: 1, id: 2})}
	case 2: // the process dies between the handler and the save, in the replay and in the live phase
		return []rsOp{c(rsOp{kind: 0, ty: 0, val: 1}), c(rsOp{kind: 0, ty: 0, val: 2}), {kind: 1, id: 0, budget: 4, failat: -1}, c(rsOp{kind: 2}),
			c(rsOp{kind: 1, id: 0}), {kind: 0, ty: 0, val: 3, budget: 2, failat: -1}, c(rsOp{kind: 2}), c(rsOp{kind: 1, id: 0}),
			c(rsOp{kind: 1, id: 1}), c(rsOp{kind: 1, id: 2})}
	}
	return nil
}

func runResub(kind string, withInner bool, directed int) func(rng *rand.Rand, idx int, tier string) Case {
	return func(rng *rand.Rand, idx int, tier string) Case {
		for i := 0; i < len(kind)+3; i++ { // different histories per store kind
			rng.Int63()
		}
		var ops []rsOp
		if withInner && idx == 0 {
			ops = rsDirected(10)
		} else if idx < directed {
			ops = rsDirected(idx)
		} else {
			ops = genResub(rng, tier, withInner)
		}
		r := &rsRun{kind: kind, ctl: &tickCtl{budget: -1, failat: -1, kinds: map[string]int{}}, tags: map[string]bool{}, subOpt: idx%2 == 1}
		if kind == "sqlite-file" {
			dir := os.Getenv("VERIF_TMP")
			if dir == "" {
				dir = os.TempDir()
			}
			f, err := os.CreateTemp(dir, "vresub-*.db")
			if err != nil {
				panic(err)
			}
			f.Close()
			os.Remove(f.Name())
			r.path = f.Name()
			defer func() {
				for _, p := range []string{r.path, r.path + "-wal", r.path + "-shm"} {
					os.Remove(p)
				}
			}()
		}
		r.open()
		var in []T
		for _, o := range ops {
			in = append(in, o.term())
			r.do(o)
		}
		// the final log, from the bundled store
		var logT []T
		evs, _, err := r.inner.Read(context.Background(), eb.OffsetOldest, 0)
		if err != nil {
			r.anomaly = 998
		}
		for _, e := range evs {
			ty := 0
			if e.Type == eb.EventType(rsB{}) {
				ty = 1
			}
			var v struct{ V int }
			if json.Unmarshal(e.Data, &v) != nil {
				r.anomaly = 996
			}
			logT = append(logT, C("Build_ev", Nat(ty), Nat(v.V)))
		}
		if c, ok := r.inner.(interface{ Close() error }); ok {
			c.Close()
		}
		for k := range r.ctl.kinds {
			r.tags[k] = true
		}
		var tl []string
		for k := range r.tags {
			tl = append(tl, k)
		}
		sort.Strings(tl)
		return Case{Input: C("Build_rinput", NatL(rsTys), L(in...)),
			Obs:        C("Build_robs", L(r.obs...), L(logT...), Nat(r.anomaly)),
			Tags:       tl,
			Nontrivial: true}
	}
}

// resubrace: a prefix, the overlapping pair with the crash, a restart and a suffix
func runResubRace(kind string) func(rng *rand.Rand, idx int, tier string) Case {
	return func(rng *rand.Rand, idx int, tier string) Case {
		c := func(o rsOp) rsOp { o.budget, o.failat = -1, -1; return o }
		val := 1
		var pre, post []rsOp
		for i := rng.Intn(4); i > 0; i-- {
			pre = append(pre, c(rsOp{kind: 0, ty: rng.Intn(2), val: val}))
			val++
		}
		pre = append(pre, c(rsOp{kind: 1, id: 0}))
		for i := rng.Intn(3); i > 0; i-- {
			pre = append(pre, c(rsOp{kind: 0, ty: rng.Intn(2), val: val}))
			val++
		}
		pair := rsOp{kind: 3, ty: 0, val: val, val2: val + 1, budget: -1, failat: -1}
		val += 2
		post = append(post, c(rsOp{kind: 2}), c(rsOp{kind: 1, id: 0}))
		for i := rng.Intn(3); i > 0; i-- {
			post = append(post, c(rsOp{kind: 0, ty: rng.Intn(2), val: val}))
			val++
		}
		post = append(post, c(rsOp{kind: 2}))
		for id := range rsTys {
			post = append(post, c(rsOp{kind: 1, id: id}))
		}
		r := &rsRun{kind: kind, ctl: &tickCtl{budget: -1, failat: -1, kinds: map[string]int{}}, tags: map[string]bool{}}
		if kind == "sqlite-file" {
			dir := os.Getenv("VERIF_TMP")
			if dir == "" {
				dir = os.TempDir()
			}
			f, err := os.CreateTemp(dir, "vresubr-*.db")
			if err != nil {
				panic(err)
			}
			f.Close()
			os.Remove(f.Name())
			r.path = f.Name()
			defer func() {
				for _, p := range []string{r.path, r.path + "-wal", r.path + "-shm"} {
					os.Remove(p)
				}
			}()
		}
		r.open()
		var preT, postT []T
		for _, o := range pre {
			preT = append(preT, o.term())
			r.do(o)
		}
		r.do(pair)
		for _, o := range post {
			postT = append(postT, o.term())
			r.do(o)
		}
		var logT []T
		evs, _, err := r.inner.Read(context.Background(), eb.OffsetOldest, 0)
		if err != nil {
			r.anomaly = 998
		}
		for _, e := range evs {
			ty := 0
			if e.Type == eb.EventType(rsB{}) {
				ty = 1
			}
			var v struct{ V int }
			if json.Unmarshal(e.Data, &v) != nil {
				r.anomaly = 996
			}
			logT = append(logT, C("Build_ev", Nat(ty), Nat(v.V)))
		}
		if cl, ok := r.inner.(interface{ Close() error }); ok {
			cl.Close()
		}
		return Case{Input: C("Build_rrinput", NatL(rsTys), L(preT...), Nat(pair.ty), Nat(pair.val), Nat(pair.val2), L(postT...)),
			Obs:        C("Build_robs", L(r.obs...), L(logT...), Nat(r.anomaly)),
			Tags:       []string{"overlapping-publishers", "store-" + kind},
			Nontrivial: true}
	}
}

func init() {
	register(&Family{Name: "resubrace", Quick: 30, Thorough: 400, Directed: 0, Run: runResubRace("mem")})
	register(&Family{Name: "resubracesqlite", Quick: 15, Thorough: 200, Directed: 0, Run: runResubRace("sqlite-file")})
	register(&Family{Name: "resubmem", Quick: 300, Thorough: 6000, Directed: 3, Run: runResub("mem", false, 3)})
	register(&Family{Name: "resubsqlite", Quick: 80, Thorough: 1500, Directed: 3, Run: runResub("sqlite-file", false, 3)})
	register(&Family{Name: "resubsqlitemem", Quick: 80, Thorough: 1500, Directed: 3, Run: runResub("sqlite-mem", false, 3)})
	register(&Family{Name: "resubinner", Quick: 100, Thorough: 2000, Directed: 0, Run: runResub("mem", true, 0)})
}
