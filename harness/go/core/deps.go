package main

import (
	_ "github.com/ahimsalabs/durable-streams-go/durablestream/memorystorage"
	_ "github.com/jilio/ebu/otel"
	_ "github.com/jilio/ebu/stores/durablestream"
	_ "github.com/jilio/ebu/stores/sqlite"
	_ "go.opentelemetry.io/otel/sdk/metric"
	_ "go.opentelemetry.io/otel/sdk/trace/tracetest"
)
