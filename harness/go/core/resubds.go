package main

// Resubds family (C12 on the third store): the same histories as the resub family, with the events in a durable-streams
// stream (in-process server, kept across restarts) and the subscription offsets in a MemoryStore (kept across restarts).
// The durable-streams store has no streaming read, so Replay pages through Read; the ticks are: append, read (one per
// page), save-offset, load-offset and the handler deliveries - as Store/ResubDs.v counts them.

import (
	"context"
	"encoding/json"
	"math/rand"
	"sort"
	"strconv"
	"strings"

	eb "github.com/jilio/ebu"
)

// faultStoreDS implements EventStore (not EventStoreStreamer) and SubscriptionStore
type faultStoreDS struct {
	env  *dsEnv
	subs *eb.MemoryStore
	ctl  *tickCtl
}

func (f *faultStoreDS) Append(ctx context.Context, e *eb.Event) (eb.Offset, error) {
	p, fl := f.ctl.tick("append")
	if !p {
		return "", errRsDead
	}
	if fl {
		return "", errRsFault
	}
	return f.env.store.Append(ctx, e)
}

func (f *faultStoreDS) Read(ctx context.Context, from eb.Offset, limit int) ([]*eb.StoredEvent, eb.Offset, error) {
	p, fl := f.ctl.tick("read")
	if !p {
		return nil, from, errRsDead
	}
	if fl {
		return nil, from, errRsFault
	}
	return f.env.store.Read(ctx, from, limit)
}

func (f *faultStoreDS) SaveOffset(ctx context.Context, id string, o eb.Offset) error {
	p, fl := f.ctl.tick("save-offset")
	if !p {
		return errRsDead
	}
	if fl {
		return errRsFault
	}
	return f.subs.SaveOffset(ctx, id, o)
}

func (f *faultStoreDS) LoadOffset(ctx context.Context, id string) (eb.Offset, error) {
	p, fl := f.ctl.tick("load-offset")
	if !p {
		return "", errRsDead
	}
	if fl {
		return "", errRsFault
	}
	return f.subs.LoadOffset(ctx, id)
}

// the position a saved offset resumes from: the server offset before any "/<index>" suffix (the in-process server's
// offsets are message counts)
func dsResumePos(o eb.Offset) (int, bool) {
	s := string(o)
	if s == string(eb.OffsetOldest) {
		return 0, true
	}
	if i := strings.IndexByte(s, '/'); i >= 0 {
		s = s[:i]
	}
	n, err := strconv.Atoi(s)
	if err != nil || n < 0 {
		return 999, false
	}
	return n, true
}

func (r *rsRun) openDS() {
	if r.ds == nil {
		r.ds = newDsEnv(0, "resub")
		r.dsSubs = eb.NewMemoryStore()
	}
	r.ctl.dead = false
	r.ctl.begin(-1, -1)
	fs := &faultStoreDS{env: r.ds, subs: r.dsSubs, ctl: r.ctl}
	if r.subOpt {
		r.bus = eb.New(eb.WithStore(fs), eb.WithSubscriptionStore(fs))
	} else {
		r.bus = eb.New(eb.WithStore(fs))
	}
	r.live = map[int]bool{}
}

func (r *rsRun) savedPositionsDS() []T {
	ctx := context.Background()
	var out []T
	for id := range rsTys {
		o, err := r.dsSubs.LoadOffset(ctx, "sub"+strconv.Itoa(id))
		if err != nil {
			r.anomaly = 998
		}
		pos, ok := dsResumePos(o)
		if !ok {
			r.anomaly = 995
		}
		if strings.Contains(string(o), "/") {
			r.tags["synthetic-offset-saved"] = true
		}
		out = append(out, Nat(pos))
	}
	return out
}

func rsDirectedDS(idx int) []rsOp {
	c := func(o rsOp) rsOp { o.budget, o.failat = -1, -1; return o }
	closing := []rsOp{c(rsOp{kind: 2}), c(rsOp{kind: 1, id: 0}), c(rsOp{kind: 1, id: 1}), c(rsOp{kind: 1, id: 2})}
	switch idx {
	case 0: // the process dies after the first event of a replayed chunk has been handled and its (synthetic) offset saved
		return append([]rsOp{c(rsOp{kind: 0, ty: 0, val: 1}), c(rsOp{kind: 0, ty: 0, val: 2}), c(rsOp{kind: 0, ty: 0, val: 3}),
			{kind: 1, id: 0, budget: 4, failat: -1}}, closing...)
	case 1: // the second page read fails after a whole chunk has been handled
		return append([]rsOp{c(rsOp{kind: 0, ty: 0, val: 1}), c(rsOp{kind: 0, ty: 1, val: 2}), c(rsOp{kind: 0, ty: 0, val: 3}),
			{kind: 1, id: 0, budget: -1, failat: 6}, c(rsOp{kind: 0, ty: 0, val: 4})}, closing...)
	case 2: // the replay handler publishes an event of its own type: the next page picks it up
		return append([]rsOp{c(rsOp{kind: 0, ty: 0, val: 1}), c(rsOp{kind: 1, id: 0, inner: [][3]int{{0, 0, 2}}}), c(rsOp{kind: 0, ty: 0, val: 3})}, closing...)
	}
	return nil
}

func runResubDS(withInner bool, directed int) func(rng *rand.Rand, idx int, tier string) Case {
	return func(rng *rand.Rand, idx int, tier string) Case {
		for i := 0; i < 11; i++ {
			rng.Int63()
		}
		var ops []rsOp
		if idx < directed {
			ops = rsDirectedDS(idx)
		} else {
			ops = genResub(rng, tier, withInner)
		}
		r := &rsRun{kind: "ds", ctl: &tickCtl{budget: -1, failat: -1, kinds: map[string]int{}}, tags: map[string]bool{}, subOpt: idx%2 == 1}
		r.open()
		defer r.ds.srv.Close()
		var in []T
		for _, o := range ops {
			in = append(in, o.term())
			r.do(o)
		}
		var logT []T
		evs, _, err := r.ds.store.Read(context.Background(), eb.OffsetOldest, 0)
		if err != nil {
			r.anomaly = 998
		}
		for _, e := range evs {
			ty := 0
			if e.Type == eb.EventType(rsB{}) {
				ty = 1
			}
			var v struct{ V int }
			if json.Unmarshal(e.Data, &v) != nil {
				r.anomaly = 996
			}
			logT = append(logT, C("Build_ev", Nat(ty), Nat(v.V)))
		}
		for k := range r.ctl.kinds {
			r.tags[k] = true
		}
		var tl []string
		for k := range r.tags {
			tl = append(tl, k)
		}
		sort.Strings(tl)
		return Case{Input: C("Build_rinput", NatL(rsTys), L(in...)),
			Obs:        C("Build_robs", L(r.obs...), L(logT...), Nat(r.anomaly)),
			Tags:       tl,
			Nontrivial: true}
	}
}

func init() {
	register(&Family{Name: "resubds", Quick: 150, Thorough: 3000, Directed: 3, Run: runResubDS(false, 3)})
	register(&Family{Name: "resubdsinner", Quick: 80, Thorough: 1500, Directed: 0, Run: runResubDS(true, 0)})
}
