package main

// State family (C18, C19): Materializer.Apply / Replay against coq/Corr/CorrState.v.

import (
	"context"
	"encoding/json"
	"fmt"
	"math"
	"math/rand"
	"reflect"
	"sort"
	"strconv"
	"strings"
	"time"

	eb "github.com/jilio/ebu"
	"github.com/jilio/ebu/state"
)

type inner struct {
	A string         `json:"a"`
	B []float64      `json:"b"`
	C map[string]int `json:"c"`
}
type richEnt struct {
	V int               `json:"V"`
	S string            `json:"S"`
	F float64           `json:"F"`
	L []int             `json:"L"`
	M map[string]string `json:"M"`
	P *inner            `json:"P"`
	E struct{}          `json:"E"`
	U uint64            `json:"U"`
}

func richOf(id int) richEnt {
	e := richEnt{V: id}
	switch id % 7 {
	case 1:
		e.S = "héllo 世界 \"q\" \\ /"
		e.L = []int{}
		e.M = map[string]string{}
	case 2:
		e.F = -0.000123456789e-7
		e.L = []int{math.MaxInt64, math.MinInt64, 0}
		e.U = math.MaxUint64
	case 3:
		e.P = &inner{A: "\u0000\u001f ", B: []float64{1e308, 5e-324}, C: map[string]int{"": 0, "k/k": -1}}
	case 4:
		e.M = map[string]string{"a": "<b>&", "é": "\U0001F600"}
		e.P = &inner{}
	case 5:
		e.S = strings.Repeat("x", 300)
		e.F = 1.0
	case 6:
		e.L = []int{1, 2, 3}
		e.P = &inner{B: []float64{}, C: map[string]int{}}
	}
	return e
}
func plainOf(id int) richEnt { return richEnt{V: id} }

// ASCII alias of a string, homomorphic w.r.t. concatenation, identity on printable ASCII except backslash
func alias(s string) string {
	var b strings.Builder
	for _, r := range s {
		if r >= 32 && r <= 126 && r != '\\' {
			b.WriteRune(r)
		} else {
			fmt.Fprintf(&b, "\\u%04x", r)
		}
	}
	return b.String()
}

type stDoc struct {
	kind    string // badroot | control | badchange | change
	ctl     string // reset | snapshot-start | snapshot-end | other
	ty, key string
	op      string // insert | update | delete | other
	val     int
	valOK   bool
	variant int
}

func (d stDoc) term() T {
	switch d.kind {
	case "badroot":
		return C("DBadRoot")
	case "badchange":
		return C("DBadChange")
	case "control":
		return C("DControl", C(map[string]string{"reset": "CtlReset", "snapshot-start": "CtlSnapStart", "snapshot-end": "CtlSnapEnd", "other": "CtlOther"}[d.ctl]))
	}
	op := map[string]string{"insert": "OpInsert", "update": "OpUpdate", "delete": "OpDelete", "other": "OpOther"}[d.op]
	v := None()
	if d.valOK {
		v = Some(Nat(d.val))
	}
	return C("DChange", S(alias(d.ty)), S(alias(d.key)), C(op), v)
}

func (d stDoc) render() []byte {
	q := func(s string) string { b, _ := json.Marshal(s); return string(b) }
	switch d.kind {
	case "badroot":
		return []byte([]string{"", "nope", "[1,2]", "\"str\"", "{\"headers\":", "{\"headers\":{\"control\":\"reset\"}", "7"}[d.variant%7])
	case "badchange":
		return []byte([]string{
			`{"type":5,"key":"k","headers":{"operation":"insert"}}`,
			`{"headers":5}`,
			`{"type":"user","key":{},"headers":{"operation":"insert"}}`,
			`{"type":"user","key":"k","headers":{"operation":7}}`,
			`{"type":"user","key":"k","value":{"V":1},"headers":"x"}`,
		}[d.variant%5])
	case "control":
		c := d.ctl
		if c == "other" {
			c = []string{"compact", "RESET", "snapshot"}[d.variant%3]
		}
		if d.variant%4 == 1 { // hybrid: control header plus change fields; control must win
			return []byte(`{"type":"user","key":"1","value":{"V":99},"headers":{"control":` + q(c) + `,"operation":"insert"}}`)
		}
		if d.variant%4 == 2 {
			return []byte(`{"headers":{"control":` + q(c) + `,"offset":"12"}}`)
		}
		return []byte(`{"headers":{"control":` + q(c) + `}}`)
	}
	op := d.op
	if op == "other" {
		op = []string{"upsert", "", "INSERT"}[d.variant%3]
	}
	val := ""
	if d.op == "insert" || d.op == "update" {
		if d.valOK {
			val = fmt.Sprintf(`,"value":{"V":%d}`, d.val)
		} else {
			val = []string{`,"value":"notanobject"`, ``, `,"value":[1]`, `,"value":{"V":"str"}`}[d.variant%4]
		}
	} else if d.variant%3 == 0 {
		val = `,"value":{"V":5}`
	}
	hdr := `{"operation":` + q(op) + `}`
	if d.variant%5 == 3 {
		hdr = `{"operation":` + q(op) + `,"control":"","txid":"t1"}`
	}
	return []byte(`{"type":` + q(d.ty) + `,"key":` + q(d.key) + val + `,"headers":` + hdr + `}`)
}

type stCase struct {
	strict bool
	types  []string
	docs   []stDoc
	split  int
	ctor   bool
}

var stTypePool = []string{"user", "order", "a", "a/b", "main.richEnt"}
var stKeyPool = []string{"1", "k", "b/c", "a/b", "x/", "/", "2", "c"}
var stKeyPoolU = []string{"1", "k", "b/c", "été", "世/界", "sp ace", "q\"uote", "back\\slash", "\U0001F600"}

func genState(rng *rand.Rand, ctor bool, tier string) *stCase {
	c := &stCase{strict: rng.Intn(4) == 0, ctor: ctor}
	perm := rng.Perm(len(stTypePool))
	nReg := 1 + rng.Intn(3)
	for _, i := range perm[:nReg] {
		c.types = append(c.types, stTypePool[i])
	}
	n := 3 + rng.Intn(22)
	if tier == "thorough" {
		n = 3 + rng.Intn(50)
	}
	keys := stKeyPool
	if ctor {
		keys = stKeyPoolU
	}
	nk := 2 + rng.Intn(len(keys)-1)
	for i := 0; i < n; i++ {
		d := stDoc{variant: rng.Intn(60)}
		r := rng.Intn(100)
		ty := c.types[rng.Intn(len(c.types))]
		if rng.Intn(8) == 0 {
			ty = []string{"ghost", stTypePool[rng.Intn(len(stTypePool))]}[rng.Intn(2)]
		}
		key := keys[rng.Intn(nk)]
		switch {
		case !ctor && r < 4:
			d.kind = "badroot"
		case !ctor && r < 8:
			d.kind = "badchange"
		case r < 18:
			d.kind = "control"
			d.ctl = []string{"reset", "snapshot-start", "snapshot-end", "other"}[rng.Intn(4)]
			if ctor && d.ctl == "other" {
				d.ctl = "reset"
			}
		default:
			d.kind = "change"
			d.ty, d.key = ty, key
			d.op = []string{"insert", "update", "update", "delete", "insert", "other"}[rng.Intn(6)]
			if ctor && d.op == "other" {
				d.op = "update"
			}
			d.val = 1 + rng.Intn(40)
			d.valOK = ctor || rng.Intn(10) != 0
			if d.op == "delete" || d.op == "other" {
				d.valOK = false
			}
		}
		c.docs = append(c.docs, d)
	}
	c.split = rng.Intn(n + 1)
	return c
}

func (c *stCase) input() T {
	ts := []T{}
	for _, t := range c.types {
		ts = append(ts, S(alias(t)))
	}
	ds := []T{}
	for _, d := range c.docs {
		ds = append(ds, d.term())
	}
	return C("Build_sinput", B(c.strict), L(ts...), L(ds...), Nat(c.split))
}

type stMat struct {
	m     *state.Materializer
	colls map[string]*state.TypedCollection[richEnt]
	cbs   []T
}

func newMat(c *stCase) *stMat {
	sm := &stMat{colls: map[string]*state.TypedCollection[richEnt]{}}
	opts := []state.MaterializerOption{
		state.WithOnReset(func() { sm.cbs = append(sm.cbs, C("CbReset")) }),
		state.WithOnSnapshot(func(start bool) { sm.cbs = append(sm.cbs, C("CbSnapshot", B(start))) }),
		state.WithOnError(func(error) { sm.cbs = append(sm.cbs, C("CbError")) }),
	}
	if c.strict {
		opts = append(opts, state.WithStrictSchema())
	}
	sm.m = state.NewMaterializer(opts...)
	for _, t := range c.types {
		var coll *state.TypedCollection[richEnt]
		if t == "main.richEnt" {
			coll = state.NewTypedCollection[richEnt](state.NewMemoryStore[richEnt]())
		} else {
			coll = state.NewTypedCollectionWithType[richEnt](state.NewMemoryStore[richEnt](), t)
		}
		sm.colls[t] = coll
		state.RegisterCollection(sm.m, coll)
	}
	return sm
}

func offPos(o eb.Offset) int {
	if o == "" {
		return 0
	}
	n, err := strconv.Atoi(string(o))
	if err != nil {
		return 4999
	}
	return n
}

func (sm *stMat) snapshot(c *stCase, expect func(int) richEnt) T {
	cs := []T{}
	for _, t := range c.types {
		all := sm.colls[t].All()
		keys := make([]string, 0, len(all))
		for k := range all {
			keys = append(keys, k)
		}
		sort.Strings(keys)
		es := []T{}
		for _, k := range keys {
			v := all[k]
			id := v.V
			if id < 0 || id > 4000 || !reflect.DeepEqual(v, expect(id)) {
				id = 4999
			}
			es = append(es, Tup(S(alias(k)), Nat(id)))
		}
		cs = append(cs, Tup(S(alias(t)), L(es...)))
	}
	return Tup(L(cs...), Nat(offPos(sm.m.LastOffset())))
}

var protoFields = map[string]bool{"type": true, "key": true, "value": true, "old_value": true, "headers": true}
var protoHdr = map[string]bool{"operation": true, "txid": true, "timestamp": true, "control": true, "offset": true}

func fieldsOK(data []byte) bool {
	var top map[string]json.RawMessage
	if json.Unmarshal(data, &top) != nil {
		return false
	}
	for k := range top {
		if !protoFields[k] {
			return false
		}
	}
	var hdr map[string]json.RawMessage
	if json.Unmarshal(top["headers"], &hdr) != nil {
		return false
	}
	for k := range hdr {
		if !protoHdr[k] {
			return false
		}
	}
	_, hasOp := hdr["operation"]
	_, hasCtl := hdr["control"]
	return hasOp != hasCtl
}

func (c *stCase) run(rng *rand.Rand) (T, []string) {
	tags := map[string]bool{}
	ctx := context.Background()
	expect := plainOf
	store := eb.NewMemoryStore()
	bus := eb.New(eb.WithStore(store))
	fok := true
	var datas [][]byte
	if c.ctor {
		expect = richOf
		for _, d := range c.docs {
			if d.kind == "control" {
				var m *state.ControlMessage
				switch d.ctl {
				case "reset":
					m = state.Reset("off-1")
				case "snapshot-start":
					m = state.SnapshotStart("")
				default:
					m = state.SnapshotEnd("5")
				}
				if d.variant%2 == 0 {
					eb.Publish(bus, *m)
				} else {
					eb.Publish(bus, m)
				}
				continue
			}
			var opts []state.ChangeOption
			if d.ty != "main.richEnt" || d.variant%2 == 0 {
				opts = append(opts, state.WithEntityType(d.ty))
			}
			if d.variant%3 == 0 {
				opts = append(opts, state.WithTxID("tx-é"))
			}
			if d.variant%5 == 1 {
				opts = append(opts, state.WithTimestamp(time.Date(2024, 5, 6, 7, 8, 9, 123456789, time.FixedZone("X", 3600))))
			}
			if d.variant%5 == 2 {
				opts = append(opts, state.WithAutoTimestamp())
			}
			var m *state.ChangeMessage
			var err error
			switch d.op {
			case "insert":
				m, err = state.Insert(d.key, richOf(d.val), opts...)
			case "update":
				if d.variant%4 == 0 {
					m, err = state.UpdateWithOldValue(d.key, richOf(d.val), richOf(d.val+1), opts...)
				} else {
					m, err = state.Update(d.key, richOf(d.val), opts...)
				}
			case "delete":
				if d.variant%4 == 0 {
					m, err = state.DeleteWithOldValue(d.key, richOf(d.val), opts...)
				} else {
					m, err = state.Delete[richEnt](d.key, opts...)
				}
			}
			if err != nil {
				panic(err)
			}
			if d.variant%2 == 0 {
				eb.Publish(bus, *m)
			} else {
				eb.Publish(bus, m)
			}
		}
		evs, _, err := store.Read(ctx, eb.OffsetOldest, 0)
		if err != nil || len(evs) != len(c.docs) {
			panic(fmt.Sprint("store read: ", err, len(evs), len(c.docs)))
		}
		for _, e := range evs {
			datas = append(datas, e.Data)
			if !fieldsOK(e.Data) {
				fok = false
			}
		}
	} else {
		for _, d := range c.docs {
			datas = append(datas, d.render())
		}
	}
	// direct application of every event
	dm := newMat(c)
	oks := []T{}
	for i, data := range datas {
		err := dm.m.Apply(&eb.StoredEvent{Offset: eb.Offset(fmt.Sprintf("%020d", i+1)), Type: "x", Data: data})
		oks = append(oks, B(err == nil))
		if err != nil {
			tags["rejected"] = true
		}
	}
	direct := dm.snapshot(c, expect)
	// sessions through bus.Replay on a second store holding the same bytes
	store2 := eb.NewMemoryStore()
	bus2 := eb.New(eb.WithStore(store2))
	tm := newMat(c)
	for i := 0; i < c.split; i++ {
		store2.Append(ctx, &eb.Event{Type: "x", Data: datas[i]})
	}
	e1 := tm.m.Replay(ctx, bus2, eb.OffsetOldest)
	for i := c.split; i < len(datas); i++ {
		store2.Append(ctx, &eb.Event{Type: "x", Data: datas[i]})
	}
	e2 := tm.m.Replay(ctx, bus2, tm.m.LastOffset())
	if e1 != nil || e2 != nil {
		tags["session-error"] = true
	}
	two := tm.snapshot(c, expect)
	om := newMat(c)
	om.m.Replay(ctx, bus2, eb.OffsetOldest)
	one := om.snapshot(c, expect)
	for _, d := range c.docs {
		if d.kind == "control" && d.ctl == "reset" {
			tags["reset"] = true
		}
		if d.kind == "change" && strings.Contains(d.key, "/") {
			tags["sepkey"] = true
		}
		if d.kind == "change" && d.op == "delete" {
			tags["delete"] = true
		}
	}
	if c.split > 0 && c.split < len(datas) {
		tags["split"] = true
	}
	if c.strict {
		tags["strict"] = true
	}
	var tl []string
	for k := range tags {
		tl = append(tl, k)
	}
	sort.Strings(tl)
	return C("Build_sobs", L(oks...), direct, L(dm.cbs...), two, one, B(fok)), tl
}

func directedState(idx int, ctor bool) *stCase {
	ch := func(ty, key, op string, val int, ok bool) stDoc {
		return stDoc{kind: "change", ty: ty, key: key, op: op, val: val, valOK: ok}
	}
	ctl := func(c string) stDoc { return stDoc{kind: "control", ctl: c} }
	if ctor {
		switch idx {
		case 0:
			return &stCase{ctor: true, types: []string{"user", "main.richEnt"}, split: 2, docs: []stDoc{
				ch("user", "été", "insert", 1, true), ch("main.richEnt", "b/c", "insert", 2, true), ch("user", "été", "update", 3, true),
				ctl("snapshot-start"), ch("main.richEnt", "b/c", "delete", 0, false), ctl("snapshot-end"), ch("user", "q\"uote", "insert", 4, true)}}
		case 1: // delete, then the same value again (insert / update with the bytes seen before): the entity must be back
			return &stCase{ctor: true, types: []string{"user", "main.richEnt"}, split: 4, docs: []stDoc{
				ch("user", "k", "insert", 7, true), ch("user", "k", "delete", 0, false), ch("user", "k", "insert", 7, true),
				ch("main.richEnt", "k", "insert", 3, true), ch("main.richEnt", "k", "update", 3, true), ch("main.richEnt", "k", "delete", 0, false),
				ch("main.richEnt", "k", "update", 3, true), ch("user", "k", "update", 7, true)}}
		}
		return nil
	}
	switch idx {
	case 0: // separator keys across two collections whose names nest
		return &stCase{types: []string{"a", "a/b"}, split: 3, docs: []stDoc{
			ch("a", "b/c", "insert", 1, true), ch("a/b", "c", "insert", 2, true), ch("a", "b/c", "delete", 0, false),
			ctl("snapshot-start"), ch("a/b", "c", "update", 7, true)}}
	case 1: // reset empties every collection; rejected events in the middle of sessions
		return &stCase{types: []string{"user", "order"}, split: 2, docs: []stDoc{
			ch("user", "1", "insert", 1, true), ch("order", "1", "insert", 2, true), ch("user", "2", "insert", 3, false),
			ctl("reset"), ch("order", "2", "insert", 4, true), {kind: "badroot"}, ch("user", "1", "update", 5, true)}}
	case 2: // strict mode: unknown type stops a session; resuming stays stuck there
		return &stCase{strict: true, types: []string{"user"}, split: 3, docs: []stDoc{
			ch("user", "1", "insert", 1, true), ch("ghost", "1", "insert", 2, true), ch("user", "1", "update", 3, true)}}
	case 4: // delete, then the same value again: the entity must be back (and the same across a session split)
		return &stCase{types: []string{"user", "order"}, split: 3, docs: []stDoc{
			ch("user", "k", "insert", 7, true), ch("user", "k", "delete", 0, false), ch("user", "k", "insert", 7, true),
			ch("order", "k", "insert", 7, true), ch("order", "k", "delete", 0, false), ch("order", "k", "update", 7, true), ch("user", "k", "update", 7, true)}}
	case 3: // error on the last event of the first session
		return &stCase{types: []string{"user"}, split: 2, docs: []stDoc{
			ch("user", "1", "insert", 1, true), {kind: "badchange"}, ch("user", "1", "update", 3, true), ch("user", "2", "other", 0, false)}}
	}
	return nil
}

func init() {
	mk := func(name string, ctor bool, directed int) {
		register(&Family{Name: name, Quick: 300, Thorough: 5000, Directed: directed,
			Run: func(rng *rand.Rand, idx int, tier string) Case {
				c := directedState(idx, ctor)
				if c == nil {
					c = genState(rng, ctor, tier)
				}
				obs, tags := c.run(rng)
				nt := false
				for _, t := range tags {
					if t == "reset" || t == "delete" || t == "rejected" || t == "sepkey" {
						nt = true
					}
				}
				return Case{Input: c.input(), Obs: obs, Tags: tags, Nontrivial: nt}
			}})
	}
	mk("state", false, 5)
	mk("statector", true, 2)
	register(&Family{Name: "statefuzz", Quick: 2000, Thorough: 100000, Run: runStateFuzz})
}

// arbitrary bytes presented to Apply
func runStateFuzz(rng *rand.Rand, idx int, tier string) Case {
	c := &stCase{types: []string{"user", "a/b"}, strict: rng.Intn(3) == 0}
	sm := newMat(c)
	seedDocs := []stDoc{{kind: "change", ty: "user", key: "1", op: "insert", val: 1, valOK: true},
		{kind: "change", ty: "a/b", key: "k/k", op: "insert", val: 2, valOK: true}}
	for i, d := range seedDocs {
		sm.m.Apply(&eb.StoredEvent{Offset: eb.Offset(fmt.Sprintf("%020d", i+1)), Data: d.render()})
	}
	before := sm.snapshot(c, plainOf)
	var data []byte
	base := genState(rng, false, "quick").docs
	pick := base[rng.Intn(len(base))].render()
	kind := rng.Intn(10)
	switch kind {
	case 0:
		if len(pick) > 0 {
			data = pick[:rng.Intn(len(pick))]
		}
	case 1:
		data = append([]byte{}, pick...)
		for k := 0; k < 1+rng.Intn(3) && len(data) > 0; k++ {
			data[rng.Intn(len(data))] = byte(rng.Intn(256))
		}
	case 2:
		data = []byte(strings.Repeat("[", 100+rng.Intn(20000)))
	case 3:
		data = []byte(`{"type":"user","key":"k","value":{"V":1` + strings.Repeat("0", 1+rng.Intn(400)) + `},"headers":{"operation":"insert"}}`)
	case 4:
		data = []byte("{\"type\":\"user\",\"key\":\"k\xff\xfe\",\"value\":{\"V\":3},\"headers\":{\"operation\":\"insert\"}}")
	case 5:
		data = make([]byte, rng.Intn(64))
		rng.Read(data)
	case 6:
		data = []byte(`{"headers":` + strings.Repeat(`{"control":`, 1+rng.Intn(50)) + `"reset"` + strings.Repeat("}", rng.Intn(52)) + `}`)
	case 7:
		data = []byte(`{"type":"user","key":"k","value":` + []string{"null", "1e999", "-0", "{}", "[]", `{"V":1.5}`, `{"V":null}`, `{"V":-1e2}`}[rng.Intn(8)] + `,"headers":{"operation":"update"}}`)
	case 8:
		data = []byte(`null`)
	default:
		data = pick
	}
	panicked, errored := false, false
	func() {
		defer func() {
			if r := recover(); r != nil {
				panicked = true
			}
		}()
		err := sm.m.Apply(&eb.StoredEvent{Offset: "00000000000000000077", Data: data})
		errored = err != nil
	}()
	// values outside the int range of the abstraction are mapped by snapshot to 4999 on both sides
	after := sm.snapshot(c, func(id int) richEnt { return plainOf(id) })
	tags := []string{fmt.Sprintf("kind%d", kind)}
	if errored {
		tags = append(tags, "errored")
	}
	ts := []T{S("user"), S("a/b")}
	note := fmt.Sprintf("%q", data)
	if len(note) > 200 {
		note = note[:200] + "..."
	}
	return Case{Input: L(ts...), Obs: C("Build_fobs", B(panicked), B(errored), before, after), Tags: tags, Nontrivial: errored, Note: note}
}
