package main

// Names family (C15): every shape of event type crossed with every API that derives a type name.

import (
	"context"
	"encoding/json"
	"fmt"
	"math/rand"

	eb "github.com/jilio/ebu"
	"github.com/jilio/ebu/state"
)

type nP struct{ N int }          // no custom name
type nV struct{ N int }          // custom name on a value receiver
func (nV) EventTypeName() string { return "custom.v" }

type nR struct{ N int }           // custom name on a pointer receiver
func (*nR) EventTypeName() string { return "custom.r" }

type nD struct{ N int }            // custom name that depends on the value (a version in the name)
func (d nD) EventTypeName() string { return fmt.Sprintf("custom.d%d", d.N%2) }

type nW struct{ M int }          // upcast target with its own custom name
func (nW) EventTypeName() string { return "custom.w" }

func runNameShape[T any](mk func(i int) T) T_obs {
	ctx := context.Background()
	store := eb.NewMemoryStore()
	bus := eb.New(eb.WithStore(store))
	x1, x2 := mk(1), mk(2)
	eb.Publish(bus, x1)
	eb.Publish(bus, x2)
	evs, _, _ := store.Read(ctx, eb.OffsetOldest, 0)
	o := T_obs{storedIsEventType: len(evs) == 2}
	want := []string{eb.EventType(x1), eb.EventType(x2)} // per event: the name may depend on the value
	for i, e := range evs {
		if i < 2 && e.Type != want[i] {
			o.storedIsEventType = false
		}
	}
	k := 0
	bus.Replay(ctx, eb.OffsetOldest, func(e *eb.StoredEvent) error {
		if k < 2 && e.Type == want[k] {
			o.replayCompare++
		}
		k++
		return nil
	})
	// restart: a fresh bus over the same store, typed replay subscription
	bus2 := eb.New(eb.WithStore(store))
	func() {
		defer func() { recover() }()
		eb.SubscribeWithReplay(ctx, bus2, "sub", func(e T) { o.typedReplay++ })
	}()
	// typed upcaster T -> nW
	bus3 := eb.New(eb.WithStore(store))
	func() {
		defer func() { recover() }()
		if err := eb.RegisterUpcast(bus3, func(t T) nW { return nW{M: 7} }); err != nil {
			return
		}
		o.upcastTargetOK = true
		bus3.ReplayWithUpcast(ctx, eb.OffsetOldest, func(e *eb.StoredEvent) error {
			var w nW
			if json.Unmarshal(e.Data, &w) == nil && w.M == 7 {
				o.upcastApplied++
				if e.Type != eb.EventType(nW{}) {
					o.upcastTargetOK = false
				}
			}
			return nil
		})
	}()
	if o.upcastApplied == 0 {
		o.upcastTargetOK = true // nothing to judge; the miss is counted by upcastApplied
	}
	return o
}

type T_obs struct {
	storedIsEventType bool
	replayCompare     int
	typedReplay       int
	upcastApplied     int
	upcastTargetOK    bool
}

func (o T_obs) term() T {
	return C("Build_nobs", B(o.storedIsEventType), Nat(o.replayCompare), Nat(o.typedReplay), Nat(o.upcastApplied), B(o.upcastTargetOK))
}

func init() {
	shapes := []func() T_obs{
		func() T_obs { return runNameShape(func(i int) nP { return nP{i} }) },
		func() T_obs { return runNameShape(func(i int) nV { return nV{i} }) },
		func() T_obs { return runNameShape(func(i int) nR { return nR{i} }) },
		func() T_obs { return runNameShape(func(i int) *nP { return &nP{i} }) },
		func() T_obs { return runNameShape(func(i int) *nV { return &nV{i} }) },
		func() T_obs { return runNameShape(func(i int) *nR { return &nR{i} }) },
		func() T_obs {
			return runNameShape(func(i int) state.ChangeMessage { m, _ := state.Insert("k", nP{i}); return *m })
		},
		func() T_obs {
			return runNameShape(func(i int) *state.ChangeMessage { m, _ := state.Insert("k", nP{i}); return m })
		},
		func() T_obs { return runNameShape(func(i int) state.ControlMessage { return *state.Reset("o") }) },
		func() T_obs { return runNameShape(func(i int) *state.ControlMessage { return state.Reset("o") }) },
		func() T_obs { return runNameShape(func(i int) nD { return nD{i} }) },
	}
	names := []string{"value/no-namer", "value/value-receiver", "value/pointer-receiver", "pointer/no-namer", "pointer/value-receiver",
		"pointer/pointer-receiver", "state.ChangeMessage", "*state.ChangeMessage", "state.ControlMessage", "*state.ControlMessage", "value/value-dependent-name"}
	register(&Family{Name: "names", Quick: len(shapes), Thorough: len(shapes), Directed: len(shapes),
		Run: func(rng *rand.Rand, idx int, tier string) Case {
			o := shapes[idx]()
			return Case{Input: Nat(idx), Obs: o.term(), Tags: []string{names[idx]}, Nontrivial: true, Note: names[idx]}
		}})
}
