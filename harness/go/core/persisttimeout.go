package main

// Persisttimeout family (C13): real persistence timeouts, free-running (under the controller a parked Append would
// outlast any timeout).  A store whose Append honours its context: for "slow" events it blocks until the context is
// done and returns its error; "rejected" events fail at once; the others are appended.  Per publish: how often the
// error handler was called, whether the handler still ran, whether the event is in the log.

import (
	"context"
	"encoding/json"
	"errors"
	"math/rand"
	"reflect"
	"sync"
	"time"

	eb "github.com/jilio/ebu"
)

type ptEv struct{ V int }

type ptStore struct {
	inner *eb.MemoryStore
	kind  map[int]int // 0 ok, 1 slow, 2 rejected
}

func (s *ptStore) Append(ctx context.Context, ev *eb.Event) (eb.Offset, error) {
	var d struct{ V int }
	if err := json.Unmarshal(ev.Data, &d); err != nil {
		return "", err
	}
	switch s.kind[d.V] {
	case 1:
		select {
		case <-ctx.Done():
			return "", ctx.Err()
		case <-time.After(3 * time.Second): // the bus has no timeout: a failure of its own kind
			return "", errors.New("no deadline arrived")
		}
	case 2:
		return "", errors.New("rejected")
	}
	return s.inner.Append(context.Background(), ev)
}
func (s *ptStore) Read(ctx context.Context, from eb.Offset, limit int) ([]*eb.StoredEvent, eb.Offset, error) {
	return s.inner.Read(ctx, from, limit)
}

func runPersistTimeout(rng *rand.Rand, idx int, tier string) Case {
	n := 4 + rng.Intn(8)
	st := &ptStore{inner: eb.NewMemoryStore(), kind: map[int]int{}}
	var kinds []T
	for v := 1; v <= n; v++ {
		k := 0
		switch r := rng.Intn(10); {
		case r < 3:
			k = 1
		case r < 5:
			k = 2
		}
		if idx == 0 && v == 1 {
			k = 1 // the first publish of a fresh bus times out
		}
		st.kind[v] = k
		kinds = append(kinds, Nat(k))
	}
	var mu sync.Mutex
	reports, handled := map[int]int{}, map[int]int{}
	bus := eb.New(eb.WithStore(st), eb.WithPersistenceTimeout(time.Duration(2+rng.Intn(6))*time.Millisecond),
		eb.WithPersistenceErrorHandler(func(ev any, t reflect.Type, err error) {
			if e, ok := ev.(ptEv); ok {
				mu.Lock()
				reports[e.V]++
				mu.Unlock()
			}
		}))
	async := rng.Intn(3) == 0
	var so []eb.SubscribeOption
	if async {
		so = append(so, eb.Async())
	}
	eb.Subscribe(bus, func(e ptEv) {
		mu.Lock()
		handled[e.V]++
		mu.Unlock()
	}, so...)
	escaped := 0
	for v := 1; v <= n; v++ {
		func() {
			defer func() {
				if recover() != nil {
					escaped++
				}
			}()
			eb.Publish(bus, ptEv{v})
		}()
	}
	bus.Wait()
	evs, _, err := st.inner.Read(context.Background(), eb.OffsetOldest, 0)
	if err != nil {
		escaped += 100
	}
	var logT []T
	for _, e := range evs {
		var d struct{ V int }
		if json.Unmarshal(e.Data, &d) != nil {
			d.V = 9999
		}
		logT = append(logT, Nat(d.V))
	}
	var per []T
	mu.Lock()
	for v := 1; v <= n; v++ {
		per = append(per, Tup(Nat(reports[v]), Nat(handled[v])))
	}
	mu.Unlock()
	tags := []string{"sync"}
	if async {
		tags = []string{"async"}
	}
	return Case{Input: L(kinds...), Obs: C("Build_ptobs", L(per...), L(logT...), Nat(escaped)), Tags: tags, Nontrivial: true}
}

func init() {
	register(&Family{Name: "persisttimeout", Quick: 60, Thorough: 1000, Directed: 1, Run: runPersistTimeout})
}
