// Harness for the root module of jilio/ebu: generates cases from a seed, runs them on the
// implementation built from /repo's working tree, and writes inputs and observations as T-terms.
package main

import (
	"encoding/json"
	"flag"
	"fmt"
	"math/rand"
	"os"
	"sort"
)

type Case struct {
	ID         string   `json:"id"`
	Input      T        `json:"input"`
	Obs        T        `json:"obs"`
	Tags       []string `json:"tags"`
	Nontrivial bool     `json:"nontrivial"`
	Note       string   `json:"note,omitempty"`
}

type Config struct {
	Seed  int64
	Tier  string
	Only  int // -1 = all
	Count int // 0 = family default for the tier
}

// A family produces the i-th case deterministically from (seed, i) and runs it.
type Family struct {
	Name     string
	Quick    int
	Thorough int
	Directed int // the first Directed indices are the directed corpus (witnesses, past failures)
	Run      func(rng *rand.Rand, idx int, tier string) Case
}

var families = map[string]*Family{}

// stopRun: a family sets it when going on costs much and can add nothing to the verdict (the race family after several
// cases that blocked for the whole watchdog budget: each further one costs 30 s).  The cases run so far are reported.
var stopRun bool

func register(f *Family) { families[f.Name] = f }

func caseRng(seed int64, idx int) *rand.Rand {
	return rand.New(rand.NewSource(seed*1000003 + int64(idx)*7919 + 17))
}

func main() {
	if os.Getenv("VERIF_CHILD") == "sqlite" {
		childSqlite()
		return
	}
	fam := flag.String("family", "", "family name")
	tier := flag.String("tier", "quick", "quick|thorough")
	seed := flag.Int64("seed", 1, "seed")
	only := flag.Int("only", -1, "run only this case index")
	count := flag.Int("count", 0, "number of cases (0 = tier default)")
	out := flag.String("out", "", "output file")
	list := flag.Bool("list", false, "list families")
	flag.Parse()
	if *list {
		names := []string{}
		for n := range families {
			names = append(names, n)
		}
		sort.Strings(names)
		for _, n := range names {
			fmt.Println(n)
		}
		return
	}
	f := families[*fam]
	if f == nil {
		fmt.Fprintln(os.Stderr, "unknown family", *fam)
		os.Exit(2)
	}
	n := f.Quick
	if *tier == "thorough" {
		n = f.Thorough
	}
	if *count > 0 {
		n = *count
	}
	var cases []Case
	for i := 0; i < n; i++ {
		if *only >= 0 && i != *only {
			continue
		}
		if pf := os.Getenv("VERIF_PROGRESS"); pf != "" {
			os.WriteFile(pf, []byte(fmt.Sprintf("START %s/%d/%d\n", f.Name, *seed, i)), 0o644)
		}
		c := f.Run(caseRng(*seed, i), i, *tier)
		c.ID = fmt.Sprintf("%s/%d/%d", f.Name, *seed, i)
		cases = append(cases, c)
		if stopRun && *only < 0 {
			fmt.Fprintf(os.Stderr, "stopping after case %d: enough cases blocked\n", i)
			break
		}
	}
	res := map[string]any{"family": f.Name, "seed": *seed, "tier": *tier, "cases": cases}
	data, err := json.Marshal(res)
	if err != nil {
		panic(err)
	}
	if *out == "" {
		os.Stdout.Write(data)
	} else if err := os.WriteFile(*out, data, 0o644); err != nil {
		panic(err)
	}
}
