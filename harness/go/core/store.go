package main

// Store family (C10): MemoryStore, SQLiteStore (file-backed and :memory:) and, in dstream.go, the
// durable-streams store, all driven through one operation language; mirrors coq/Corr/CorrStore.v.

import (
	"bytes"
	"context"
	"encoding/json"
	"fmt"
	"math/rand"
	"os"
	"path/filepath"
	"reflect"
	"sort"
	"strings"
	"time"

	eb "github.com/jilio/ebu"
	"github.com/jilio/ebu/stores/sqlite"
)

func offT(o eb.Offset) T {
	bs := []T{}
	for i := 0; i < len(o); i++ {
		bs = append(bs, NN(uint64(o[i])))
	}
	return L(bs...)
}

type payload struct {
	typ  string
	data []byte
	ts   time.Time
}

func canonJSON(b []byte) any {
	d := json.NewDecoder(bytes.NewReader(b))
	d.UseNumber()
	var v any
	if d.Decode(&v) != nil {
		return fmt.Sprintf("undecodable:%q", b)
	}
	return v
}

func genJSON(rng *rand.Rand, depth int) any {
	switch r := rng.Intn(10); {
	case r < 2 && depth < 3:
		m := map[string]any{}
		for i := rng.Intn(4); i > 0; i-- {
			m[[]string{"a", "é", "k/k", "", "\"q\"", "日本"}[rng.Intn(6)]] = genJSON(rng, depth+1)
		}
		return m
	case r < 4 && depth < 3:
		a := []any{}
		for i := rng.Intn(4); i > 0; i-- {
			a = append(a, genJSON(rng, depth+1))
		}
		return a
	case r < 5:
		return []any{json.Number("9223372036854775807"), json.Number("-1e-300"), json.Number("0"), json.Number("12345678901234567890123")}[rng.Intn(4)]
	case r < 6:
		return []any{"", "plain", "unié\U0001F600", "line\nbreak\ttab", "<>& "}[rng.Intn(5)]
	case r < 7:
		return rng.Intn(2) == 0
	case r < 8:
		return nil
	default:
		return rng.Intn(1000)
	}
}

func genPayload(rng *rand.Rand, i int, weirdZones bool) payload {
	doc, _ := json.Marshal(map[string]any{"i": i, "v": genJSON(rng, 0)})
	typ := []string{"main.Ev", "user.created.v1", "", "tÿpe \"x\"", "a/b", "日本", strings.Repeat("T", 200)}[rng.Intn(7)]
	if rng.Intn(2) == 0 {
		typ = "main.Ev"
	}
	year := []int{1, 1969, 1970, 2024, 2038, 9999}[rng.Intn(6)]
	t := time.Date(year, time.Month(1+rng.Intn(12)), 1+rng.Intn(28), rng.Intn(24), rng.Intn(60), rng.Intn(60), rng.Intn(1e9), time.UTC)
	switch rng.Intn(6) {
	case 0:
		t = t.In(time.Local)
	case 1:
		t = t.In(time.FixedZone("CET", 3600))
	case 2:
		if weirdZones {
			name := []string{"", "abc", "LONGNAME", "A B", "X"}[rng.Intn(5)]
			t = t.In(time.FixedZone(name, rng.Intn(86400)-43200))
		}
	case 3:
		t = t.In(time.FixedZone("EST", -5*3600))
	}
	return payload{typ, doc, t}
}

type sutStore interface {
	eb.EventStore
	eb.SubscriptionStore
}

type storeCase struct {
	kind    string // mem | sqlite-file | sqlite-mem
	stores  [2]sutStore
	pays    [][]payload
	pool    [2][]eb.Offset
	ops     []T
	obs     []T
	tags    map[string]bool
	cleanup []func()
}

func (c *storeCase) payID(k int, e *eb.StoredEvent) int {
	for i, p := range c.pays[k] {
		if p.typ == e.Type && p.ts.Equal(e.Timestamp) && reflect.DeepEqual(canonJSON(p.data), canonJSON(e.Data)) {
			return i + k*1000
		}
	}
	// an event appended to the *other* store (isolation) is still identified
	for i, p := range c.pays[1-k] {
		if p.typ == e.Type && p.ts.Equal(e.Timestamp) && reflect.DeepEqual(canonJSON(p.data), canonJSON(e.Data)) {
			return i + (1-k)*1000
		}
	}
	return 4999
}

func (c *storeCase) evsT(k int, evs []*eb.StoredEvent) T {
	out := []T{}
	for _, e := range evs {
		out = append(out, C("Build_sev", offT(e.Offset), Nat(c.payID(k, e))))
		c.pool[k] = append(c.pool[k], e.Offset)
	}
	return L(out...)
}

var rawOffsets = []eb.Offset{"zzz", "5", "00000000000000000003", "99999999", "-4", "1x", "00000000000000000000", "$", "7/1"}

func (c *storeCase) pickOffset(rng *rand.Rand, k int) eb.Offset {
	r := rng.Intn(20)
	switch {
	case r < 3 || len(c.pool[k]) == 0:
		return eb.OffsetOldest
	case r < 4:
		return rawOffsets[rng.Intn(len(rawOffsets))]
	case r < 5 && len(c.pool[1-k]) > 0:
		return c.pool[1-k][rng.Intn(len(c.pool[1-k]))]
	case r < 12:
		return c.pool[k][len(c.pool[k])-1-rng.Intn(min(3, len(c.pool[k])))]
	default:
		return c.pool[k][rng.Intn(len(c.pool[k]))]
	}
}

func (c *storeCase) doAppend(rng *rand.Rand, k int, weird bool) {
	ctx := context.Background()
	p := genPayload(rng, len(c.pays[k])+k*1000, weird)
	id := len(c.pays[k]) + k*1000
	c.pays[k] = append(c.pays[k], p)
	off, err := c.stores[k].Append(ctx, &eb.Event{Type: p.typ, Data: p.data, Timestamp: p.ts})
	c.ops = append(c.ops, C("SAppend", Nat(k), Nat(id)))
	if err != nil {
		c.obs = append(c.obs, C("RAppend", None()))
		c.tags["append-error"] = true
	} else {
		c.obs = append(c.obs, C("RAppend", Some(offT(off))))
		c.pool[k] = append(c.pool[k], off)
	}
}

func (c *storeCase) doRead(k int, from eb.Offset, limit int) {
	evs, next, err := c.stores[k].Read(context.Background(), from, limit)
	c.ops = append(c.ops, C("SRead", Nat(k), offT(from), Z(int64(limit))))
	if err != nil {
		c.obs = append(c.obs, C("RRead", None()))
		c.tags["read-error"] = true
		return
	}
	c.obs = append(c.obs, C("RRead", Some(Tup(c.evsT(k, evs), offT(next)))))
	c.pool[k] = append(c.pool[k], next)
	if limit > 0 && len(evs) == limit {
		c.tags["limit-hit"] = true
	}
	if from != "" && len(evs) > 0 {
		c.tags["resumed"] = true
	}
}

func (c *storeCase) doStream(k int, from eb.Offset) {
	st, ok := c.stores[k].(eb.EventStoreStreamer)
	if !ok {
		return
	}
	var evs []*eb.StoredEvent
	var serr error
	for e, err := range st.ReadStream(context.Background(), from) {
		if err != nil {
			serr = err
			break
		}
		evs = append(evs, e)
	}
	c.ops = append(c.ops, C("SStream", Nat(k), offT(from)))
	if serr != nil {
		c.obs = append(c.obs, C("RStream", None()))
		c.tags["stream-error"] = true
		return
	}
	c.obs = append(c.obs, C("RStream", Some(c.evsT(k, evs))))
	c.tags["stream"] = true
}

func (c *storeCase) step(rng *rand.Rand, weird bool) {
	ctx := context.Background()
	k := 0
	if rng.Intn(4) == 0 {
		k = 1
	}
	n := len(c.pays[k])
	r := rng.Intn(100)
	switch {
	case r < 35:
		c.doAppend(rng, k, weird)
	case r < 65:
		limit := []int{-1, 0, 0, 1, 2, 3, n - 1, n, n + 1, 100}[rng.Intn(10)]
		c.doRead(k, c.pickOffset(rng, k), limit)
	case r < 78:
		c.doStream(k, c.pickOffset(rng, k))
	case r < 90:
		id := rng.Intn(3)
		off := c.pickOffset(rng, k)
		if c.kind != "mem" && off == "" { // saving "" comes back as "0" on SQLite: equivalent position, excluded (DESIGN)
			off = "1"
		}
		c.doSave(k, id, off)
	default:
		c.doLoad(k, rng.Intn(4))
	}
	_ = ctx
}

func (c *storeCase) doSave(k, id int, off eb.Offset) {
	err := c.stores[k].SaveOffset(context.Background(), fmt.Sprintf("sub-%d", id), off)
	c.ops = append(c.ops, C("SSave", Nat(k), Nat(id), offT(off)))
	c.obs = append(c.obs, C("RSave", B(err == nil)))
	c.tags["save"] = true
}

func (c *storeCase) doLoad(k, id int) {
	off, err := c.stores[k].LoadOffset(context.Background(), fmt.Sprintf("sub-%d", id))
	c.ops = append(c.ops, C("SLoad", Nat(k), Nat(id)))
	if err != nil {
		c.obs = append(c.obs, C("RLoad", None()))
	} else {
		c.obs = append(c.obs, C("RLoad", Some(offT(off))))
	}
}

func newStoreCase(rng *rand.Rand, kind string) *storeCase {
	c := &storeCase{kind: kind, tags: map[string]bool{}, pays: make([][]payload, 2)}
	for k := 0; k < 2; k++ {
		switch kind {
		case "mem":
			c.stores[k] = eb.NewMemoryStore()
		case "sqlite-file", "sqlite-mem":
			path := ":memory:"
			if kind == "sqlite-file" {
				dir := os.Getenv("VERIF_TMP")
				if dir == "" {
					dir = os.TempDir()
				}
				f, err := os.CreateTemp(dir, "vstore-*.db")
				if err != nil {
					panic(err)
				}
				f.Close()
				os.Remove(f.Name())
				path = f.Name()
				c.cleanup = append(c.cleanup, func() {
					for _, p := range []string{path, path + "-wal", path + "-shm"} {
						os.Remove(p)
					}
				})
			}
			opts := []sqlite.Option{}
			if bs := []int{0, 0, 1, 2, 3, 100}[rng.Intn(6)]; bs > 0 {
				opts = append(opts, sqlite.WithStreamBatchSize(bs))
				c.tags["batched-stream"] = true
			}
			s, err := sqlite.New(path, opts...)
			if err != nil {
				panic(err)
			}
			c.stores[k] = s
			c.cleanup = append(c.cleanup, func() { s.Close() })
		}
	}
	return c
}

func (c *storeCase) finish() Case {
	for i := len(c.cleanup) - 1; i >= 0; i-- {
		c.cleanup[i]()
	}
	var tl []string
	for k := range c.tags {
		tl = append(tl, k)
	}
	sort.Strings(tl)
	nt := c.tags["resumed"] || c.tags["limit-hit"]
	return Case{Input: L(c.ops...), Obs: L(c.obs...), Tags: tl, Nontrivial: nt}
}

func runStoreCase(kind string) func(rng *rand.Rand, idx int, tier string) Case {
	return func(rng *rand.Rand, idx int, tier string) Case {
		c := newStoreCase(rng, kind)
		weird := true // zones with unusual names (empty, lower-case, long, with a space) are valid inputs too
		if idx == 0 { // directed: cross 9 -> 10 -> 11 appends, read chains with every small limit, resume from event offsets
			for i := 0; i < 12; i++ {
				c.doAppend(rng, 0, weird)
			}
			c.doAppend(rng, 1, weird)
			for _, lim := range []int{1, 2, 5, 0} {
				from := eb.OffsetOldest
				for j := 0; j < 14; j++ {
					before := len(c.pool[0])
					c.doRead(0, from, lim)
					if len(c.pool[0]) == before {
						break
					}
					from = c.pool[0][len(c.pool[0])-1]
				}
			}
			c.doStream(0, c.pool[0][8])
			c.doStream(1, eb.OffsetOldest)
			c.doRead(1, eb.OffsetOldest, 0)
			// saved offsets are a plain map: a later save of a LOWER position (a subscription reset) replaces the earlier
			// one, another id is untouched, and a read resumed from what was loaded starts there
			c.doSave(0, 0, c.pool[0][6])
			c.doSave(0, 1, c.pool[0][10])
			c.doLoad(0, 0)
			c.doSave(0, 0, c.pool[0][2])
			c.doLoad(0, 0)
			c.doLoad(0, 1)
			c.doRead(0, c.pool[0][2], 0)
			c.doSave(0, 0, c.pool[0][9])
			c.doLoad(0, 0)
			c.doSave(0, 1, c.pool[0][0])
			c.doLoad(0, 1)
			return c.finish()
		}
		n := 8 + rng.Intn(30)
		if tier == "thorough" {
			n = 8 + rng.Intn(80)
		}
		for i := 0; i < n; i++ {
			c.step(rng, weird)
		}
		return c.finish()
	}
}

func init() {
	register(&Family{Name: "storemem", Quick: 200, Thorough: 5000, Directed: 1, Run: runStoreCase("mem")})
	register(&Family{Name: "storesqlitefile", Quick: 60, Thorough: 1500, Directed: 1, Run: runStoreCase("sqlite-file")})
	register(&Family{Name: "storesqlitemem", Quick: 60, Thorough: 1500, Directed: 1, Run: runStoreCase("sqlite-mem")})
	_ = filepath.Join
}
