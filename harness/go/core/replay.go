package main

// Replay family (C11): EventBus.Replay over every bundled store and configuration, with
// callback failures, cancellations, row-fetch errors (SQLite, through the verif-tagged opener
// hook and a wrapping driver) and failing Read calls; mirrors coq/Corr/CorrReplay.v.

import (
	"context"
	"database/sql"
	"database/sql/driver"
	"encoding/json"
	"errors"
	"fmt"
	"io"
	"math/rand"
	"os"
	"runtime"
	"strings"
	"sync"
	"time"

	eb "github.com/jilio/ebu"
	"github.com/jilio/ebu/stores/sqlite"
	modsqlite "modernc.org/sqlite"
)

type replayEv struct {
	I int `json:"i"`
}

// ---- a store exposing only Append/Read (forces the paged path), with a failing Read call ----
type pagedOnly struct {
	inner  eb.EventStore
	failAt int
	reads  int
}

func (p *pagedOnly) Append(ctx context.Context, e *eb.Event) (eb.Offset, error) {
	return p.inner.Append(ctx, e)
}
func (p *pagedOnly) Read(ctx context.Context, from eb.Offset, limit int) ([]*eb.StoredEvent, eb.Offset, error) {
	j := p.reads
	p.reads++
	if j == p.failAt {
		return nil, from, errors.New("injected read failure")
	}
	return p.inner.Read(ctx, from, limit)
}

// ---- fault-injecting database/sql driver wrapping modernc sqlite ----
type faultCfg struct {
	mu     sync.Mutex
	active bool
	failAt int
	rows   int
}

var theFault faultCfg

type faultDriver struct{ inner driver.Driver }
type faultConn struct{ driver.Conn }
type faultStmt struct{ driver.Stmt }
type faultRows struct{ driver.Rows }

func (d faultDriver) Open(name string) (driver.Conn, error) {
	c, err := d.inner.Open(name)
	if err != nil {
		return nil, err
	}
	return &faultConn{c}, nil
}
func (c *faultConn) Prepare(q string) (driver.Stmt, error) {
	s, err := c.Conn.Prepare(q)
	if err != nil {
		return nil, err
	}
	return &faultStmt{s}, nil
}
func (s *faultStmt) Query(args []driver.Value) (driver.Rows, error) {
	r, err := s.Stmt.Query(args) //nolint:staticcheck
	if err != nil {
		return nil, err
	}
	return &faultRows{r}, nil
}
func (r *faultRows) Next(dest []driver.Value) error {
	err := r.Rows.Next(dest)
	if err != nil {
		return err // io.EOF or a real error: faults are injected only where a row exists
	}
	theFault.mu.Lock()
	defer theFault.mu.Unlock()
	if theFault.active {
		k := theFault.rows
		theFault.rows++
		if k == theFault.failAt {
			return errors.New("injected row fetch failure")
		}
	}
	return nil
}

var registerFaultDriver sync.Once

func openFaulty(driverName, dsn string) (*sql.DB, error) {
	registerFaultDriver.Do(func() { sql.Register("sqlite-fault", faultDriver{&modsqlite.Driver{}}) })
	return sql.Open("sqlite-fault", dsn)
}

var _ = io.EOF

// wait until database/sql has reacted to a cancelled context (its awaitDone goroutine has closed the rows)
func settleAfterCancel() {
	buf := make([]byte, 1<<16)
	for i := 0; i < 400; i++ {
		n := runtime.Stack(buf, true)
		if !strings.Contains(string(buf[:n]), "initContextClose") {
			return
		}
		time.Sleep(50 * time.Microsecond)
	}
}

type rCase struct {
	kind         string // memstream mempaged sqstream sqbatched dspaged
	batch, chunk int
	n, from      int
	fkind        string // none callback cancel row readcall
	fidx         int
}

func (c rCase) input() T {
	var k T
	switch c.kind {
	case "memstream":
		k = C("KMemStream")
	case "mempaged":
		k = C("KMemPaged", Z(int64(c.batch)))
	case "sqstream":
		k = C("KSqStream")
	case "sqbatched":
		k = C("KSqBatched", Nat(c.batch))
	case "dspaged":
		k = C("KDsPaged", Nat(c.chunk), Z(int64(c.batch)))
	}
	var f T
	switch c.fkind {
	case "none":
		f = C("FNone")
	case "callback":
		f = C("FCallback", Nat(c.fidx))
	case "cancel":
		f = C("FCancel", Nat(c.fidx))
	case "row":
		f = C("FRow", Nat(c.fidx))
	case "readcall":
		f = C("FReadCall", Nat(c.fidx))
	}
	return C("Build_rinput", k, Nat(c.n), Nat(c.from), f)
}

func (c rCase) run() (T, []string) {
	ctx0 := context.Background()
	var store eb.EventStore
	var opts []eb.Option
	cleanup := func() {}
	appendN := func(s eb.EventStore) []eb.Offset {
		var offs []eb.Offset
		for i := 0; i < c.n; i++ {
			data, _ := json.Marshal(replayEv{i})
			off, err := s.Append(ctx0, &eb.Event{Type: "main.replayEv", Data: data, Timestamp: time.Unix(1700000000+int64(i), 0)})
			if err != nil {
				panic(err)
			}
			offs = append(offs, off)
		}
		return offs
	}
	var offs []eb.Offset
	switch c.kind {
	case "memstream":
		m := eb.NewMemoryStore()
		offs = appendN(m)
		store = m
	case "mempaged":
		m := eb.NewMemoryStore()
		offs = appendN(m)
		p := &pagedOnly{inner: m, failAt: -1}
		if c.fkind == "readcall" {
			p.failAt = c.fidx
		}
		store = p
		opts = append(opts, eb.WithReplayBatchSize(c.batch))
	case "sqstream", "sqbatched":
		dir := os.Getenv("VERIF_TMP")
		if dir == "" {
			dir = os.TempDir()
		}
		f, err := os.CreateTemp(dir, "vreplay-*.db")
		if err != nil {
			panic(err)
		}
		f.Close()
		os.Remove(f.Name())
		path := f.Name()
		if c.fkind == "row" {
			sqlite.SetDBOpenerForVerif(openFaulty)
		}
		var sopts []sqlite.Option
		if c.kind == "sqbatched" {
			sopts = append(sopts, sqlite.WithStreamBatchSize(c.batch))
		}
		s, err := sqlite.New(path, sopts...)
		sqlite.SetDBOpenerForVerif(nil)
		if err != nil {
			panic(err)
		}
		offs = appendN(s)
		store = s
		cleanup = func() {
			s.Close()
			for _, p := range []string{path, path + "-wal", path + "-shm"} {
				os.Remove(p)
			}
		}
	case "dspaged":
		if dsMsgSize == 0 {
			dsMsgSize = dsMessageSize()
		}
		// replayEv payloads have their own constant size; measure with one of them
		chunkBytes := 0
		env := newDsEnv(0, "r")
		if c.chunk > 0 {
			probe := newDsEnv(0, "probe2")
			data, _ := json.Marshal(replayEv{0})
			probe.store.Append(ctx0, &eb.Event{Type: "main.replayEv", Data: data, Timestamp: time.Unix(1700000000, 0)})
			res, _ := probe.storage.Read(ctx0, "probe2", "", 0)
			sz := len(res.Messages[0].Data)
			probe.srv.Close()
			chunkBytes = c.chunk*sz + sz/2
			env.srv.Close()
			env = newDsEnv(chunkBytes, "r")
		}
		if c.n > 10 {
			panic("dspaged: keep n <= 10 so that payload sizes stay equal")
		}
		offs = appendN(env.store)
		store = env.store
		opts = append(opts, eb.WithReplayBatchSize(c.batch))
		cleanup = func() { env.srv.Close() }
	}
	defer cleanup()
	handlers := false
	bus := eb.New(append([]eb.Option{eb.WithStore(store)}, opts...)...)
	eb.Subscribe(bus, func(e replayEv) { handlers = true })
	eb.Subscribe(bus, func(e *replayEv) { handlers = true })
	from := eb.OffsetOldest
	if c.from > 0 {
		from = offs[c.from-1]
	}
	countAll := func() int {
		// count through the underlying store without going through the paged wrapper's fault counter
		var s eb.EventStore = store
		if p, ok := store.(*pagedOnly); ok {
			s = p.inner
		}
		total := 0
		cur := eb.OffsetOldest
		for i := 0; i < 1000; i++ {
			evs, next, err := s.Read(ctx0, cur, 0)
			if err != nil || len(evs) == 0 {
				break
			}
			total += len(evs)
			if next == cur {
				break
			}
			cur = next
		}
		return total
	}
	before := countAll()
	ctx, cancel := context.WithCancel(ctx0)
	defer cancel()
	var delivered []T
	calls := 0
	if c.fkind == "row" {
		theFault.mu.Lock()
		theFault.active, theFault.failAt, theFault.rows = true, c.fidx, 0
		theFault.mu.Unlock()
	}
	err := bus.Replay(ctx, from, func(ev *eb.StoredEvent) error {
		i := calls
		calls++
		var p replayEv
		if json.Unmarshal(ev.Data, &p) != nil {
			p.I = 4999
		}
		delivered = append(delivered, Nat(p.I))
		if c.fkind == "callback" && i == c.fidx {
			return errors.New("callback failure")
		}
		if c.fkind == "cancel" && i == c.fidx {
			cancel()
			settleAfterCancel()
		}
		return nil
	})
	theFault.mu.Lock()
	theFault.active = false
	theFault.mu.Unlock()
	after := countAll()
	tags := []string{c.kind, "fault-" + c.fkind}
	if err != nil {
		tags = append(tags, "err")
	}
	return C("Build_robs", L(delivered...), B(err != nil), B(after != before), B(handlers)), tags
}

func genReplay(rng *rand.Rand, idx int, tier string) rCase {
	c := rCase{}
	c.kind = []string{"memstream", "mempaged", "sqstream", "sqbatched", "dspaged"}[rng.Intn(5)]
	c.n = rng.Intn(14)
	if tier == "thorough" && c.kind != "dspaged" {
		c.n = rng.Intn(26)
	}
	if c.kind == "dspaged" && c.n > 10 {
		c.n = 10
	}
	c.from = 0
	if c.n > 0 && rng.Intn(2) == 0 {
		c.from = rng.Intn(c.n + 1)
	}
	rem := c.n - c.from
	c.batch = []int{1, 2, 3, max(rem-1, 1), max(rem, 1), rem + 1, 100, 0}[rng.Intn(8)]
	if c.kind == "sqbatched" && c.batch <= 0 {
		c.batch = 4
	}
	c.chunk = []int{0, 1, 2, 3, 5}[rng.Intn(5)]
	fk := []string{"none", "callback", "cancel"}
	switch c.kind {
	case "sqstream", "sqbatched":
		fk = append(fk, "row", "row")
	case "mempaged":
		fk = append(fk, "readcall")
	}
	c.fkind = fk[rng.Intn(len(fk))]
	c.fidx = rng.Intn(rem + 2)
	if c.fkind == "readcall" {
		c.fidx = rng.Intn(4)
	}
	return c
}

func directedReplay(idx int) *rCase {
	d := []rCase{
		{kind: "sqbatched", batch: 5, n: 12, from: 0, fkind: "cancel", fidx: 1}, // cancellation mid-batch
		{kind: "sqbatched", batch: 4, n: 12, from: 0, fkind: "row", fidx: 6},    // row error mid-batch
		{kind: "dspaged", chunk: 0, batch: 2, n: 5, from: 0, fkind: "none"},     // batch smaller than the chunk
		{kind: "dspaged", chunk: 2, batch: 100, n: 7, from: 0, fkind: "none"},   // pages shorter than the batch
		{kind: "mempaged", batch: 3, n: 7, from: 2, fkind: "readcall", fidx: 1}, // second Read fails
		{kind: "memstream", n: 5, from: 1, fkind: "cancel", fidx: 3},            // cancel at the last event
		{kind: "sqstream", n: 6, from: 0, fkind: "row", fidx: 0},
		{kind: "mempaged", batch: 1, n: 4, from: 0, fkind: "callback", fidx: 3},
	}
	if idx < len(d) {
		return &d[idx]
	}
	return nil
}

func init() {
	register(&Family{Name: "replay", Quick: 400, Thorough: 8000, Directed: 8,
		Run: func(rng *rand.Rand, idx int, tier string) Case {
			var c rCase
			if d := directedReplay(idx); d != nil {
				c = *d
			} else {
				c = genReplay(rng, idx, tier)
			}
			obs, tags := c.run()
			return Case{Input: c.input(), Obs: obs, Tags: tags, Nontrivial: c.n-c.from >= 2,
				Note: fmt.Sprintf("%+v", c)}
		}})
}
