package main

// Upcast family (C16, C17): RegisterUpcastFunc / ClearUpcasts / ClearUpcastsForType /
// ReplayWithUpcast against the real registry; mirrors coq/Corr/CorrUpcast.v.

import (
	"context"
	"encoding/json"
	"errors"
	"fmt"
	"math/rand"
	"strconv"
	"strings"
	"sync"
	"time"

	eb "github.com/jilio/ebu"
)

type upFn struct {
	id, tag, ret int
	fail         bool
}
type upOp struct {
	kind                   string
	from, to, fn           int
	from2, to2, fn2, clear int
}
type upCase struct {
	fns []upFn
	log []struct {
		ty    int
		trail []int
	}
	ops []upOp
}

func upName(i int) string {
	if i == 0 {
		return ""
	}
	return "T" + strconv.Itoa(i)
}
func upNameBack(s string) int {
	if s == "" {
		return 0
	}
	if strings.HasPrefix(s, "T") {
		if n, err := strconv.Atoi(s[1:]); err == nil {
			return n
		}
	}
	return 999
}

type trailDoc struct {
	Trail []int `json:"trail"`
}

func trailOf(data []byte) []int {
	var d trailDoc
	if json.Unmarshal(data, &d) != nil {
		return []int{9999}
	}
	if d.Trail == nil {
		return []int{}
	}
	return d.Trail
}

type divergedPanic struct{}

func (c *upCase) mkFn(id int, calls *int) eb.UpcastFunc {
	if id == 0 {
		return nil
	}
	var spec *upFn
	for i := range c.fns {
		if c.fns[i].id == id {
			spec = &c.fns[i]
			break
		}
	}
	return func(data json.RawMessage) (json.RawMessage, string, error) {
		*calls++
		if *calls > 2000 {
			panic(divergedPanic{})
		}
		if spec == nil || spec.fail {
			return nil, "", errors.New("upcaster failed")
		}
		tr := append(trailOf(data), spec.tag)
		out, _ := json.Marshal(trailDoc{tr})
		return out, upName(spec.ret), nil
	}
}

func (c *upCase) toInput() T {
	fns := []T{}
	for _, f := range c.fns {
		fns = append(fns, C("Build_fnspec", Nat(f.id), Nat(f.tag), Nat(f.ret), B(f.fail)))
	}
	log := []T{}
	for _, e := range c.log {
		log = append(log, Tup(Nat(e.ty), NatL(e.trail)))
	}
	ops := []T{}
	for _, o := range c.ops {
		switch o.kind {
		case "reg":
			ops = append(ops, C("CReg", Nat(o.from), Nat(o.to), Nat(o.fn)))
		case "clear":
			ops = append(ops, C("CClear"))
		case "cleartype":
			ops = append(ops, C("CClearType", Nat(o.clear)))
		case "replay":
			ops = append(ops, C("CReplay"))
		case "race":
			ops = append(ops, C("CRace", Nat(o.from), Nat(o.to), Nat(o.fn), Nat(o.from2), Nat(o.to2), Nat(o.fn2)))
		}
	}
	return C("Build_cinput", L(fns...), L(log...), L(ops...))
}

func (c *upCase) run() (T, []string) {
	tags := map[string]bool{}
	store := eb.NewMemoryStore()
	var errs []T
	bus := eb.New(eb.WithStore(store), eb.WithUpcastErrorHandler(func(t string, data json.RawMessage, err error) {
		errs = append(errs, Tup(Nat(upNameBack(t)), NatL(trailOf(data))))
	}))
	base := time.Date(2024, 1, 2, 3, 4, 5, 0, time.UTC)
	var offs []eb.Offset
	for i, e := range c.log {
		data, _ := json.Marshal(trailDoc{e.trail})
		off, err := store.Append(context.Background(), &eb.Event{Type: upName(e.ty), Data: data, Timestamp: base.Add(time.Duration(i) * time.Second)})
		if err != nil {
			panic(err)
		}
		offs = append(offs, off)
	}
	calls := 0
	obs := []T{}
	for _, o := range c.ops {
		switch o.kind {
		case "reg":
			err := eb.RegisterUpcastFunc(bus, upName(o.from), upName(o.to), c.mkFn(o.fn, &calls))
			obs = append(obs, C("OReg", B(err == nil)))
			if err != nil {
				tags["rejected"] = true
			} else {
				tags["accepted"] = true
			}
		case "clear":
			bus.ClearUpcasts()
			obs = append(obs, C("OUnit"))
			tags["clear"] = true
		case "cleartype":
			bus.ClearUpcastsForType(upName(o.clear))
			obs = append(obs, C("OUnit"))
			tags["cleartype"] = true
		case "race":
			var wg sync.WaitGroup
			var e1, e2 error
			start := make(chan struct{})
			wg.Add(2)
			go func() {
				defer wg.Done()
				<-start
				e1 = eb.RegisterUpcastFunc(bus, upName(o.from), upName(o.to), c.mkFn(o.fn, &calls))
			}()
			go func() {
				defer wg.Done()
				<-start
				e2 = eb.RegisterUpcastFunc(bus, upName(o.from2), upName(o.to2), c.mkFn(o.fn2, &calls))
			}()
			close(start)
			wg.Wait()
			obs = append(obs, C("ORace", B(e1 == nil), B(e2 == nil)))
			tags["race"] = true
		case "replay":
			errs = nil
			calls = 0
			seen := []T{}
			diverged := false
			func() {
				defer func() {
					if r := recover(); r != nil {
						if _, ok := r.(divergedPanic); ok {
							diverged = true
							return
						}
						panic(r)
					}
				}()
				i := 0
				err := bus.ReplayWithUpcast(context.Background(), eb.OffsetOldest, func(ev *eb.StoredEvent) error {
					same := i < len(offs) && ev.Offset == offs[i] && ev.Timestamp.Equal(base.Add(time.Duration(i)*time.Second))
					seen = append(seen, Tup(Nat(i), Nat(upNameBack(ev.Type)), NatL(trailOf(ev.Data)), B(same)))
					if ev.Type != upName(c.log[i].ty) {
						tags["upcasted"] = true
					}
					i++
					return nil
				})
				if err != nil {
					panic(fmt.Sprint("replay error: ", err))
				}
			}()
			if diverged {
				tags["diverged"] = true
				obs = append(obs, C("OReplay", B(true), L(), L()))
			} else {
				if len(errs) > 0 {
					tags["stepfail"] = true
				}
				obs = append(obs, C("OReplay", B(false), L(seen...), L(errs...)))
			}
		}
	}
	var tl []string
	for k := range tags {
		tl = append(tl, k)
	}
	return L(obs...), tl
}

func genUpcast(rng *rand.Rand, idx int, tier string) *upCase {
	c := &upCase{}
	nNames := 3 + rng.Intn(6) // names 1..nNames
	nFns := 2 + rng.Intn(6)
	mode := rng.Intn(10) // 0-5: honouring functions, 6-9: some raw functions return other types
	// function table is filled after registrations are known so that honouring is possible
	nOps := 3 + rng.Intn(14)
	if tier == "thorough" {
		nOps = 3 + rng.Intn(28)
	}
	name := func() int {
		if rng.Intn(25) == 0 {
			return 0
		}
		return 1 + rng.Intn(nNames)
	}
	declared := map[int]int{} // fn id -> declared target of first registration using it
	nextFn := 1
	races := 0
	for i := 0; i < nOps; i++ {
		r := rng.Intn(100)
		switch {
		case r < 55:
			o := upOp{kind: "reg", from: name(), to: name()}
			if rng.Intn(20) == 0 {
				o.fn = 0
			} else {
				o.fn = nextFn
				nextFn++
				declared[o.fn] = o.to
			}
			if rng.Intn(4) == 0 && len(c.ops) > 0 { // aim at closing a cycle: reverse an earlier edge
				p := c.ops[rng.Intn(len(c.ops))]
				if p.kind == "reg" {
					o.from, o.to = p.to, p.from
					if o.fn != 0 {
						declared[o.fn] = o.to
					}
				}
			}
			c.ops = append(c.ops, o)
		case r < 62:
			c.ops = append(c.ops, upOp{kind: "clear"})
		case r < 72:
			c.ops = append(c.ops, upOp{kind: "cleartype", clear: name()})
		case r < 78 && races < 2:
			races++
			o := upOp{kind: "race", from: name(), to: name(), from2: name(), to2: name()}
			if rng.Intn(2) == 0 { // the interesting race: each alone is fine, together they close a cycle
				o.from2, o.to2 = o.to, o.from
			}
			o.fn, o.fn2 = nextFn, nextFn+1
			declared[o.fn], declared[o.fn2] = o.to, o.to2
			nextFn += 2
			c.ops = append(c.ops, o)
		default:
			c.ops = append(c.ops, upOp{kind: "replay"})
		}
	}
	c.ops = append(c.ops, upOp{kind: "replay"})
	_ = nFns
	for id := 1; id < nextFn; id++ {
		f := upFn{id: id, tag: 10 + id, ret: declared[id], fail: rng.Intn(9) == 0}
		if mode >= 6 && rng.Intn(3) == 0 { // raw upcaster returning something else: itself, its source, anything
			f.ret = 1 + rng.Intn(nNames)
		}
		c.fns = append(c.fns, f)
	}
	nLog := 1 + rng.Intn(5)
	for i := 0; i < nLog; i++ {
		c.log = append(c.log, struct {
			ty    int
			trail []int
		}{1 + rng.Intn(nNames), []int{i}})
	}
	return c
}

func directedUpcast(idx int) *upCase {
	mk := func(fns []upFn, types []int, ops ...upOp) *upCase {
		c := &upCase{fns: fns, ops: ops}
		for i, t := range types {
			c.log = append(c.log, struct {
				ty    int
				trail []int
			}{t, []int{i}})
		}
		return c
	}
	reg := func(a, b, f int) upOp { return upOp{kind: "reg", from: a, to: b, fn: f} }
	rp := upOp{kind: "replay"}
	switch idx {
	case 0: // chain of three, branch, replay
		return mk([]upFn{{1, 11, 2, false}, {2, 12, 3, false}, {3, 13, 4, false}, {4, 14, 5, false}}, []int{1, 2, 3, 9},
			reg(1, 2, 1), reg(2, 3, 2), reg(3, 4, 3), reg(1, 5, 4), rp)
	case 1: // upcaster returning its own source type: must terminate (C16)
		return mk([]upFn{{1, 11, 1, false}}, []int{1}, reg(1, 2, 1), rp)
	case 2: // two-step ping-pong through returned types: A->B returns C, C->D returns A
		return mk([]upFn{{1, 11, 3, false}, {2, 12, 1, false}}, []int{1}, reg(1, 2, 1), reg(3, 4, 2), rp)
	case 3: // failure in the middle of a chain: original event, one error report
		return mk([]upFn{{1, 11, 2, false}, {2, 12, 3, true}, {3, 13, 4, false}}, []int{1, 2, 3},
			reg(1, 2, 1), reg(2, 3, 2), reg(3, 4, 3), rp)
	case 4: // cycle attempts of length 1,2,3 and after clears
		return mk([]upFn{{1, 11, 2, false}, {2, 12, 3, false}, {3, 13, 1, false}, {4, 14, 1, false}}, []int{1},
			reg(1, 1, 1), reg(1, 2, 1), reg(2, 1, 4), reg(2, 3, 2), reg(3, 1, 3), upOp{kind: "cleartype", clear: 2}, reg(3, 1, 3), rp)
	case 5: // empty names / nil function
		return mk([]upFn{{1, 11, 2, false}}, []int{1}, reg(0, 2, 1), reg(1, 0, 1), reg(1, 2, 0), reg(1, 2, 1), rp)
	case 7: // a cycle that closes through a non-first outgoing edge plus one more hop: A->B, A->C, C->D, then D->A
		return mk([]upFn{{1, 11, 2, false}, {2, 12, 3, false}, {3, 13, 4, false}, {4, 14, 1, false}}, []int{1, 4},
			reg(1, 2, 1), reg(1, 3, 2), reg(3, 4, 3), reg(4, 1, 4), rp)
	case 8: // the same through the third edge and two more hops
		return mk([]upFn{{1, 11, 2, false}, {2, 12, 3, false}, {3, 13, 4, false}, {4, 14, 5, false}, {5, 15, 6, false}, {6, 16, 1, false}}, []int{1},
			reg(1, 2, 1), reg(1, 3, 2), reg(1, 4, 3), reg(4, 5, 4), reg(5, 6, 5), reg(6, 1, 6), rp)
	case 6: // race closing a cycle
		return mk([]upFn{{1, 11, 2, false}, {2, 12, 1, false}}, []int{1, 2},
			upOp{kind: "race", from: 1, to: 2, fn: 1, from2: 2, to2: 1, fn2: 2}, rp)
	}
	return nil
}

func init() {
	register(&Family{Name: "upcast", Quick: 400, Thorough: 6000, Directed: 9,
		Run: func(rng *rand.Rand, idx int, tier string) Case {
			c := directedUpcast(idx)
			if c == nil {
				c = genUpcast(rng, idx, tier)
			}
			obs, tags := c.run()
			nt := false
			for _, t := range tags {
				if t == "upcasted" || t == "rejected" || t == "stepfail" || t == "diverged" {
					nt = true
				}
			}
			return Case{Input: c.toInput(), Obs: obs, Tags: tags, Nontrivial: nt}
		}})
}

// ---- typed upcasters ----
type TY1 struct {
	X    int
	Note int            `json:",omitempty"`
	Tags map[string]int `json:",omitempty"`
}
type TY2 TY1
type TY3 TY1

type tpl struct {
	bad  bool
	x    int
	note int
	tags [][2]int
}

func (p tpl) term() T {
	ts := []T{}
	for _, t := range p.tags {
		ts = append(ts, Tup(Nat(t[0]), Nat(t[1])))
	}
	return C("Build_pl", B(p.bad), Nat(p.x), Nat(p.note), L(ts...))
}
func (p tpl) render() []byte {
	if p.bad {
		return []byte(`{"X":"str"}`)
	}
	v := TY1{X: p.x, Note: p.note}
	if len(p.tags) > 0 {
		v.Tags = map[string]int{}
		for _, t := range p.tags {
			v.Tags["k"+strconv.Itoa(t[0])] = t[1]
		}
	}
	b, _ := json.Marshal(v)
	return b
}
func tplOf(data []byte) tpl {
	var v TY1
	if json.Unmarshal(data, &v) != nil {
		return tpl{bad: true}
	}
	p := tpl{x: v.X, note: v.Note}
	if v.X < 0 || v.X > 4000 {
		p.x = 4999
	}
	keys := []int{}
	for k := range v.Tags {
		n, _ := strconv.Atoi(strings.TrimPrefix(k, "k"))
		keys = append(keys, n)
	}
	sortInts(keys)
	for _, k := range keys {
		p.tags = append(p.tags, [2]int{k, v.Tags["k"+strconv.Itoa(k)]})
	}
	return p
}
func sortInts(a []int) {
	for i := 1; i < len(a); i++ {
		for j := i; j > 0 && a[j] < a[j-1]; j-- {
			a[j], a[j-1] = a[j-1], a[j]
		}
	}
}

func tyName(s string) int {
	switch s {
	case "main.TY1":
		return 1
	case "main.TY2":
		return 2
	case "main.TY3":
		return 3
	}
	return 99
}

func runTyped(rng *rand.Rand, idx int, tier string) Case {
	regs := [][3]int{{1, 2, 1}, {2, 3, 2}, {1, 3, 3}}
	rng.Shuffle(len(regs), func(i, j int) { regs[i], regs[j] = regs[j], regs[i] })
	regs = regs[:1+rng.Intn(3)]
	n := 2 + rng.Intn(6)
	type ev struct {
		ty int
		p  tpl
	}
	var log []ev
	for i := 0; i < n; i++ {
		p := tpl{x: rng.Intn(20)}
		if rng.Intn(2) == 0 {
			p.note = 1 + rng.Intn(9)
		}
		for k := 1; k <= 3; k++ {
			if rng.Intn(3) == 0 {
				p.tags = append(p.tags, [2]int{k, rng.Intn(9)})
			}
		}
		if rng.Intn(12) == 0 {
			p = tpl{bad: true}
		}
		log = append(log, ev{1 + rng.Intn(3), p})
	}
	if idx == 0 { // directed: later payload omits what an earlier one set
		regs = [][3]int{{1, 2, 1}, {2, 3, 2}}
		log = []ev{{1, tpl{x: 1, note: 5, tags: [][2]int{{1, 1}, {2, 2}}}}, {1, tpl{x: 2}}, {1, tpl{x: 3, tags: [][2]int{{3, 3}}}}}
	}
	store := eb.NewMemoryStore()
	bus := eb.New(eb.WithStore(store))
	for _, r := range regs {
		var err error
		switch r[2] {
		case 1:
			err = eb.RegisterUpcast(bus, func(a TY1) TY2 { a.X++; return TY2(a) })
		case 2:
			err = eb.RegisterUpcast(bus, func(a TY2) TY3 { a.X *= 2; return TY3(a) })
		case 3:
			err = eb.RegisterUpcast(bus, func(a TY1) TY3 { a.X += 100; return TY3(a) })
		}
		if err != nil {
			panic(err)
		}
	}
	names := []string{"", "main.TY1", "main.TY2", "main.TY3"}
	for _, e := range log {
		store.Append(context.Background(), &eb.Event{Type: names[e.ty], Data: e.p.render()})
	}
	seen := []T{}
	changed := false
	i := 0
	bus.ReplayWithUpcast(context.Background(), eb.OffsetOldest, func(ev *eb.StoredEvent) error {
		seen = append(seen, Tup(Nat(tyName(ev.Type)), tplOf(ev.Data).term()))
		if tyName(ev.Type) != log[i].ty {
			changed = true
		}
		i++
		return nil
	})
	rt := []T{}
	for _, r := range regs {
		rt = append(rt, Tup(Nat(r[0]), Nat(r[1]), Nat(r[2])))
	}
	lt := []T{}
	for _, e := range log {
		lt = append(lt, Tup(Nat(e.ty), e.p.term()))
	}
	tags := []string{}
	if changed {
		tags = append(tags, "upcasted")
	}
	return Case{Input: C("Build_tinput", L(rt...), L(lt...)), Obs: L(seen...), Tags: tags, Nontrivial: changed}
}

func init() {
	register(&Family{Name: "upcasttyped", Quick: 200, Thorough: 3000, Directed: 1, Run: runTyped})
}
