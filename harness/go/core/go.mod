module verif/core

go 1.24.2

require github.com/jilio/ebu v0.0.0

replace github.com/jilio/ebu => /repo
