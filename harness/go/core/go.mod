module verif/core

go 1.25.1

require (
	github.com/ahimsalabs/durable-streams-go v0.0.0-20251220072926-9430608b4163
	github.com/jilio/ebu v0.0.0
	github.com/jilio/ebu/otel v0.0.0
	github.com/jilio/ebu/stores/durablestream v0.0.0
	github.com/jilio/ebu/stores/sqlite v0.0.0
	go.opentelemetry.io/otel v1.38.0
	go.opentelemetry.io/otel/sdk v1.38.0
	go.opentelemetry.io/otel/sdk/metric v1.38.0
	go.opentelemetry.io/otel/trace v1.38.0
	modernc.org/sqlite v1.40.1
)

require (
	github.com/dustin/go-humanize v1.0.1 // indirect
	github.com/go-logr/logr v1.4.3 // indirect
	github.com/go-logr/stdr v1.2.2 // indirect
	github.com/go4org/hashtriemap v0.0.0-20251130024219-545ba229f689 // indirect
	github.com/google/uuid v1.6.0 // indirect
	github.com/remyoudompheng/bigfft v0.0.0-20230129092748-24d4a6f8daec // indirect
	go.opentelemetry.io/auto/sdk v1.1.0 // indirect
	go.opentelemetry.io/otel/metric v1.38.0 // indirect
	golang.org/x/exp v0.0.0-20250620022241-b7579e27df2b // indirect
	golang.org/x/sys v0.36.0 // indirect
	modernc.org/libc v1.66.10 // indirect
	modernc.org/mathutil v1.7.1 // indirect
	modernc.org/memory v1.11.0 // indirect
)

replace github.com/jilio/ebu => /repo

replace github.com/jilio/ebu/otel => /repo/otel

replace github.com/jilio/ebu/stores/sqlite => /repo/stores/sqlite

replace github.com/jilio/ebu/stores/durablestream => /repo/stores/durablestream
