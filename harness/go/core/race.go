package main

// Race family (C03, sampled half): free-running goroutines mix every kind of public API call on one bus, its stores,
// its upcast registry and a state materializer, with handlers that call back into the bus, under the Go race detector
// (the harness binary is built with -race for this family) and a watchdog for global blocking.

import (
	"context"
	"encoding/json"
	"fmt"
	"math/rand"
	"os"
	"path/filepath"
	"reflect"
	"runtime"
	"sort"
	"strings"
	"sync"
	"sync/atomic"
	"time"

	eb "github.com/jilio/ebu"
	"github.com/jilio/ebu/state"
	sqlite "github.com/jilio/ebu/stores/sqlite"
)

type rcA struct{ V int }
type rcB struct{ V int }
type rcC struct{ V int }
type rcUser struct {
	Name string `json:"name"`
	N    int    `json:"n"`
}

type raceEnv struct {
	bus     *eb.EventBus
	store   eb.EventStore
	mat     *state.Materializer
	users   *state.TypedCollection[rcUser]
	ustore  *state.MemoryStore[rcUser]
	calls   atomic.Int64
	kinds   sync.Map
	escaped atomic.Int64
}

func (e *raceEnv) count(k string) {
	e.calls.Add(1)
	v, _ := e.kinds.LoadOrStore(k, new(atomic.Int64))
	v.(*atomic.Int64).Add(1)
}

// handlers are package-level functions per slot so that Unsubscribe can find them again
var raceCur atomic.Pointer[raceEnv]

func raceReenter(t string, v int) {
	e := raceCur.Load()
	if e == nil {
		return
	}
	e.count("handler")
	switch v % 11 {
	case 0:
		if t == "C" {
			eb.Publish(e.bus, rcB{v / 11})
		} else if t == "B" {
			eb.Publish(e.bus, rcA{v / 11})
		}
	case 1:
		eb.Subscribe(e.bus, raceHA1)
	case 2:
		eb.Unsubscribe[rcA](e.bus, raceHA1)
	case 3:
		if t != "A" {
			eb.Clear[rcA](e.bus)
		}
	case 4:
		eb.HandlerCount[rcB](e.bus)
	case 5:
		eb.HasHandlers[rcC](e.bus)
	case 6:
		panic("race-family handler panic")
	}
}
func raceHA0(x rcA)                      { raceReenter("A", x.V) }
func raceHA1(x rcA)                      { raceReenter("A", x.V+1) }
func raceHA2(ctx context.Context, x rcA) { raceReenter("A", x.V+2) }
func raceHB0(x rcB)                      { raceReenter("B", x.V) }
func raceHB1(ctx context.Context, x rcB) { raceReenter("B", x.V+1) }
func raceHC0(x rcC)                      { raceReenter("C", x.V) }
func raceHC1(x rcC)                      { raceReenter("C", x.V+3) }
func raceLeaf(x rcA)                     {} // Sequential handlers do not call back (self-delivery would be the documented exception)
func raceLeafB(x rcB)                    {}

func raceOpts(rng *rand.Rand, leaf bool) []eb.SubscribeOption {
	var o []eb.SubscribeOption
	if rng.Intn(4) == 0 {
		o = append(o, eb.Once())
	}
	if rng.Intn(3) == 0 {
		o = append(o, eb.Async())
	}
	if leaf {
		o = append(o, eb.Sequential())
	}
	return o
}

func (e *raceEnv) step(rng *rand.Rand, g int) {
	ctx := context.Background()
	v := rng.Intn(200)
	switch r := rng.Intn(100); {
	case r < 22:
		e.count("publish")
		switch rng.Intn(3) {
		case 0:
			eb.Publish(e.bus, rcA{v})
		case 1:
			eb.Publish(e.bus, rcB{v})
		default:
			eb.Publish(e.bus, rcC{v})
		}
	case r < 28:
		e.count("publish-ctx")
		c, cancel := context.WithCancel(ctx)
		if rng.Intn(2) == 0 {
			cancel()
		}
		eb.PublishContext(e.bus, c, rcB{v})
		cancel()
	case r < 40:
		e.count("subscribe")
		switch rng.Intn(9) {
		case 0:
			eb.Subscribe(e.bus, raceHA0, raceOpts(rng, false)...)
		case 1:
			eb.Subscribe(e.bus, raceHA1, raceOpts(rng, false)...)
		case 2:
			eb.SubscribeContext(e.bus, raceHA2, raceOpts(rng, false)...)
		case 3:
			eb.Subscribe(e.bus, raceHB0, raceOpts(rng, false)...)
		case 4:
			eb.SubscribeContext(e.bus, raceHB1, raceOpts(rng, false)...)
		case 5:
			eb.Subscribe(e.bus, raceHC0, raceOpts(rng, false)...)
		case 6:
			eb.Subscribe(e.bus, raceHC1, append(raceOpts(rng, false), eb.WithFilter(func(x rcC) bool { return x.V%2 == 0 }))...)
		case 7:
			eb.Subscribe(e.bus, raceLeaf, raceOpts(rng, true)...)
		default:
			eb.Subscribe(e.bus, raceLeafB, raceOpts(rng, true)...)
		}
	case r < 48:
		e.count("unsubscribe")
		switch rng.Intn(5) {
		case 0:
			eb.Unsubscribe[rcA](e.bus, raceHA0)
		case 1:
			eb.Unsubscribe[rcA](e.bus, raceHA2)
		case 2:
			eb.Unsubscribe[rcB](e.bus, raceHB0)
		case 3:
			eb.Unsubscribe[rcC](e.bus, raceHC0)
		default:
			eb.Unsubscribe[rcA](e.bus, raceLeaf)
		}
	case r < 52:
		e.count("clear")
		if rng.Intn(4) == 0 {
			eb.ClearAll(e.bus)
		} else {
			eb.Clear[rcB](e.bus)
		}
	case r < 60:
		e.count("query")
		eb.HasHandlers[rcA](e.bus)
		eb.HandlerCount[rcC](e.bus)
	case r < 63:
		e.count("wait")
		e.bus.Wait()
	case r < 70 && e.store != nil:
		e.count("replay")
		n := 0
		e.bus.Replay(ctx, eb.OffsetOldest, func(*eb.StoredEvent) error { n++; return nil })
		e.bus.ReplayWithUpcast(ctx, eb.OffsetOldest, func(*eb.StoredEvent) error { return nil })
	case r < 76:
		e.count("upcast-registry")
		switch rng.Intn(4) {
		case 0:
			eb.RegisterUpcastFunc(e.bus, fmt.Sprintf("rv%d", rng.Intn(4)), fmt.Sprintf("rv%d", 4+rng.Intn(4)),
				func(d json.RawMessage) (json.RawMessage, string, error) { return d, "rvX", nil })
		case 1:
			e.bus.ClearUpcastsForType(fmt.Sprintf("rv%d", rng.Intn(4)))
		case 2:
			eb.RegisterUpcast(e.bus, func(a rcA) rcB { return rcB{a.V} })
		default:
			e.bus.ClearUpcasts()
		}
	case r < 84 && e.store != nil:
		e.count("store-direct")
		switch rng.Intn(4) {
		case 0:
			e.store.Append(ctx, &eb.Event{Type: "direct", Data: []byte(`{"V":1}`), Timestamp: time.Unix(1700000000, 0).UTC()})
		case 1:
			e.store.Read(ctx, eb.OffsetOldest, 5)
		case 2:
			if ss, ok := e.store.(eb.SubscriptionStore); ok {
				ss.SaveOffset(ctx, fmt.Sprintf("g%d", g), eb.OffsetOldest)
				ss.LoadOffset(ctx, fmt.Sprintf("g%d", rng.Intn(4)))
			}
		default:
			if st, ok := e.store.(eb.EventStoreStreamer); ok {
				for range st.ReadStream(ctx, eb.OffsetOldest) {
				}
			}
		}
	case r < 88 && e.store != nil:
		e.count("subscribe-with-replay")
		eb.SubscribeWithReplay(ctx, e.bus, fmt.Sprintf("rs%d", rng.Intn(3)), func(x rcA) {})
	case r < 96:
		e.count("materializer")
		key := fmt.Sprintf("u%d", rng.Intn(5))
		var msg *state.ChangeMessage
		switch rng.Intn(3) {
		case 0:
			msg, _ = state.Insert(key, rcUser{Name: key, N: v})
		case 1:
			msg, _ = state.Update(key, rcUser{Name: key, N: v})
		default:
			msg, _ = state.Delete[rcUser](key)
		}
		if msg != nil {
			e.mat.ApplyChangeMessage(msg)
		}
		e.ustore.Get(key)
		e.ustore.All()
		e.mat.LastOffset()
		if rng.Intn(6) == 0 {
			e.mat.ApplyControlMessage(state.Reset("0"))
		}
	default:
		if rng.Intn(2) == 0 {
			runtime.Gosched()
		} else {
			time.Sleep(time.Duration(rng.Intn(200)) * time.Microsecond)
		}
	}
}

func raceLogs() []string {
	for _, kv := range strings.Fields(os.Getenv("GORACE")) {
		if strings.HasPrefix(kv, "log_path=") {
			m, _ := filepath.Glob(strings.TrimPrefix(kv, "log_path=") + ".*")
			return m
		}
	}
	return nil
}
func raceLogSize() (n int64, first string) {
	for _, f := range raceLogs() {
		b, err := os.ReadFile(f)
		if err == nil {
			n += int64(strings.Count(string(b), "WARNING: DATA RACE"))
			if first == "" && len(b) > 0 {
				first = string(b)
			}
		}
	}
	return
}

var raceBlockedCases int

func runRace(rng *rand.Rand, idx int, tier string) Case {
	e := &raceEnv{}
	var opts []eb.Option
	kind := []string{"none", "mem", "mem", "sqlite"}[rng.Intn(4)]
	if os.Getenv("VERIF_RACE_NOSQLITE") != "" && kind == "sqlite" {
		kind = "mem"
	}
	switch kind {
	case "mem":
		e.store = eb.NewMemoryStore()
	case "sqlite":
		s, err := sqlite.New(":memory:")
		if err != nil {
			panic(err)
		}
		e.store = s
		defer s.Close()
	}
	if e.store != nil {
		opts = append(opts, eb.WithStore(e.store))
	}
	opts = append(opts, eb.WithPanicHandler(func(event any, handlerType reflect.Type, v any) {}))
	if rng.Intn(2) == 0 {
		opts = append(opts, eb.WithBeforePublish(func(t reflect.Type, ev any) {
			if b, ok := ev.(rcC); ok && b.V%13 == 0 {
				eb.HandlerCount[rcA](e.bus)
			}
		}))
	}
	e.bus = eb.New(opts...)
	e.ustore = state.NewMemoryStore[rcUser]()
	e.users = state.NewTypedCollection[rcUser](e.ustore)
	e.mat = state.NewMaterializer()
	state.RegisterCollection(e.mat, e.users)
	raceCur.Store(e)
	before, _ := raceLogSize()
	G := 2 + rng.Intn(7)
	steps := 25 + rng.Intn(50)
	if tier == "thorough" {
		steps = 40 + rng.Intn(120)
	}
	// GOMAXPROCS only ever grows within one process: shrinking it destroys Ps, and the race runtime of this toolchain
	// occasionally segfaults (in __tsan::ThreadContext::OnFinished) when that happens while goroutines of the previous
	// case are still finishing.  The runner starts the process with GOMAXPROCS=1 in the environment; the cases run in
	// four blocks with 1, 2, 4 and 16 Ps.
	rng.Intn(4)
	total := families["race"].Quick
	if tier == "thorough" {
		total = families["race"].Thorough
	}
	procs := []int{1, 2, 4, 16}[min(3, idx*4/max(total, 1))]
	if cur := runtime.GOMAXPROCS(0); procs > cur {
		runtime.GOMAXPROCS(procs)
	} else {
		procs = cur
	}
	var wg sync.WaitGroup
	for g := 0; g < G; g++ {
		wg.Add(1)
		r2 := rand.New(rand.NewSource(rng.Int63()))
		go func(g int) {
			defer wg.Done()
			for i := 0; i < steps; i++ {
				func() {
					defer func() {
						if x := recover(); x != nil { // a panic that escaped a public API call
							e.escaped.Add(1)
							e.kinds.LoadOrStore(fmt.Sprintf("ESCAPED-PANIC:%v", x), new(atomic.Int64))
						}
					}()
					e.step(r2, g)
				}()
			}
		}(g)
	}
	done := make(chan struct{})
	go func() { wg.Wait(); e.bus.Wait(); close(done) }()
	blocked := false
	note := ""
	select {
	case <-done:
	case <-time.After(30 * time.Second):
		blocked = true
		if raceBlockedCases++; raceBlockedCases >= 4 {
			stopRun = true
		}
		buf := make([]byte, 1<<16)
		n := runtime.Stack(buf, true)
		note = string(buf[:n])
		if len(note) > 3000 {
			note = note[:3000]
		}
	}
	raceCur.Store(nil)
	after, first := raceLogSize()
	races := int(after - before)
	if races > 0 {
		if len(first) > 3000 {
			first = first[:3000]
		}
		note = first
	}
	var tags []string
	e.kinds.Range(func(k, v any) bool { tags = append(tags, k.(string)); return true })
	tags = append(tags, "store-"+kind, fmt.Sprintf("procs%d", procs), fmt.Sprintf("goroutines%d", G))
	sort.Strings(tags)
	clean := ""
	for _, ch := range note {
		if ch >= 32 && ch <= 126 {
			clean += string(ch)
		} else {
			clean += " "
		}
	}
	return Case{Input: Tup(Nat(G), Nat(steps), Nat(procs)),
		Obs:        C("Build_raceobs", B(raceDetector), Nat(min(races, 4000)), B(blocked), Nat(int(min(e.escaped.Load(), 4000))), Nat(int(e.calls.Load()%4000))),
		Tags:       tags,
		Nontrivial: true,
		Note:       clean}
}

func init() {
	register(&Family{Name: "race", Quick: 120, Thorough: 2000, Directed: 0, Run: runRace})
}
