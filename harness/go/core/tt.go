package main

// T-terms: see /verif/lib/tterm.py for the format.
type T map[string]any

func C(name string, args ...T) T {
	if len(args) == 0 {
		return T{"c": name}
	}
	return T{"c": name, "a": args}
}
func Nat(i int) T   { return T{"n": i} }
func Z(i int64) T   { return T{"z": i} }
func NN(i uint64) T { return T{"N": i} }
func S(s string) T  { return T{"s": s} }
func B(b bool) T    { return T{"b": b} }
func L(items ...T) T {
	if items == nil {
		items = []T{}
	}
	return T{"l": items}
}
func Tup(items ...T) T { return T{"t": items} }
func Some(x T) T       { return T{"o": x} }
func None() T          { return T{"o": nil} }

func NatL(xs []int) T {
	out := make([]T, len(xs))
	for i, x := range xs {
		out[i] = Nat(x)
	}
	return L(out...)
}
