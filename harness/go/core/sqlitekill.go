package main

// Sqlitekill family (C14): a child process (this same binary) appends events and saves offsets on a SQLite database
// file and acknowledges each returned call on a pipe; the parent kills it with SIGKILL after a chosen number of
// acknowledgements or at an arbitrary instant (or lets it close cleanly), reopens the database and records what is there.

import (
	"bufio"
	"context"
	"encoding/json"
	"fmt"
	"math/rand"
	"os"
	"os/exec"
	"sort"
	"strconv"
	"strings"
	"time"

	eb "github.com/jilio/ebu"
	sqlite "github.com/jilio/ebu/stores/sqlite"
)

// child: VERIF_CHILD=sqlite <binary> <dbpath> <script> ; script = comma-separated "A:<val>" | "S:<id>:<pos>", optional final "C"
func childSqlite() {
	path, script := os.Args[1], os.Args[2]
	out := os.Stdout
	s, err := sqlite.New(path)
	if err != nil {
		fmt.Fprintf(out, "openerr %v\n", err)
		os.Exit(3)
	}
	fmt.Fprintln(out, "open")
	ctx := context.Background()
	clean := false
	if script != "" {
		for _, op := range strings.Split(script, ",") {
			f := strings.Split(op, ":")
			switch f[0] {
			case "A":
				_, err := s.Append(ctx, &eb.Event{Type: "kill.Ev", Data: []byte(`{"V":` + f[1] + `}`), Timestamp: time.Unix(1700000000, 0).UTC()})
				if err != nil {
					fmt.Fprintf(out, "err %v\n", err)
					os.Exit(4)
				}
				fmt.Fprintln(out, "ack")
			case "S":
				if err := s.SaveOffset(ctx, "sub"+f[1], eb.Offset(f[2])); err != nil {
					fmt.Fprintf(out, "err %v\n", err)
					os.Exit(4)
				}
				fmt.Fprintln(out, "ack")
			case "C":
				clean = true
			}
		}
	}
	if clean {
		if err := s.Close(); err != nil {
			fmt.Fprintf(out, "err %v\n", err)
			os.Exit(5)
		}
		fmt.Fprintln(out, "closed")
		os.Exit(0)
	}
	select {} // wait for the kill
}

type skOp struct {
	save    bool
	val     int
	id, pos int
}

func (o skOp) term() T {
	if o.save {
		return C("SSave", Nat(o.id), Nat(o.pos))
	}
	return C("SAppend", Nat(o.val))
}
func (o skOp) script() string {
	if o.save {
		return fmt.Sprintf("S:%d:%d", o.id, o.pos)
	}
	return fmt.Sprintf("A:%d", o.val)
}

type skLife struct {
	ops  []skOp
	mode int // 0 clean close, 1 kill after k acknowledgements, 2 kill after a delay
	k    int
	usec int
}

// snapshot of the database as the parent finds it after reopening
func skSnapshot(path string) (rows [][2]int, offs []int, err error) {
	s, err := sqlite.New(path)
	if err != nil {
		return nil, nil, err
	}
	defer s.Close()
	ctx := context.Background()
	evs, _, err := s.Read(ctx, eb.OffsetOldest, 0)
	if err != nil {
		return nil, nil, err
	}
	for _, e := range evs {
		var d struct{ V int }
		if json.Unmarshal(e.Data, &d) != nil {
			d.V = 9999
		}
		p, perr := strconv.Atoi(string(e.Offset))
		if perr != nil {
			p = 9999
		}
		rows = append(rows, [2]int{p, d.V})
	}
	for id := 0; id < 3; id++ {
		o, err := s.LoadOffset(ctx, fmt.Sprintf("sub%d", id))
		if err != nil {
			return nil, nil, err
		}
		p := 0
		if o != eb.OffsetOldest {
			if p, err = strconv.Atoi(string(o)); err != nil {
				p = 9999
			}
		}
		offs = append(offs, p)
	}
	return rows, offs, nil
}

func runSqliteKill(rng *rand.Rand, idx int, tier string) Case {
	dir := os.Getenv("VERIF_TMP")
	if dir == "" {
		dir = os.TempDir()
	}
	f, err := os.CreateTemp(dir, "vkill-*.db")
	if err != nil {
		panic(err)
	}
	f.Close()
	os.Remove(f.Name())
	path := f.Name()
	defer func() {
		for _, p := range []string{path, path + "-wal", path + "-shm"} {
			os.Remove(p)
		}
	}()
	self, err := os.Executable()
	if err != nil {
		panic(err)
	}
	nlives := 3 + rng.Intn(4)
	if tier == "thorough" {
		nlives = 3 + rng.Intn(8)
	}
	val := 1
	known := 0 // rows known to be there when a life starts (from the last snapshot)
	tags := map[string]bool{}
	var in, obs []T
	anomaly := 0
	for li := 0; li < nlives; li++ {
		var l skLife
		n := rng.Intn(9)
		if rng.Intn(6) == 0 {
			n = 0 // only open (and close, or be killed while idle): opening must be idempotent
		}
		apps := 0
		for i := 0; i < n; i++ {
			if rng.Intn(4) == 0 && known+apps > 0 {
				l.ops = append(l.ops, skOp{save: true, id: rng.Intn(3), pos: 1 + rng.Intn(known+apps)})
			} else {
				l.ops = append(l.ops, skOp{val: val})
				val++
				apps++
			}
		}
		switch r := rng.Intn(10); {
		case r < 2:
			l.mode = 0
		case r < 6:
			l.mode, l.k = 1, rng.Intn(n+1)
		default:
			l.mode, l.usec = 2, rng.Intn(6000)
			if li == 0 && rng.Intn(2) == 0 {
				l.usec = rng.Intn(2500) // around the first open: schema migration in progress
			}
		}
		var parts []string
		var opsT []T
		for _, o := range l.ops {
			parts = append(parts, o.script())
			opsT = append(opsT, o.term())
		}
		if l.mode == 0 {
			parts = append(parts, "C")
		}
		cmd := exec.Command(self, path, strings.Join(parts, ","))
		cmd.Env = append(os.Environ(), "VERIF_CHILD=sqlite")
		stdout, err := cmd.StdoutPipe()
		if err != nil {
			panic(err)
		}
		if err := cmd.Start(); err != nil {
			panic(err)
		}
		lines := make(chan string, 64)
		go func() {
			sc := bufio.NewScanner(stdout)
			for sc.Scan() {
				lines <- sc.Text()
			}
			close(lines)
		}()
		opened, acks, closed := false, 0, false
		killed := false
		kill := func() {
			if !killed {
				killed = true
				cmd.Process.Kill()
			}
		}
		var timer <-chan time.Time
		if l.mode == 2 {
			timer = time.After(time.Duration(l.usec) * time.Microsecond)
		}
		if l.mode == 1 && l.k == 0 {
			// kill as soon as the store is open
		}
	loop:
		for {
			select {
			case ln, ok := <-lines:
				if !ok {
					break loop
				}
				switch {
				case ln == "open":
					opened = true
					if l.mode == 1 && l.k == 0 {
						kill()
					}
				case ln == "ack":
					acks++
					if l.mode == 1 && acks == l.k {
						kill()
					}
				case ln == "closed":
					closed = true
				default:
					anomaly = 997 // the child reported an error
					tags["child-error:"+ln] = true
				}
			case <-timer:
				kill()
				timer = nil
			}
		}
		cmd.Wait()
		if l.mode == 1 && l.k >= len(l.ops) && !killed {
			kill()
		}
		switch {
		case closed:
			tags["clean-close"] = true
		case !opened:
			tags["killed-before-open"] = true
		case acks == len(l.ops):
			tags["killed-idle"] = true
		default:
			tags["killed-in-flight"] = true
		}
		rows, offs, err := skSnapshot(path)
		if err != nil {
			anomaly = 998 // the database cannot be reopened / read
			tags["reopen-error:"+err.Error()] = true
		}
		var rowsT []T
		for _, r := range rows {
			rowsT = append(rowsT, Tup(Nat(r[0]), Nat(r[1])))
		}
		known = len(rows)
		in = append(in, L(opsT...))
		obs = append(obs, C("Build_lobs", B(opened), Nat(acks), B(closed), L(rowsT...), NatL(offs)))
	}
	var tl []string
	for k := range tags {
		tl = append(tl, k)
	}
	sort.Strings(tl)
	return Case{Input: L(in...), Obs: C("Build_kobs", L(obs...), Nat(anomaly)), Tags: tl, Nontrivial: tags["killed-in-flight"] || tags["killed-before-open"]}
}

func init() {
	register(&Family{Name: "sqlitekill", Quick: 120, Thorough: 1200, Directed: 0, Run: runSqliteKill})
}
