package main

// Otel family (C20, adapter half): a free-running workload on a real bus with the OpenTelemetry adapter of /repo/otel
// wired to the SDK's span recorder and manual metric reader.  The harness counts on its own what really happened per
// publish (handler runs, panics, append attempts and failures); Corr/CorrOtel.v feeds those numbers to the adapter
// model and compares spans, parents, statuses and counters with what the SDK recorded.

import (
	"context"
	"encoding/json"
	"errors"
	"fmt"
	"math/rand"
	"reflect"
	"sort"
	"sync"

	eb "github.com/jilio/ebu"
	ebuotel "github.com/jilio/ebu/otel"
	"go.opentelemetry.io/otel/attribute"
	"go.opentelemetry.io/otel/codes"
	sdkmetric "go.opentelemetry.io/otel/sdk/metric"
	"go.opentelemetry.io/otel/sdk/metric/metricdata"
	sdktrace "go.opentelemetry.io/otel/sdk/trace"
	"go.opentelemetry.io/otel/sdk/trace/tracetest"
	"go.opentelemetry.io/otel/trace"
)

type otEnv struct {
	mu    sync.Mutex
	truth map[int]*otTruth
}
type otTruth struct {
	sync, async, panics int
	persist             int // 0 no attempt, 1 appended, 2 append failed
}

func (e *otEnv) t(pid int) *otTruth {
	if e.truth[pid] == nil {
		e.truth[pid] = &otTruth{}
	}
	return e.truth[pid]
}

type otA struct {
	P, V int
	bad  bool
}
type otB struct {
	P, V int
	bad  bool
}

func (x otA) SpanAttributes() []attribute.KeyValue {
	return []attribute.KeyValue{attribute.Int("pid", x.P)}
}
func (x otB) SpanAttributes() []attribute.KeyValue {
	return []attribute.KeyValue{attribute.Int("pid", x.P)}
}
func (x otA) MarshalJSON() ([]byte, error) {
	if x.bad {
		return nil, errors.New("unencodable")
	}
	return []byte(fmt.Sprintf(`{"P":%d,"V":%d}`, x.P, x.V)), nil
}
func (x otB) MarshalJSON() ([]byte, error) {
	if x.bad {
		return nil, errors.New("unencodable")
	}
	return []byte(fmt.Sprintf(`{"P":%d,"V":%d}`, x.P, x.V)), nil
}

type otStore struct {
	e     *otEnv
	inner *eb.MemoryStore
}

func (s *otStore) Append(ctx context.Context, ev *eb.Event) (eb.Offset, error) {
	var d struct{ P, V int }
	if err := json.Unmarshal(ev.Data, &d); err != nil {
		return "", err
	}
	s.e.mu.Lock()
	fail := d.V%5 == 0
	if fail {
		s.e.t(d.P).persist = 2
	} else {
		s.e.t(d.P).persist = 1
	}
	s.e.mu.Unlock()
	if fail {
		return "", errors.New("append rejected")
	}
	return s.inner.Append(ctx, ev)
}
func (s *otStore) Read(ctx context.Context, from eb.Offset, limit int) ([]*eb.StoredEvent, eb.Offset, error) {
	return s.inner.Read(ctx, from, limit)
}

func runOtel(rng *rand.Rand, idx int, tier string) Case {
	rec := tracetest.NewSpanRecorder()
	tp := sdktrace.NewTracerProvider(sdktrace.WithSpanProcessor(rec))
	reader := sdkmetric.NewManualReader()
	mp := sdkmetric.NewMeterProvider(sdkmetric.WithReader(reader))
	obs, err := ebuotel.New(ebuotel.WithTracerProvider(tp), ebuotel.WithMeterProvider(mp))
	if err != nil {
		panic(err)
	}
	e := &otEnv{truth: map[int]*otTruth{}}
	opts := []eb.Option{eb.WithObservability(obs)}
	withStore := rng.Intn(3) != 0
	if withStore {
		opts = append(opts, eb.WithStore(&otStore{e: e, inner: eb.NewMemoryStore()}))
		if rng.Intn(2) == 0 {
			opts = append(opts, eb.WithPersistenceErrorHandler(func(any, reflect.Type, error) {}))
		}
	}
	if rng.Intn(2) == 0 {
		opts = append(opts, eb.WithPanicHandler(func(any, reflect.Type, any) {}))
	}
	bus := eb.New(opts...)
	var pidMu sync.Mutex
	nextPid := 1
	newPid := func() int { pidMu.Lock(); defer pidMu.Unlock(); p := nextPid; nextPid++; return p }
	tags := map[string]bool{}
	var tagMu sync.Mutex
	tag := func(s string) { tagMu.Lock(); tags[s] = true; tagMu.Unlock() }
	// handler bodies: count the run, maybe publish again (nested, with or without the handler's context), maybe panic
	body := func(async bool, mode int, canNest bool) func(ctx context.Context, pid, v int) {
		return func(ctx context.Context, pid, v int) {
			e.mu.Lock()
			if async {
				e.t(pid).async++
			} else {
				e.t(pid).sync++
			}
			panics := (v+mode)%4 == 0
			if panics {
				e.t(pid).panics++
			}
			e.mu.Unlock()
			if canNest && mode%3 == 1 && v%2 == 1 && v < 40 {
				tag("nested-publish")
				if ctx != nil && mode%2 == 0 {
					eb.PublishContext(bus, ctx, otB{P: newPid(), V: v + 41})
				} else {
					eb.Publish(bus, otB{P: newPid(), V: v + 41})
				}
			}
			if panics {
				tag("handler-panic")
				panic("otel-family handler panic")
			}
		}
	}
	nh := 1 + rng.Intn(5)
	for i := 0; i < nh; i++ {
		var so []eb.SubscribeOption
		async := rng.Intn(3) == 0
		if async {
			so = append(so, eb.Async())
			tag("async")
		}
		if rng.Intn(4) == 0 {
			so = append(so, eb.Once())
			tag("once")
		}
		if rng.Intn(4) == 0 {
			so = append(so, eb.Sequential())
			tag("sequential")
		}
		mode := rng.Intn(6)
		which := rng.Intn(4)
		b := body(async, mode, which < 2) // only handlers of otA publish (otB): no Sequential self-delivery
		switch which {
		case 0:
			if rng.Intn(2) == 0 {
				so = append(so, eb.WithFilter(func(x otA) bool { return x.V%3 != 0 }))
				tag("filter")
			}
			eb.Subscribe(bus, func(x otA) { b(nil, x.P, x.V) }, so...)
		case 1:
			eb.SubscribeContext(bus, func(ctx context.Context, x otA) { b(ctx, x.P, x.V) }, so...)
		case 2:
			eb.Subscribe(bus, func(x otB) { b(nil, x.P, x.V) }, so...)
		default:
			eb.SubscribeContext(bus, func(ctx context.Context, x otB) { b(ctx, x.P, x.V) }, so...)
		}
	}
	G := 1 + rng.Intn(3)
	var wg sync.WaitGroup
	for g := 0; g < G; g++ {
		wg.Add(1)
		r2 := rand.New(rand.NewSource(rng.Int63()))
		go func() {
			defer wg.Done()
			for i := 2 + r2.Intn(6); i > 0; i-- {
				pid, v := newPid(), r2.Intn(40)
				bad := withStore && r2.Intn(8) == 0
				ctx := context.Background()
				if r2.Intn(5) == 0 {
					c, cancel := context.WithCancel(ctx)
					cancel()
					ctx = c
					tag("cancelled-context")
				}
				if bad {
					tag("unencodable")
				}
				if r2.Intn(2) == 0 {
					eb.PublishContext(bus, ctx, otA{P: pid, V: v, bad: bad})
				} else {
					eb.PublishContext(bus, ctx, otB{P: pid, V: v, bad: bad})
				}
			}
		}()
	}
	wg.Wait()
	bus.Wait()
	tp.ForceFlush(context.Background())

	// ---- what the SDK recorded ----
	started, ended := rec.Started(), rec.Ended()
	endedCount := map[trace.SpanID]int{}
	for _, s := range ended {
		endedCount[s.SpanContext().SpanID()]++
	}
	notEndedOnce := 0
	for _, s := range started {
		if endedCount[s.SpanContext().SpanID()] != 1 {
			notEndedOnce++
		}
	}
	pubOf := map[trace.SpanID]int{}
	pubSpans := map[int]int{}
	for _, s := range ended {
		if len(s.Name()) >= 17 && s.Name()[:17] == "eventbus.publish:" {
			pid := -1
			for _, a := range s.Attributes() {
				if a.Key == "pid" {
					pid = int(a.Value.AsInt64())
				}
			}
			pubOf[s.SpanContext().SpanID()] = pid
			pubSpans[pid]++
		}
	}
	type perPid struct{ hs, ha, herr, ps, perr int }
	seen := map[int]*perPid{}
	get := func(pid int) *perPid {
		if seen[pid] == nil {
			seen[pid] = &perPid{}
		}
		return seen[pid]
	}
	orphans := 0
	for _, s := range ended {
		name := s.Name()
		isPub := len(name) >= 17 && name[:17] == "eventbus.publish:"
		if isPub {
			continue
		}
		pid, ok := pubOf[s.Parent().SpanID()]
		if !ok {
			orphans++
			continue
		}
		p := get(pid)
		isErr := s.Status().Code == codes.Error
		switch {
		case len(name) >= 23 && name[:23] == "eventbus.handler.async:":
			p.ha++
			if isErr {
				p.herr++
			}
		case len(name) >= 17 && name[:17] == "eventbus.handler:":
			p.hs++
			if isErr {
				p.herr++
			}
		case len(name) >= 17 && name[:17] == "eventbus.persist:":
			p.ps++
			if isErr {
				p.perr++
			}
		default:
			orphans++
		}
	}
	var rm metricdata.ResourceMetrics
	reader.Collect(context.Background(), &rm)
	counters := map[string]int{}
	for _, sm := range rm.ScopeMetrics {
		for _, m := range sm.Metrics {
			if sum, ok := m.Data.(metricdata.Sum[int64]); ok {
				for _, dp := range sum.DataPoints {
					counters[m.Name] += int(dp.Value)
				}
			}
		}
	}
	// ---- terms ----
	var pids []int
	for pid := 1; pid < nextPid; pid++ {
		pids = append(pids, pid)
	}
	var truthT, seenT []T
	for _, pid := range pids {
		t := e.t(pid)
		truthT = append(truthT, C("Build_ptruth", Nat(pid), Nat(t.sync), Nat(t.async), Nat(t.panics), Nat(t.persist)))
		p := get(pid)
		seenT = append(seenT, C("Build_pseen", Nat(pid), Nat(pubSpans[pid]), Nat(p.hs), Nat(p.ha), Nat(p.herr), Nat(p.ps), Nat(p.perr)))
	}
	var tl []string
	for k := range tags {
		tl = append(tl, k)
	}
	sort.Strings(tl)
	return Case{Input: L(truthT...),
		Obs: C("Build_otobs", L(seenT...), Nat(len(started)), Nat(len(ended)), Nat(notEndedOnce), Nat(orphans),
			NatL([]int{counters["eventbus.publish.count"], counters["eventbus.handler.count"], counters["eventbus.handler.errors"],
				counters["eventbus.persist.count"], counters["eventbus.persist.errors"]})),
		Tags: tl, Nontrivial: true}
}

func init() {
	register(&Family{Name: "otel", Quick: 150, Thorough: 3000, Directed: 0, Run: runOtel})
}
