package main

// Bus family: programs of threads/handlers/filters/hooks run against the real bus under the
// controller; mirrors coq/Bus/BusModel.v and coq/Corr/CorrBus.v.

import (
	"context"
	"encoding/json"
	"errors"
	"fmt"
	"hash/fnv"
	"os"
	"reflect"
	"runtime"
	"runtime/debug"
	"sort"
	"strings"
	"sync"
	"time"

	eb "github.com/jilio/ebu"
)

// ---- program text (same shape as the Coq types) ----
type hspec struct {
	fn                    int
	once, async, seq, ctx bool
	filter                int // -1 = none
	body                  int
}
type action struct {
	kind   string // sub unsub clear clearall pub has count cancel wait shutdown panic
	t      int
	sp     hspec
	fn     int
	v      int
	c      int // ctx id, 0 = background
	viaAny bool
}
type filt struct {
	acts []action
	min  int
}
type busProgram struct {
	opts    []string // store beforeLegacy:b afterLegacy:b beforeCtx:b afterCtx:b panicHandler persistErr obs
	optArgs []int
	bodies  map[int][]action
	filters map[int]filt
	pfaults map[int]string // value -> ok|unencodable|reject|timeout
	threads [][]action
	ntypes  int
}

func ctxT(c int) T {
	if c == 0 {
		return C("CtxBg")
	}
	return C("CtxId", Nat(c))
}
func (s hspec) term() T {
	f := None()
	if s.filter >= 0 {
		f = Some(Nat(s.filter))
	}
	return C("Build_hspec", Nat(s.fn), B(s.once), B(s.async), B(s.seq), B(s.ctx), f, Nat(s.body))
}
func (a action) term() T {
	switch a.kind {
	case "sub":
		return C("ASub", Nat(a.t), a.sp.term())
	case "unsub":
		return C("AUnsub", Nat(a.t), Nat(a.fn))
	case "clear":
		return C("AClear", Nat(a.t))
	case "clearall":
		return C("AClearAll")
	case "pub":
		return C("APub", Nat(a.t), Nat(a.v), ctxT(a.c), B(a.viaAny))
	case "has":
		return C("AHas", Nat(a.t))
	case "count":
		return C("ACount", Nat(a.t))
	case "cancel":
		return C("ACancel", Nat(a.c))
	case "wait":
		return C("AWait")
	case "shutdown":
		return C("AShutdown", ctxT(a.c))
	case "panic":
		return C("APanic", Nat(a.v))
	}
	panic("bad action " + a.kind)
}
func actsT(as []action) T {
	out := []T{}
	for _, a := range as {
		out = append(out, a.term())
	}
	return L(out...)
}

// ---- event types: Ev[M] for 40 marker types ----
type Ev[M any] struct {
	P, V int
	h    *busHarness
}

func (e Ev[M]) pid() int { return e.P }

// The persisted type name depends on the value (as with a schema version in the name): a name resolved once per Go
// type would be wrong for the next event of that type.
func (e Ev[M]) EventTypeName() string {
	return fmt.Sprintf("%s#%d", reflect.TypeOf(e).String(), e.V%3)
}
func (e Ev[M]) MarshalJSON() ([]byte, error) {
	if e.h != nil {
		switch e.h.prog.pfaults[e.V] {
		case "unencodable":
			switch e.V % 3 {
			case 0:
				return nil, errors.New("no JSON encoding")
			case 1:
				// a marshaller that delegates to encoding/json for a part of the event whose dynamic value cannot be
				// encoded (a channel behind an `any`): a *json.UnsupportedTypeError - about this value, not about the
				// event's Go type, whose other values encode fine
				_, err := json.Marshal(struct{ X any }{make(chan int)})
				return nil, err
			}
			return []byte(`{"P":`), nil // invalid JSON with a nil error: json.Marshal must reject it
		}
	}
	return []byte(fmt.Sprintf(`{"P":%d,"V":%d}`, e.P, e.V)), nil
}

type pider interface{ pid() int }
type valuer interface {
	pid() int
	val() int
}

func (e Ev[M]) val() int { return e.V }

type typeOps struct {
	name  string
	shard int
	sub   func(h *busHarness, rid int, sp hspec) error
	unsub func(h *busHarness, fn int) error
	clear func(h *busHarness)
	has   func(h *busHarness) bool
	count func(h *busHarness) int
	pub   func(h *busHarness, ctx context.Context, withCtx bool, p, v int, viaAny bool)
}

// not inlined: an inlined copy would give its closures fresh code pointers, and Unsubscribe compares code pointers
//
//go:noinline
func plainSlot[M any](k int, h *busHarness, rid int) eb.Handler[Ev[M]] {
	switch k {
	case 0:
		return func(e Ev[M]) { h.onHandler(rid, e.P, nil, 0) }
	case 1:
		return func(e Ev[M]) { h.onHandler(rid, e.P, nil, 1) }
	case 2:
		return func(e Ev[M]) { h.onHandler(rid, e.P, nil, 2) }
	default:
		return func(e Ev[M]) { h.onHandler(rid, e.P, nil, 3) }
	}
}

//go:noinline
func ctxSlot[M any](k int, h *busHarness, rid int) eb.ContextHandler[Ev[M]] {
	switch k {
	case 0:
		return func(ctx context.Context, e Ev[M]) { h.onHandler(rid, e.P, ctx, 10) }
	case 1:
		return func(ctx context.Context, e Ev[M]) { h.onHandler(rid, e.P, ctx, 11) }
	case 2:
		return func(ctx context.Context, e Ev[M]) { h.onHandler(rid, e.P, ctx, 12) }
	default:
		return func(ctx context.Context, e Ev[M]) { h.onHandler(rid, e.P, ctx, 13) }
	}
}

func mkOps[M any]() typeOps {
	name := reflect.TypeOf((*Ev[M])(nil)).Elem().String()
	f := fnv.New32a()
	f.Write([]byte(name))
	return typeOps{
		name:  name,
		shard: int(f.Sum32() & 31),
		sub: func(h *busHarness, rid int, sp hspec) error {
			var opts []eb.SubscribeOption
			if sp.once {
				opts = append(opts, eb.Once())
			}
			if sp.async {
				opts = append(opts, eb.Async())
			}
			if sp.seq {
				opts = append(opts, eb.Sequential())
			}
			if sp.filter >= 0 {
				fl := h.prog.filters[sp.filter]
				if sp.filter == 2 {
					// the third filter is declared over an interface the events satisfy, not over the event type itself
					opts = append(opts, eb.WithFilter(func(e valuer) bool {
						h.ctl.point(C("LFilter", Nat(e.pid()), Nat(rid)), true, h.noBind)
						h.runActs(fl.acts)
						return e.val() >= fl.min
					}))
				} else {
					opts = append(opts, eb.WithFilter(func(e Ev[M]) bool {
						h.ctl.point(C("LFilter", Nat(e.P), Nat(rid)), true, h.noBind)
						h.runActs(fl.acts)
						return e.V >= fl.min
					}))
				}
			}
			if sp.ctx {
				return eb.SubscribeContext(h.bus, ctxSlot[M](sp.fn/2, h, rid), opts...)
			}
			return eb.Subscribe(h.bus, plainSlot[M](sp.fn/2, h, rid), opts...)
		},
		unsub: func(h *busHarness, fn int) error {
			if fn%2 == 1 {
				return eb.Unsubscribe[Ev[M]](h.bus, ctxSlot[M](fn/2, h, -1))
			}
			return eb.Unsubscribe[Ev[M]](h.bus, plainSlot[M](fn/2, h, -1))
		},
		clear: func(h *busHarness) { eb.Clear[Ev[M]](h.bus) },
		has:   func(h *busHarness) bool { return eb.HasHandlers[Ev[M]](h.bus) },
		count: func(h *busHarness) int { return eb.HandlerCount[Ev[M]](h.bus) },
		pub: func(h *busHarness, ctx context.Context, withCtx bool, p, v int, viaAny bool) {
			e := Ev[M]{P: p, V: v, h: h}
			switch {
			case viaAny && withCtx:
				eb.PublishContext[any](h.bus, ctx, e)
			case viaAny:
				eb.Publish[any](h.bus, e)
			case withCtx:
				eb.PublishContext(h.bus, ctx, e)
			default:
				eb.Publish(h.bus, e)
			}
		},
	}
}

type (
	m00 struct{}
	m01 struct{}
	m02 struct{}
	m03 struct{}
	m04 struct{}
	m05 struct{}
	m06 struct{}
	m07 struct{}
	m08 struct{}
	m09 struct{}
	m10 struct{}
	m11 struct{}
	m12 struct{}
	m13 struct{}
	m14 struct{}
	m15 struct{}
	m16 struct{}
	m17 struct{}
	m18 struct{}
	m19 struct{}
	m20 struct{}
	m21 struct{}
	m22 struct{}
	m23 struct{}
	m24 struct{}
	m25 struct{}
	m26 struct{}
	m27 struct{}
	m28 struct{}
	m29 struct{}
	m30 struct{}
	m31 struct{}
	m32 struct{}
	m33 struct{}
	m34 struct{}
	m35 struct{}
	m36 struct{}
	m37 struct{}
	m38 struct{}
	m39 struct{}
)

var allOps []typeOps

func init() {
	allOps = []typeOps{
		mkOps[m00](), mkOps[m01](), mkOps[m02](), mkOps[m03](), mkOps[m04](), mkOps[m05](), mkOps[m06](), mkOps[m07](),
		mkOps[m08](), mkOps[m09](), mkOps[m10](), mkOps[m11](), mkOps[m12](), mkOps[m13](), mkOps[m14](), mkOps[m15](),
		mkOps[m16](), mkOps[m17](), mkOps[m18](), mkOps[m19](), mkOps[m20](), mkOps[m21](), mkOps[m22](), mkOps[m23](),
		mkOps[m24](), mkOps[m25](), mkOps[m26](), mkOps[m27](), mkOps[m28](), mkOps[m29](), mkOps[m30](), mkOps[m31](),
		mkOps[m32](), mkOps[m33](), mkOps[m34](), mkOps[m35](), mkOps[m36](), mkOps[m37](), mkOps[m38](), mkOps[m39](),
	}
}

// ---- the harness ----
type ctxKey struct{}
type pubKey struct{}
type tokKey struct{}

type regInfo struct {
	t  int
	sp hspec
}

type busHarness struct {
	prog    *busProgram
	bus     *eb.EventBus
	ctl     *controller
	mu      sync.Mutex
	nextRid int
	nextPid int
	regs    map[int]regInfo
	pubType map[int]int
	pubVal  map[int]int
	ctxs    map[int]context.Context
	cancels map[int]context.CancelFunc
	isCanc  map[int]bool
	ridStk  map[int64][]int // innermost handler per goroutine (for panics)
	inside  map[int]int     // running invocations per registration
	tokStk  map[int64][]int // open observability starts per goroutine
	nextTok int
	store   *hStore
	closed  int
	done    []bool
}

func (h *busHarness) noBind() (who, bool) { return who{}, false }

func (h *busHarness) runActs(as []action) {
	for _, a := range as {
		h.ctl.point(C("LAct", a.term()), true, h.noBind)
		h.do(a)
	}
}

func (h *busHarness) ctxOf(c int) context.Context {
	if c == 0 {
		return context.Background()
	}
	return h.ctxs[c]
}

func (h *busHarness) do(a action) {
	res := func(r int) { h.ctl.point(C("LRes", a.term(), Nat(r)), false, h.noBind) }
	switch a.kind {
	case "sub":
		h.mu.Lock()
		rid := h.nextRid
		h.nextRid++
		h.regs[rid] = regInfo{a.t, a.sp}
		h.mu.Unlock()
		if err := allOps[a.t].sub(h, rid, a.sp); err != nil {
			panic(err)
		}
	case "unsub":
		if allOps[a.t].unsub(h, a.fn) == nil {
			res(1)
		} else {
			res(0)
		}
	case "clear":
		allOps[a.t].clear(h)
	case "clearall":
		eb.ClearAll(h.bus)
	case "has":
		if allOps[a.t].has(h) {
			res(1)
		} else {
			res(0)
		}
	case "count":
		res(allOps[a.t].count(h))
	case "cancel":
		h.mu.Lock()
		h.isCanc[a.c] = true
		h.mu.Unlock()
		h.cancels[a.c]()
	case "wait":
		h.bus.Wait()
	case "shutdown":
		if h.bus.Shutdown(h.ctxOf(a.c)) == nil {
			res(1)
		} else {
			res(0)
		}
	case "panic":
		panic(fmt.Sprintf("handler panic %d", a.v))
	case "pub":
		h.mu.Lock()
		p := h.nextPid
		h.nextPid++
		h.pubType[p] = a.t
		h.pubVal[p] = a.v
		h.mu.Unlock()
		allOps[a.t].pub(h, h.ctxOf(a.c), a.c != 0, p, a.v, a.viaAny)
	}
}

func (h *busHarness) onHandler(rid, p int, ctx context.Context, slot int) {
	g := gid()
	cref := C("CtxBg")
	if ctx != nil {
		// the context handed to a context-aware handler must carry the publish context's values and cancellation
		id, _ := ctx.Value(ctxKey{}).(int)
		h.mu.Lock()
		canc := h.isCanc[id]
		h.mu.Unlock()
		if id != 0 && (ctx.Err() != nil) != canc {
			id = 999
		}
		cref = ctxT(id)
	}
	bind := func() (who, bool) { return who{p: p, rid: rid}, true }
	h.mu.Lock()
	h.ridStk[g] = append(h.ridStk[g], rid)
	overlap := h.regs[rid].sp.seq && h.inside[rid] > 0 // invocations of a Sequential handler must never overlap
	h.inside[rid]++
	h.mu.Unlock()
	defer func() {
		h.mu.Lock()
		h.ridStk[g] = h.ridStk[g][:len(h.ridStk[g])-1]
		h.inside[rid]--
		h.mu.Unlock()
		lastPopped.Store(g, rid)
	}()
	if overlap {
		cref = ctxT(996)
	}
	lbl := C("LEnter", Nat(p), Nat(rid), cref)
	if h.store != nil && h.prog.pfaults[h.pubVal[p]] == "" && !h.store.has(p) {
		lbl = C("LEnter", Nat(p), Nat(rid), ctxT(998)) // the record must be readable before any handler runs
	}
	h.ctl.point(lbl, true, bind)
	h.runActs(h.prog.bodies[h.regs[rid].sp.body])
}

// observability
type hObs struct{ h *busHarness }

func (o hObs) OnPublishStart(ctx context.Context, name string, ev any) context.Context {
	p := ev.(pider).pid()
	o.h.ctl.point(C("LPubStart", Nat(p)), true, o.h.noBind)
	return context.WithValue(ctx, pubKey{}, p)
}
func (o hObs) OnPublishComplete(ctx context.Context, name string) {
	p, ok := ctx.Value(pubKey{}).(int)
	if !ok {
		p = 997
	}
	o.h.ctl.point(C("LPubDone", Nat(p)), true, o.h.noBind)
}
func (o hObs) push(ctx context.Context) (context.Context, int) {
	g := gid()
	o.h.mu.Lock()
	o.h.nextTok++
	tok := o.h.nextTok
	o.h.tokStk[g] = append(o.h.tokStk[g], tok)
	o.h.mu.Unlock()
	return context.WithValue(ctx, tokKey{}, tok), tok
}
func (o hObs) pop(ctx context.Context) bool {
	g := gid()
	tok, _ := ctx.Value(tokKey{}).(int)
	o.h.mu.Lock()
	defer o.h.mu.Unlock()
	st := o.h.tokStk[g]
	if len(st) == 0 || st[len(st)-1] != tok {
		return false
	}
	o.h.tokStk[g] = st[:len(st)-1]
	return true
}
func (o hObs) OnHandlerStart(ctx context.Context, name string, async bool) context.Context {
	p, ok := ctx.Value(pubKey{}).(int)
	if !ok {
		p = 997
	}
	bind := func() (who, bool) {
		// an async delivery goroutine is identified by the unique async registration of p's type
		o.h.mu.Lock()
		defer o.h.mu.Unlock()
		t := o.h.pubType[p]
		cand := -1
		for rid, r := range o.h.regs {
			if r.t == t && r.sp.async {
				if cand >= 0 {
					return who{}, false
				}
				cand = rid
			}
		}
		if cand < 0 {
			return who{}, false
		}
		return who{p: p, rid: cand}, true
	}
	o.h.ctl.point(C("LHandlerStart", Nat(p), B(async)), true, bind)
	ctx2, _ := o.push(ctx)
	return ctx2
}
func (o hObs) OnHandlerComplete(ctx context.Context, d time.Duration, err error) {
	p, ok := ctx.Value(pubKey{}).(int)
	if !ok || !o.pop(ctx) {
		p = 997 // the complete did not receive the context its start returned
	}
	o.h.ctl.point(C("LHandlerDone", Nat(p), B(err != nil)), true, o.h.noBind)
}
func (o hObs) OnPersistStart(ctx context.Context, name string, pos int64) context.Context {
	p, ok := ctx.Value(pubKey{}).(int)
	if !ok {
		p = 997
	}
	o.h.ctl.point(C("LPersistStart", Nat(p)), true, o.h.noBind)
	ctx2, _ := o.push(ctx)
	return ctx2
}
func (o hObs) OnPersistComplete(ctx context.Context, d time.Duration, err error) {
	p, ok := ctx.Value(pubKey{}).(int)
	if !ok || !o.pop(ctx) {
		p = 997
	}
	o.h.ctl.point(C("LPersistDone", Nat(p), B(err != nil)), true, o.h.noBind)
}

// store
type hStore struct {
	h   *busHarness
	mu  sync.Mutex
	log [][2]int // (type, value)
	ps  map[int]bool
}

func (s *hStore) has(p int) bool { s.mu.Lock(); defer s.mu.Unlock(); return s.ps[p] }
func (s *hStore) Append(ctx context.Context, e *eb.Event) (eb.Offset, error) {
	var d struct{ P, V int }
	if err := json.Unmarshal(e.Data, &d); err != nil {
		d.P, d.V = 996, 996
	}
	s.h.ctl.point(C("LAppend", Nat(d.P)), true, s.h.noBind)
	switch s.h.prog.pfaults[d.V] {
	case "reject":
		return "", errors.New("store rejects the append")
	case "timeout":
		if _, ok := ctx.Deadline(); ok {
			return "", context.DeadlineExceeded
		}
		return "", errors.New("timeout expected but no deadline on the context")
	}
	t := 99
	for i, o := range allOps {
		if e.Type == fmt.Sprintf("%s#%d", o.name, d.V%3) {
			t = i
		}
	}
	s.mu.Lock()
	defer s.mu.Unlock()
	s.log = append(s.log, [2]int{t, d.V})
	s.ps[d.P] = true
	return eb.Offset(fmt.Sprintf("%020d", len(s.log))), nil
}
func (s *hStore) Read(ctx context.Context, from eb.Offset, limit int) ([]*eb.StoredEvent, eb.Offset, error) {
	return nil, from, nil
}
func (s *hStore) Close() error {
	s.h.ctl.point(C("LClose"), true, s.h.noBind)
	s.h.mu.Lock()
	s.h.closed++
	s.h.mu.Unlock()
	return nil
}

func newBusHarness(prog *busProgram) *busHarness {
	h := &busHarness{prog: prog, regs: map[int]regInfo{}, pubType: map[int]int{}, pubVal: map[int]int{},
		ctxs: map[int]context.Context{}, cancels: map[int]context.CancelFunc{}, isCanc: map[int]bool{},
		ridStk: map[int64][]int{}, tokStk: map[int64][]int{}, inside: map[int]int{}}
	h.ctl = newController()
	for c := 1; c <= 3; c++ {
		ctx, cancel := context.WithCancel(context.WithValue(context.Background(), ctxKey{}, c))
		h.ctxs[c], h.cancels[c] = ctx, cancel
	}
	hook := func(k int, body int) func(p int) {
		return func(p int) {
			h.ctl.point(C("LHook", Nat(p), Nat(k)), true, h.noBind)
			h.runActs(prog.bodies[body])
		}
	}
	var opts []eb.Option
	// half of the programs configure the legacy hooks and handlers through the backward-compatibility setters after New
	// (before any concurrent use, as the setters require); the configuration is the same
	useSetters := len(prog.opts)%2 == 1
	var late []func(b *eb.EventBus)
	for i, o := range prog.opts {
		arg := prog.optArgs[i]
		switch o {
		case "store":
			h.store = &hStore{h: h, ps: map[int]bool{}}
			opts = append(opts, eb.WithStore(h.store), eb.WithPersistenceTimeout(time.Hour))
		case "beforeLegacy":
			f := hook(0, arg)
			hk := func(t reflect.Type, ev any) { f(ev.(pider).pid()) }
			if useSetters {
				late = append(late, func(b *eb.EventBus) { b.SetBeforePublishHook(hk) })
			} else {
				opts = append(opts, eb.WithBeforePublish(hk))
			}
		case "afterLegacy":
			f := hook(2, arg)
			hk := func(t reflect.Type, ev any) { f(ev.(pider).pid()) }
			if useSetters {
				late = append(late, func(b *eb.EventBus) { b.SetAfterPublishHook(hk) })
			} else {
				opts = append(opts, eb.WithAfterPublish(hk))
			}
		case "beforeCtx":
			f := hook(1, arg)
			opts = append(opts, eb.WithBeforePublishContext(func(ctx context.Context, t reflect.Type, ev any) { f(ev.(pider).pid()) }))
		case "afterCtx":
			f := hook(3, arg)
			opts = append(opts, eb.WithAfterPublishContext(func(ctx context.Context, t reflect.Type, ev any) { f(ev.(pider).pid()) }))
		case "nilBeforeLegacy": // a hook option given a nil function: "no hook"
			if useSetters {
				late = append(late, func(b *eb.EventBus) { b.SetBeforePublishHook(nil) })
			} else {
				opts = append(opts, eb.WithBeforePublish(nil))
			}
		case "nilAfterLegacy":
			if useSetters {
				late = append(late, func(b *eb.EventBus) { b.SetAfterPublishHook(nil) })
			} else {
				opts = append(opts, eb.WithAfterPublish(nil))
			}
		case "nilBeforeCtx":
			opts = append(opts, eb.WithBeforePublishContext(nil))
		case "nilAfterCtx":
			opts = append(opts, eb.WithAfterPublishContext(nil))
		case "panicHandler":
			ph := eb.PanicHandler(func(ev any, ht reflect.Type, pv any) {
				g := gid()
				h.mu.Lock()
				st := h.ridStk[g]
				h.mu.Unlock()
				// the panicking handler's frame has been unwound: its rid was popped; it is recorded by onHandler's defer
				rid := h.lastPanicRid(g, st)
				pid := ev.(pider).pid()
				h.ctl.point(C("LPanicHandler", Nat(pid), Nat(rid)), true, h.noBind)
				// the panic handler's own body ("retry the failed event"): only for events below the threshold, so
				// that what it publishes (values above it) does not start another retry
				h.mu.Lock()
				v := h.pubVal[pid]
				h.mu.Unlock()
				if body, ok := prog.bodies[panicBody]; ok && v < panicRetryBelow {
					h.runActs(body)
				}
			})
			if useSetters {
				late = append(late, func(b *eb.EventBus) { b.SetPanicHandler(ph) })
			} else {
				opts = append(opts, eb.WithPanicHandler(ph))
			}
		case "persistErr":
			pe := eb.PersistenceErrorHandler(func(ev any, t reflect.Type, err error) {
				h.ctl.point(C("LPersistErr", Nat(ev.(pider).pid())), true, h.noBind)
			})
			if useSetters {
				late = append(late, func(b *eb.EventBus) { b.SetPersistenceErrorHandler(pe) })
			} else {
				opts = append(opts, eb.WithPersistenceErrorHandler(pe))
			}
		case "obs":
			opts = append(opts, eb.WithObservability(hObs{h}))
		}
	}
	h.bus = eb.New(opts...)
	for _, f := range late {
		f(h.bus)
	}
	return h
}

// the controller gives up after this many resumptions
const busStepCap = 3000

var busCasesRun, busCutCases int

// body id and value threshold of the panic handler's body (Bus/BusModel.v: panic_body, panic_retry_below)
const panicBody, panicRetryBelow = 90, 50

// the rid of the handler whose panic is being reported: onHandler's deferred pop records it
var lastPopped sync.Map // gid -> rid

func (h *busHarness) lastPanicRid(g int64, st []int) int {
	if v, ok := lastPopped.Load(g); ok {
		return v.(int)
	}
	return 995
}

func (p *busProgram) input(sched []T) T {
	optT := []T{}
	for i, o := range p.opts {
		a := Nat(p.optArgs[i])
		switch o {
		case "store":
			optT = append(optT, C("OStore"))
		case "beforeLegacy":
			optT = append(optT, C("OBeforeLegacy", a))
		case "afterLegacy":
			optT = append(optT, C("OAfterLegacy", a))
		case "beforeCtx":
			optT = append(optT, C("OBeforeCtx", a))
		case "afterCtx":
			optT = append(optT, C("OAfterCtx", a))
		case "nilBeforeLegacy":
			optT = append(optT, C("ONilBeforeLegacy"))
		case "nilAfterLegacy":
			optT = append(optT, C("ONilAfterLegacy"))
		case "nilBeforeCtx":
			optT = append(optT, C("ONilBeforeCtx"))
		case "nilAfterCtx":
			optT = append(optT, C("ONilAfterCtx"))
		case "panicHandler":
			optT = append(optT, C("OPanicHandler"))
		case "persistErr":
			optT = append(optT, C("OPersistErrHandler"))
		case "obs":
			optT = append(optT, C("OObs"))
		}
	}
	bodies := []T{}
	bk := []int{}
	for k := range p.bodies {
		bk = append(bk, k)
	}
	sort.Ints(bk)
	for _, k := range bk {
		bodies = append(bodies, Tup(Nat(k), C("Build_body", actsT(p.bodies[k]))))
	}
	filters := []T{}
	fk := []int{}
	for k := range p.filters {
		fk = append(fk, k)
	}
	sort.Ints(fk)
	for _, k := range fk {
		filters = append(filters, Tup(Nat(k), C("Build_filt", actsT(p.filters[k].acts), Nat(p.filters[k].min))))
	}
	routes := []T{}
	for t := 0; t < p.ntypes; t++ {
		routes = append(routes, Tup(Nat(t), Nat(allOps[t].shard)))
	}
	pf := []T{}
	vk := []int{}
	for k := range p.pfaults {
		vk = append(vk, k)
	}
	sort.Ints(vk)
	for _, k := range vk {
		pf = append(pf, Tup(Nat(k), C(map[string]string{"unencodable": "PfUnencodable", "reject": "PfReject", "timeout": "PfTimeout"}[p.pfaults[k]])))
	}
	threads := []T{}
	for _, th := range p.threads {
		threads = append(threads, actsT(th))
	}
	return C("Build_binput", L(optT...), L(bodies...), L(filters...), L(routes...), L(pf...), L(threads...), L(sched...))
}

// runControlled executes the program under the controller with schedule choices from pick
func runControlled(prog *busProgram, pick func([]who) who) (T, T, []string) {
	h := newBusHarness(prog)
	h.done = make([]bool, len(prog.threads))
	for i, th := range prog.threads {
		i, th := i, th
		go func() {
			h.ctl.register(who{thread: true, i: i})
			defer func() {
				if r := recover(); r != nil {
					if os.Getenv("VERIF_DUMP") != "" {
						fmt.Fprintln(os.Stderr, "thread crashed:", r)
						os.Stderr.Write(debug.Stack())
					}
					h.ctl.point(C("LCrash"), false, h.noBind)
				}
				h.mu.Lock()
				h.done[i] = true
				h.mu.Unlock()
			}()
			h.runActs(th)
		}()
	}
	h.ctl.run(pick, busStepCap)
	tags := []string{}
	if h.ctl.stuck {
		tags = append(tags, "controller-stuck")
	}
	if h.ctl.lateArrivals > 0 {
		tags = append(tags, "late-arrival")
	}
	traces := []T{}
	for _, k := range h.ctl.order {
		traces = append(traces, Tup(k.term(), L(h.ctl.traces[k]...)))
	}
	counts := []T{}
	unfinished := []T{}
	h.mu.Lock()
	for i, d := range h.done {
		if !d {
			unfinished = append(unfinished, Nat(i))
		}
	}
	h.mu.Unlock()
	if len(unfinished) == 0 {
		for t := 0; t < prog.ntypes; t++ {
			counts = append(counts, Tup(Nat(t), Nat(allOps[t].count(h))))
		}
	} else {
		tags = append(tags, "blocked-thread")
		if os.Getenv("VERIF_DUMP") != "" {
			fmt.Fprintln(os.Stderr, "=== blocked thread; goroutines:")
			for _, g := range listGoroutines() {
				fmt.Fprintf(os.Stderr, "  g%d [%s] base=%v\n", g.id, g.state, h.ctl.baseGs[g.id])
			}
			buf := make([]byte, 1<<18)
			n := runtime.Stack(buf, true)
			os.Stderr.Write(buf[:n])
		}
	}
	storeT := []T{}
	if h.store != nil {
		for _, r := range h.store.log {
			storeT = append(storeT, Tup(Nat(r[0]), Nat(r[1])))
		}
	}
	cut := h.ctl.steps >= busStepCap
	busCasesRun++
	if cut {
		tags = append(tags, "cut-at-step-cap")
		// runaway programs (on a tree where, say, a filter that bounded a self-publishing handler is skipped) each cost
		// thousands of controller steps and leave their goroutines parked, which slows every later case down; when they
		// are frequent (never on a tree that follows the model: about 1 case in 10,000 is cut there) the run stops and
		// the cases so far are reported
		if busCutCases++; busCutCases >= 3 && busCutCases*20 >= busCasesRun {
			stopRun = true
		}
	}
	obs := C("Build_bobs", L(traces...), L(counts...), L(storeT...), L(unfinished...), Nat(h.closed), B(cut))
	joined := strings.Join(tags, ",")
	_ = joined
	return prog.input(h.ctl.sched), obs, tags
}
