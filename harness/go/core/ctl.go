package main

// Controller: drives the real bus through chosen schedules without source hooks.  Every piece
// of user code the bus calls (handlers, filters, hooks, observability callbacks, store methods)
// and every action of a program thread announces itself and parks until resumed.  After resuming
// one actor the controller waits for quiescence: every other goroutine is parked, blocked inside
// the runtime (mutex, waitgroup, select) or gone.

import (
	"bytes"
	"fmt"
	"os"
	"runtime"
	"strconv"
	"sync"
	"time"
)

func gid() int64 {
	var buf [64]byte
	n := runtime.Stack(buf[:], false)
	// "goroutine 123 [running]:"
	b := buf[10:n]
	i := bytes.IndexByte(b, ' ')
	id, _ := strconv.ParseInt(string(b[:i]), 10, 64)
	return id
}

type who struct {
	thread bool
	i      int // thread index
	p, rid int // async delivery of publish p to registration rid
}

func (w who) term() T {
	if w.thread {
		return C("WThread", Nat(w.i))
	}
	return C("WTask", Nat(w.p), Nat(w.rid))
}

type arrival struct {
	key    who
	resume chan struct{}
}

type controller struct {
	mu           sync.Mutex
	self         int64
	queue        []*arrival
	keyOf        map[int64]who
	traces       map[who][]T
	order        []who
	parked       map[who]*arrival
	sched        []T
	baseGs       map[int64]bool // goroutines that existed before the case started (leaked by earlier deadlock cases)
	stuck        bool
	steps        int
	lateArrivals int
	lastSnap     []ginfo
	noPark       bool // free-running mode: labels are recorded, nobody parks
}

func newController() *controller {
	c := &controller{self: gid(), keyOf: map[int64]who{}, traces: map[who][]T{}, parked: map[who]*arrival{}, baseGs: map[int64]bool{}}
	for _, g := range listGoroutines() {
		c.baseGs[g.id] = true
	}
	return c
}

// point records a label for the calling goroutine and, if park, waits to be resumed.
// bind is used the first time an unknown goroutine shows up (an async delivery goroutine).
func (c *controller) point(lbl T, park bool, bind func() (who, bool)) {
	g := gid()
	c.mu.Lock()
	key, ok := c.keyOf[g]
	if !ok {
		k, good := bind()
		if !good {
			c.stuck = true
			c.mu.Unlock()
			return
		}
		key = k
		c.keyOf[g] = key
	}
	if _, seen := c.traces[key]; !seen {
		c.order = append(c.order, key)
	}
	c.traces[key] = append(c.traces[key], lbl)
	if !park || c.noPark {
		c.mu.Unlock()
		return
	}
	a := &arrival{key: key, resume: make(chan struct{})}
	c.queue = append(c.queue, a)
	c.mu.Unlock()
	<-a.resume
}

func (c *controller) register(key who) {
	g := gid()
	c.mu.Lock()
	c.keyOf[g] = key
	c.mu.Unlock()
}

type ginfo struct {
	id    int64
	state string
}

func listGoroutines() []ginfo {
	buf := make([]byte, 1<<18)
	for {
		n := runtime.Stack(buf, true)
		if n < len(buf) {
			buf = buf[:n]
			break
		}
		buf = make([]byte, 2*len(buf))
	}
	var out []ginfo
	for _, blk := range bytes.Split(buf, []byte("\n\n")) {
		if !bytes.HasPrefix(blk, []byte("goroutine ")) {
			continue
		}
		line := blk
		if i := bytes.IndexByte(blk, '\n'); i >= 0 {
			line = blk[:i]
		}
		rest := line[len("goroutine "):]
		sp := bytes.IndexByte(rest, ' ')
		if sp < 0 {
			continue
		}
		id, _ := strconv.ParseInt(string(rest[:sp]), 10, 64)
		lb := bytes.IndexByte(rest, '[')
		rb := bytes.LastIndexByte(rest, ']')
		st := ""
		if lb >= 0 && rb > lb {
			st = string(rest[lb+1 : rb])
			if k := bytes.IndexByte([]byte(st), ','); k >= 0 {
				st = st[:k]
			}
		}
		out = append(out, ginfo{id, st})
	}
	return out
}

func blockedState(st string) bool {
	switch st {
	// not "semacquire": that is how a goroutine waits for the runtime's world/GC semaphores, which the
	// controller's own runtime.Stack(all) holds while it looks - a transient wait, not a blocked goroutine
	case "chan receive", "sync.Mutex.Lock", "sync.RWMutex.RLock", "sync.RWMutex.Lock", "sync.WaitGroup.Wait",
		"select", "sync.Cond.Wait", "chan receive (nil chan)", "select (no cases)":
		return true
	}
	return false
}

// waitQuiescent returns false if the program did not settle within the time limit
func (c *controller) waitQuiescent() bool {
	deadline := time.Now().Add(3 * time.Second)
	for {
		quiet := true
		gs := listGoroutines()
		c.lastSnap = gs
		for _, g := range gs {
			if g.id == c.self || c.baseGs[g.id] {
				continue
			}
			if !blockedState(g.state) {
				quiet = false
				break
			}
		}
		if quiet {
			// every arrival that was announced is now waiting on its resume channel
			return true
		}
		if time.Now().After(deadline) {
			if os.Getenv("VERIF_DUMP") != "" {
				fmt.Fprintln(os.Stderr, "not quiescent after 3s:", c.lastSnap)
				buf := make([]byte, 1<<18)
				n := runtime.Stack(buf, true)
				os.Stderr.Write(buf[:n])
			}
			return false
		}
		runtime.Gosched()
	}
}

// drain moves announced arrivals to the parked set; arrivals other than the just-resumed actor's
// own are logged as Arrive events in announcement order
func (c *controller) drain(resumed *who) {
	c.mu.Lock()
	q := c.queue
	c.queue = nil
	c.mu.Unlock()
	for _, a := range q {
		if resumed != nil && a.key == *resumed {
			resumed = nil
		} else {
			c.sched = append(c.sched, C("Arrive", a.key.term()))
		}
		c.parked[a.key] = a
	}
}

// run executes the schedule chosen by pick until nobody is parked
func (c *controller) run(pick func(parked []who) who, maxSteps int) {
	if !c.waitQuiescent() {
		c.stuck = true
		return
	}
	c.drain(nil)
	for c.steps = 0; c.steps < maxSteps; c.steps++ {
		if len(c.parked) == 0 {
			// double-check: nobody may have announced after the last drain
			time.Sleep(200 * time.Microsecond)
			c.mu.Lock()
			late := len(c.queue)
			c.mu.Unlock()
			if late > 0 {
				c.lateArrivals++
				if os.Getenv("VERIF_DUMP") != "" {
					fmt.Fprintln(os.Stderr, "late arrival; the snapshot that looked quiet:", c.lastSnap, "base:", c.baseGs)
				}
				if !c.waitQuiescent() {
					c.stuck = true
					return
				}
				c.drain(nil)
				continue
			}
			return
		}
		keys := make([]who, 0, len(c.parked))
		for _, k := range c.order {
			if _, ok := c.parked[k]; ok {
				keys = append(keys, k)
			}
		}
		k := pick(keys)
		a := c.parked[k]
		delete(c.parked, k)
		close(a.resume)
		if !c.waitQuiescent() {
			c.stuck = true
			return
		}
		c.mu.Lock()
		again := false
		for _, q := range c.queue {
			if q.key == k {
				again = true
			}
		}
		c.mu.Unlock()
		c.sched = append(c.sched, C("Resume", k.term(), B(again)))
		c.drain(&k)
	}
	c.stuck = true
}

func (c *controller) describe() string {
	return fmt.Sprintf("steps=%d parked=%d stuck=%v", c.steps, len(c.parked), c.stuck)
}
