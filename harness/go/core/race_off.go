//go:build !race

package main

const raceDetector = false
