package main

// Oncecancel family (C04): an Async Once handler and publishes whose context is cancelled right after PublishContext
// returns (the usual `defer cancel()`), on one processor, so that the delivery goroutine starts only after the
// cancellation.  No controller: the schedule is fixed by GOMAXPROCS(1) - the publisher runs until it blocks in Wait.

import (
	"context"
	"math/rand"
	"runtime"
	"sync/atomic"

	eb "github.com/jilio/ebu"
)

type ocE struct{ V int }

func runOnceCancel(rng *rand.Rand, idx int, tier string) Case {
	ctxAware := idx%2 == 1
	n := 1 + rng.Intn(3)
	flags := make([]bool, n)
	for i := range flags {
		flags[i] = rng.Intn(3) != 0
	}
	if idx < 2 {
		flags = []bool{true, false}
	}
	old := runtime.GOMAXPROCS(1)
	defer runtime.GOMAXPROCS(old)
	bus := eb.New()
	var ran atomic.Int64
	if ctxAware {
		eb.SubscribeContext(bus, func(ctx context.Context, e ocE) { ran.Add(1) }, eb.Once(), eb.Async())
	} else {
		eb.Subscribe(bus, func(e ocE) { ran.Add(1) }, eb.Once(), eb.Async())
	}
	var obs, in []T
	for k, cancelAfter := range flags {
		if cancelAfter {
			ctx, cancel := context.WithCancel(context.Background())
			eb.PublishContext(bus, ctx, ocE{k})
			cancel()
		} else {
			eb.Publish(bus, ocE{k})
		}
		bus.Wait()
		obs = append(obs, Tup(Nat(int(ran.Load())), Nat(eb.HandlerCount[ocE](bus))))
		in = append(in, B(cancelAfter))
	}
	tags := []string{"plain-handler"}
	if ctxAware {
		tags = []string{"context-aware-handler"}
	}
	return Case{Input: Tup(B(ctxAware), L(in...)), Obs: L(obs...), Tags: tags, Nontrivial: true}
}

func init() {
	register(&Family{Name: "oncecancel", Quick: 20, Thorough: 200, Directed: 2, Run: runOnceCancel})
}
