(* Model of the OpenTelemetry adapter (/repo/otel/observability.go) as a consumer of the bus's callback trace:
   every start callback starts a span whose parent is the span found in the context it receives and bumps a counter;
   every complete callback ends the span found in the context it receives (the one its start returned) and bumps the
   error counter when it carries an error.  The bus half of C20 (Bus/BusInv.v, Properties/C20.v) is what guarantees that
   the trace is well paired and that handler and persist contexts descend from the publish context. *)
From Coq Require Import List Arith Bool Lia.
Import ListNotations.

Inductive kind := KPub | KHandler (async : bool) | KPersist.

(* one callback: the span keys are chosen by the caller (the bus): a publish id, or (publish id, invocation index) *)
Inductive cb :=
| Start (key : nat) (k : kind) (parent : option nat)   (* parent: the key of the span carried by the incoming context *)
| Done (key : nat) (err : bool).

Record span := { s_key : nat; s_kind : kind; s_parent : option nat; s_ended : nat }.

Record ostate := {
  spans : list span;
  n_pub : nat; n_handler_sync : nat; n_handler_async : nat; n_handler_err : nat; n_persist : nat; n_persist_err : nat
}.
Definition o0 : ostate :=
  {| spans := []; n_pub := 0; n_handler_sync := 0; n_handler_async := 0; n_handler_err := 0; n_persist := 0; n_persist_err := 0 |}.

Definition kind_of (st : ostate) (key : nat) : option kind :=
  match find (fun s => Nat.eqb (s_key s) key) (spans st) with Some s => Some (s_kind s) | None => None end.

Definition end_span (l : list span) (key : nat) : list span :=
  map (fun s => if Nat.eqb (s_key s) key
                then {| s_key := s_key s; s_kind := s_kind s; s_parent := s_parent s; s_ended := S (s_ended s) |} else s) l.

Definition ostep (st : ostate) (c : cb) : ostate :=
  match c with
  | Start key k parent =>
      {| spans := spans st ++ [{| s_key := key; s_kind := k; s_parent := parent; s_ended := 0 |}];
         n_pub := n_pub st + match k with KPub => 1 | _ => 0 end;
         n_handler_sync := n_handler_sync st + match k with KHandler false => 1 | _ => 0 end;
         n_handler_async := n_handler_async st + match k with KHandler true => 1 | _ => 0 end;
         n_handler_err := n_handler_err st;
         n_persist := n_persist st + match k with KPersist => 1 | _ => 0 end;
         n_persist_err := n_persist_err st |}
  | Done key err =>
      {| spans := end_span (spans st) key;
         n_pub := n_pub st; n_handler_sync := n_handler_sync st; n_handler_async := n_handler_async st;
         n_handler_err := n_handler_err st + match kind_of st key with Some (KHandler _) => if err then 1 else 0 | _ => 0 end;
         n_persist := n_persist st;
         n_persist_err := n_persist_err st + match kind_of st key with Some KPersist => if err then 1 else 0 | _ => 0 end |}
  end.

Definition orun (t : list cb) : ostate := fold_left ostep t o0.

(* ---- what the bus guarantees about the trace (proved for the bus model in Properties/C20.v) ---- *)
Definition is_start (key : nat) (c : cb) : bool := match c with Start k _ _ => Nat.eqb k key | _ => false end.
Definition is_done (key : nat) (c : cb) : bool := match c with Done k _ => Nat.eqb k key | _ => false end.
Definition count (f : cb -> bool) (t : list cb) : nat := length (filter f t).

(* every key is started at most once, completed exactly as often as started, and never completed before it is started *)
Fixpoint paired_from (started done : list nat) (t : list cb) : bool :=
  match t with
  | [] => forallb (fun k => existsb (Nat.eqb k) done) started
  | Start k _ _ :: r => negb (existsb (Nat.eqb k) started) && paired_from (k :: started) done r
  | Done k _ :: r => existsb (Nat.eqb k) started && negb (existsb (Nat.eqb k) done) && paired_from started (k :: done) r
  end.
Definition paired (t : list cb) : bool := paired_from [] [] t.
