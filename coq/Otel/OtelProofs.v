From Coq Require Import List Arith Bool Lia.
Import ListNotations.
From Ebu Require Import Otel.OtelModel.

Lemma end_span_keys l key : map s_key (end_span l key) = map s_key l.
Proof. unfold end_span. rewrite map_map. apply map_ext. intros s. destruct (Nat.eqb (s_key s) key); reflexivity. Qed.

Lemma in_end_span l key s' : In s' (end_span l key) ->
  exists s, In s l /\ s_key s' = s_key s /\ s_kind s' = s_kind s /\ s_parent s' = s_parent s /\
            s_ended s' = if Nat.eqb (s_key s) key then S (s_ended s) else s_ended s.
Proof.
  unfold end_span. intros H. apply in_map_iff in H. destruct H as [s [E Hin]]. exists s. split; [exact Hin|].
  destruct (Nat.eqb (s_key s) key); subst s'; cbn; auto.
Qed.

Lemma existsb_eqb_in k l : existsb (Nat.eqb k) l = true <-> In k l.
Proof.
  rewrite existsb_exists. split.
  - intros [x [Hin E]]. apply Nat.eqb_eq in E. subst. exact Hin.
  - intros H. exists k. split; [exact H | apply Nat.eqb_refl].
Qed.

(* invariant while following a paired trace *)
Record ended_ok (st : ostate) (started done : list nat) : Prop := {
  eo_keys : map s_key (spans st) = rev started;
  eo_incl : forall k, In k done -> In k started;
  eo_ended : forall s, In s (spans st) -> s_ended s = if existsb (Nat.eqb (s_key s)) done then 1 else 0
}.

Lemma paired_all_ended : forall t st started done,
  ended_ok st started done -> paired_from started done t = true ->
  forall s, In s (spans (fold_left ostep t st)) -> s_ended s = 1.
Proof.
  induction t as [|c r IH]; intros st started done [Hk Hi He] Hp s Hin; cbn [fold_left paired_from] in *.
  - rewrite (He s Hin). rewrite forallb_forall in Hp.
    assert (H : In (s_key s) started) by (apply in_rev; rewrite <- Hk; apply in_map; exact Hin).
    rewrite (Hp _ H). reflexivity.
  - destruct c as [key k parent | key err].
    + apply andb_true_iff in Hp. destruct Hp as [Hnew Hp]. apply negb_true_iff in Hnew.
      apply (IH (ostep st (Start key k parent)) (key :: started) done); [|exact Hp|exact Hin].
      split; cbn [ostep spans].
      * rewrite map_app, Hk. reflexivity.
      * intros x Hx. right. apply Hi. exact Hx.
      * intros s0 Hs0. apply in_app_or in Hs0. destruct Hs0 as [Hs0 | [<- | []]]; [apply He; exact Hs0|]. cbn [s_key s_ended].
        destruct (existsb (Nat.eqb key) done) eqn:E; [|reflexivity].
        apply existsb_eqb_in in E. apply Hi in E. apply existsb_eqb_in in E. congruence.
    + apply andb_true_iff in Hp. destruct Hp as [Hp1 Hp]. apply andb_true_iff in Hp1. destruct Hp1 as [Hst Hnd].
      apply negb_true_iff in Hnd. apply existsb_eqb_in in Hst.
      apply (IH (ostep st (Done key err)) started (key :: done)); [|exact Hp|exact Hin].
      split; cbn [ostep spans].
      * rewrite end_span_keys. exact Hk.
      * intros x [<- | Hx]; [exact Hst | apply Hi; exact Hx].
      * intros s' Hs'. apply in_end_span in Hs'. destruct Hs' as [s0 [Hin0 [Ek [_ [_ Ee]]]]].
        rewrite Ee, Ek. cbn [existsb]. specialize (He s0 Hin0).
        destruct (Nat.eqb (s_key s0) key) eqn:E.
        -- apply Nat.eqb_eq in E. rewrite E in He. rewrite Hnd in He. rewrite He. reflexivity.
        -- cbn [orb]. exact He.
Qed.

(* every span that is started is ended exactly once *)
Theorem every_span_ended_once t : paired t = true -> forall s, In s (spans (orun t)) -> s_ended s = 1.
Proof.
  intros Hp. apply (paired_all_ended t o0 [] []); [|exact Hp].
  split; cbn; [reflexivity | intros k [] | intros s []].
Qed.

(* parents: a span's parent is the one the start callback was given, whatever happens later *)
Lemma spans_parent_kept : forall t st s, In s (spans st) ->
  exists s', In s' (spans (fold_left ostep t st)) /\ s_key s' = s_key s /\ s_kind s' = s_kind s /\ s_parent s' = s_parent s.
Proof.
  induction t as [|c r IH]; intros st s Hin; cbn [fold_left]; [exists s; auto|].
  destruct c as [key k parent | key err]; cbn [ostep].
  - apply IH. cbn [spans]. apply in_or_app. left. exact Hin.
  - set (s1 := if Nat.eqb (s_key s) key then {| s_key := s_key s; s_kind := s_kind s; s_parent := s_parent s; s_ended := S (s_ended s) |} else s).
    assert (H1 : In s1 (end_span (spans st) key)) by (unfold end_span; apply in_map_iff; exists s; split; [reflexivity | exact Hin]).
    destruct (IH {| spans := end_span (spans st) key; n_pub := n_pub st; n_handler_sync := n_handler_sync st;
                    n_handler_async := n_handler_async st;
                    n_handler_err := n_handler_err st + match kind_of st key with Some (KHandler _) => if err then 1 else 0 | _ => 0 end;
                    n_persist := n_persist st;
                    n_persist_err := n_persist_err st + match kind_of st key with Some KPersist => if err then 1 else 0 | _ => 0 end |}
                 s1 H1) as [s' [Hs' [E1 [E2 E3]]]].
    exists s'. split; [exact Hs'|]. unfold s1 in *. destruct (Nat.eqb (s_key s) key); cbn in *; auto.
Qed.

Theorem parent_is_the_incoming_span t1 key k parent t2 :
  exists s, In s (spans (orun (t1 ++ Start key k parent :: t2))) /\ s_key s = key /\ s_kind s = k /\ s_parent s = parent.
Proof.
  unfold orun. rewrite fold_left_app. cbn [fold_left].
  set (st := fold_left ostep t1 o0).
  assert (Hin : In {| s_key := key; s_kind := k; s_parent := parent; s_ended := 0 |} (spans (ostep st (Start key k parent)))).
  { cbn. apply in_or_app. right. left. reflexivity. }
  destruct (spans_parent_kept t2 _ _ Hin) as [s' [H1 [H2 [H3 H4]]]]. exists s'. auto.
Qed.

(* counters = the true numbers *)
Definition is_kind_start (f : kind -> bool) (c : cb) : bool := match c with Start _ k _ => f k | _ => false end.

Lemma counters_count : forall t st,
  let st' := fold_left ostep t st in
  n_pub st' = n_pub st + count (is_kind_start (fun k => match k with KPub => true | _ => false end)) t /\
  n_handler_sync st' = n_handler_sync st + count (is_kind_start (fun k => match k with KHandler false => true | _ => false end)) t /\
  n_handler_async st' = n_handler_async st + count (is_kind_start (fun k => match k with KHandler true => true | _ => false end)) t /\
  n_persist st' = n_persist st + count (is_kind_start (fun k => match k with KPersist => true | _ => false end)) t.
Proof.
  induction t as [|c r IH]; intros st; cbn [fold_left]; [unfold count; cbn; lia|].
  specialize (IH (ostep st c)). cbv zeta in IH. destruct IH as (A & B & C & D).
  unfold count in *. cbn [filter].
  destruct c as [key k parent | key err]; cbn [ostep is_kind_start n_pub n_handler_sync n_handler_async n_persist] in *.
  - destruct k as [ | [|] | ]; cbn [length] in *; repeat split; lia.
  - repeat split; lia.
Qed.

Theorem counters_are_the_true_numbers t :
  let st := orun t in
  n_pub st = count (is_kind_start (fun k => match k with KPub => true | _ => false end)) t /\
  n_handler_sync st = count (is_kind_start (fun k => match k with KHandler false => true | _ => false end)) t /\
  n_handler_async st = count (is_kind_start (fun k => match k with KHandler true => true | _ => false end)) t /\
  n_persist st = count (is_kind_start (fun k => match k with KPersist => true | _ => false end)) t.
Proof. exact (counters_count t o0). Qed.

(* error counters: one per complete callback that carries an error, attributed by the kind of the span it ends *)
Fixpoint err_count (hk : bool) (kinds : list (nat * kind)) (t : list cb) : nat :=
  match t with
  | [] => 0
  | Start key k _ :: r => err_count hk ((key, k) :: kinds) r
  | Done key err :: r =>
      (match find (fun x => Nat.eqb (fst x) key) (rev kinds) with
       | Some (_, KHandler _) => if hk && err then 1 else 0
       | Some (_, KPersist) => if negb hk && err then 1 else 0
       | _ => 0 end) + err_count hk kinds r
  end.

Lemma kind_of_spec st key kinds :
  map (fun s => (s_key s, s_kind s)) (spans st) = rev kinds ->
  kind_of st key = match find (fun x => Nat.eqb (fst x) key) (rev kinds) with Some (_, k) => Some k | None => None end.
Proof.
  unfold kind_of. intros <-. induction (spans st) as [|s r IH]; cbn; [reflexivity|].
  destruct (Nat.eqb (s_key s) key); [reflexivity | exact IH].
Qed.

Lemma end_span_kinds l key : map (fun s => (s_key s, s_kind s)) (end_span l key) = map (fun s => (s_key s, s_kind s)) l.
Proof. unfold end_span. rewrite map_map. apply map_ext. intros s. destruct (Nat.eqb (s_key s) key); reflexivity. Qed.

Lemma err_counters : forall t st kinds,
  map (fun s => (s_key s, s_kind s)) (spans st) = rev kinds ->
  n_handler_err (fold_left ostep t st) = n_handler_err st + err_count true kinds t /\
  n_persist_err (fold_left ostep t st) = n_persist_err st + err_count false kinds t.
Proof.
  induction t as [|c r IH]; intros st kinds Hk; cbn [fold_left err_count]; [lia|].
  destruct c as [key k parent | key err].
  - destruct (IH (ostep st (Start key k parent)) ((key, k) :: kinds)) as [A B].
    { cbn [ostep spans]. rewrite map_app, Hk. reflexivity. }
    cbn [ostep n_handler_err n_persist_err] in *. split; lia.
  - destruct (IH (ostep st (Done key err)) kinds) as [A B].
    { cbn [ostep spans]. rewrite end_span_kinds. exact Hk. }
    rewrite A, B. cbn [ostep n_handler_err n_persist_err]. rewrite (kind_of_spec st key kinds Hk).
    destruct (find (fun x => Nat.eqb (fst x) key) (rev kinds)) as [[k0 [ | a | ]]|]; destruct err; cbn; split; lia.
Qed.

Theorem error_counters_are_the_true_numbers t :
  n_handler_err (orun t) = err_count true [] t /\ n_persist_err (orun t) = err_count false [] t.
Proof. destruct (err_counters t o0 [] eq_refl) as [A B]. cbn in *. split; assumption. Qed.

Example otel_nonvacuous :
  let t := [Start 1 KPub None; Start 2 KPersist (Some 1); Done 2 true; Start 3 (KHandler false) (Some 1); Done 3 true;
            Start 4 (KHandler true) (Some 1); Done 1 false; Done 4 false] in
  paired t = true /\ map s_ended (spans (orun t)) = [1; 1; 1; 1] /\
  n_handler_err (orun t) = 1 /\ n_persist_err (orun t) = 1 /\ n_handler_async (orun t) = 1.
Proof. vm_compute. auto. Qed.
