(* C04, a schedule the controller cannot force: the context of a publish is cancelled after PublishContext returned and
   before the delivery goroutine of an Async Once handler starts.  The bus model is run on exactly that schedule
   (the publisher until it blocks in Wait, then the delivery goroutines) and compared with the real bus on one processor. *)
From Coq Require Import List Arith Bool.
Import ListNotations.
From Ebu Require Export Bus.BusModel.

Definition oc_spec (ctxaware : bool) : hspec :=
  {| h_fn := 0; h_once := true; h_async := true; h_seq := false; h_ctx := ctxaware; h_filter := None; h_body := 0 |}.
Definition oc_prog : program :=
  {| p_bodies := [(0, {| b_acts := [] |})]; p_filters := []; p_routes := fun _ => 0; p_nshards := 32; p_pfault := fun _ => PfOk |}.

Fixpoint oc_acts (k : nat) (flags : list bool) : list action :=
  match flags with
  | [] => []
  | f :: r => [APub 0 k (if f then CtxId (S k) else CtxBg) false] ++ (if f then [ACancel (S k)] else []) ++
              [AWait; ACount 0] ++ oc_acts (S k) r
  end.

Definition oc_sched (n : nat) : list actor :=
  flat_map (fun _ => repeat 0 60 ++ flat_map (fun t => repeat t 20) (seq 1 (S n))) (seq 0 (S n)).

(* per Wait: (handler entries so far, HandlerCount) *)
Fixpoint oc_read (ls : list label) (entered : nat) : list (nat * nat) :=
  match ls with
  | [] => []
  | LEnter _ _ _ :: r => oc_read r (S entered)
  | LRes (ACount _) c :: r => (entered, c) :: oc_read r entered
  | _ :: r => oc_read r entered
  end.

Definition oc_model (ctxaware : bool) (flags : list bool) : list (nat * nat) :=
  let th := ASub 0 (oc_spec ctxaware) :: oc_acts 0 flags in
  oc_read (snd (run oc_prog cfg0 (init_state [th]) (oc_sched (length flags)))) 0.

Definition pair_eqb (a b : nat * nat) : bool := Nat.eqb (fst a) (fst b) && Nat.eqb (snd a) (snd b).
Fixpoint list_eqb {A} (eqb : A -> A -> bool) (a b : list A) : bool :=
  match a, b with [], [] => true | x :: a', y :: b' => eqb x y && list_eqb eqb a' b' | _, _ => false end.

(* every publish here is eligible (its context is live when PublishContext is called): the Once handler has run exactly
   once after the first one and is retired *)
Definition ok04x (flags : list bool) (o : list (nat * nat)) : bool :=
  Nat.eqb (length o) (length flags) && forallb (fun x => Nat.eqb (fst x) 1 && Nat.eqb (snd x) 0) o.

Definition check04x (c : (bool * list bool) * list (nat * nat)) : bool * bool * nat :=
  let '((ctxaware, flags), o) := c in (list_eqb pair_eqb (oc_model ctxaware flags) o, ok04x flags o, 0).
