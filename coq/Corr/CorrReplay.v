(* Correspondence + oracle for Replay (C11); mirrors harness/go/core/replay.go *)
From Coq Require Import List NArith ZArith Bool.
Import ListNotations.
From Ebu Require Export Store.Lex Store.StoreModel Store.ReplayModel.

Inductive rkind :=
| KMemStream
| KMemPaged (batch : Z)                 (* a store exposing only Append/Read, WithReplayBatchSize(batch) *)
| KSqStream
| KSqBatched (b : nat)                  (* sqlite.WithStreamBatchSize(b) *)
| KDsPaged (chunk : nat) (batch : Z).   (* durable-streams store: server chunk (messages), replay batch *)

Record rinput := { ri_kind : rkind; ri_n : nat; ri_from : nat; ri_fault : fault }.
Record robs := { ro_delivered : list nat; ro_err : bool; ro_appended : bool; ro_handlers : bool }.

Fixpoint list_eqb {A} (eqb : A -> A -> bool) (l1 l2 : list A) : bool :=
  match l1, l2 with
  | [], [] => true
  | x :: xs, y :: ys => eqb x y && list_eqb eqb xs ys
  | _, _ => false
  end.

Definition pays_upto (n : nat) : list nat := seq 0 n.

Definition mem_with (n : nat) : mem := fold_left (fun s p => fst (mem_append s p)) (pays_upto n) mem_init.
Definition sq_with (n : nat) : sq := fold_left (fun s p => fst (sq_append s p)) (pays_upto n) sq_init.
Definition ds_with (chunk n : nat) : ds := fold_left (fun s p => fst (ds_append s p)) (pays_upto n) (ds_init chunk).

Definition mem_off_at (k : nat) : offset := match k with O => [] | _ => pad 20 (N.of_nat k) end.
Definition sq_off_at (k : nat) : offset := match k with O => [] | _ => fmt_pos (Z.of_nat k) end.
Definition ds_off_at (k : nat) : offset := match k with O => [] | _ => ds_off k end.

Definition model (i : rinput) : list sev * rres :=
  let n := ri_n i in let k := ri_from i in let f := ri_fault i in
  match ri_kind i with
  | KMemStream => stream_mem (mem_stream (mem_with n) (mem_off_at k)) 0 f false
  | KMemPaged b => replay_paged (fun o l => Some (mem_read (mem_with n) o l)) (n + 3) (mem_off_at k) (eff_batch b) 0 0 f false
  | KSqStream => match sq_stream (sq_with n) (sq_off_at k) with
                 | None => ([], RErr)
                 | Some rows => stream_rows rows 0 f false end
  | KSqBatched b => match sq_stream (sq_with n) (sq_off_at k) with
                    | None => ([], RErr)
                    | Some rows => stream_batched (n + 3) rows b 0 f false end
  | KDsPaged chunk b => replay_paged (ds_read (ds_with chunk n)) (n + 3) (ds_off_at k) (eff_batch b) 0 0 f false
  end.

Definition agree (i : rinput) (o : robs) : bool :=
  let '(d, res) := model i in
  list_eqb Nat.eqb (map e_pay d) (ro_delivered o) &&
  match res with RNil => negb (ro_err o) | RErr => ro_err o | ROutOfFuel => false end.

(* ---- oracle: from the observation alone ---- *)
Fixpoint is_prefix (a b : list nat) : bool :=
  match a, b with
  | [], _ => true
  | x :: a', y :: b' => Nat.eqb x y && is_prefix a' b'
  | _, [] => false
  end.

Definition ok11 (i : rinput) (o : robs) : bool :=
  let remaining := seq (ri_from i) (ri_n i - ri_from i) in
  let nrem := length remaining in
  is_prefix (ro_delivered o) remaining &&                                   (* gap-free, in order, no repeat *)
  (ro_err o || Nat.eqb (length (ro_delivered o)) nrem) &&                    (* nil only if everything was delivered *)
  (match ri_fault i with
   | FCallback j => if Nat.ltb j nrem then ro_err o && Nat.eqb (length (ro_delivered o)) (S j) else true
   | FRow j => if Nat.ltb j nrem then ro_err o else true
   | FCancel j =>
       if Nat.ltb j nrem then
         (ro_err o || Nat.eqb (length (ro_delivered o)) nrem) &&
         (* the streaming paths look at the context before every event: a cancellation that leaves events undelivered
            ends in an error there (the paged paths look only between pages and may finish the last page) *)
         (match ri_kind i with
          | KMemStream | KSqStream => if Nat.ltb (S j) nrem then ro_err o else true
          | _ => true end)
       else true
   | FReadCall j => if Nat.eqb j 0 then ro_err o else true
   | FNone => true end) &&
  negb (ro_appended o) && negb (ro_handlers o).

(* known finding (bit 1): durable-streams paged replay whose batch is smaller than the server chunk
   (truncating Read returns the chunk's end as next offset) *)
Definition known11 (i : rinput) (o : robs) : nat :=
  if ok11 i o then 0 else
  match ri_kind i with
  | KDsPaged chunk b =>
      let nrem := ri_n i - ri_from i in
      if (Z.to_nat (eff_batch b) <? nrem) && (Nat.eqb chunk 0 || (Z.to_nat (eff_batch b) <? chunk)) then 1 else 0
  | _ => 0
  end.

Definition check11 (c : rinput * robs) : bool * bool * nat := let '(i, o) := c in (agree i o, ok11 i o, known11 i o).
