(* Correspondence definitions for the upcast family (C16, C17): the input and
   observation types shared with harness/go/core/upcast.go, the model run, and the
   property oracles evaluated on recorded observations. *)
From Coq Require Import List Arith Bool.
Import ListNotations.
From Ebu Require Import Upcast.UpcastModel.

Inductive cop :=
| CReg (from to : name) (f : fnid)
| CClear
| CClearType (t : name)
| CReplay                                   (* ReplayWithUpcast over the whole stored log *)
| CRace (from1 to1 : name) (f1 : fnid) (from2 to2 : name) (f2 : fnid).  (* two concurrent registrations *)

(* a harness upcaster: appends [fs_tag] to the payload's trail and returns type fs_ret, or fails *)
Record fnspec := { fs_id : fnid; fs_tag : nat; fs_ret : name; fs_fail : bool }.

Record cinput := { ci_fns : list fnspec; ci_log : list (name * list nat); ci_ops : list cop }.

Definition seen := (nat * name * list nat * bool)%type.   (* log index, type, trail, offset&timestamp unchanged *)

Inductive cobs :=
| OReg (accepted : bool)
| OUnit
| OReplay (diverged : bool) (evs : list seen) (errs : list (name * list nat))
| ORace (a1 a2 : bool).

Definition trail := list nat.

Fixpoint find_fn (fns : list fnspec) (f : fnid) : option fnspec :=
  match fns with
  | [] => None
  | s :: r => if Nat.eqb (fs_id s) f then Some s else find_fn r f
  end.

Definition beh_of (fns : list fnspec) (f : fnid) (d : trail) : option (trail * name) :=
  match find_fn fns f with
  | None => None
  | Some s => if fs_fail s then None else Some (d ++ [fs_tag s], fs_ret s)
  end.

Fixpoint list_eqb {A} (eqb : A -> A -> bool) (l1 l2 : list A) : bool :=
  match l1, l2 with
  | [], [] => true
  | x :: xs, y :: ys => eqb x y && list_eqb eqb xs ys
  | _, _ => false
  end.

Definition seen_eqb (a b : seen) : bool :=
  let '(i1, t1, d1, u1) := a in let '(i2, t2, d2, u2) := b in
  Nat.eqb i1 i2 && Nat.eqb t1 t2 && list_eqb Nat.eqb d1 d2 && Bool.eqb u1 u2.

Definition err_eqb (a b : name * trail) : bool :=
  Nat.eqb (fst a) (fst b) && list_eqb Nat.eqb (snd a) (snd b).

Definition cobs_eqb (a b : cobs) : bool :=
  match a, b with
  | OReg x, OReg y => Bool.eqb x y
  | OUnit, OUnit => true
  | OReplay d1 e1 r1, OReplay d2 e2 r2 =>
      Bool.eqb d1 d2 && list_eqb seen_eqb e1 e2 && list_eqb err_eqb r1 r2
  | ORace a1 a2, ORace b1 b2 => Bool.eqb a1 b1 && Bool.eqb a2 b2
  | _, _ => false
  end.

Definition accepted (r : reg_result) : bool := match r with RegOk => true | _ => false end.

(* replay the whole log through upcast_event *)
Fixpoint replay_log (fns : list fnspec) (g : registry) (i : nat) (log : list (name * trail))
  : list seen * list (name * trail) :=
  match log with
  | [] => ([], [])
  | (t, d) :: rest =>
    let '(e', calls) := upcast_event (beh_of fns) g {| s_off := i; s_ty := t; s_data := d; s_ts := i |} in
    let '(evs, errs) := replay_log fns g (S i) rest in
    ((i, s_ty e', s_data e', Nat.eqb (s_off e') i && Nat.eqb (s_ts e') i) :: evs, calls ++ errs)
  end.

(* model run; [orders] resolves each CRace: true = first registration wins the lock first *)
Fixpoint run (fns : list fnspec) (log : list (name * trail)) (g : registry) (ops : list cop)
         (orders : list bool) : list cobs :=
  match ops with
  | [] => []
  | CReg from to f :: r =>
      let '(g', res) := register g from to f in OReg (accepted res) :: run fns log g' r orders
  | CClear :: r => OUnit :: run fns log (clear_all g) r orders
  | CClearType t :: r => OUnit :: run fns log (clear_type g t) r orders
  | CReplay :: r =>
      let '(evs, errs) := replay_log fns g 0 log in OReplay false evs errs :: run fns log g r orders
  | CRace a1 b1 f1 a2 b2 f2 :: r =>
      let first := match orders with o :: _ => o | [] => true end in
      let rest := tl orders in
      if first then
        let '(g1, r1) := register g a1 b1 f1 in
        let '(g2, r2) := register g1 a2 b2 f2 in
        ORace (accepted r1) (accepted r2) :: run fns log g2 r rest
      else
        let '(g1, r2) := register g a2 b2 f2 in
        let '(g2, r1) := register g1 a1 b1 f1 in
        ORace (accepted r1) (accepted r2) :: run fns log g2 r rest
  end.

Fixpoint bool_vectors (n : nat) : list (list bool) :=
  match n with
  | 0 => [[]]
  | S k => map (cons true) (bool_vectors k) ++ map (cons false) (bool_vectors k)
  end.

Definition nraces (ops : list cop) : nat :=
  length (filter (fun o => match o with CRace _ _ _ _ _ _ => true | _ => false end) ops).

Definition agree (i : cinput) (o : list cobs) : bool :=
  existsb (fun ord => list_eqb cobs_eqb (run (ci_fns i) (ci_log i) [] (ci_ops i) ord) o)
          (bool_vectors (nraces (ci_ops i))).

(* ---- oracles: what the properties demand of an observation, from the observation alone.
   The abstract registry is rebuilt from the *observed* acceptances. ---- *)

Definition spec_accept (g : registry) (from to : name) (f : fnid) : bool :=
  negb (Nat.eqb from 0) && negb (Nat.eqb to 0) && negb (Nat.eqb from to) && negb (Nat.eqb f 0) &&
  match would_cycle g from to with Some false => true | _ => false end.
  (* would_cycle is proved to decide reachability (would_cycle_spec) *)

Definition add_if (b : bool) (g : registry) from to f : registry :=
  if b then g ++ [{| u_from := from; u_to := to; u_fn := f |}] else g.

Definition honours_b (fns : list fnspec) (g : registry) : bool :=
  forallb (fun u => match find_fn fns (u_fn u) with
                    | Some s => Nat.eqb (fs_ret s) (u_to u)
                    | None => true end) g.

(* C16: acceptance exactly per the spec; every replay terminates *)
Fixpoint ok16 (g : registry) (ops : list cop) (obs : list cobs) : bool :=
  match ops, obs with
  | [], [] => true
  | CReg from to f :: r, OReg a :: ro =>
      Bool.eqb a (spec_accept g from to f) && ok16 (add_if a g from to f) r ro
  | CClear :: r, OUnit :: ro => ok16 [] r ro
  | CClearType t :: r, OUnit :: ro => ok16 (clear_type g t) r ro
  | CReplay :: r, OReplay d _ _ :: ro => negb d && ok16 g r ro
  | CRace a1 b1 f1 a2 b2 f2 :: r, ORace x1 x2 :: ro =>
      (* one of the two sequential orders explains the pair of results *)
      ((Bool.eqb x1 (spec_accept g a1 b1 f1) &&
        Bool.eqb x2 (spec_accept (add_if x1 g a1 b1 f1) a2 b2 f2)) ||
       (Bool.eqb x2 (spec_accept g a2 b2 f2) &&
        Bool.eqb x1 (spec_accept (add_if x2 g a2 b2 f2) a1 b1 f1))) &&
      ok16 (add_if x2 (add_if x1 g a1 b1 f1) a2 b2 f2) r ro
  | _, _ => false
  end.

(* C17: on registries whose functions honour their declared target, each replayed event is the
   full composition of first-registered upcasters or, on failure, the original, with one error
   report per failure; offset/timestamp never change. (apply is proved equal to the chain spec.) *)
(* whatever the registered functions do: what the callback sees is the original event, or an event of a type from which
   no upcaster is registered - a chain is never left half way *)
Definition whole_or_nothing (g : registry) (log : list (name * trail)) (evs : list seen) : bool :=
  forallb (fun e => let '(i, ty, d, _) := e in
             match nth_error log i with
             | Some (t0, d0) => (Nat.eqb ty t0 && list_eqb Nat.eqb d d0) || negb (existsb (fun u => Nat.eqb (u_from u) ty) g)
             | None => false
             end) evs.

Fixpoint ok17 (fns : list fnspec) (log : list (name * trail)) (g : registry) (racy : bool)
         (ops : list cop) (obs : list cobs) : bool :=
  match ops, obs with
  | [], [] => true
  | CReg from to f :: r, OReg a :: ro => ok17 fns log (add_if a g from to f) racy r ro
  | CClear :: r, OUnit :: ro => ok17 fns log [] racy r ro
  | CClearType t :: r, OUnit :: ro => ok17 fns log (clear_type g t) racy r ro
  | CReplay :: r, OReplay d evs errs :: ro =>
      (if honours_b fns g && negb racy then
         let '(evs', errs') := replay_log fns g 0 log in
         negb d && list_eqb seen_eqb evs evs' && list_eqb err_eqb errs errs'
       else true) && whole_or_nothing g log evs && ok17 fns log g racy r ro
  | CRace a1 b1 f1 a2 b2 f2 :: r, ORace x1 x2 :: ro =>
      (* the order of two accepted same-source registrations is not observable: stop judging chains *)
      ok17 fns log (add_if x2 (add_if x1 g a1 b1 f1) a2 b2 f2)
           (racy || (x1 && x2 && Nat.eqb a1 a2)) r ro
  | _, _ => false
  end.

Definition check16 (c : cinput * list cobs) : bool * bool * nat :=
  let '(i, o) := c in (agree i o, ok16 [] (ci_ops i) o, 0).
Definition check17 (c : cinput * list cobs) : bool * bool * nat :=
  let '(i, o) := c in (agree i o, ok17 (ci_fns i) (ci_log i) [] false (ci_ops i) o, 0).

(* ---- typed upcasters (RegisterUpcast[From,To]): payloads abstracted to their fields ---- *)
Record pl := { p_bad : bool;                 (* data does not decode into the source type *)
               p_x : nat; p_note : nat;      (* note: 0 = field absent *)
               p_tags : list (nat * nat) }.

Definition tbeh (f : fnid) (p : pl) : option (pl * name) :=
  if p_bad p then None else
  match f with
  | 1 => Some ({| p_bad := false; p_x := p_x p + 1; p_note := p_note p; p_tags := p_tags p |}, 2)
  | 2 => Some ({| p_bad := false; p_x := 2 * p_x p; p_note := p_note p; p_tags := p_tags p |}, 3)
  | 3 => Some ({| p_bad := false; p_x := p_x p + 100; p_note := p_note p; p_tags := p_tags p |}, 3)
  | _ => None
  end.

Record tinput := { ti_regs : list (name * name * fnid); ti_log : list (name * pl) }.

Definition pair_eqb (a b : nat * nat) : bool := Nat.eqb (fst a) (fst b) && Nat.eqb (snd a) (snd b).
Definition pl_eqb (a b : pl) : bool :=
  Bool.eqb (p_bad a) (p_bad b) &&
  (p_bad a || (Nat.eqb (p_x a) (p_x b) && Nat.eqb (p_note a) (p_note b) && list_eqb pair_eqb (p_tags a) (p_tags b))).

Definition trun (i : tinput) : list (name * pl) :=
  let g := fold_left (fun g r => let '(a, b, f) := r in fst (register g a b f)) (ti_regs i) [] in
  map (fun e => let '(e', _) := upcast_event tbeh g {| s_off := 0; s_ty := fst e; s_data := snd e; s_ts := 0 |} in
                (s_ty e', s_data e')) (ti_log i).

Definition tagree (i : tinput) (o : list (name * pl)) : bool :=
  list_eqb (fun a b => Nat.eqb (fst a) (fst b) && pl_eqb (snd a) (snd b)) (trun i) o.

(* for typed upcasters the model run *is* the specification (apply = chain, typed = encode.f.decode) *)
Definition check17t (c : tinput * list (name * pl)) : bool * bool * nat :=
  let '(i, o) := c in (tagree i o, tagree i o, 0).
