(* Correspondence for the adapter half of C20: the harness's own count of what happened per publish is turned into the
   callback trace the bus must have produced; the adapter model consumes it; the result is compared with what the
   OpenTelemetry SDK's span recorder and manual metric reader saw. *)
From Coq Require Import List Arith Bool.
Import ListNotations.
From Ebu Require Export Otel.OtelModel.

Record ptruth := { pt_pid : nat; pt_sync : nat; pt_async : nat; pt_panics : nat; pt_persist : nat (* 0 none, 1 appended, 2 failed *) }.
Record pseen := { ps_pid : nat; ps_pub : nat; ps_hs : nat; ps_ha : nat; ps_herr : nat; ps_ps : nat; ps_perr : nat }.
Record otobs := { oo_seen : list pseen; oo_started : nat; oo_ended : nat; oo_not_once : nat; oo_orphans : nat;
                  oo_counters : list nat (* publish, handler, handler errors, persist, persist errors *) }.

Definition trace_of_pub (t : ptruth) : list cb :=
  let b := pt_pid t * 200 in
  [Start b KPub None] ++
  (match pt_persist t with
   | 0 => []
   | 1 => [Start (b + 1) KPersist (Some b); Done (b + 1) false]
   | _ => [Start (b + 1) KPersist (Some b); Done (b + 1) true]
   end) ++
  flat_map (fun j => [Start (b + 2 + j) (KHandler (Nat.leb (pt_sync t) j)) (Some b); Done (b + 2 + j) (Nat.ltb j (pt_panics t))])
           (seq 0 (pt_sync t + pt_async t)) ++
  [Done b false].
Definition trace_of (ts : list ptruth) : list cb := flat_map trace_of_pub ts.

Definition children (st : ostate) (b : nat) (f : kind -> bool) : nat :=
  length (filter (fun s => match s_parent s with Some p => Nat.eqb p b && f (s_kind s) | None => false end) (spans st)).

Definition agree20o (ts : list ptruth) (o : otobs) : bool :=
  let t := trace_of ts in
  let st := orun t in
  paired t &&
  Nat.eqb (oo_started o) (length (spans st)) &&
  Nat.eqb (oo_ended o) (length (filter (fun s => Nat.eqb (s_ended s) 1) (spans st))) &&
  Nat.eqb (oo_not_once o) 0 && Nat.eqb (oo_orphans o) 0 &&
  match oo_counters o with
  | [a; b; c; d; e] => Nat.eqb a (n_pub st) && Nat.eqb b (n_handler_sync st + n_handler_async st) && Nat.eqb c (n_handler_err st) &&
                       Nat.eqb d (n_persist st) && Nat.eqb e (n_persist_err st)
  | _ => false
  end &&
  Nat.eqb (length (oo_seen o)) (length ts) &&
  forallb (fun tp => let '(tr, sn) := tp in
     let b := pt_pid tr * 200 in
     Nat.eqb (ps_pid sn) (pt_pid tr) && Nat.eqb (ps_pub sn) 1 &&
     Nat.eqb (ps_hs sn) (children st b (fun k => match k with KHandler false => true | _ => false end)) &&
     Nat.eqb (ps_ha sn) (children st b (fun k => match k with KHandler true => true | _ => false end)) &&
     Nat.eqb (ps_ps sn) (children st b (fun k => match k with KPersist => true | _ => false end)))
    (combine ts (oo_seen o)).

(* the oracle, by plain arithmetic on the harness's own counts *)
Definition sum (f : ptruth -> nat) (ts : list ptruth) : nat := fold_left (fun a t => a + f t) ts 0.
Definition ok20o (ts : list ptruth) (o : otobs) : bool :=
  let spans_expected := sum (fun t => 1 + pt_sync t + pt_async t + (if Nat.eqb (pt_persist t) 0 then 0 else 1)) ts in
  Nat.eqb (oo_started o) spans_expected && Nat.eqb (oo_ended o) spans_expected &&
  Nat.eqb (oo_not_once o) 0 && Nat.eqb (oo_orphans o) 0 &&
  match oo_counters o with
  | [a; b; c; d; e] => Nat.eqb a (length ts) && Nat.eqb b (sum (fun t => pt_sync t + pt_async t) ts) &&
                       Nat.eqb c (sum pt_panics ts) && Nat.eqb d (sum (fun t => if Nat.eqb (pt_persist t) 0 then 0 else 1) ts) &&
                       Nat.eqb e (sum (fun t => if Nat.eqb (pt_persist t) 2 then 1 else 0) ts)
  | _ => false
  end &&
  Nat.eqb (length (oo_seen o)) (length ts) &&
  forallb (fun tp => let '(tr, sn) := tp in
     Nat.eqb (ps_pid sn) (pt_pid tr) && Nat.eqb (ps_pub sn) 1 && Nat.eqb (ps_hs sn) (pt_sync tr) && Nat.eqb (ps_ha sn) (pt_async tr) &&
     Nat.eqb (ps_herr sn) (pt_panics tr) && Nat.eqb (ps_ps sn) (if Nat.eqb (pt_persist tr) 0 then 0 else 1) &&
     Nat.eqb (ps_perr sn) (if Nat.eqb (pt_persist tr) 2 then 1 else 0))
    (combine ts (oo_seen o)).

Definition check20o (c : list ptruth * otobs) : bool * bool * nat := let '(i, o) := c in (agree20o i o, ok20o i o, 0).
