(* Free-running stress runs of the bus (harness busstress.go): no model run to compare with - the interleavings are the
   Go scheduler's - only an oracle over what was counted.  This is sampling in support of the controlled suites, for
   interleavings strictly inside the bus's code; it proves nothing. *)
From Coq Require Import List Arith Bool.
Import ListNotations.

Record stobs := {
  so_stable : list (nat * nat * nat);   (* per stable handler: deliveries, events not delivered exactly once, overlaps (Sequential) *)
  so_once : list nat;                   (* per Once handler: times fired *)
  so_count : nat;                       (* HandlerCount at the end *)
  so_records : nat; so_disorder : nat;  (* persisted records; records that repeat an offset or are out of offset order *)
  so_escaped : nat;                     (* panics that escaped an API call *)
  (* phase 2: rounds of one live publish to a fresh Once handler, racing with publishes on a cancelled context *)
  so_once_lost : nat;                   (* rounds in which the Once handler did not fire exactly once *)
  so_once_stale : nat;                  (* rounds after which it was still counted as subscribed *)
  so_dead_seen : nat;                   (* rounds in which it was handed an event published with the cancelled context *)
  (* phase 3: after concurrent Unsubscribe/Subscribe churn on two of four handlers, a probe event *)
  so_probe_bad : nat;                   (* handlers that did not get the probe exactly once (+10 if HandlerCount is not 4) *)
  (* phase 4: rounds of a fresh synchronous Sequential handler hit by four publishers at once *)
  so_fresh_overlap : nat                (* rounds in which two of its invocations overlapped *)
}.

Definition ok_stress (i : nat * nat * nat * bool) (o : stobs) : bool :=
  let '(nst, nonce, events, store) := i in
  Nat.eqb (length (so_stable o)) nst &&
  forallb (fun x => let '(total, bad, overlaps) := x in Nat.eqb total events && Nat.eqb bad 0 && Nat.eqb overlaps 0) (so_stable o) &&
  Nat.eqb (length (so_once o)) nonce && forallb (fun f => Nat.eqb f 1) (so_once o) &&
  Nat.eqb (so_count o) nst &&
  (if store then Nat.eqb (so_records o) events else Nat.eqb (so_records o) 0) && Nat.eqb (so_disorder o) 0 &&
  Nat.eqb (so_escaped o) 0 &&
  Nat.eqb (so_once_lost o) 0 && Nat.eqb (so_once_stale o) 0 && Nat.eqb (so_dead_seen o) 0 && Nat.eqb (so_probe_bad o) 0 &&
  Nat.eqb (so_fresh_overlap o) 0.

Definition check_stress (c : (nat * nat * nat * bool) * stobs) : bool * bool * nat := (true, ok_stress (fst c) (snd c), 0).

(* waitstress.go: after every Wait, the handlers of the events the caller had published before have finished *)
Record wsobs := { ws_early : nat;      (* Wait calls that returned while a handler of an earlier publish of the caller was unfinished *)
                  ws_stuck : bool;     (* the run did not finish: some Wait never returned *)
                  ws_escaped : nat; ws_running : nat }.
Definition ok_wait (o : wsobs) : bool :=
  Nat.eqb (ws_early o) 0 && negb (ws_stuck o) && Nat.eqb (ws_escaped o) 0 && Nat.eqb (ws_running o) 0.
Definition check_wait (c : (nat * nat * nat) * wsobs) : bool * bool * nat := (true, ok_wait (snd c), 0).
