(* Free-running stress runs of the bus (harness busstress.go): no model run to compare with - the interleavings are the
   Go scheduler's - only an oracle over what was counted.  This is sampling in support of the controlled suites, for
   interleavings strictly inside the bus's code; it proves nothing. *)
From Coq Require Import List Arith Bool.
Import ListNotations.

Record stobs := {
  so_stable : list (nat * nat * nat);   (* per stable handler: deliveries, events not delivered exactly once, overlaps (Sequential) *)
  so_once : list nat;                   (* per Once handler: times fired *)
  so_count : nat;                       (* HandlerCount at the end *)
  so_records : nat; so_disorder : nat;  (* persisted records; records that repeat an offset or are out of offset order *)
  so_escaped : nat;                     (* panics that escaped an API call *)
  (* phase 2: rounds of one live publish to a fresh Once handler, racing with publishes on a cancelled context *)
  so_once_lost : nat;                   (* rounds in which the Once handler did not fire exactly once *)
  so_once_stale : nat;                  (* rounds after which it was still counted as subscribed *)
  so_dead_seen : nat;                   (* rounds in which it was handed an event published with the cancelled context *)
  (* phase 3: after concurrent Unsubscribe/Subscribe churn on two of four handlers, a probe event *)
  so_probe_bad : nat;                   (* handlers that did not get the probe exactly once (+10 if HandlerCount is not 4) *)
  (* phase 4: rounds of a fresh synchronous Sequential handler hit by four publishers at once *)
  so_fresh_overlap : nat;               (* rounds in which two of its invocations overlapped *)
  so_misorder : nat;                    (* phase 1, Sequential handlers: events seen after a later event of the same publisher *)
  (* phase 5: rounds of one goroutine publishing a burst to a fresh Async+Sequential handler *)
  so_burst_bad : nat;                   (* rounds in which the burst was not processed completely and in publish order *)
  (* phase 6: rounds of ClearAll racing with an Unsubscribe that scans a long handler list *)
  so_resurrected : nat                  (* rounds after which the registry was not empty, or a cleared handler got a later event *)
}.

Definition ok_stress (i : nat * nat * nat * bool) (o : stobs) : bool :=
  let '(nst, nonce, events, store) := i in
  Nat.eqb (length (so_stable o)) nst &&
  forallb (fun x => let '(total, bad, overlaps) := x in Nat.eqb total events && Nat.eqb bad 0 && Nat.eqb overlaps 0) (so_stable o) &&
  Nat.eqb (length (so_once o)) nonce && forallb (fun f => Nat.eqb f 1) (so_once o) &&
  Nat.eqb (so_count o) nst &&
  (if store then Nat.eqb (so_records o) events else Nat.eqb (so_records o) 0) && Nat.eqb (so_disorder o) 0 &&
  Nat.eqb (so_escaped o) 0 &&
  Nat.eqb (so_once_lost o) 0 && Nat.eqb (so_once_stale o) 0 && Nat.eqb (so_dead_seen o) 0 && Nat.eqb (so_probe_bad o) 0 &&
  Nat.eqb (so_fresh_overlap o) 0 && Nat.eqb (so_misorder o) 0 && Nat.eqb (so_burst_bad o) 0 && Nat.eqb (so_resurrected o) 0.

Definition check_stress (c : (nat * nat * nat * bool) * stobs) : bool * bool * nat := (true, ok_stress (fst c) (snd c), 0).

(* the same counts, projected on what each property says (a violation of one is not reported under another) *)
Definition delivered_once (i : nat * nat * nat * bool) (o : stobs) : bool :=
  let '(nst, nonce, events, store) := i in
  Nat.eqb (length (so_stable o)) nst &&
  forallb (fun x => let '(total, bad, overlaps) := x in Nat.eqb total events && Nat.eqb bad 0) (so_stable o).
(* C01: every stable handler got every event exactly once; the probe reached every handler exactly once *)
Definition ok_stress01 (i : nat * nat * nat * bool) (o : stobs) : bool :=
  delivered_once i o && Nat.eqb (so_probe_bad o) 0 && Nat.eqb (so_escaped o) 0.
(* C02: the registry ends where the subscriptions and removals put it *)
Definition ok_stress02 (i : nat * nat * nat * bool) (o : stobs) : bool :=
  let '(nst, nonce, events, store) := i in
  Nat.eqb (so_count o) nst && Nat.eqb (so_probe_bad o) 0 && Nat.eqb (so_once_stale o) 0 && Nat.eqb (so_resurrected o) 0 &&
  Nat.eqb (so_escaped o) 0.
(* C04: Once handlers fire exactly once, for a live publish, and are retired *)
Definition ok_stress04 (i : nat * nat * nat * bool) (o : stobs) : bool :=
  let '(nst, nonce, events, store) := i in
  Nat.eqb (length (so_once o)) nonce && forallb (fun f => Nat.eqb f 1) (so_once o) &&
  Nat.eqb (so_once_lost o) 0 && Nat.eqb (so_once_stale o) 0 && Nat.eqb (so_dead_seen o) 0 && Nat.eqb (so_escaped o) 0.
(* C07: Sequential handlers never overlap, still get every event exactly once, and (Async) keep each publisher's order *)
Definition ok_stress07 (i : nat * nat * nat * bool) (o : stobs) : bool :=
  delivered_once i o &&
  forallb (fun x => let '(total, bad, overlaps) := x in Nat.eqb overlaps 0) (so_stable o) &&
  Nat.eqb (so_fresh_overlap o) 0 && Nat.eqb (so_misorder o) 0 && Nat.eqb (so_burst_bad o) 0 && Nat.eqb (so_escaped o) 0.
(* C09: one record per publish, in increasing offset order *)
Definition ok_stress09 (i : nat * nat * nat * bool) (o : stobs) : bool :=
  let '(nst, nonce, events, store) := i in
  (if store then Nat.eqb (so_records o) events else Nat.eqb (so_records o) 0) && Nat.eqb (so_disorder o) 0 &&
  Nat.eqb (so_escaped o) 0.
Definition check_stress01 (c : (nat * nat * nat * bool) * stobs) : bool * bool * nat := (true, ok_stress01 (fst c) (snd c), 0).
Definition check_stress02 (c : (nat * nat * nat * bool) * stobs) : bool * bool * nat := (true, ok_stress02 (fst c) (snd c), 0).
Definition check_stress04 (c : (nat * nat * nat * bool) * stobs) : bool * bool * nat := (true, ok_stress04 (fst c) (snd c), 0).
Definition check_stress07 (c : (nat * nat * nat * bool) * stobs) : bool * bool * nat := (true, ok_stress07 (fst c) (snd c), 0).
Definition check_stress09 (c : (nat * nat * nat * bool) * stobs) : bool * bool * nat := (true, ok_stress09 (fst c) (snd c), 0).

(* waitstress.go: after every Wait, the handlers of the events the caller had published before have finished *)
Record wsobs := { ws_early : nat;      (* Wait calls that returned while a handler of an earlier publish of the caller was unfinished *)
                  ws_stuck : bool;     (* the run did not finish: some Wait never returned *)
                  ws_escaped : nat; ws_running : nat }.
Definition ok_wait (o : wsobs) : bool :=
  Nat.eqb (ws_early o) 0 && negb (ws_stuck o) && Nat.eqb (ws_escaped o) 0 && Nat.eqb (ws_running o) 0.
Definition check_wait (c : (nat * nat * nat) * wsobs) : bool * bool * nat := (true, ok_wait (snd c), 0).

(* persisttimeout.go (C13): real persistence timeouts.  Input: per published value 1..n its kind (0 appended, 1 the
   Append runs into the persistence timeout, 2 the Append is rejected); observed per value: (calls of the persistence
   error handler, runs of the subscribed handler), then the values in the log, and panics that escaped Publish. *)
Record ptobs := { pt_per : list (nat * nat); pt_log : list nat; pt_escaped : nat }.
Fixpoint pt_expect (kinds : list nat) (v : nat) : list (nat * nat) * list nat :=
  match kinds with
  | [] => ([], [])
  | k :: r => let '(per, lg) := pt_expect r (S v) in
              (((if Nat.eqb k 0 then 0 else 1), 1) :: per, if Nat.eqb k 0 then v :: lg else lg)
  end.
Fixpoint natpairs_eqb (a b : list (nat * nat)) : bool :=
  match a, b with
  | [], [] => true
  | (x1, y1) :: a', (x2, y2) :: b' => Nat.eqb x1 x2 && Nat.eqb y1 y2 && natpairs_eqb a' b'
  | _, _ => false
  end.
Fixpoint nats_eqb (a b : list nat) : bool :=
  match a, b with
  | [], [] => true
  | x :: a', y :: b' => Nat.eqb x y && nats_eqb a' b'
  | _, _ => false
  end.
(* every failed publish is reported exactly once, every successful one not at all; the handler runs once either way;
   exactly the successful events are in the log, in publish order; nothing escapes *)
Definition ok_pt (kinds : list nat) (o : ptobs) : bool :=
  let '(per, lg) := pt_expect kinds 1 in
  natpairs_eqb per (pt_per o) && nats_eqb lg (pt_log o) && Nat.eqb (pt_escaped o) 0.
Definition check_pt (c : list nat * ptobs) : bool * bool * nat := (true, ok_pt (fst c) (snd c), 0).

(* subopt.go (C09): the six orders of WithStore / WithSubscriptionStore / another option, with an event store that could
   or could not keep offsets itself; n events are published, replayed through SubscribeWithReplay, one more is handled
   live.  Whatever the order: no error, n+1 deliveries, the offset of the last event is in the dedicated subscription
   store, nothing is in the event store's own offset table, the bus is persistent and holds n+1 records. *)
Record soobs := { sb_ok : bool; sb_got : nat; sb_in_subs : bool; sb_events_clean : bool; sb_persistent : bool; sb_records : nat }.
Definition ok_subopt (i : nat * bool * nat) (o : soobs) : bool :=
  let '(_, _, n) := i in
  sb_ok o && Nat.eqb (sb_got o) (S n) && sb_in_subs o && sb_events_clean o && sb_persistent o && Nat.eqb (sb_records o) (S n).
Definition check_subopt (c : (nat * bool * nat) * soobs) : bool * bool * nat := (true, ok_subopt (fst c) (snd c), 0).
