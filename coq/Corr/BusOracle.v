(* Oracles for the bus properties: what C01, C02, C04, C05, C06, C07, C08, C09, C13, C20 demand of an
   OBSERVED run (per-actor label sequences + the controller's log), without running the model.
   The controller's log gives the global order of steps; the oracle walks it with a flat registry. *)
From Coq Require Import List Arith Bool.
Import ListNotations.
From Ebu Require Export Corr.CorrBus.

(* ---- global linearisation of the observed labels ---- *)
Record ostep := { os_who : who; os_resumed : bool; os_from : option label; os_emitted : list label }.

Fixpoint wget {V} (l : list (who * V)) (w : who) : option V :=
  match l with [] => None | (w', v) :: r => if who_eqb w' w then Some v else wget r w end.
Fixpoint wset {V} (l : list (who * V)) (w : who) (v : V) : list (who * V) :=
  match l with
  | [] => [(w, v)]
  | (w', v') :: r => if who_eqb w' w then (w, v) :: r else (w', v') :: wset r w v
  end.

(* leading non-parking labels, then (if wanted) one parking label *)
Fixpoint take_step (tr : list label) (want_park : bool) : list label * list label :=
  match tr with
  | [] => ([], [])
  | l :: r => if parks l then (if want_park then ([l], r) else ([], tr))
              else let '(a, b) := take_step r want_park in (l :: a, b)
  end.

Fixpoint last_parking (ls : list label) (d : option label) : option label :=
  match ls with [] => d | l :: r => last_parking r (if parks l then Some l else d) end.

Fixpoint linearize (sched : list sevent) (rem : list (who * list label)) (at_ : list (who * label)) : list ostep :=
  match sched with
  | [] => []
  | e :: rest =>
    let '(w, resumed, want) := match e with Resume w b => (w, true, b) | Arrive w => (w, false, true) end in
    let tr := match wget rem w with Some t => t | None => [] end in
    let '(em, tr') := take_step tr want in
    let from := if resumed then wget at_ w else None in
    {| os_who := w; os_resumed := resumed; os_from := from; os_emitted := em |} ::
      linearize rest (wset rem w tr')
                (match last_parking em None with Some l => wset at_ w l | None => at_ end)
  end.

(* ---- the walk ---- *)
Record opub := { op_ty : nat; op_val : nat; op_ctx : ctxref; op_owner : who; op_precancelled : bool;
                 op_cand : list (nat * hspec);              (* the registry as of the owner's latest resumption *)
                 op_pre_acts : nat;                         (* actions of a before-hook body still to be announced *)
                 op_snap : option (list (nat * hspec)) }.

Record ospec := {
  o_reg : list (nat * list (nat * hspec));   (* flat registry; fired once-handlers stay until known removed *)
  o_next_rid : nat; o_next_pid : nat;
  o_pubs : list (nat * opub);
  o_cancel_step : list (nat * nat);          (* ctx id -> step index of its first cancellation *)
  o_filtered : list (nat * nat);
  o_entered : list (nat * nat * who);        (* (publish, registration, entering actor) *)
  o_fired : list nat;                        (* once registrations that have entered *)
  o_last_resume : list (who * nat);
  o_last_sync : list (nat * nat);            (* publish -> snapshot index of the last sync handler entered *)
  o_vague : bool;                            (* an Unsubscribe could have hit a fired once-handler: identities unknown *)
  o_bad : list nat                           (* step indices at which a check failed *)
}.

Definition reg_of (s : ospec) (t : nat) : list (nat * hspec) :=
  match assoc_get (o_reg s) t with Some l => l | None => [] end.
(* a once-handler is claimed (and later retired) by the publishing goroutine before the handler itself is entered -
   for an async one possibly long before: from the moment a publish has fixed a snapshot containing it, it may be gone *)
Definition maybe_fired (s : ospec) (rid : nat) : bool :=
  memb rid (o_fired s) ||
  existsb (fun pr => match op_snap (snd pr) with
                     | Some sn => existsb (fun rh => Nat.eqb (fst rh) rid && h_once (snd rh)) sn
                     | None => false end) (o_pubs s).
Definition definite_now (s : ospec) (t : nat) : list (nat * hspec) :=
  filter (fun rh => negb (maybe_fired s (fst rh))) (reg_of s t).
(* at the end of a finished run every claim has become an entry *)
Definition definite (s : ospec) (t : nat) : list (nat * hspec) :=
  filter (fun rh => negb (memb (fst rh) (o_fired s))) (reg_of s t).

Definition fail (s : ospec) (i : nat) : ospec :=
  {| o_reg := o_reg s; o_next_rid := o_next_rid s; o_next_pid := o_next_pid s; o_pubs := o_pubs s;
     o_cancel_step := o_cancel_step s; o_filtered := o_filtered s; o_entered := o_entered s; o_fired := o_fired s;
     o_last_resume := o_last_resume s; o_last_sync := o_last_sync s; o_vague := o_vague s; o_bad := o_bad s ++ [i] |}.
Definition check (b : bool) (s : ospec) (i : nat) : ospec := if b then s else fail s i.

Definition set_reg (s : ospec) (r : list (nat * list (nat * hspec))) : ospec :=
  {| o_reg := r; o_next_rid := o_next_rid s; o_next_pid := o_next_pid s; o_pubs := o_pubs s;
     o_cancel_step := o_cancel_step s; o_filtered := o_filtered s; o_entered := o_entered s; o_fired := o_fired s;
     o_last_resume := o_last_resume s; o_last_sync := o_last_sync s; o_vague := o_vague s; o_bad := o_bad s |}.

Fixpoint first_res (a : action) (ls : list label) : option nat :=
  match ls with
  | [] => None
  | LRes a' r :: rest => if action_eqb a a' then Some r else first_res a rest
  | _ :: rest => first_res a rest
  end.

Fixpoint remove_first_fn' (l : list (nat * hspec)) (fn : nat) : option (nat * list (nat * hspec)) :=
  match l with
  | [] => None
  | h :: r => if Nat.eqb (h_fn (snd h)) fn then Some (fst h, r)
              else match remove_first_fn' r fn with Some (x, r') => Some (x, h :: r') | None => None end
  end.

Definition ctx_cancelled_before (s : ospec) (c : ctxref) (step : nat) : bool :=
  match c with
  | CtxBg => false
  | CtxId i => match assoc_get (o_cancel_step s) i with Some k => Nat.ltb k step | None => false end
  end.
Definition ctx_ever_cancelled (s : ospec) (c : ctxref) : bool :=
  match c with CtxBg => false | CtxId i => match assoc_get (o_cancel_step s) i with Some _ => true | None => false end end.

(* applying the action the actor was parked at *)
Definition apply_action (P : program) (s : ospec) (i : nat) (w : who) (a : action) (em : list label) : ospec :=
  match a with
  | ASub t sp =>
      {| o_reg := assoc_set (o_reg s) t (reg_of s t ++ [(o_next_rid s, sp)]); o_next_rid := S (o_next_rid s);
         o_next_pid := o_next_pid s; o_pubs := o_pubs s; o_cancel_step := o_cancel_step s; o_filtered := o_filtered s;
         o_entered := o_entered s; o_fired := o_fired s; o_last_resume := o_last_resume s; o_last_sync := o_last_sync s;
         o_vague := o_vague s; o_bad := o_bad s |}
  | AUnsub t fn =>
      match first_res a em with
      | None => s                                     (* the call has not returned within this run *)
      | Some r =>
        match remove_first_fn' (reg_of s t) fn with
        | None => check (Nat.eqb r 0) s i
        | Some (rid, rest) =>
          if maybe_fired s rid then
            (* the first match is a fired once-handler that may or may not have been retired yet *)
            {| o_reg := assoc_set (o_reg s) t rest; o_next_rid := o_next_rid s; o_next_pid := o_next_pid s;
               o_pubs := o_pubs s; o_cancel_step := o_cancel_step s; o_filtered := o_filtered s; o_entered := o_entered s;
               o_fired := o_fired s; o_last_resume := o_last_resume s; o_last_sync := o_last_sync s; o_vague := true;
               o_bad := o_bad s |}
          else if o_vague s && Nat.eqb r 0 then
            (* an earlier Unsubscribe may have removed this registration instead of an already retired once-handler:
               "not found" is then a legal answer, and it tells that no registration with this function is left *)
            set_reg s (assoc_set (o_reg s) t (filter (fun rh => negb (Nat.eqb (h_fn (snd rh)) fn)) (reg_of s t)))
          else check (Nat.eqb r 1) (set_reg s (assoc_set (o_reg s) t rest)) i
        end
      end
  | AClear t => set_reg s (assoc_del (o_reg s) t)
  | AClearAll => set_reg s []
  | AHas t =>
      match first_res a em with
      | None => s
      | Some r => if o_vague s then s else
          check (if Nat.ltb 0 (length (definite_now s t)) then Nat.eqb r 1
                 else if Nat.eqb (length (reg_of s t)) 0 then Nat.eqb r 0 else true) s i
      end
  | ACount t =>
      match first_res a em with
      | None => s
      | Some r => if o_vague s then s else
          check (Nat.leb (length (definite_now s t)) r && Nat.leb r (length (reg_of s t))) s i
      end
  | ACancel c =>
      match assoc_get (o_cancel_step s) c with
      | Some _ => s
      | None => {| o_reg := o_reg s; o_next_rid := o_next_rid s; o_next_pid := o_next_pid s; o_pubs := o_pubs s;
                   o_cancel_step := assoc_set (o_cancel_step s) c i; o_filtered := o_filtered s; o_entered := o_entered s;
                   o_fired := o_fired s; o_last_resume := o_last_resume s; o_last_sync := o_last_sync s;
                   o_vague := o_vague s; o_bad := o_bad s |}
      end
  | APub t v c any =>
      let p := o_next_pid s in
      {| o_reg := o_reg s; o_next_rid := o_next_rid s; o_next_pid := S p;
         o_pubs := assoc_set (o_pubs s) p {| op_ty := t; op_val := v; op_ctx := c; op_owner := w;
                                              op_precancelled := ctx_cancelled_before s c i; op_cand := reg_of s t; op_pre_acts := 0; op_snap := None |};
         o_cancel_step := o_cancel_step s; o_filtered := o_filtered s; o_entered := o_entered s; o_fired := o_fired s;
         o_last_resume := o_last_resume s; o_last_sync := o_last_sync s; o_vague := o_vague s; o_bad := o_bad s |}
  | _ => s
  end.

Definition set_pub (s : ospec) (p : nat) (r : opub) : ospec :=
  {| o_reg := o_reg s; o_next_rid := o_next_rid s; o_next_pid := o_next_pid s; o_pubs := assoc_set (o_pubs s) p r;
     o_cancel_step := o_cancel_step s; o_filtered := o_filtered s; o_entered := o_entered s; o_fired := o_fired s;
     o_last_resume := o_last_resume s; o_last_sync := o_last_sync s; o_vague := o_vague s; o_bad := o_bad s |}.

(* the snapshot is taken in a step in which the publisher runs (it never waits between its last before-hook
   and the snapshot); while a publish has shown no post-snapshot label, remember the registry as of the
   publisher's latest resumption *)
Definition refresh_cands (s : ospec) (w : who) : ospec :=
  {| o_reg := o_reg s; o_next_rid := o_next_rid s; o_next_pid := o_next_pid s;
     o_pubs := map (fun pr => let r := snd pr in
                     match op_snap r with
                     | None => if who_eqb (op_owner r) w
                               then (fst pr, {| op_ty := op_ty r; op_val := op_val r; op_ctx := op_ctx r; op_owner := op_owner r;
                                                op_precancelled := op_precancelled r; op_cand := reg_of s (op_ty r);
                                                op_pre_acts := op_pre_acts r; op_snap := None |})
                               else pr
                     | Some _ => pr end) (o_pubs s);
     o_cancel_step := o_cancel_step s; o_filtered := o_filtered s; o_entered := o_entered s; o_fired := o_fired s;
     o_last_resume := o_last_resume s; o_last_sync := o_last_sync s; o_vague := o_vague s; o_bad := o_bad s |}.

(* the registry the publish saw: fixed the first time a post-snapshot label of p shows up *)
Definition ensure_snap (s : ospec) (p : nat) : ospec :=
  match assoc_get (o_pubs s) p with
  | Some r => match op_snap r with
              | Some _ => s
              | None => set_pub s p {| op_ty := op_ty r; op_val := op_val r; op_ctx := op_ctx r; op_owner := op_owner r;
                                       op_precancelled := op_precancelled r; op_cand := op_cand r; op_pre_acts := 0; op_snap := Some (op_cand r) |}
              end
  | None => s
  end.

Fixpoint index_of (rid : nat) (l : list (nat * hspec)) (i : nat) : option (nat * hspec) :=
  match l with
  | [] => None
  | h :: r => if Nat.eqb (fst h) rid then Some (i, snd h) else index_of rid r (S i)
  end.

Definition pair_mem (p r : nat) (l : list (nat * nat)) : bool :=
  existsb (fun x => Nat.eqb (fst x) p && Nat.eqb (snd x) r) l.

Definition filter_ok (P : program) (sp : hspec) (v : nat) : bool :=
  match h_filter sp with
  | None => true
  | Some f => match assoc_get (p_filters P) f with Some fl => Nat.leb (f_min fl) v | None => true end
  end.

(* labels that belong to the phase of publish p before its snapshot *)
Definition is_pre_label (p : nat) (l : label) : bool :=
  match l with
  | LPubStart q | LPersistStart q | LAppend q | LPersistDone q _ | LPersistErr q => Nat.eqb p q
  | LHook q k => Nat.eqb p q && Nat.ltb k 2
  | LAct _ | LRes _ _ => true       (* hook-body actions are told apart by the counter, see LAct below *)
  | _ => false
  end.

(* any other label emitted by an actor that still has a publish without snapshot shows that the publish is past its
   snapshot (or over): fix the snapshot as of the actor's latest resumption *)
Definition freeze_pending (s : ospec) (w : who) (l : label) : ospec :=
  fold_left (fun acc pr =>
    let p := fst pr in let r := snd pr in
    match op_snap r with
    | Some _ => acc
    | None => if who_eqb (op_owner r) w && negb (is_pre_label p l) then ensure_snap acc p else acc
    end) (o_pubs s) s.

Definition on_label (P : program) (hook_len : nat -> nat) (s0 : ospec) (i : nat) (w : who) (l : label) : ospec :=
  let s := freeze_pending s0 w l in
  match l with
  | LFilter p rid =>
      let s := ensure_snap s p in
      match assoc_get (o_pubs s) p with
      | None => fail s i
      | Some r =>
        match index_of rid (match op_snap r with Some sn => sn | None => [] end) 0 with
        | None => if o_vague s then s else fail s i
        | Some (_, sp) =>
          let s' := check (match h_filter sp with Some _ => true | None => false end && negb (pair_mem p rid (o_filtered s))) s i in
          {| o_reg := o_reg s'; o_next_rid := o_next_rid s'; o_next_pid := o_next_pid s'; o_pubs := o_pubs s';
             o_cancel_step := o_cancel_step s'; o_filtered := (p, rid) :: o_filtered s'; o_entered := o_entered s';
             o_fired := o_fired s'; o_last_resume := o_last_resume s'; o_last_sync := o_last_sync s'; o_vague := o_vague s';
             o_bad := o_bad s' |}
        end
      end
  | LEnter p rid cx =>
      let s := ensure_snap s p in
      match assoc_get (o_pubs s) p with
      | None => fail s i
      | Some r =>
        match index_of rid (match op_snap r with Some sn => sn | None => [] end) 0 with
        | None => if o_vague s then s else fail s i     (* a handler that was not subscribed for this type when the publish began *)
        | Some (k, sp) =>
          let is_sync := negb (h_async sp) in
          let resumed_at := match wget (o_last_resume s) w with Some n => n | None => 0 end in
          let okb :=
            (* filter evaluated and accepting *)
            (match h_filter sp with Some _ => pair_mem p rid (o_filtered s) && filter_ok P sp (op_val r) | None => true end) &&
            (* exactly once per publish *)
            negb (existsb (fun e => Nat.eqb (fst (fst e)) p && Nat.eqb (snd (fst e)) rid) (o_entered s)) &&
            (* once-handlers fire at most once in the life of the bus *)
            (negb (h_once sp) || negb (memb rid (o_fired s))) &&
            (* sync handlers run on the publisher in subscription order; async ones on their own goroutine *)
            (if is_sync then who_eqb w (op_owner r) &&
                             match assoc_get (o_last_sync s) p with Some j => Nat.ltb j k | None => true end
             else who_eqb w (WTask p rid)) &&
            (* cancellation: never for a publish whose context was already cancelled; no sync handler is started
               once the context has been cancelled (before the publisher's last resumption) *)
            negb (op_precancelled r) &&
            (if is_sync then negb (ctx_cancelled_before s (op_ctx r) resumed_at) else true) &&
            (* context-aware handlers get the publish context *)
            (if h_ctx sp then ctxref_eqb cx (op_ctx r) else ctxref_eqb cx CtxBg) in
          let s' := check okb s i in
          {| o_reg := o_reg s'; o_next_rid := o_next_rid s'; o_next_pid := o_next_pid s'; o_pubs := o_pubs s';
             o_cancel_step := o_cancel_step s'; o_filtered := o_filtered s'; o_entered := (p, rid, w) :: o_entered s';
             o_fired := if h_once sp then rid :: o_fired s' else o_fired s';
             o_last_resume := o_last_resume s';
             o_last_sync := if is_sync then assoc_set (o_last_sync s') p k else o_last_sync s';
             o_vague := o_vague s'; o_bad := o_bad s' |}
        end
      end
  | LHandlerStart p _ | LPubDone p => ensure_snap s p
  | LHook p k =>
      if Nat.leb 2 k then ensure_snap s p
      else match assoc_get (o_pubs s) p with
           | Some r => match op_snap r with
                       | None => set_pub s p {| op_ty := op_ty r; op_val := op_val r; op_ctx := op_ctx r; op_owner := op_owner r;
                                                op_precancelled := op_precancelled r; op_cand := op_cand r;
                                                op_pre_acts := hook_len k; op_snap := None |}
                       | Some _ => s end
           | None => s end
  | LAct _ =>
      (* an action announced by an actor that still has a publish in its pre-snapshot phase either belongs to a
         before-hook body of that publish, or shows that the publish is over: then its snapshot was taken in this step *)
      fold_left (fun acc pr =>
        let p := fst pr in let r := snd pr in
        match op_snap r with
        | Some _ => acc
        | None => if who_eqb (op_owner r) w then
                    match op_pre_acts r with
                    | S n => set_pub acc p {| op_ty := op_ty r; op_val := op_val r; op_ctx := op_ctx r; op_owner := op_owner r;
                                              op_precancelled := op_precancelled r; op_cand := op_cand r; op_pre_acts := n;
                                              op_snap := None |}
                    | 0 => ensure_snap acc p
                    end
                  else acc
        end) (o_pubs s) s
  | _ => s
  end.

Definition set_last_resume (s : ospec) (w : who) (i : nat) : ospec :=
  {| o_reg := o_reg s; o_next_rid := o_next_rid s; o_next_pid := o_next_pid s; o_pubs := o_pubs s;
     o_cancel_step := o_cancel_step s; o_filtered := o_filtered s; o_entered := o_entered s; o_fired := o_fired s;
     o_last_resume := wset (o_last_resume s) w i; o_last_sync := o_last_sync s; o_vague := o_vague s;
     o_bad := o_bad s |}.

(* An actor parked at the observability hook OnHandlerStart of a sync handler has already passed the cancellation
   check of that handler (event_bus.go: the select on ctx.Done() precedes callHandlerWithContext): the handler it
   enters next is judged against the resumption in which that check ran, so the new resumption index takes effect
   only after the first label of this step. *)
Definition walk_step (P : program) (hook_len : nat -> nat) (s : ospec) (i : nat) (st : ostep) : ospec :=
  let w := os_who st in
  let late := match os_from st with Some (LHandlerStart _ false) => true | _ => false end in
  let s0 := if os_resumed st && negb late then set_last_resume s w i else s in
  let s1 := match os_from st with
            | Some (LAct a) => apply_action P s0 i w a (os_emitted st)
            | _ => s0
            end in
  let s2 := if os_resumed st then refresh_cands s1 w else s1 in
  if os_resumed st && late then
    match os_emitted st with
    | [] => s2   (* blocked on the handler's mutex: the entry comes with a later arrival and is still judged by the old resumption *)
    | l :: rest => fold_left (fun acc l => on_label P hook_len acc i w l) rest
                             (set_last_resume (on_label P hook_len s2 i w l) w i)
    end
  else fold_left (fun acc l => on_label P hook_len acc i w l) (os_emitted st) s2.

Fixpoint walk (P : program) (hook_len : nat -> nat) (s : ospec) (i : nat) (steps : list ostep) : ospec :=
  match steps with
  | [] => s
  | st :: r => walk P hook_len (walk_step P hook_len s i st) (S i) r
  end.

Definition ospec0 : ospec :=
  {| o_reg := []; o_next_rid := 0; o_next_pid := 0; o_pubs := []; o_cancel_step := []; o_filtered := [];
     o_entered := []; o_fired := []; o_last_resume := []; o_last_sync := []; o_vague := false; o_bad := [] |}.

(* number of actions in the body of the k-th before hook (0 legacy, 1 context-aware) *)
Definition hook_len_of (i : binput) (k : nat) : nat :=
  let cfg := cfg_of (bi_opts i) in
  let P := program_of i in
  match k with
  | 0 => match c_before_legacy cfg with Some b => length (body_of P b) | None => 0 end
  | _ => match filter (fun b => match b with BUser _ => true | _ => false end) (c_before_ctx cfg) with
         | BUser b :: _ => length (body_of P b)
         | _ => 0 end
  end.

Definition walk_obs (i : binput) (o : bobs) : ospec :=
  walk (program_of i) (hook_len_of i) ospec0 0 (linearize (bi_sched i) (bo_traces o) []).

(* ---- end-of-run checks ---- *)
Definition entered_b (s : ospec) (p rid : nat) : bool :=
  existsb (fun e => Nat.eqb (fst (fst e)) p && Nat.eqb (snd (fst e)) rid) (o_entered s).

(* every handler that had to receive the event did: snapshot member, accepting filter, context never
   cancelled; non-once handlers per publish, once-handlers over the whole run *)
Definition complete_b (P : program) (s : ospec) : bool :=
  if o_vague s then true else
  forallb (fun pr =>
    let p := fst pr in let r := snd pr in
    match op_snap r with
    | None => true
    | Some sn =>
      if ctx_ever_cancelled s (op_ctx r) then true else
      forallb (fun rh =>
        let sp := snd rh in
        if negb (filter_ok P sp (op_val r)) then true
        else if h_once sp then memb (fst rh) (o_fired s)
        else entered_b s p (fst rh)) sn
    end) (o_pubs s).

(* once-handlers whose every candidate publish had a live context must not be skipped... and a fired one is retired *)
Definition counts_b (s : ospec) (o : bobs) : bool :=
  if o_vague s then true else
  forallb (fun tc => Nat.eqb (length (definite s (fst tc))) (snd tc)) (bo_counts o).

Definition finished (o : bobs) : bool := match bo_unfinished o with [] => true | _ => false end.

(* C01 / C02: dispatch is exact, registry operations are exact, counts agree *)
Definition ok_dispatch (i : binput) (o : bobs) : bool :=
  let s := walk_obs i o in
  match o_bad s with [] => true | _ => false end &&
  (if finished o then complete_b (program_of i) s && counts_b s o else true).

Definition check_dispatch (c : binput * bobs) : bool * bool * nat := let '(i, o) := c in (agree i o, ok_dispatch i o, 0).
(* debugging aid: where the walk failed *)
Definition explain_oracle (i : binput) (o : bobs) :=
  let s := walk_obs i o in (o_bad s, o_vague s, complete_b (program_of i) s, counts_b s o, o_fired s,
                            map (fun t => (t, length (definite s t), length (reg_of s t))) (types_of i)).

(* ================= further oracles ================= *)
Definition has_opt (i : binput) (f : busopt -> bool) : bool := existsb f (bi_opts i).
Definition cfg_i (i : binput) : buscfg := cfg_of (bi_opts i).
Definition persistent (i : binput) : bool := has_opt i (fun o => match o with OStore => true | _ => false end).

(* anomalies the harness observes directly and reports through reserved context ids:
   999 handler context does not carry the publish context's cancellation, 998 record not readable when a handler
   runs, 996 overlapping invocations of a Sequential handler; 997 = an observability complete that did not get
   the context its start returned; 995 = panic handler called for an unknown handler *)
Definition label_anomaly (l : label) : bool :=
  match l with
  | LEnter _ _ (CtxId c) => Nat.leb 990 c
  | LHandlerStart p _ | LHandlerDone p _ | LPersistStart p | LPersistDone p _ | LPubDone p | LPubStart p => Nat.leb 990 p
  | LPanicHandler _ r => Nat.leb 990 r
  | LCrash => true
  | _ => false
  end.
Definition no_anomaly (o : bobs) : bool :=
  forallb (fun wl => forallb (fun l => negb (label_anomaly l)) (snd wl)) (bo_traces o).

(* labels of one publish, in one actor's trace *)
Definition label_pub (l : label) : option nat :=
  match l with
  | LPubStart p | LHook p _ | LPersistStart p | LAppend p | LPersistDone p _ | LPersistErr p | LFilter p _
  | LHandlerStart p _ | LEnter p _ _ | LPanicHandler p _ | LHandlerDone p _ | LPubDone p => Some p
  | _ => None
  end.
Definition labels_of_pub (tr : list label) (p : nat) : list label :=
  filter (fun l => match label_pub l with Some q => Nat.eqb p q | None => false end) tr.

Definition is_dispatch (l : label) : bool :=
  match l with LFilter _ _ | LHandlerStart _ _ | LEnter _ _ _ | LPanicHandler _ _ | LHandlerDone _ _ => true | _ => false end.
Definition count_l (f : label -> bool) (ls : list label) : nat := length (filter f ls).

(* position of the first / last label satisfying f *)
Fixpoint first_idx (f : label -> bool) (ls : list label) (i : nat) : option nat :=
  match ls with [] => None | l :: r => if f l then Some i else first_idx f r (S i) end.
Fixpoint last_idx (f : label -> bool) (ls : list label) (i : nat) (acc : option nat) : option nat :=
  match ls with [] => acc | l :: r => last_idx f r (S i) (if f l then Some i else acc) end.
Definition all_before (f g : label -> bool) (ls : list label) : bool :=   (* every f-label before every g-label *)
  match last_idx f ls 0 None, first_idx g ls 0 with
  | Some a, Some b => Nat.ltb a b
  | _, _ => true
  end.

(* C08: hooks exactly once, before hooks before any handler of that publish, after hooks after all its sync handlers;
   C09 / C13: exactly one append attempt before dispatch (none when unencodable), error handler exactly when failed;
   C20: one publish pair, one persist pair per attempt with the right error flag *)
Definition pub_shape_ok (i : binput) (s : ospec) (o : bobs) : bool :=
  let cfg := cfg_i i in
  let P := program_of i in
  forallb (fun pr =>
    let p := fst pr in let r := snd pr in
    let ls := labels_of_pub (trace_of (bo_traces o) (op_owner r)) p in
    let is k := fun l => match l with LHook _ k' => Nat.eqb k k' | _ => false end in
    let fault := p_pfault P (op_val r) in
    let attempted := c_store cfg && match fault with PfUnencodable => false | _ => true end in
    let failed := match fault with PfOk => false | _ => true end in
    let isapp := fun l => match l with LAppend _ => true | _ => false end in
    (* hooks *)
    Nat.eqb (count_l (is 0) ls) (match c_before_legacy cfg with Some _ => 1 | None => 0 end) &&
    Nat.eqb (count_l (is 1) ls) (length (filter (fun b => match b with BUser _ => true | _ => false end) (c_before_ctx cfg))) &&
    Nat.eqb (count_l (is 2) ls) (match c_after_legacy cfg with Some _ => 1 | None => 0 end) &&
    Nat.eqb (count_l (is 3) ls) (match c_after_ctx cfg with Some _ => 1 | None => 0 end) &&
    all_before (fun l => is 0 l || is 1 l) is_dispatch ls &&
    all_before is_dispatch (fun l => is 2 l || is 3 l) ls &&
    all_before (is 0) (is 1) ls && all_before (is 2) (is 3) ls &&
    (* persistence *)
    Nat.eqb (count_l isapp ls) (if attempted then 1 else 0) &&
    all_before isapp is_dispatch ls &&
    Nat.eqb (count_l (fun l => match l with LPersistErr _ => true | _ => false end) ls)
            (if c_store cfg && failed && c_persist_err_handler cfg then 1 else 0) &&
    (* observability *)
    (if c_obs cfg then
       Nat.eqb (count_l (fun l => match l with LPubStart _ => true | _ => false end) ls) 1 &&
       Nat.eqb (count_l (fun l => match l with LPubDone _ => true | _ => false end) ls) 1 &&
       Nat.eqb (count_l (fun l => match l with LPersistStart _ => true | _ => false end) ls) (if attempted then 1 else 0) &&
       Nat.eqb (count_l (fun l => match l with LPersistDone _ f => Bool.eqb f failed | _ => false end) ls) (if attempted then 1 else 0) &&
       Nat.eqb (count_l (fun l => match l with LPersistDone _ _ => true | _ => false end) ls) (if attempted then 1 else 0) &&
       all_before (fun l => match l with LPubStart _ => true | _ => false end) (fun l => negb (match l with LPubStart _ => true | _ => false end)) ls &&
       all_before (fun l => negb (match l with LPubDone _ => true | _ => false end)) (fun l => match l with LPubDone _ => true | _ => false end) ls
     else true)) (o_pubs s).

(* the stored log = the successful appends, in the order the store was called *)
Definition store_ok (i : binput) (s : ospec) (o : bobs) : bool :=
  let P := program_of i in
  let appended := flat_map (fun st => flat_map (fun l => match l with LAppend p => [p] | _ => [] end) (os_emitted st))
                           (linearize (bi_sched i) (bo_traces o) []) in
  let expected := flat_map (fun p => match assoc_get (o_pubs s) p with
                                     | Some r => match p_pfault P (op_val r) with PfOk => [(op_ty r, op_val r)] | _ => [] end
                                     | None => [] end) appended in
  list_eqb (fun a b => Nat.eqb (fst a) (fst b) && Nat.eqb (snd a) (snd b)) expected (bo_store o).

(* C20 (first half) / C05: per actor, handler start/complete pairs are well bracketed, complete carries an error
   exactly when the handler panicked, the panic handler is called exactly once per panic *)
Record hframe := { hf_p : nat; hf_started : bool; hf_entered : option nat; hf_panicked : bool; hf_reported : bool }.

Fixpoint bracket_walk (cfg : buscfg) (ls : list label) (stack : list hframe) : bool :=
  match ls with
  | [] => true
  | l :: r =>
    match l with
    | LHandlerStart p _ =>
        bracket_walk cfg r ({| hf_p := p; hf_started := true; hf_entered := None; hf_panicked := false; hf_reported := false |} :: stack)
    | LEnter p rid _ =>
        if c_obs cfg then
          match stack with
          | f :: st => if Nat.eqb (hf_p f) p && match hf_entered f with None => true | Some _ => false end
                       then bracket_walk cfg r ({| hf_p := p; hf_started := true; hf_entered := Some rid; hf_panicked := false;
                                                   hf_reported := false |} :: st)
                       else false
          | [] => false
          end
        else bracket_walk cfg r ({| hf_p := p; hf_started := false; hf_entered := Some rid; hf_panicked := false; hf_reported := false |} :: stack)
    | LAct (APanic _) =>
        (* the panic unwinds to the innermost handler invocation of this goroutine *)
        match stack with
        | f :: st =>
            let f' := {| hf_p := hf_p f; hf_started := hf_started f; hf_entered := hf_entered f; hf_panicked := true;
                         hf_reported := false |} in
            if c_obs cfg || c_panic_handler cfg then bracket_walk cfg r (f' :: st)
            else bracket_walk cfg r st          (* nothing more is observable of this invocation *)
        | [] => false
        end
    | LPanicHandler p rid =>
        match stack with
        | f :: st => if hf_panicked f && negb (hf_reported f) && Nat.eqb (hf_p f) p &&
                        match hf_entered f with Some x => Nat.eqb x rid | None => false end
                     then (if c_obs cfg
                           then bracket_walk cfg r ({| hf_p := hf_p f; hf_started := hf_started f; hf_entered := hf_entered f;
                                                       hf_panicked := true; hf_reported := true |} :: st)
                           else bracket_walk cfg r st)
                     else false
        | [] => false
        end
    | LHandlerDone p err =>
        match stack with
        | f :: st => if Nat.eqb (hf_p f) p && Bool.eqb err (hf_panicked f) &&
                        (negb (hf_panicked f) || negb (c_panic_handler cfg) || hf_reported f)
                     then bracket_walk cfg r st else false
        | [] => false
        end
    | LAct _ =>
        (* without observability a normally returning handler leaves no mark: frames of finished handlers are
           dropped lazily, which is sound because only the innermost frame is ever inspected for panics *)
        bracket_walk cfg r stack
    | _ => bracket_walk cfg r stack
    end
  end.

(* With observability on the bracket structure is exact; without it, handler returns are invisible and only the
   panic clauses are checked on a best-effort basis (the innermost entered handler is assumed to be the one panicking
   only when its body ends in a panic, which the generator guarantees). *)
Definition brackets_ok (i : binput) (o : bobs) : bool :=
  let cfg := cfg_i i in
  if c_obs cfg then forallb (fun wl => bracket_walk cfg (snd wl) []) (bo_traces o) else true.

(* every panic is reported exactly once when a panic handler is installed: count panics vs reports per actor *)
Definition panics_reported (i : binput) (o : bobs) : bool :=
  let cfg := cfg_i i in
  forallb (fun wl =>
    let np := count_l (fun l => match l with LAct (APanic _) => true | _ => false end) (snd wl) in
    let nr := count_l (fun l => match l with LPanicHandler _ _ => true | _ => false end) (snd wl) in
    if c_panic_handler cfg then Nat.eqb np nr || Nat.eqb (S nr) np  (* the last panic may not have been resumed yet *)
    else Nat.eqb nr 0) (bo_traces o).

Definition ok_shape (i : binput) (o : bobs) : bool :=
  let s := walk_obs i o in
  no_anomaly o &&
  (if finished o then pub_shape_ok i s o && store_ok i s o && brackets_ok i o else true) &&
  panics_reported i o.

Definition ok_bus (i : binput) (o : bobs) : bool := ok_dispatch i o && ok_shape i o.
Definition check_bus (c : binput * bobs) : bool * bool * nat := let '(i, o) := c in (agree i o, ok_bus i o, 0).
Definition explain_shape (i : binput) (o : bobs) :=
  let s := walk_obs i o in (no_anomaly o, pub_shape_ok i s o, store_ok i s o, brackets_ok i o, panics_reported i o).

(* ================= C07: order for Async+Sequential; C06: Wait / Shutdown ================= *)
Definition steps_of (i : binput) (o : bobs) : list ostep := linearize (bi_sched i) (bo_traces o) [].

Fixpoint enters_in_order (steps : list ostep) : list (nat * nat) :=
  match steps with
  | [] => []
  | st :: r => flat_map (fun l => match l with LEnter p rid _ => [(p, rid)] | _ => [] end) (os_emitted st) ++ enters_in_order r
  end.

Definition spec_of_rid (s : ospec) (rid : nat) : option hspec :=
  match flat_map (fun pr => match op_snap (snd pr) with
                            | Some sn => filter (fun rh => Nat.eqb (fst rh) rid) sn
                            | None => [] end) (o_pubs s) with
  | rh :: _ => Some (snd rh)
  | [] => None
  end.

Definition is_thread (w : who) : bool := match w with WThread _ => true | _ => false end.

(* An Async+Sequential handler processes events in the order in which they were dispatched to it (which, for events
   published one after another by one goroutine, is the order in which they were published; a publish made from inside a
   synchronous handler of another publish of the same goroutine is dispatched - legitimately - before the rest of the
   outer publish).  The dispatch order is read off the model run that follows the same log (ghost list [tasks]); the
   order of entries is the observed one. *)
Fixpoint task_pos (tk : list (nat * nat * actor)) (p rid : nat) (k : nat) : option nat :=
  match tk with
  | [] => None
  | t :: r => if Nat.eqb (fst (fst t)) p && Nat.eqb (snd (fst t)) rid then Some k else task_pos r p rid (S k)
  end.
Fixpoint order_pairs_ok (s : ospec) (tk : list (nat * nat * actor)) (es : list (nat * nat)) : bool :=
  match es with
  | [] => true
  | (p, rid) :: r =>
    forallb (fun e => let '(q, rid') := e in
      if Nat.eqb rid rid' then
        match spec_of_rid s rid with
        | Some sp =>
            if h_async sp && h_seq sp
            then match task_pos tk p rid 0, task_pos tk q rid 0 with
                 | Some a, Some b => Nat.ltb a b
                 | _, _ => false
                 end
            else true
        | None => true
        end
      else true) r && order_pairs_ok s tk r
  end.
Definition seq_order_ok (i : binput) (o : bobs) : bool :=
  match model_run i with
  | Some r => order_pairs_ok (walk_obs i o) (tasks (rs_state r)) (enters_in_order (steps_of i o))
  | None => true    (* the log cannot be followed on the model at all: reported as a disagreement *)
  end.

(* the root program thread a publish descends from *)
Fixpoint root_of (s : ospec) (fuel : nat) (w : who) : who :=
  match fuel with
  | 0 => w
  | S f => match w with
           | WThread _ => w
           | WTask p _ => match assoc_get (o_pubs s) p with Some r => root_of s f (op_owner r) | None => w end
           end
  end.

Fixpoint last_emit (steps : list ostep) (w : who) (i : nat) (acc : option nat) : option nat :=
  match steps with
  | [] => acc
  | st :: r => last_emit r w (S i) (if who_eqb (os_who st) w && negb (Nat.eqb (length (os_emitted st)) 0) then Some i else acc)
  end.

Fixpoint first_emit (steps : list ostep) (w : who) (i : nat) : option nat :=
  match steps with
  | [] => None
  | st :: r => if who_eqb (os_who st) w && negb (Nat.eqb (length (os_emitted st)) 0) then Some i else first_emit r w (S i)
  end.

(* steps at which a thread comes back from Wait (or from a Shutdown that returned nil) *)
Fixpoint wait_returns (steps : list ostep) (at_ : list (who * label)) (i : nat) : list (who * nat) :=
  match steps with
  | [] => []
  | st :: r =>
    let w := os_who st in
    let was := wget at_ w in
    let ret := match was with
               | Some (LAct AWait) => existsb parks (os_emitted st)
               | Some (LAct (AShutdown _)) => existsb (fun l => match l with LRes (AShutdown _) 1 => true | _ => false end) (os_emitted st)
               | _ => false end in
    (if ret then [(w, i)] else []) ++
    wait_returns r (match last_parking (os_emitted st) None with Some l => wset at_ w l | None => at_ end) (S i)
  end.

Definition wait_ok (i : binput) (o : bobs) : bool :=
  let steps := steps_of i o in
  let s := walk_obs i o in
  forallb (fun wk =>
    let '(w, k) := wk in
    forallb (fun wl =>
      match fst wl with
      | WTask p rid =>
          (* async work caused (directly or transitively) by publishes this thread made before waiting *)
          if who_eqb (root_of s 50 (WTask p rid)) w then
            match last_emit steps (fst wl) 0 None, first_emit steps (fst wl) 0 with
            | Some j, Some f => Nat.ltb j k || Nat.ltb k f   (* finished before the wait returned, or started after it *)
            | _, _ => true
            end
          else true
      | WThread _ => true
      end) (bo_traces o)) (wait_returns steps [] 0).

(* Shutdown: nil => the store was closed exactly once by that call, after the async work; error => not closed *)
Definition shutdown_ok (i : binput) (o : bobs) : bool :=
  let nil_returns := fold_left (fun n wl => n + count_l (fun l => match l with LRes (AShutdown _) 1 => true | _ => false end) (snd wl))
                               (bo_traces o) 0 in
  let closes := fold_left (fun n wl => n + count_l (fun l => match l with LClose => true | _ => false end) (snd wl))
                          (bo_traces o) 0 in
  Nat.eqb closes (if persistent i then nil_returns else 0) && Nat.eqb (bo_closed o) closes &&
  (* in each actor's trace a close is immediately followed by the nil result *)
  forallb (fun wl =>
    (fix go (ls : list label) : bool :=
       match ls with
       | LClose :: LRes (AShutdown _) 1 :: r => go r
       | LClose :: _ => false
       | LRes (AShutdown _) 1 :: r => negb (persistent i) && go r
       | _ :: r => go r
       | [] => true
       end) (snd wl)) (bo_traces o).

Definition ok06 (i : binput) (o : bobs) : bool := ok_bus i o && wait_ok i o && shutdown_ok i o.
Definition ok07 (i : binput) (o : bobs) : bool := ok_bus i o && seq_order_ok i o.

Definition check06 (c : binput * bobs) : bool * bool * nat := let '(i, o) := c in (agree i o, ok06 i o, 0).
Definition check07 (c : binput * bobs) : bool * bool * nat := let '(i, o) := c in (agree i o, ok07 i o, 0).

(* ================= C03 (deadlock half) ================= *)
(* a program thread that never finishes is excused only by the documented exception: it waits for the mutex of a
   Sequential handler that the same goroutine is still running (a synchronous Sequential handler whose publish is
   delivered back to itself, directly or through other handlers) *)
Definition self_blocked (s : bstate) (a : actor) : bool :=
  match assoc_get (code s) a with
  | Some (ILock h :: _) => match assoc_get (seqlocks s) (r_id h) with Some b => Nat.eqb a b | None => false end
  | _ => false
  end.
(* ... or it waits for a mutex whose holder - or for its turn behind a delivery that - is (transitively) stuck in that
   exception: a victim of the same cycle *)
Fixpoint excused_wait (fuel : nat) (s : bstate) (a : actor) : bool :=
  match fuel with
  | 0 => false
  | S f =>
    match assoc_get (code s) a with
    | Some (ILock h :: _) =>
        match assoc_get (seqlocks s) (r_id h) with
        | Some b => Nat.eqb a b || excused_wait f s b
        | None => false
        end
    | Some (ITaskStart _ h :: _) =>
        (* an Async+Sequential delivery queued behind one that is stuck in the exception *)
        if h_seq (r_spec h) then
          match queue s (r_id h) with
          | b :: _ => negb (Nat.eqb a b) && excused_wait f s b
          | [] => false
          end
        else false
    | _ => false
    end
  end.
(* ... or it sits in Wait / Shutdown while an asynchronous delivery is stuck in that exception *)
Definition excused (s : bstate) (a : actor) : bool :=
  excused_wait 8 s a ||
  match assoc_get (code s) a with
  | Some (IDo AWait :: _) | Some (IShutdownSelect _ _ :: _) => existsb (fun t => excused_wait 8 s (snd t)) (tasks s)
  | _ => false
  end.
Definition ok03d (i : binput) (o : bobs) : bool :=
  if bo_cut o then true else    (* cut short by the harness's step cap: nothing is known to be blocked *)
  match bo_unfinished o with
  | [] => true
  | ts => match model_run i with
          | Some r => forallb (excused (rs_state r)) ts
          | None => false
          end
  end.
Definition check03d (c : binput * bobs) : bool * bool * nat := let '(i, o) := c in (agree i o, ok_bus i o && ok03d i o, 0).
(* C05: "the bus remains fully usable": beyond the dispatch / bracket / panic-report clauses, a thread that never comes
   back (e.g. from a publish made by the panic handler) is a failure unless it is the documented self-delivery exception *)
Definition check05 (c : binput * bobs) : bool * bool * nat := let '(i, o) := c in (agree i o, ok_bus i o && ok03d i o, 0).
