(* C03, sampled half: what the Go race detector and the watchdog saw in a free-running concurrent mix of API calls.
   There is no model to compare with here: the check function only reads the observation. *)
From Coq Require Import List Arith Bool.
Import ListNotations.

Record raceobs := {
  ro_detector : bool;   (* the harness was built with -race *)
  ro_races : nat;       (* data race reports during the case *)
  ro_blocked : bool;    (* the goroutines did not finish within the watchdog's budget *)
  ro_escaped : nat;     (* panics that escaped a public API call (the injected handler panics are recovered by the bus) *)
  ro_calls : nat
}.

Definition ok03 (o : raceobs) : bool :=
  ro_detector o && Nat.eqb (ro_races o) 0 && negb (ro_blocked o) && Nat.eqb (ro_escaped o) 0.

Definition check03r (c : (nat * nat * nat) * raceobs) : bool * bool * nat := (true, ok03 (snd c), 0).
