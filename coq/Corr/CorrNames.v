(* Correspondence for C15: per event-type shape, what the real APIs did with two published events *)
From Coq Require Import List Bool Arith.
Import ListNotations.
From Ebu Require Export Names.TypeNames.

Record nobs := {
  no_stored_is_eventtype : bool;   (* StoredEvent.Type = EventType(event) for every record *)
  no_replay_compare : nat;         (* records matched by "stored.Type == EventType(x)" in a Replay callback *)
  no_typed_replay : nat;           (* deliveries to SubscribeWithReplay[T] on a fresh bus over the same store *)
  no_upcast_applied : nat;         (* records transformed by an upcaster registered with RegisterUpcast[T, W] *)
  no_upcast_target_ok : bool       (* the upcast records carry EventType(W{}) *)
}.

(* input: the shape, encoded 0..5 in the order of all_shapes; 6..9 = state.ChangeMessage / ControlMessage by value / pointer,
   which are (ByValue|ByPointer, ValueReceiver) *)
Definition shape_of (k : nat) : shape :=
  match k with
  | 0 => (ByValue, NoNamer) | 1 => (ByValue, ValueReceiver) | 2 => (ByValue, PointerReceiver)
  | 3 => (ByPointer, NoNamer) | 4 => (ByPointer, ValueReceiver) | 5 => (ByPointer, PointerReceiver)
  | 6 | 8 => (ByValue, ValueReceiver)
  | _ => (ByPointer, ValueReceiver)
  end.

(* two events were published; if all paths agree on the name, every one of them finds both *)
(* k = 10: a value receiver whose name depends on the value (two events, two names): every record carries the name
   EventType reports for its own event; a typed subscription / upcaster, which can only ask a zero value of the type,
   selects the events that share the zero value's name (here: one of the two) *)
Definition model (k : nat) : nobs :=
  if Nat.eqb k 10 then {| no_stored_is_eventtype := true; no_replay_compare := 2; no_typed_replay := 1;
                          no_upcast_applied := 1; no_upcast_target_ok := true |} else
  let s := shape_of k in
  let same p q := tname_eqb (name_on p s) (name_on q s) in
  {| no_stored_is_eventtype := same PPersist PEventType;
     no_replay_compare := if same PPersist PReplayCompare then 2 else 0;
     no_typed_replay := if same PPersist PSubscribeReplay then 2 else 0;
     no_upcast_applied := if same PPersist PUpcastSource then 2 else 0;
     no_upcast_target_ok := true |}.

Definition nobs_eqb (a b : nobs) : bool :=
  Bool.eqb (no_stored_is_eventtype a) (no_stored_is_eventtype b) && Nat.eqb (no_replay_compare a) (no_replay_compare b) &&
  Nat.eqb (no_typed_replay a) (no_typed_replay b) && Nat.eqb (no_upcast_applied a) (no_upcast_applied b) &&
  Bool.eqb (no_upcast_target_ok a) (no_upcast_target_ok b).

Definition ok15 (k : nat) (o : nobs) : bool :=
  if Nat.eqb k 10 then no_stored_is_eventtype o && Nat.eqb (no_replay_compare o) 2 && no_upcast_target_ok o else
  no_stored_is_eventtype o && Nat.eqb (no_replay_compare o) 2 && Nat.eqb (no_typed_replay o) 2 &&
  Nat.eqb (no_upcast_applied o) 2 && no_upcast_target_ok o.

Definition check15 (c : nat * nobs) : bool * bool * nat := let '(k, o) := c in (nobs_eqb (model k) o, ok15 k o, 0).
