(* Correspondence for the bus family: the harness's controller log is replayed on the model and
   per-actor label sequences, final registry sizes and the store log are compared. *)
From Coq Require Import List Arith Bool.
Import ListNotations.
From Ebu Require Export Bus.BusModel Bus.BusRun.

Record binput := {
  bi_opts : list busopt;
  bi_bodies : list (nat * body);
  bi_filters : list (nat * filt);
  bi_routes : list (nat * nat);          (* type -> shard index (FNV-1a of the type name, computed by the harness) *)
  bi_pfaults : list (nat * pfault);      (* published value -> how persisting it goes *)
  bi_threads : list (list action);
  bi_sched : list sevent
}.

Record bobs := {
  bo_traces : list (who * list label);
  bo_counts : list (nat * nat);          (* HandlerCount per type once everything has quiesced *)
  bo_store : list (nat * nat);           (* (type, value) of every stored record, in log order *)
  bo_unfinished : list nat;              (* program threads still blocked at the end *)
  bo_closed : nat;                       (* store.Close calls *)
  bo_cut : bool                          (* the controller stopped at its step cap: the run is unfinished, not blocked *)
}.

Definition program_of (i : binput) : program :=
  {| p_bodies := bi_bodies i; p_filters := bi_filters i;
     p_routes := fun t => match assoc_get (bi_routes i) t with Some k => k | None => 0 end;
     p_nshards := 32;
     p_pfault := fun v => match assoc_get (bi_pfaults i) v with Some f => f | None => PfOk end |}.

Fixpoint list_eqb {A} (eqb : A -> A -> bool) (l1 l2 : list A) : bool :=
  match l1, l2 with
  | [], [] => true
  | x :: xs, y :: ys => eqb x y && list_eqb eqb xs ys
  | _, _ => false
  end.
Definition opt_eqb {A} (eqb : A -> A -> bool) (a b : option A) : bool :=
  match a, b with Some x, Some y => eqb x y | None, None => true | _, _ => false end.

Definition ctxref_eqb (a b : ctxref) : bool :=
  match a, b with CtxBg, CtxBg => true | CtxId x, CtxId y => Nat.eqb x y | _, _ => false end.
Definition hspec_eqb (a b : hspec) : bool :=
  Nat.eqb (h_fn a) (h_fn b) && Bool.eqb (h_once a) (h_once b) && Bool.eqb (h_async a) (h_async b) &&
  Bool.eqb (h_seq a) (h_seq b) && Bool.eqb (h_ctx a) (h_ctx b) && opt_eqb Nat.eqb (h_filter a) (h_filter b) &&
  Nat.eqb (h_body a) (h_body b).
Definition action_eqb (a b : action) : bool :=
  match a, b with
  | ASub t s, ASub t' s' => Nat.eqb t t' && hspec_eqb s s'
  | AUnsub t f, AUnsub t' f' => Nat.eqb t t' && Nat.eqb f f'
  | AClear t, AClear t' => Nat.eqb t t'
  | AClearAll, AClearAll => true
  | APub t v c y, APub t' v' c' y' => Nat.eqb t t' && Nat.eqb v v' && ctxref_eqb c c' && Bool.eqb y y'
  | AHas t, AHas t' => Nat.eqb t t'
  | ACount t, ACount t' => Nat.eqb t t'
  | ACancel c, ACancel c' => Nat.eqb c c'
  | AWait, AWait => true
  | AShutdown c, AShutdown c' => ctxref_eqb c c'
  | APanic v, APanic v' => Nat.eqb v v'
  | _, _ => false
  end.
Definition label_eqb (a b : label) : bool :=
  match a, b with
  | LAct x, LAct y => action_eqb x y
  | LRes x r, LRes y r' => action_eqb x y && Nat.eqb r r'
  | LPubStart p, LPubStart q => Nat.eqb p q
  | LHook p k, LHook q k' => Nat.eqb p q && Nat.eqb k k'
  | LPersistStart p, LPersistStart q => Nat.eqb p q
  | LAppend p, LAppend q => Nat.eqb p q
  | LPersistDone p f, LPersistDone q f' => Nat.eqb p q && Bool.eqb f f'
  | LPersistErr p, LPersistErr q => Nat.eqb p q
  | LFilter p r, LFilter q r' => Nat.eqb p q && Nat.eqb r r'
  | LHandlerStart p x, LHandlerStart q y => Nat.eqb p q && Bool.eqb x y
  | LEnter p r c, LEnter q r' c' => Nat.eqb p q && Nat.eqb r r' && ctxref_eqb c c'
  | LPanicHandler p r, LPanicHandler q r' => Nat.eqb p q && Nat.eqb r r'
  | LHandlerDone p x, LHandlerDone q y => Nat.eqb p q && Bool.eqb x y
  | LPubDone p, LPubDone q => Nat.eqb p q
  | LClose, LClose => true
  | LCrash, LCrash => true
  | _, _ => false
  end.
Definition who_eqb (a b : who) : bool :=
  match a, b with
  | WThread i, WThread j => Nat.eqb i j
  | WTask p r, WTask q r' => Nat.eqb p q && Nat.eqb r r'
  | _, _ => false
  end.

Definition who_of (nthreads : nat) (s : bstate) (a : actor) : option who :=
  if Nat.ltb a nthreads then Some (WThread a)
  else match find (fun t => Nat.eqb (snd t) a) (tasks s) with
       | Some t => Some (WTask (fst (fst t)) (snd (fst t)))
       | None => None
       end.

Definition model_run (i : binput) : option rstate :=
  replay (program_of i) (cfg_of (bi_opts i)) 4000 (start (bi_threads i)) (bi_sched i).

Definition trace_of (obs : list (who * list label)) (w : who) : list label :=
  match find (fun x => who_eqb (fst x) w) obs with Some x => snd x | None => [] end.

Definition types_of (i : binput) : list nat := map fst (bi_routes i).

Definition agree_run (i : binput) (o : bobs) (threads : list (list action)) (relabel : label -> label) : bool :=
  match replay (program_of i) (cfg_of (bi_opts i)) 4000 (start threads) (bi_sched i) with
  | None => false
  | Some r =>
    let s := rs_state r in
    let n := length (bi_threads i) in
    (* every actor of the model has the observed trace, and every observed trace belongs to a model actor *)
    forallb (fun al => match who_of n s (fst al) with
                       | Some w => list_eqb label_eqb (map relabel (snd al)) (trace_of (bo_traces o) w)
                       | None => match snd al with [] => true | _ => false end
                       end) (rs_trace r) &&
    forallb (fun wl => match snd wl with
                       | [] => true
                       | _ => existsb (fun al => match who_of n s (fst al) with
                                                 | Some w => who_eqb w (fst wl) | None => false end) (rs_trace r)
                       end) (bo_traces o) &&
    forallb (fun tc => Nat.eqb (length (handlers_of s (fst tc))) (snd tc)) (bo_counts o) &&
    list_eqb (fun a b => Nat.eqb (fst a) (fst b) && Nat.eqb (snd a) (snd b)) (store_log s) (bo_store o) &&
    list_eqb Nat.eqb
      (filter (fun t => match assoc_get (code s) t with Some (_ :: _) => true | _ => false end) (seq 0 n))
      (bo_unfinished o) &&
    Nat.eqb (store_closed s) (bo_closed o)
  end.

(* Shutdown(ctx) selects between "all async work done" and ctx.Done(): when both are ready - the context was cancelled
   before the call and nothing is in flight - Go picks either.  The model run prefers the context; the second run
   below is the one in which "done" wins: the same program with the Shutdown contexts made uncancellable (so that the
   model waits for the waiter), its Shutdown labels renamed back. *)
Definition shutdown_ctx (threads : list (list action)) : option ctxref :=
  match flat_map (fun th => flat_map (fun a => match a with AShutdown (CtxId c) => [CtxId c] | _ => [] end) th) threads with
  | c :: _ => Some c | [] => None end.
Definition done_wins (threads : list (list action)) : list (list action) :=
  map (map (fun a => match a with AShutdown (CtxId _) => AShutdown CtxBg | _ => a end)) threads.
Definition relabel_shutdown (c : ctxref) (l : label) : label :=
  match l with
  | LAct (AShutdown CtxBg) => LAct (AShutdown c)
  | LRes (AShutdown CtxBg) r => LRes (AShutdown c) r
  | _ => l
  end.

Definition agree (i : binput) (o : bobs) : bool :=
  agree_run i o (bi_threads i) (fun l => l) ||
  match shutdown_ctx (bi_threads i) with
  | Some c => agree_run i o (done_wins (bi_threads i)) (relabel_shutdown c)
  | None => false
  end.

Definition check_bus_agree (c : binput * bobs) : bool * bool * nat := let '(i, o) := c in (agree i o, true, 0).

(* for replays and debugging: what the model says the traces are, and where the log could not be followed *)
Definition explain_bus (i : binput) :=
  let '(r, fail) := replay_at (program_of i) (cfg_of (bi_opts i)) 4000 (start (bi_threads i)) (bi_sched i) 0 in
  let s := rs_state r in
  (fail, map (fun al => (who_of (length (bi_threads i)) s (fst al), snd al)) (rs_trace r),
   map (fun t => (t, length (handlers_of s t))) (types_of i), store_log s, rs_parked r).
