(* Correspondence definitions for the state family (C18, C19); mirrors harness/go/core/state.go *)
From Coq Require Import List String Arith Bool.
Import ListNotations.
From Ebu Require Export State.StateModel.
Local Open Scope list_scope.

Definition cstate := (list (string * coll) * nat)%type.    (* per registered type: All(); LastOffset position *)

Record sinput := {
  si_strict : bool;
  si_types : list string;          (* registered collections *)
  si_docs : list doc;              (* the log, positions 1..n *)
  si_split : nat                   (* session 1 replays the first si_split events *)
}.

Record sobs := {
  so_oks : list bool;              (* Apply returned nil, per event (direct Apply on every event) *)
  so_direct : cstate;              (* state after direct application *)
  so_cbs : list callback;          (* onReset/onSnapshot/onError calls during direct application *)
  so_two : cstate;                 (* after Replay of the first part, then Replay from LastOffset over the whole log *)
  so_one : cstate;                 (* a fresh materializer replaying the whole log once *)
  so_fields_ok : bool              (* stored JSON uses exactly the state-protocol field names *)
}.

Fixpoint number (i : nat) (l : list doc) : list (nat * doc) :=
  match l with [] => [] | d :: r => (i, d) :: number (S i) r end.

Definition cb_eqb (a b : callback) : bool :=
  match a, b with
  | CbReset, CbReset => true
  | CbSnapshot x, CbSnapshot y => Bool.eqb x y
  | CbError, CbError => true
  | _, _ => false
  end.

Fixpoint list_eqb {A} (eqb : A -> A -> bool) (l1 l2 : list A) : bool :=
  match l1, l2 with
  | [], [] => true
  | x :: xs, y :: ys => eqb x y && list_eqb eqb xs ys
  | _, _ => false
  end.

(* collections are maps: compare as sets of bindings (the harness sorts, the model does not) *)
Definition coll_sub (a b : coll) : bool :=
  forallb (fun kv => match aget b (fst kv) with Some v => Nat.eqb v (snd kv) | None => false end) a.
Definition coll_equiv (a b : coll) : bool := coll_sub a b && coll_sub b a && Nat.eqb (List.length a) (List.length b).

Definition colls_equiv (types : list string) (model : list (string * coll)) (observed : list (string * coll)) : bool :=
  forallb (fun t => match aget model t, aget observed t with
                    | Some a, Some b => coll_equiv a b
                    | _, _ => false end) types.

Definition cstate_equiv types (m : mstate) (o : cstate) : bool :=
  colls_equiv types (colls m) (fst o) && Nat.eqb (last m) (snd o).

Definition model_two (i : sinput) : mstate :=
  let log := number 1 (si_docs i) in
  let s0 := init_state (si_types i) in
  let s1 := fst (session (si_strict i) s0 (firstn (si_split i) log)) in
  fst (session (si_strict i) s1 log).

Definition agree (i : sinput) (o : sobs) : bool :=
  let log := number 1 (si_docs i) in
  let s0 := init_state (si_types i) in
  let '(sd, oks) := run_all (si_strict i) s0 log in
  list_eqb Bool.eqb oks (so_oks o) &&
  cstate_equiv (si_types i) sd (so_direct o) &&
  list_eqb cb_eqb (run_all_callbacks (si_strict i) s0 log) (so_cbs o) &&
  cstate_equiv (si_types i) (model_two i) (so_two o) &&
  cstate_equiv (si_types i) (fst (session (si_strict i) s0 log)) (so_one o).

(* ---- oracles ---- *)
Definition keys_of (docs : list doc) : list (string * string) :=
  flat_map (fun d => match d with DChange t k _ _ => [(t, k)] | _ => [] end) docs.

Definition is_reg (types : list string) (t : string) : bool := existsb (String.eqb t) types.

(* the observed collections are exactly the last-writer-wins fold of [docs] *)
Definition fold_ok (types : list string) (docs : list doc) (observed : list (string * coll)) : bool :=
  let m := fold_left (spec_step (is_reg types)) docs sempty in
  forallb (fun t =>
    match aget observed t with
    | None => false
    | Some c =>
      (* every key mentioned for t holds the fold's value ... *)
      forallb (fun tk => if String.eqb (fst tk) t
                         then match m t (snd tk), aget c (composite t (snd tk)) with
                              | Some v, Some v' => Nat.eqb v v'
                              | None, None => true
                              | _, _ => false end
                         else true) (keys_of docs) &&
      (* ... and nothing else is in the collection *)
      forallb (fun kv => existsb (fun tk => String.eqb (fst tk) t && String.eqb (composite t (snd tk)) (fst kv))
                                 (keys_of docs)) c
    end) types.

Fixpoint last_ok_b (init i : nat) (oks : list bool) : nat :=
  match oks with
  | [] => init
  | ok :: r => last_ok_b (if ok then i else init) (S i) r
  end.

(* which documents Apply must reject (C19: "an event that cannot be applied returns an error") *)
Definition must_fail (strict : bool) (types : list string) (d : doc) : bool :=
  match d with
  | DBadRoot | DBadChange => true
  | DControl _ => false
  | DChange t _ op val =>
      if is_reg types t then
        match op, val with
        | OpInsert, None | OpUpdate, None => true
        | _, _ => false end
      else strict
  end.

Definition ok18 (i : sinput) (o : sobs) : bool :=
  fold_ok (si_types i) (si_docs i) (fst (so_direct o)) &&
  Nat.eqb (snd (so_direct o)) (last_ok_b 0 1 (so_oks o)) &&
  (* two sessions = one session *)
  colls_equiv (si_types i) (fst (so_one o)) (fst (so_two o)) &&
  colls_equiv (si_types i) (fst (so_two o)) (fst (so_one o)) &&
  Nat.eqb (snd (so_one o)) (snd (so_two o)).

Definition ok19 (i : sinput) (o : sobs) : bool :=
  fold_ok (si_types i) (si_docs i) (fst (so_direct o)) &&
  list_eqb Bool.eqb (map (fun d => negb (must_fail (si_strict i) (si_types i) d)) (si_docs i)) (so_oks o) &&
  so_fields_ok o.

Definition check18 (c : sinput * sobs) : bool * bool * nat := let '(i, o) := c in (agree i o, ok18 i o, 0).
Definition check19 (c : sinput * sobs) : bool * bool * nat := let '(i, o) := c in (agree i o, ok19 i o, 0).

(* arbitrary bytes presented to Apply: no model of encoding/json, only the oracle *)
Record fobs := { fo_panicked : bool; fo_errored : bool; fo_before : cstate; fo_after : cstate }.
Definition okfuzz (types : list string) (o : fobs) : bool :=
  negb (fo_panicked o) &&
  (if fo_errored o then
     colls_equiv types (fst (fo_before o)) (fst (fo_after o)) &&
     colls_equiv types (fst (fo_after o)) (fst (fo_before o)) &&
     Nat.eqb (snd (fo_before o)) (snd (fo_after o))
   else true).
Definition checkfuzz (c : list string * fobs) : bool * bool * nat := let '(t, o) := c in (true, okfuzz t o, 0).
