(* Correspondence and oracle for C14: lifetimes of a child process on a SQLite file, ended by a clean close or SIGKILL. *)
From Coq Require Import List Arith Bool.
Import ListNotations.
From Ebu Require Export Crash.SqliteCrash.

Record lobs := { lo_opened : bool; lo_acks : nat; lo_closed : bool; lo_rows : list (nat * nat); lo_offs : list nat }.
Record kobs := { ko_lives : list lobs; ko_anomaly : nat }.

Definition pair_eqb (a b : nat * nat) : bool := Nat.eqb (fst a) (fst b) && Nat.eqb (snd a) (snd b).
Fixpoint list_eqb {A} (eqb : A -> A -> bool) (a b : list A) : bool :=
  match a, b with
  | [], [] => true
  | x :: a', y :: b' => eqb x y && list_eqb eqb a' b'
  | _, _ => false
  end.

Definition snapshot_matches (d : db) (o : lobs) : bool :=
  list_eqb pair_eqb (rows d) (lo_rows o) && list_eqb Nat.eqb (map (get_off (offs d)) (seq 0 (length (lo_offs o)))) (lo_offs o).

(* the lifetimes the observation allows: acknowledged operations are Acked; the operation after the last acknowledgement
   of a killed process was in flight - lost or committed; later ones were never started *)
Definition candidates (script : list sop) (o : lobs) : list life :=
  let acked := map (fun x => (x, Acked)) (firstn (lo_acks o) script) in
  if lo_closed o then [{| l_open_committed := true; l_ops := acked |}]
  else if negb (lo_opened o) && Nat.eqb (lo_acks o) 0 then
    (* killed before the open was acknowledged: the migration may or may not have committed, nothing else happened;
       (an operation can still have been in flight if the kill came between the open and its acknowledgement) *)
    {| l_open_committed := false; l_ops := [] |} ::
    match script with
    | x :: _ => [{| l_open_committed := true; l_ops := [(x, LostInFlight)] |}; {| l_open_committed := true; l_ops := [(x, CommittedUnacked)] |}]
    | [] => [{| l_open_committed := true; l_ops := [] |}]
    end
  else match nth_error script (lo_acks o) with
       | None => [{| l_open_committed := true; l_ops := acked |}]
       | Some x => [{| l_open_committed := true; l_ops := acked ++ [(x, LostInFlight)] |};
                    {| l_open_committed := true; l_ops := acked ++ [(x, CommittedUnacked)] |}]
       end.

(* follow the lifetimes; None = some observed snapshot is not explained by any allowed lifetime *)
Fixpoint follow (d : db) (scripts : list (list sop)) (obs : list lobs) : option (list life) :=
  match scripts, obs with
  | [], [] => Some []
  | sc :: scripts', o :: obs' =>
      match find (fun l => snapshot_matches (run_life d l) o) (candidates sc o) with
      | Some l => match follow (run_life d l) scripts' obs' with Some r => Some (l :: r) | None => None end
      | None => None
      end
  | _, _ => None
  end.

Definition agree14 (scripts : list (list sop)) (o : kobs) : bool :=
  Nat.eqb (ko_anomaly o) 0 &&
  match follow empty scripts (ko_lives o) with Some ls => forallb life_ok ls | None => false end.

(* ---- the oracle: the observed snapshots alone ---- *)
Fixpoint is_prefix (a b : list (nat * nat)) : bool :=
  match a, b with
  | [], _ => true
  | x :: a', y :: b' => pair_eqb x y && is_prefix a' b'
  | _, [] => false
  end.
Fixpoint increasing (l : list nat) (prev : nat) : bool :=
  match l with [] => true | x :: r => Nat.ltb prev x && increasing r x end.

Definition acked_appends (script : list sop) (o : lobs) : list nat :=
  flat_map (fun x => match x with SAppend v => [v] | _ => [] end) (firstn (lo_acks o) script).
Definition inflight_append (script : list sop) (o : lobs) : list nat :=
  if lo_closed o then [] else match nth_error script (lo_acks o) with Some (SAppend v) => [v] | _ => [] end.
Definition last_acked_save (script : list sop) (o : lobs) (id : nat) : option nat :=
  last (map Some (flat_map (fun x => match x with SSave i p => if Nat.eqb i id then [p] else [] | _ => [] end) (firstn (lo_acks o) script))) None.
Definition inflight_save (script : list sop) (o : lobs) (id : nat) : option nat :=
  if lo_closed o then None else match nth_error script (lo_acks o) with Some (SSave i p) => if Nat.eqb i id then Some p else None | _ => None end.

Fixpoint ok_lives (prev : list (nat * nat)) (prev_offs : list nat) (scripts : list (list sop)) (obs : list lobs) : bool :=
  match scripts, obs with
  | [], [] => true
  | sc :: scripts', o :: obs' =>
    let r := lo_rows o in
    let new := map snd (skipn (length prev) r) in
    (* the same sequence in the same order, offsets strictly increasing and new ones above all earlier ones *)
    is_prefix prev r && increasing (map fst r) 0 &&
    (* every acknowledged append is there, in order, plus at most the one in flight *)
    (list_eqb Nat.eqb new (acked_appends sc o) || list_eqb Nat.eqb new (acked_appends sc o ++ inflight_append sc o)) &&
    (* saved offsets: the last acknowledged save (or the one in flight), otherwise unchanged *)
    forallb (fun id =>
      let now := nth id (lo_offs o) 0 in
      let acked := match last_acked_save sc o id with Some p => p | None => nth id prev_offs 0 end in
      Nat.eqb now acked || match inflight_save sc o id with Some p => Nat.eqb now p | None => false end)
      (seq 0 (length (lo_offs o))) &&
    (* a clean close acknowledged everything *)
    (negb (lo_closed o) || Nat.eqb (lo_acks o) (length sc)) &&
    ok_lives r (lo_offs o) scripts' obs'
  | _, _ => false
  end.

Definition ok14 (scripts : list (list sop)) (o : kobs) : bool :=
  Nat.eqb (ko_anomaly o) 0 && ok_lives [] [0; 0; 0] scripts (ko_lives o).

Definition check14 (c : list (list sop) * kobs) : bool * bool * nat := let '(i, o) := c in (agree14 i o, ok14 i o, 0).
