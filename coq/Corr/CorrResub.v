(* Correspondence and oracle for C12: histories of publish / SubscribeWithReplay / restart with crash points and
   single store-operation failures, run on the real bus over a real store (harness resub.go). *)
From Coq Require Import List Arith Bool.
Import ListNotations.
From Ebu Require Export Store.ResubModel.

Record rinput := { ri_tys : list nat; ri_hist : list (op * plan) }.
Record robs := { ro_ops : list oobs; ro_log : list ev; ro_anomaly : nat }.

Definition pair_eqb (a b : nat * nat) : bool := Nat.eqb (fst a) (fst b) && Nat.eqb (snd a) (snd b).
Fixpoint list_eqb {A} (eqb : A -> A -> bool) (a b : list A) : bool :=
  match a, b with
  | [], [] => true
  | x :: a', y :: b' => eqb x y && list_eqb eqb a' b'
  | _, _ => false
  end.
Definition oobs_eqb (a b : oobs) : bool :=
  list_eqb pair_eqb (oo_dels a) (oo_dels b) && Bool.eqb (oo_err a) (oo_err b) &&
  list_eqb Nat.eqb (oo_saved a) (oo_saved b) && Bool.eqb (oo_dead a) (oo_dead b).
Definition ev_eqb (a b : ev) : bool := Nat.eqb (e_ty a) (e_ty b) && Nat.eqb (e_val a) (e_val b).

Definition agree12 (i : rinput) (o : robs) : bool :=
  list_eqb oobs_eqb (run_obs fixed (ri_tys i) (ri_hist i) init) (ro_ops o) &&
  list_eqb ev_eqb (log (run fixed (ri_tys i) (ri_hist i) init)) (ro_log o) &&
  Nat.eqb (ro_anomaly o) 0.

(* ---- the oracle: judges the observed run alone ---- *)
Fixpoint pos_of (l : list ev) (val : nat) (i : nat) : nat :=
  match l with [] => 0 | e :: r => if Nat.eqb (e_val e) val then i else pos_of r val (S i) end.

Record ost := {
  os_saved : list nat;                 (* saved positions observed after the previous operation *)
  os_seen : list (nat * nat * nat);    (* (id, position, index of the operation of the first delivery) *)
  os_run : list (nat * nat);           (* per id: last position delivered in the current incarnation *)
  os_trouble : list nat;               (* indices of operations with a crash or a failing tick *)
  os_bad : list nat;                   (* 1 saved offset regressed, 2 out of log order within one subscription session, 3 delivered again though
                                          saved / without any crash or failure, 4 foreign saved offset moved, 5 wrong type *)
  os_idx : nat
}.

Fixpoint assoc (l : list (nat * nat)) (k : nat) : option nat :=
  match l with [] => None | (a, b) :: r => if Nat.eqb a k then Some b else assoc r k end.
Fixpoint assoc_upd (l : list (nat * nat)) (k v : nat) : list (nat * nat) :=
  match l with [] => [(k, v)] | (a, b) :: r => if Nat.eqb a k then (a, v) :: r else (a, b) :: assoc_upd r k v end.

Definition first_seen (seen : list (nat * nat * nat)) (id p : nat) : option nat :=
  match filter (fun x => Nat.eqb (fst (fst x)) id && Nat.eqb (snd (fst x)) p) seen with
  | x :: _ => Some (snd x) | [] => None end.

Definition plan_troubled (pl : plan) : bool :=
  match p_budget pl, p_fail pl with None, None => false | _, _ => true end.

Definition bad (s : ost) (b : bool) (code : nat) : ost :=
  if b then s else {| os_saved := os_saved s; os_seen := os_seen s; os_run := os_run s; os_trouble := os_trouble s;
                      os_bad := code :: os_bad s; os_idx := os_idx s |}.

Definition on_delivery (tys : list nat) (lg : list ev) (s : ost) (d : nat * nat) : ost :=
  let '(id, val) := d in
  let p := pos_of lg val 1 in
  if Nat.eqb p 0 then s                                    (* not persisted: outside the property *)
  else
    let ty_ok := match nth_error lg (p - 1) with Some e => Nat.eqb (e_ty e) (nth id tys 0) | None => false end in
    let s := bad s ty_ok 5 in
    let s := bad s (match assoc (os_run s) id with Some q => Nat.ltb q p | None => true end) 2 in
    let s := match first_seen (os_seen s) id p with
             | None => {| os_saved := os_saved s; os_seen := (id, p, os_idx s) :: os_seen s; os_run := os_run s;
                          os_trouble := os_trouble s; os_bad := os_bad s; os_idx := os_idx s |}
             | Some k => (* delivered again: its position must not have been saved, and something must have gone wrong since *)
                 bad s (Nat.ltb (nth id (os_saved s) 0) p && existsb (fun t => Nat.leb k t) (os_trouble s)) 3
             end in
    {| os_saved := os_saved s; os_seen := os_seen s; os_run := assoc_upd (os_run s) id p; os_trouble := os_trouble s;
       os_bad := os_bad s; os_idx := os_idx s |}.

Fixpoint all_le (a b : list nat) : bool :=
  match a, b with x :: a', y :: b' => Nat.leb x y && all_le a' b' | _, _ => true end.

Definition involves (tys : list nat) (o : op) (id : nat) : bool :=
  match o with
  | OPub ty _ => Nat.eqb ty (nth id tys 0)
  | OSub i inner => Nat.eqb i id || existsb (fun x => Nat.eqb (snd (fst x)) (nth id tys 0)) inner
  | ORestart => false
  end.

Definition on_op (tys : list nat) (lg : list ev) (s : ost) (x : op * plan * oobs) : ost :=
  let '(o, pl, ob) := x in
  let s := {| os_saved := os_saved s; os_seen := os_seen s;
              os_run := match o with ORestart => [] | OSub id _ => filter (fun x => negb (Nat.eqb (fst x) id)) (os_run s) | _ => os_run s end;
              os_trouble := if plan_troubled pl then os_idx s :: os_trouble s else os_trouble s;
              os_bad := os_bad s; os_idx := os_idx s |} in
  let s := fold_left (on_delivery tys lg) (oo_dels ob) s in
  let s := bad s (all_le (os_saved s) (oo_saved ob)) 1 in
  let s := bad s (forallb (fun id => involves tys o id || Nat.eqb (nth id (os_saved s) 0) (nth id (oo_saved ob) 0))
                          (seq 0 (length tys))) 4 in
  {| os_saved := oo_saved ob; os_seen := os_seen s; os_run := os_run s; os_trouble := os_trouble s; os_bad := os_bad s;
     os_idx := S (os_idx s) |}.

Definition walk12 (i : rinput) (o : robs) : ost :=
  fold_left (on_op (ri_tys i) (ro_log o))
            (combine (ri_hist i) (ro_ops o))
            {| os_saved := map (fun _ => 0) (ri_tys i); os_seen := []; os_run := []; os_trouble := []; os_bad := []; os_idx := 0 |}.

(* every persisted event of an id's type has been delivered to it (the histories end with a clean restart and one
   clean SubscribeWithReplay per id) *)
Definition missing (i : rinput) (o : robs) : list (nat * nat) :=
  let s := walk12 i o in
  flat_map (fun id => flat_map (fun pe => let '(p, e) := pe in
                                           if Nat.eqb (e_ty e) (nth id (ri_tys i) 0) then
                                             match first_seen (os_seen s) id p with Some _ => [] | None => [(id, e_val e)] end
                                           else [])
                               (indexed (ro_log o) 1))
           (seq 0 (length (ri_tys i))).

Definition inner_vals (h : list (op * plan)) : list nat :=
  flat_map (fun x => match fst x with OSub _ inner => map snd inner | _ => [] end) h.

Definition ok12 (i : rinput) (o : robs) : bool :=
  Nat.eqb (ro_anomaly o) 0 && Nat.eqb (length (ro_ops o)) (length (ri_hist i)) &&
  match os_bad (walk12 i o) with [] => true | _ => false end &&
  match missing i o with [] => true | _ => false end.

(* known finding (bit 1): an event published while SubscribeWithReplay is running is neither replayed nor delivered live *)
Definition known12 (i : rinput) (o : robs) : nat :=
  if Nat.eqb (ro_anomaly o) 0 && Nat.eqb (length (ro_ops o)) (length (ri_hist i)) &&
     match os_bad (walk12 i o) with [] => true | _ => false end &&
     match missing i o with [] => false | _ => true end &&
     forallb (fun m => existsb (Nat.eqb (snd m)) (inner_vals (ri_hist i))) (missing i o)
  then 1 else 0.

Definition check12 (c : rinput * robs) : bool * bool * nat :=
  let '(i, o) := c in (agree12 i o, ok12 i o, if ok12 i o then 0 else known12 i o).

Definition explain12 (c : rinput * robs) :=
  let '(i, o) := c in (run_obs fixed (ri_tys i) (ri_hist i) init, os_bad (walk12 i o), missing i o).

(* ---- two overlapping publishers and a crash (suites resubrace, resubracesqlite) ---- *)
(* While the live handler of a subscription handles event v1, a second goroutine publishes v2 (same type) and gets as far
   as the entry of its own delivery; the first delivery then finishes - its save reads bus.lastOffset, which is already
   v2's - and the process dies before v2 is handled.  Modelled as one composite step over the primitives of the model. *)
Record rrinput := { rr_tys : list nat; rr_pre : list (op * plan); rr_ty : nat; rr_v1 : nat; rr_v2 : nat; rr_post : list (op * plan) }.

Definition with_dead (s : rs) : rs :=
  {| log := log s; saved := saved s; last := last s; live := live s; dead := true; tickno := tickno s;
     budget := budget s; failat := failat s; dels := dels s |}.

Definition pair_crash (s : rs) (ty v1 v2 : nat) : rs :=
  let s1 := with_append (begin_op s clean) {| e_ty := ty; e_val := v1 |} in
  let pos1 := last s1 in
  let s2 := with_append s1 {| e_ty := ty; e_val := v2 |} in
  let s3 := fold_left (fun acc l =>
              if Nat.eqb (snd l) ty
              then with_saved (with_del acc {| d_id := fst l; d_val := v1; d_pos := pos1; d_sv := get_saved acc (fst l) |}) (fst l) (last acc)
              else acc) (live s2) s2 in
  with_dead s3.

Definition rr_model (i : rrinput) : list oobs * list ev :=
  let s1 := run fixed (rr_tys i) (rr_pre i) init in
  let s2 := pair_crash s1 (rr_ty i) (rr_v1 i) (rr_v2 i) in
  (run_obs fixed (rr_tys i) (rr_pre i) init ++
   [{| oo_dels := new_dels s1 s2; oo_err := false; oo_saved := map (get_saved s2) (seq 0 (length (rr_tys i))); oo_dead := true |}] ++
   run_obs fixed (rr_tys i) (rr_post i) s2,
   log (run fixed (rr_tys i) (rr_post i) s2)).

Definition rr_hist (i : rrinput) : list (op * plan) :=
  rr_pre i ++ [(OPub (rr_ty i) (rr_v1 i), {| p_budget := Some 1; p_fail := None |})] ++ rr_post i.

Definition agree12r (i : rrinput) (o : robs) : bool :=
  list_eqb oobs_eqb (fst (rr_model i)) (ro_ops o) && list_eqb ev_eqb (snd (rr_model i)) (ro_log o) && Nat.eqb (ro_anomaly o) 0.

Definition ok12r (i : rrinput) (o : robs) : bool :=
  ok12 {| ri_tys := rr_tys i; ri_hist := rr_hist i |} o.

(* known finding (bit 2): the only thing wrong is that the second event of the overlapping pair never reached a
   subscription that was live when it was published *)
Definition known12r (i : rrinput) (o : robs) : nat :=
  let ri := {| ri_tys := rr_tys i; ri_hist := rr_hist i |} in
  if Nat.eqb (ro_anomaly o) 0 && Nat.eqb (length (ro_ops o)) (length (rr_hist i)) &&
     match os_bad (walk12 ri o) with [] => true | _ => false end &&
     match missing ri o with [] => false | _ => true end &&
     forallb (fun m => Nat.eqb (snd m) (rr_v2 i)) (missing ri o)
  then 2 else 0.

Definition check12r (c : rrinput * robs) : bool * bool * nat :=
  let '(i, o) := c in (agree12r i o, ok12r i o, if ok12r i o then 0 else known12r i o).

(* ---- the same histories over the durable-streams store (suites resubds, resubdsinner) ---- *)
From Ebu Require Import Store.ResubDs.

Definition ds_fuel : nat := 80.

Definition agree12ds (i : rinput) (o : robs) : bool :=
  list_eqb oobs_eqb (run_obs_ds ds_fuel (ri_tys i) (ri_hist i) init) (ro_ops o) &&
  list_eqb ev_eqb (log (run_ds ds_fuel (ri_tys i) (ri_hist i) init)) (ro_log o) &&
  Nat.eqb (ro_anomaly o) 0.

(* known finding (bit 4): during a replay the durable-streams store labels the events of a page with synthetic offsets
   that all resume from the page's end; the offset saved after the first handled event therefore already covers the
   whole page, and when that SubscribeWithReplay is cut short (the process dies, or a later read fails) the rest of the
   page is never delivered.  Pattern: nothing else is wrong, every missing event lies at or below the subscription's
   final saved position, and a SubscribeWithReplay of that subscription had a crash or a failing operation. *)
Definition troubled_sub (h : list (op * plan)) (id : nat) : bool :=
  existsb (fun x => match fst x with OSub i _ => Nat.eqb i id && plan_troubled (snd x) | _ => false end) h.
Definition known12ds (i : rinput) (o : robs) : nat :=
  let final_saved := match rev (ro_ops o) with ob :: _ => oo_saved ob | [] => [] end in
  if Nat.eqb (ro_anomaly o) 0 && Nat.eqb (length (ro_ops o)) (length (ri_hist i)) &&
     match os_bad (walk12 i o) with [] => true | _ => false end &&
     match missing i o with [] => false | _ => true end &&
     forallb (fun m => let '(id, val) := m in
                       let p := pos_of (ro_log o) val 1 in
                       negb (Nat.eqb p 0) && Nat.leb p (nth id final_saved 0) && troubled_sub (ri_hist i) id) (missing i o)
  then 4 else 0.

Definition check12ds (c : rinput * robs) : bool * bool * nat :=
  let '(i, o) := c in (agree12ds i o, ok12 i o, if ok12 i o then 0 else known12ds i o).

Definition explain12ds (c : rinput * robs) :=
  let '(i, o) := c in (run_obs_ds ds_fuel (ri_tys i) (ri_hist i) init, os_bad (walk12 i o), missing i o).
