(* Correspondence + oracle for the store family (C10): same operation language for all stores. *)
From Coq Require Import List NArith ZArith Bool.
Import ListNotations.
From Ebu Require Export Store.Lex Store.StoreModel.

Fixpoint list_eqb {A} (eqb : A -> A -> bool) (l1 l2 : list A) : bool :=
  match l1, l2 with
  | [], [] => true
  | x :: xs, y :: ys => eqb x y && list_eqb eqb xs ys
  | _, _ => false
  end.
Definition opt_eqb {A} (eqb : A -> A -> bool) (a b : option A) : bool :=
  match a, b with Some x, Some y => eqb x y | None, None => true | _, _ => false end.
Definition sev_eqb (a b : sev) : bool := bytes_eqb (e_off a) (e_off b) && Nat.eqb (e_pay a) (e_pay b).

Definition sres_eqb (a b : sres) : bool :=
  match a, b with
  | RAppend x, RAppend y => opt_eqb bytes_eqb x y
  | RRead x, RRead y => opt_eqb (fun p q => list_eqb sev_eqb (fst p) (fst q) && bytes_eqb (snd p) (snd q)) x y
  | RStream x, RStream y => opt_eqb (list_eqb sev_eqb) x y
  | RSave x, RSave y => Bool.eqb x y
  | RLoad x, RLoad y => opt_eqb bytes_eqb x y
  | _, _ => false
  end.

Definition agree_mem (ops : list sop) (obs : list sres) : bool :=
  list_eqb sres_eqb (run_init mem mem_impl ops) obs.
Definition agree_sq (ops : list sop) (obs : list sres) : bool :=
  list_eqb sres_eqb (run_init sq sq_impl ops) obs.

(* ---------------- the oracle: "one append-only, resumable log" ----------------
   Judges an observed history alone.  Per store it keeps the appended log (with the offsets the
   implementation issued), what position every offset seen so far denotes, and the saved offsets. *)
Record ostate := { o_log : list sev; o_pos : list (offset * nat); o_subs : list (nat * offset) }.
Definition o_init : ostate := {| o_log := []; o_pos := []; o_subs := [] |}.

Fixpoint pos_get (m : list (offset * nat)) (o : offset) : option nat :=
  match m with
  | [] => None
  | (o', k) :: r => if bytes_eqb o' o then Some k else pos_get r o
  end.
Definition pos_of (s : ostate) (o : offset) : option nat :=
  match o with [] => Some 0 | _ => pos_get (o_pos s) o end.

(* record that offset o denotes position k; None if it already denotes another position *)
Definition learn (m : list (offset * nat)) (o : offset) (k : nat) : option (list (offset * nat)) :=
  match o with
  | [] => if Nat.eqb k 0 then Some m else None
  | _ => match pos_get m o with
         | Some k' => if Nat.eqb k k' then Some m else None
         | None => Some ((o, k) :: m)
         end
  end.

Fixpoint learn_events (m : list (offset * nat)) (evs : list sev) (k : nat) : option (list (offset * nat)) :=
  match evs with
  | [] => Some m
  | e :: r => match learn m (e_off e) (S k) with
              | None => None
              | Some m' => learn_events m' r (S k)
              end
  end.

Definition pays (l : list sev) : list nat := map e_pay l.

Definition last_append_off (s : ostate) : offset := last_off [] (o_log s).

(* one step; None = the observed behaviour violates the property *)
Definition ostep (check_lex : bool) (s : ostate) (o : sop) (r : sres) : option ostate :=
  match o, r with
  | SAppend _ p, RAppend (Some off) =>
      if is_oldest off then None
      else if existsb (fun e => bytes_eqb (e_off e) off) (o_log s) then None     (* unique *)
      else if check_lex && negb (is_oldest (last_append_off s)) && negb (lexlt (last_append_off s) off) then None
      else match learn (o_pos s) off (S (length (o_log s))) with
           | None => None
           | Some m => Some {| o_log := o_log s ++ [{| e_off := off; e_pay := p |}]; o_pos := m; o_subs := o_subs s |}
           end
  | SRead _ from limit, RRead (Some (evs, next)) =>
      match pos_of s from with
      | None => Some s                       (* an offset the store never issued: nothing is promised *)
      | Some k =>
        if list_eqb Nat.eqb (pays evs) (pays (take limit (skipn k (o_log s)))) then
          match learn_events (o_pos s) evs k with
          | None => None
          | Some m => match learn m next (k + length evs) with
                      | None => None
                      | Some m' => Some {| o_log := o_log s; o_pos := m'; o_subs := o_subs s |}
                      end
          end
        else None
      end
  | SRead _ from _, RRead None => match pos_of s from with None => Some s | Some _ => None end
  | SStream _ from, RStream (Some evs) =>
      match pos_of s from with
      | None => Some s
      | Some k =>
        if list_eqb Nat.eqb (pays evs) (pays (skipn k (o_log s))) then
          match learn_events (o_pos s) evs k with
          | None => None
          | Some m => Some {| o_log := o_log s; o_pos := m; o_subs := o_subs s |}
          end
        else None
      end
  | SStream _ from, RStream None => match pos_of s from with None => Some s | Some _ => None end
  | SSave _ id off, RSave true => Some {| o_log := o_log s; o_pos := o_pos s; o_subs := sub_set (o_subs s) id off |}
  | SSave _ id off, RSave false => match pos_of s off with None => Some s | Some _ => None end
  | SLoad _ id, RLoad (Some off) =>
      if bytes_eqb off (match sub_get (o_subs s) id with Some o => o | None => [] end) then Some s else None
  | _, _ => None
  end.

Definition store_of (o : sop) : nat :=
  match o with SAppend k _ | SRead k _ _ | SStream k _ | SSave k _ _ | SLoad k _ => k end.

Fixpoint ok_walk (check_lex : bool) (st : ostate * ostate) (ops : list sop) (obs : list sres) : bool :=
  match ops, obs with
  | [], [] => true
  | o :: ro, r :: rr =>
      let k := store_of o in
      let s := if Nat.eqb k 0 then fst st else snd st in
      match ostep check_lex s o r with
      | None => false
      | Some s' => ok_walk check_lex (if Nat.eqb k 0 then (s', snd st) else (fst st, s')) ro rr
      end
  | _, _ => false
  end.

Definition ok10 (ops : list sop) (obs : list sres) : bool := ok_walk true (o_init, o_init) ops obs.
Definition ok10_nolex (ops : list sop) (obs : list sres) : bool := ok_walk false (o_init, o_init) ops obs.

(* known-finding patterns: 1 = only the lexicographic clause fails (SQLite's unpadded decimal offsets) *)
Definition known10 (ops : list sop) (obs : list sres) : nat :=
  if negb (ok10 ops obs) && ok10_nolex ops obs then 1 else 0.

Definition check10_mem (c : list sop * list sres) : bool * bool * nat :=
  let '(i, o) := c in (agree_mem i o, ok10 i o, known10 i o).
Definition check10_sq (c : list sop * list sres) : bool * bool * nat :=
  let '(i, o) := c in (agree_sq i o, ok10 i o, known10 i o).
