(* Correspondence + oracle for the store family (C10): same operation language for all stores. *)
From Coq Require Import List NArith ZArith Bool.
Import ListNotations.
From Ebu Require Export Store.Lex Store.StoreModel.

Fixpoint list_eqb {A} (eqb : A -> A -> bool) (l1 l2 : list A) : bool :=
  match l1, l2 with
  | [], [] => true
  | x :: xs, y :: ys => eqb x y && list_eqb eqb xs ys
  | _, _ => false
  end.
Definition opt_eqb {A} (eqb : A -> A -> bool) (a b : option A) : bool :=
  match a, b with Some x, Some y => eqb x y | None, None => true | _, _ => false end.
Definition sev_eqb (a b : sev) : bool := bytes_eqb (e_off a) (e_off b) && Nat.eqb (e_pay a) (e_pay b).

Definition sres_eqb (a b : sres) : bool :=
  match a, b with
  | RAppend x, RAppend y => opt_eqb bytes_eqb x y
  | RRead x, RRead y => opt_eqb (fun p q => list_eqb sev_eqb (fst p) (fst q) && bytes_eqb (snd p) (snd q)) x y
  | RStream x, RStream y => opt_eqb (list_eqb sev_eqb) x y
  | RSave x, RSave y => Bool.eqb x y
  | RLoad x, RLoad y => opt_eqb bytes_eqb x y
  | _, _ => false
  end.

Definition agree_mem (ops : list sop) (obs : list sres) : bool :=
  list_eqb sres_eqb (run_init mem mem_impl ops) obs.
Definition agree_sq (ops : list sop) (obs : list sres) : bool :=
  list_eqb sres_eqb (run_init sq sq_impl ops) obs.

(* ---------------- the oracle: "one append-only, resumable log" ----------------
   Judges an observed history alone.  Per store it keeps the appended log (with the offsets the
   implementation issued), what position every offset seen so far denotes, and the saved offsets. *)
Record ostate := { o_log : list sev; o_pos : list (offset * nat); o_subs : list (nat * offset) }.
Definition o_init : ostate := {| o_log := []; o_pos := []; o_subs := [] |}.

Fixpoint pos_get (m : list (offset * nat)) (o : offset) : option nat :=
  match m with
  | [] => None
  | (o', k) :: r => if bytes_eqb o' o then Some k else pos_get r o
  end.
Definition pos_of (s : ostate) (o : offset) : option nat :=
  match o with [] => Some 0 | _ => pos_get (o_pos s) o end.

(* record that offset o denotes position k; None if it already denotes another position *)
Definition learn (m : list (offset * nat)) (o : offset) (k : nat) : option (list (offset * nat)) :=
  match o with
  | [] => if Nat.eqb k 0 then Some m else None
  | _ => match pos_get m o with
         | Some k' => if Nat.eqb k k' then Some m else None
         | None => Some ((o, k) :: m)
         end
  end.

Fixpoint learn_events (m : list (offset * nat)) (evs : list sev) (k : nat) : option (list (offset * nat)) :=
  match evs with
  | [] => Some m
  | e :: r => match learn m (e_off e) (S k) with
              | None => None
              | Some m' => learn_events m' r (S k)
              end
  end.

Definition pays (l : list sev) : list nat := map e_pay l.

Definition last_append_off (s : ostate) : offset := last_off [] (o_log s).

(* which clauses are enforced; all true = the property as stated. Relaxing a clause is only used to
   classify a failure as a listed known finding, never to pass a check. *)
Record oflags := {
  f_lex : bool;     (* append offsets increase under lexicographic comparison *)
  f_trunc : bool;   (* the next offset of a limit-truncated read denotes the position after the returned events *)
  f_evoff : bool;   (* per-event offsets (here: those containing '/') denote positions and resume *)
  f_all : bool      (* a read returns the first n / all remaining events (relaxed: a non-empty prefix of them) *)
}.
Definition strict : oflags := {| f_lex := true; f_trunc := true; f_evoff := true; f_all := true |}.

Definition has_slash (o : offset) : bool := existsb (N.eqb 47) o.

Fixpoint learn_events_f (fl : oflags) (m : list (offset * nat)) (evs : list sev) (k : nat) : option (list (offset * nat)) :=
  match evs with
  | [] => Some m
  | e :: r => if negb (f_evoff fl) && has_slash (e_off e) then learn_events_f fl m r (S k)
              else match learn m (e_off e) (S k) with
                   | None => None
                   | Some m' => learn_events_f fl m' r (S k)
                   end
  end.

Fixpoint is_prefix (a b : list nat) : bool :=
  match a, b with
  | [], _ => true
  | x :: a', y :: b' => Nat.eqb x y && is_prefix a' b'
  | _, [] => false
  end.

Definition read_matches (fl : oflags) (limit : Z) (got expected_rest : list nat) : bool :=
  if f_all fl then list_eqb Nat.eqb got (take limit expected_rest)
  else is_prefix got (take limit expected_rest) &&
       (negb (Nat.eqb (length got) 0) || Nat.eqb (length expected_rest) 0).

(* one step; None = the observed behaviour violates the property *)
Definition ostep (fl : oflags) (s : ostate) (o : sop) (r : sres) : option ostate :=
  match o, r with
  | SAppend _ p, RAppend (Some off) =>
      if is_oldest off then None
      else if existsb (fun e => bytes_eqb (e_off e) off) (o_log s) then None     (* unique *)
      else if f_lex fl && negb (is_oldest (last_append_off s)) && negb (lexlt (last_append_off s) off) then None
      else match learn (o_pos s) off (S (length (o_log s))) with
           | None => None
           | Some m => Some {| o_log := o_log s ++ [{| e_off := off; e_pay := p |}]; o_pos := m; o_subs := o_subs s |}
           end
  | SRead _ from limit, RRead (Some (evs, next)) =>
      match (if negb (f_evoff fl) && has_slash from then None else pos_of s from) with
      | None => Some s                       (* an offset the store never issued: nothing is promised *)
      | Some k =>
        if read_matches fl limit (pays evs) (pays (skipn k (o_log s))) then
          match learn_events_f fl (o_pos s) evs k with
          | None => None
          | Some m =>
            if negb (f_trunc fl) && (0 <? limit)%Z && (Z.of_nat (length evs) =? limit)%Z
            then Some {| o_log := o_log s; o_pos := m; o_subs := o_subs s |}
            else match learn m next (k + length evs) with
                 | None => None
                 | Some m' => Some {| o_log := o_log s; o_pos := m'; o_subs := o_subs s |}
                 end
          end
        else None
      end
  | SRead _ from _, RRead None =>
      match (if negb (f_evoff fl) && has_slash from then None else pos_of s from) with None => Some s | Some _ => None end
  | SStream _ from, RStream (Some evs) =>
      match pos_of s from with
      | None => Some s
      | Some k =>
        if list_eqb Nat.eqb (pays evs) (pays (skipn k (o_log s))) then
          match learn_events_f fl (o_pos s) evs k with
          | None => None
          | Some m => Some {| o_log := o_log s; o_pos := m; o_subs := o_subs s |}
          end
        else None
      end
  | SStream _ from, RStream None => match pos_of s from with None => Some s | Some _ => None end
  | SSave _ id off, RSave true => Some {| o_log := o_log s; o_pos := o_pos s; o_subs := sub_set (o_subs s) id off |}
  | SSave _ id off, RSave false => match pos_of s off with None => Some s | Some _ => None end
  | SLoad _ id, RLoad (Some off) =>
      (* the saved offset comes back: the same string, or - for a string this store never issued, e.g. another
         store's zero-padded format - the store's own spelling of the same position ("0003" / "3", "" / "0") *)
      let want := match sub_get (o_subs s) id with Some o => o | None => [] end in
      if bytes_eqb off want ||
         match parse_offset off, parse_offset want with Some x, Some y => Z.eqb x y | _, _ => false end
      then Some s else None
  | _, _ => None
  end.

Fixpoint ok_walk (fl : oflags) (st : ostate * ostate) (ops : list sop) (obs : list sres) : bool :=
  match ops, obs with
  | [], [] => true
  | o :: ro, r :: rr =>
      let k := store_of o in
      let s := if Nat.eqb k 0 then fst st else snd st in
      match ostep fl s o r with
      | None => false
      | Some s' => ok_walk fl (if Nat.eqb k 0 then (s', snd st) else (fst st, s')) ro rr
      end
  | _, _ => false
  end.

Definition ok10 (ops : list sop) (obs : list sres) : bool := ok_walk strict (o_init, o_init) ops obs.

(* known-finding classification: the smallest set of clauses (among those a store is known to miss)
   whose relaxation makes the history acceptable, as a bit mask: 1 lex, 2 trunc, 4 evoff, 8 all.
   0 = either the history is fine or no listed relaxation explains the failure. *)
Definition flags_of_mask (m : nat) : oflags :=
  {| f_lex := negb (Nat.testbit m 0); f_trunc := negb (Nat.testbit m 1);
     f_evoff := negb (Nat.testbit m 2); f_all := negb (Nat.testbit m 3) |}.
Fixpoint first_mask (masks : list nat) (ops : list sop) (obs : list sres) : nat :=
  match masks with
  | [] => 0
  | m :: r => if ok_walk (flags_of_mask m) (o_init, o_init) ops obs then m else first_mask r ops obs
  end.
Definition known_masks (masks : list nat) (ops : list sop) (obs : list sres) : nat :=
  if ok10 ops obs then 0 else first_mask masks ops obs.

Definition check10_mem (c : list sop * list sres) : bool * bool * nat :=
  let '(i, o) := c in (agree_mem i o, ok10 i o, 0).
Definition check10_sq (c : list sop * list sres) : bool * bool * nat :=
  let '(i, o) := c in (agree_sq i o, ok10 i o, known_masks [1] i o).

(* ---- durable-streams ---- *)
Definition agree_ds (chunk : nat) (ops : list sop) (obs : list sres) : bool :=
  list_eqb sres_eqb (run_init ds (ds_impl chunk) ops) obs.

Definition check10_ds (c : nat * list sop * list sres) : bool * bool * nat :=
  let '(chunk, i, o) := c in (agree_ds chunk i o, ok10 i o, known_masks [2; 4; 8; 6; 10; 12; 14] i o).
