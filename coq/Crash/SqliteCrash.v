(* Model of what the SQLite store keeps on disk across clean closes, reopenings and killed processes
   (/repo/stores/sqlite/store.go, schema.go).  ebu's part is modelled: one auto-committed INSERT per Append with an
   AUTOINCREMENT position, one auto-committed upsert per SaveOffset, the acknowledgement (the call returning) only
   after the statement has committed, and an idempotent transactional migration on open.
   ASSUMED of SQLite (WAL journal, synchronous=NORMAL), not proved: a statement that has committed survives the death of
   the process; a statement in flight when the process dies is either committed entirely or not at all. *)
From Coq Require Import List Arith Bool Lia.
Import ListNotations.

Record db := {
  rows : list (nat * nat);        (* (position, value), in position order *)
  seqno : nat;                    (* sqlite_sequence: the largest position ever handed out *)
  offs : list (nat * nat);        (* subscription id -> saved position *)
  migrated : bool                 (* schema_version says the schema is in place *)
}.
Definition empty : db := {| rows := []; seqno := 0; offs := []; migrated := false |}.

Inductive sop := SAppend (v : nat) | SSave (id pos : nat).

(* how far an operation got before the process ended *)
Inductive outcome :=
| Acked             (* the call returned: the acknowledgement was delivered *)
| LostInFlight      (* the process died before the statement committed *)
| CommittedUnacked. (* the process died after the commit but before the call returned *)

Fixpoint set_off (l : list (nat * nat)) (id p : nat) : list (nat * nat) :=
  match l with
  | [] => [(id, p)]
  | (i, q) :: r => if Nat.eqb i id then (i, p) :: r else (i, q) :: set_off r id p
  end.
Fixpoint get_off (l : list (nat * nat)) (id : nat) : nat :=
  match l with [] => 0 | (i, q) :: r => if Nat.eqb i id then q else get_off r id end.

Definition commit (d : db) (o : sop) : db :=
  match o with
  | SAppend v => {| rows := rows d ++ [(S (seqno d), v)]; seqno := S (seqno d); offs := offs d; migrated := migrated d |}
  | SSave id p => {| rows := rows d; seqno := seqno d; offs := set_off (offs d) id p; migrated := migrated d |}
  end.

(* opening: the migration runs in one transaction and is a no-op on a migrated database *)
Definition open (d : db) : db := {| rows := rows d; seqno := seqno d; offs := offs d; migrated := true |}.

(* one process lifetime: open (unless the process dies during the migration), the operations it got to, then a
   clean close or a kill; at most the last operation of a killed process is not Acked *)
Record life := { l_open_committed : bool; l_ops : list (sop * outcome) }.

Definition apply_op (d : db) (x : sop * outcome) : db :=
  match snd x with LostInFlight => d | _ => commit d (fst x) end.

Definition run_life (d : db) (l : life) : db :=
  if l_open_committed l then fold_left apply_op (l_ops l) (open d) else d.

Definition run (d : db) (ls : list life) : db := fold_left run_life ls d.

(* well-formed lifetime: every operation before the last was acknowledged; a process whose migration did not commit
   performed nothing *)
Fixpoint all_acked_but_last (l : list (sop * outcome)) : bool :=
  match l with
  | [] => true
  | [_] => true
  | x :: r => match snd x with Acked => all_acked_but_last r | _ => false end
  end.
Definition life_ok (l : life) : bool :=
  all_acked_but_last (l_ops l) && (l_open_committed l || match l_ops l with [] => true | _ => false end).

(* what the history says must be there *)
Definition acked_vals (l : life) : list nat :=
  flat_map (fun x => match x with (SAppend v, Acked) => [v] | _ => [] end) (if l_open_committed l then l_ops l else []).
Definition committed_vals (l : life) : list nat :=
  flat_map (fun x => match x with (SAppend v, Acked) | (SAppend v, CommittedUnacked) => [v] | _ => [] end)
           (if l_open_committed l then l_ops l else []).
