From Coq Require Import List Arith Bool Lia.
Import ListNotations.
From Ebu Require Import Crash.SqliteCrash.

Definition inv (d : db) : Prop := map fst (rows d) = seq 1 (length (rows d)) /\ seqno d = length (rows d).

Lemma inv_empty : inv empty. Proof. split; reflexivity. Qed.

Lemma commit_inv d o : inv d -> inv (commit d o).
Proof.
  intros [H1 H2]. destruct o as [v | id p]; unfold inv; cbn [commit rows seqno]; [|split; assumption].
  split.
  - rewrite map_app, app_length, H1, H2. cbn [map fst length]. rewrite seq_app. cbn. reflexivity.
  - rewrite app_length. cbn. lia.
Qed.

Lemma open_inv d : inv d -> inv (open d). Proof. intros H. exact H. Qed.

Lemma apply_op_inv d x : inv d -> inv (apply_op d x).
Proof. intros H. unfold apply_op. destruct (snd x); auto using commit_inv. Qed.

Lemma fold_apply_inv l : forall d, inv d -> inv (fold_left apply_op l d).
Proof. induction l as [|x r IH]; intros d H; cbn; [exact H | apply IH, apply_op_inv, H]. Qed.

Lemma run_life_inv d l : inv d -> inv (run_life d l).
Proof. intros H. unfold run_life. destruct (l_open_committed l); [apply fold_apply_inv, open_inv, H | exact H]. Qed.

Lemma run_inv ls : forall d, inv d -> inv (run d ls).
Proof. induction ls as [|l r IH]; intros d H; cbn; [exact H | apply IH, run_life_inv, H]. Qed.

(* positions: 1, 2, 3, ... without gaps, and the next append gets a position above every one ever handed out *)
Theorem positions_consecutive ls :
  let d := run empty ls in map fst (rows d) = seq 1 (length (rows d)) /\ seqno d = length (rows d).
Proof. exact (run_inv ls empty inv_empty). Qed.

Theorem new_append_above_all ls v :
  let d := run empty ls in
  forall p, In p (map fst (rows d)) -> p < fst (last (rows (commit d (SAppend v))) (0, 0)).
Proof.
  intros d p Hin. destruct (run_inv ls empty inv_empty) as [H1 H2]. fold d in H1, H2.
  cbn. rewrite last_last. cbn. rewrite H1 in Hin. apply in_seq in Hin. lia.
Qed.

(* contents: exactly the committed appends, in order *)
Definition vals (d : db) : list nat := map snd (rows d).

Lemma fold_apply_vals l : forall d,
  vals (fold_left apply_op l d) =
  vals d ++ flat_map (fun x => match x with (SAppend v, Acked) | (SAppend v, CommittedUnacked) => [v] | _ => [] end) l.
Proof.
  induction l as [|[o oc] r IH]; intros d; cbn [fold_left flat_map]; [rewrite app_nil_r; reflexivity|].
  rewrite IH. unfold apply_op. cbn [fst snd].
  destruct oc; destruct o as [v | id p]; cbn; unfold vals; cbn; rewrite ?map_app, <- ?app_assoc; reflexivity.
Qed.

Lemma run_life_vals d l : vals (run_life d l) = vals d ++ committed_vals l.
Proof.
  unfold run_life, committed_vals. destruct (l_open_committed l); [|cbn; rewrite app_nil_r; reflexivity].
  rewrite fold_apply_vals. reflexivity.
Qed.

Lemma run_vals ls : forall d, vals (run d ls) = vals d ++ flat_map committed_vals ls.
Proof.
  induction ls as [|l r IH]; intros d; cbn [run fold_left flat_map]; [rewrite app_nil_r; reflexivity|].
  fold (run (run_life d l) r). rewrite IH, run_life_vals, app_assoc. reflexivity.
Qed.

Theorem contents_are_the_committed_appends ls : vals (run empty ls) = flat_map committed_vals ls.
Proof. rewrite run_vals. reflexivity. Qed.

(* every acknowledged append is among them, in acknowledgement order; the only other entries are operations that
   were in flight when a process was killed: at most one per killed process *)
Inductive subseq {A} : list A -> list A -> Prop :=
| sub_nil : forall l, subseq [] l
| sub_take : forall x a b, subseq a b -> subseq (x :: a) (x :: b)
| sub_skip : forall x a b, subseq a b -> subseq a (x :: b).

Lemma subseq_refl {A} (l : list A) : subseq l l.
Proof. induction l; constructor; assumption. Qed.
Lemma subseq_app {A} (a b c d : list A) : subseq a b -> subseq c d -> subseq (a ++ c) (b ++ d).
Proof.
  induction 1 as [l | x a b H IH | x a b H IH]; intros Hc; cbn.
  - induction l as [|y l IHl]; cbn; [exact Hc | apply sub_skip, IHl].
  - apply sub_take, IH, Hc.
  - apply sub_skip, IH, Hc.
Qed.

Lemma acked_sub_committed_ops (l : list (sop * outcome)) :
  subseq (flat_map (fun x => match x with (SAppend v, Acked) => [v] | _ => [] end) l)
         (flat_map (fun x => match x with (SAppend v, Acked) | (SAppend v, CommittedUnacked) => [v] | _ => [] end) l).
Proof.
  induction l as [|[o oc] r IH]; cbn; [constructor|].
  destruct o as [v | id p]; destruct oc; cbn; try exact IH; [apply sub_take, IH | apply sub_skip, IH].
Qed.

Theorem acknowledged_appends_survive ls : subseq (flat_map acked_vals ls) (vals (run empty ls)).
Proof.
  rewrite contents_are_the_committed_appends. induction ls as [|l r IH]; cbn; [constructor|].
  apply subseq_app; [|exact IH]. unfold acked_vals, committed_vals. apply acked_sub_committed_ops.
Qed.

Lemma extra_at_most_one (l : list (sop * outcome)) :
  all_acked_but_last l = true ->
  length (flat_map (fun x => match x with (SAppend v, Acked) | (SAppend v, CommittedUnacked) => [v] | _ => [] end) l)
  <= length (flat_map (fun x => match x with (SAppend v, Acked) => [v] | _ => [] end) l) + 1.
Proof.
  induction l as [|[o oc] r IH]; cbn [all_acked_but_last flat_map]; [cbn; lia|].
  destruct r as [|y r'].
  - intros _. destruct o, oc; cbn; lia.
  - cbn [snd]. destruct oc; try discriminate. intros H. specialize (IH H). rewrite !app_length. destruct o; cbn in *; lia.
Qed.

Theorem at_most_one_unacknowledged_per_life ls :
  forallb life_ok ls = true ->
  length (vals (run empty ls)) <= length (flat_map acked_vals ls) + length ls.
Proof.
  rewrite contents_are_the_committed_appends. induction ls as [|l r IH]; cbn [forallb flat_map length]; [lia|].
  intros H. apply andb_true_iff in H. destruct H as [Hl Hr]. specialize (IH Hr). rewrite !app_length.
  unfold life_ok in Hl. apply andb_true_iff in Hl. destruct Hl as [Hl _].
  assert (length (committed_vals l) <= length (acked_vals l) + 1).
  { unfold committed_vals, acked_vals. destruct (l_open_committed l); [apply extra_at_most_one; exact Hl | cbn; lia]. }
  lia.
Qed.

Lemma last_cons_default {A} : forall (b : list A) (y x : A), last (y :: b) x = last b y.
Proof.
  induction b as [|z b IH]; intros y x; [reflexivity|].
  change (last (z :: b) x = last (z :: b) y). rewrite !IH. reflexivity.
Qed.
Lemma last_app_default {A} (a b : list A) : forall x, last (a ++ b) x = last b (last a x).
Proof.
  induction a as [|y a IH]; intros x; [reflexivity|]. cbn [app]. rewrite !last_cons_default. apply IH.
Qed.

(* saved offsets: the last committed SaveOffset of each id *)
Lemma get_set_same l id p : get_off (set_off l id p) id = p.
Proof.
  induction l as [|[i q] r IH]; cbn; [rewrite Nat.eqb_refl; reflexivity|].
  destruct (Nat.eqb i id) eqn:E; cbn; rewrite E; [reflexivity | exact IH].
Qed.
Lemma get_set_other l id id' p : id' <> id -> get_off (set_off l id p) id' = get_off l id'.
Proof.
  intros Hne. induction l as [|[i q] r IH]; cbn.
  - destruct (Nat.eqb id id') eqn:E; [apply Nat.eqb_eq in E; congruence | reflexivity].
  - destruct (Nat.eqb i id) eqn:E; cbn.
    + apply Nat.eqb_eq in E. subst i. destruct (Nat.eqb id id') eqn:E'; [apply Nat.eqb_eq in E'; congruence | reflexivity].
    + destruct (Nat.eqb i id'); [reflexivity | exact IH].
Qed.

Definition committed_saves (l : life) (id : nat) : list nat :=
  flat_map (fun x => match x with
                     | (SSave i p, Acked) | (SSave i p, CommittedUnacked) => if Nat.eqb i id then [p] else []
                     | _ => [] end) (if l_open_committed l then l_ops l else []).

Lemma fold_apply_offs l id : forall d,
  get_off (offs (fold_left apply_op l d)) id =
  last (flat_map (fun x => match x with
                           | (SSave i p, Acked) | (SSave i p, CommittedUnacked) => if Nat.eqb i id then [p] else []
                           | _ => [] end) l) (get_off (offs d) id).
Proof.
  induction l as [|[o oc] r IH]; intros d; cbn [fold_left flat_map]; [reflexivity|].
  rewrite IH. unfold apply_op. cbn [fst snd].
  pose proof (@last_app_default nat) as Hlast.
  destruct oc; destruct o as [v | i p]; cbn [commit offs app]; try reflexivity.
  - destruct (Nat.eqb i id) eqn:E; cbn [app].
    + apply Nat.eqb_eq in E. subst i. rewrite get_set_same, last_cons_default. reflexivity.
    + rewrite get_set_other by (apply Nat.eqb_neq in E; congruence). reflexivity.
  - destruct (Nat.eqb i id) eqn:E; cbn [app].
    + apply Nat.eqb_eq in E. subst i. rewrite get_set_same, last_cons_default. reflexivity.
    + rewrite get_set_other by (apply Nat.eqb_neq in E; congruence). reflexivity.
Qed.

Theorem saved_offset_is_last_committed ls id :
  get_off (offs (run empty ls)) id = last (flat_map (fun l => committed_saves l id) ls) 0.
Proof.
  assert (G : forall ls d, get_off (offs (run d ls)) id = last (flat_map (fun l => committed_saves l id) ls) (get_off (offs d) id)).
  { clear ls. induction ls as [|l r IH]; intros d; cbn [run fold_left flat_map]; [reflexivity|].
    fold (run (run_life d l) r). rewrite IH.
    pose proof (@last_app_default nat) as Hlast.
    rewrite Hlast. f_equal. unfold run_life, committed_saves. destruct (l_open_committed l); [|reflexivity].
    rewrite fold_apply_offs. reflexivity. }
  apply G.
Qed.

(* opening is idempotent, and a process that only opens and closes (or is killed while idle) changes nothing *)
Theorem open_idempotent d : open (open d) = open d.
Proof. reflexivity. Qed.

Theorem reopen_changes_nothing d b :
  let d' := run_life d {| l_open_committed := b; l_ops := [] |} in
  rows d' = rows d /\ seqno d' = seqno d /\ offs d' = offs d.
Proof. destruct b; cbn; auto. Qed.

Example nonvacuous :
  let ls := [ {| l_open_committed := true; l_ops := [(SAppend 1, Acked); (SAppend 2, Acked); (SSave 0 2, Acked); (SAppend 3, CommittedUnacked)] |};
              {| l_open_committed := true; l_ops := [(SAppend 4, Acked); (SAppend 5, LostInFlight)] |};
              {| l_open_committed := false; l_ops := [] |};
              {| l_open_committed := true; l_ops := [(SAppend 6, Acked)] |} ] in
  forallb life_ok ls = true /\ rows (run empty ls) = [(1, 1); (2, 2); (3, 3); (4, 4); (5, 6)] /\
  flat_map acked_vals ls = [1; 2; 4; 6] /\ get_off (offs (run empty ls)) 0 = 2.
Proof. vm_compute. auto. Qed.
