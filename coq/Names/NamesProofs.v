From Coq Require Import List Bool.
Import ListNotations.
From Ebu Require Import Names.TypeNames.

Lemma tname_eqb_eq a b : tname_eqb a b = true <-> a = b.
Proof. destruct a as [[|]|], b as [[|]|]; cbn; split; intros H; try discriminate; try reflexivity; inversion H. Qed.

(* the domain is finite: the exhaustive check IS the proof *)
Theorem names_agree : forall (s : shape) (p q : path), name_on p s = name_on q s.
Proof. intros [[|] [| |]] [| | | | |] [| | | | |]; reflexivity. Qed.

Theorem names_agree_b :
  forallb (fun s => forallb (fun p => forallb (fun q => tname_eqb (name_on p s) (name_on q s)) all_paths) all_paths) all_shapes = true.
Proof. vm_compute. reflexivity. Qed.

Lemma all_shapes_complete : forall s, In s all_shapes.
Proof. intros [[|] [| |]]; cbn; tauto. Qed.
