(* Model of how each API of ebu derives the type name of an event type (event_bus.go EventType, persist.go
   persistEvent / SubscribeWithReplay, upcast.go RegisterUpcast).  The domain is finite. *)
From Coq Require Import List Bool.
Import ListNotations.

Inductive indirection := ByValue | ByPointer.
Inductive namer := NoNamer | ValueReceiver | PointerReceiver.   (* where EventTypeName() is declared, if at all *)
Definition shape := (indirection * namer)%type.

Inductive tname := Reflect (i : indirection) | Custom.          (* reflect's "pkg.T" / "*pkg.T", or the custom name *)

(* Go's method sets: T has the value-receiver methods, *T has both *)
Definition implements (s : shape) : bool :=
  match s with
  | (_, NoNamer) => false
  | (_, ValueReceiver) => true
  | (ByValue, PointerReceiver) => false
  | (ByPointer, PointerReceiver) => true
  end.

(* EventType(event): the TypeNamer assertion on the dynamic value, else reflect.TypeOf(event).String() *)
Definition event_type (s : shape) : tname := if implements s then Custom else Reflect (fst s).

(* persistEvent stores EventType(event) *)
Definition persist_name (s : shape) : tname := event_type s.

(* SubscribeWithReplay[T] and RegisterUpcast[From,To] derive the name of the static type through the same
   function, applied to a representative value of the type (zero value, or a pointer to one) *)
Definition typed_name (s : shape) : tname := event_type s.

Inductive path := PPersist | PEventType | PSubscribeReplay | PUpcastSource | PUpcastTarget | PReplayCompare.
Definition name_on (p : path) (s : shape) : tname :=
  match p with
  | PPersist => persist_name s
  | PEventType | PReplayCompare => event_type s
  | PSubscribeReplay | PUpcastSource | PUpcastTarget => typed_name s
  end.

Definition all_shapes : list shape :=
  [(ByValue, NoNamer); (ByValue, ValueReceiver); (ByValue, PointerReceiver);
   (ByPointer, NoNamer); (ByPointer, ValueReceiver); (ByPointer, PointerReceiver)].
Definition all_paths : list path := [PPersist; PEventType; PSubscribeReplay; PUpcastSource; PUpcastTarget; PReplayCompare].

Definition tname_eqb (a b : tname) : bool :=
  match a, b with
  | Custom, Custom => true
  | Reflect ByValue, Reflect ByValue | Reflect ByPointer, Reflect ByPointer => true
  | _, _ => false
  end.
