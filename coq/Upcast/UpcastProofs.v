(* Proofs about Upcast/UpcastModel.v: soundness/completeness/fuel-sufficiency of the
   cycle check, acyclicity of every reachable registry, termination of apply,
   and apply = composition of first-registered upcasters (C16, C17). *)
From Coq Require Import List Arith Bool Lia.
Import ListNotations.
From Ebu Require Import Upcast.UpcastModel.

Definition edge (g : registry) (a b : name) : Prop :=
  exists u, In u g /\ u_from u = a /\ u_to u = b.

Inductive reach (g : registry) : name -> name -> Prop :=
| reach_refl a : reach g a a
| reach_step a b c : edge g a b -> reach g b c -> reach g a c.

Definition reach_plus (g : registry) (a c : name) : Prop :=
  exists b, edge g a b /\ reach g b c.

Definition acyclic (g : registry) : Prop := forall a, ~ reach_plus g a a.

Lemma reach_trans g a b c : reach g a b -> reach g b c -> reach g a c.
Proof. induction 1; intros; [assumption|]. eapply reach_step; eauto. Qed.

Lemma reach_snoc g a b c : reach g a b -> edge g b c -> reach g a c.
Proof. intros R E. eapply reach_trans; [exact R|]. eapply reach_step; [exact E|constructor]. Qed.

Lemma mem_In x l : mem x l = true <-> In x l.
Proof.
  unfold mem. rewrite existsb_exists. split.
  - intros [y [Hy He]]. apply Nat.eqb_eq in He. subst. exact Hy.
  - intros H. exists x. split; [exact H | apply Nat.eqb_refl].
Qed.

Lemma mem_false x l : mem x l = false <-> ~ In x l.
Proof.
  split.
  - intros H Hin. apply mem_In in Hin. congruence.
  - intros H. destruct (mem x l) eqn:E; [apply mem_In in E; contradiction|reflexivity].
Qed.

Lemma ups_In g t u : In u (ups g t) <-> In u g /\ u_from u = t.
Proof. unfold ups. rewrite filter_In. rewrite Nat.eqb_eq. tauto. Qed.

Lemma succs_edge g a b : In b (succs g a) <-> edge g a b.
Proof.
  unfold succs, edge. rewrite in_map_iff. split.
  - intros [u [Hb Hin]]. apply ups_In in Hin. exists u. tauto.
  - intros [u [Hin [Hf Ht]]]. exists u. split; [exact Ht|]. apply ups_In. tauto.
Qed.

(* ---------- the DFS ---------- *)

Definition loop (f : nat) (g : registry) (target : name) :=
  fix loop (l : list name) (vis : list name) : option (bool * list name) :=
    match l with
    | [] => Some (false, vis)
    | x :: xs => match dfs f g target x vis with
                 | None => None
                 | Some (true, v) => Some (true, v)
                 | Some (false, v) => loop xs v
                 end
    end.

Lemma dfs_unfold f g t c vis :
  dfs (S f) g t c vis =
    if Nat.eqb c t then Some (true, vis)
    else if mem c vis then Some (false, vis)
    else loop f g t (succs g c) (c :: vis).
Proof. reflexivity. Qed.

Lemma dfs_sound f : forall g t c vis v,
  dfs f g t c vis = Some (true, v) -> reach g c t.
Proof.
  induction f as [|f IH]; intros g t c vis v H; [discriminate|].
  rewrite dfs_unfold in H.
  destruct (Nat.eqb c t) eqn:Ect.
  - apply Nat.eqb_eq in Ect. subst. constructor.
  - destruct (mem c vis); [discriminate|].
    assert (Hl: forall l vis0, (forall x, In x l -> edge g c x) ->
              loop f g t l vis0 = Some (true, v) -> reach g c t).
    { induction l as [|x xs IHl]; intros vis0 Hsub Hl; simpl in Hl; [discriminate|].
      destruct (dfs f g t x vis0) as [[[|] v1]|] eqn:Ed; try discriminate.
      - inversion Hl; subst. eapply reach_step; [apply Hsub; left; reflexivity|].
        eapply IH; eauto.
      - eapply IHl; eauto. intros y Hy. apply Hsub. right. exact Hy. }
    eapply Hl; [|exact H]. intros x Hx. apply succs_edge. exact Hx.
Qed.

Lemma dfs_complete f : forall g t c vis v,
  dfs f g t c vis = Some (false, v) ->
  In c v /\ incl vis v /\
  forall x, In x v -> ~ In x vis -> (x <> t /\ forall y, edge g x y -> In y v).
Proof.
  induction f as [|f IH]; intros g t c vis v H; [discriminate|].
  rewrite dfs_unfold in H.
  destruct (Nat.eqb c t) eqn:Ect; [discriminate|].
  apply Nat.eqb_neq in Ect.
  destruct (mem c vis) eqn:Em.
  - inversion H; subst. apply mem_In in Em. split; [exact Em|]. split; [apply incl_refl|].
    intros x Hx Hn. contradiction.
  - assert (Hnc: ~ In c vis) by (apply mem_false; exact Em).
    assert (Hl: forall l vis0 v0, loop f g t l vis0 = Some (false, v0) ->
              incl vis0 v0 /\ (forall y, In y l -> In y v0) /\
              forall x, In x v0 -> ~ In x vis0 -> (x <> t /\ forall y, edge g x y -> In y v0)).
    { induction l as [|x xs IHl]; intros vis0 v0 Hl; simpl in Hl.
      - inversion Hl; subst. split; [apply incl_refl|]. split; [intros y []|].
        intros x Hx Hn. contradiction.
      - destruct (dfs f g t x vis0) as [[[|] v1]|] eqn:Ed; try discriminate.
        destruct (IH _ _ _ _ _ Ed) as [Hx1 [I1 C1]].
        destruct (IHl _ _ Hl) as [I2 [Hin2 C2]].
        split; [intros z Hz; apply I2, I1, Hz|].
        split.
        + intros y [Hy|Hy]; [subst; apply I2, Hx1 | apply Hin2, Hy].
        + intros z Hz Hn.
          destruct (in_dec Nat.eq_dec z v1) as [Hin|Hnin].
          * destruct (C1 z Hin Hn) as [Hne Hs]. split; [exact Hne|].
            intros y Hy. apply I2, Hs, Hy.
          * apply C2; assumption. }
    destruct (Hl _ _ _ H) as [I [Hs C]].
    split; [apply I; left; reflexivity|].
    split; [intros z Hz; apply I; right; exact Hz|].
    intros x Hx Hn.
    destruct (Nat.eq_dec x c) as [->|Hxc].
    + split; [exact Ect|]. intros y Hy. apply Hs. apply succs_edge. exact Hy.
    + apply C; [exact Hx|]. intros [Heq|Hin]; [congruence|contradiction].
Qed.

Lemma closed_reach g t v :
  (forall x, In x v -> x <> t /\ forall y, edge g x y -> In y v) ->
  forall a b, reach g a b -> In a v -> In b v.
Proof.
  intros C a b R. induction R as [a|a b c E R IH]; intros Ha; [exact Ha|].
  apply IH. destruct (C a Ha) as [_ Hs]. apply Hs. exact E.
Qed.

Lemma dfs_false_not_reach f g t c v :
  dfs f g t c [] = Some (false, v) -> ~ reach g c t.
Proof.
  intros H R. destruct (dfs_complete _ _ _ _ _ _ H) as [Hc [_ C]].
  assert (C': forall x, In x v -> x <> t /\ forall y, edge g x y -> In y v).
  { intros x Hx. apply C; [exact Hx|]. intros []. }
  pose proof (closed_reach g t v C' c t R Hc) as Ht.
  destruct (C' t Ht) as [Hne _]. congruence.
Qed.

(* fuel sufficiency *)
Definition remn (U vis : list name) : nat := length (filter (fun x => negb (mem x vis)) U).

Lemma remn_mono U : forall vis vis', incl vis vis' -> remn U vis' <= remn U vis.
Proof.
  induction U as [|u U IH]; intros vis vis' I; unfold remn in *; simpl; [lia|].
  specialize (IH vis vis' I).
  destruct (mem u vis) eqn:E1; destruct (mem u vis') eqn:E2; simpl; try lia.
  apply mem_In in E1. apply I in E1. apply mem_In in E1. congruence.
Qed.

Lemma remn_decr U : forall c vis, In c U -> ~ In c vis -> remn U (c :: vis) < remn U vis.
Proof.
  induction U as [|u U IH]; intros c vis Hc Hn; [destruct Hc|].
  unfold remn in *. cbn [filter].
  assert (Hle: length (filter (fun x => negb (mem x (c :: vis))) U)
               <= length (filter (fun x => negb (mem x vis)) U)).
  { apply (remn_mono U vis (c :: vis)). intros z Hz. right. exact Hz. }
  destruct (Nat.eq_dec u c) as [->|Hne].
  - assert (E1: mem c (c :: vis) = true) by (apply mem_In; left; reflexivity).
    assert (E2: mem c vis = false) by (apply mem_false; exact Hn).
    rewrite E1, E2. cbn [negb length]. lia.
  - destruct Hc as [Hc|Hc]; [congruence|].
    specialize (IH c vis Hc Hn).
    assert (E: mem u (c :: vis) = mem u vis).
    { unfold mem. simpl. destruct (Nat.eqb u c) eqn:Eu; [apply Nat.eqb_eq in Eu; congruence|reflexivity]. }
    rewrite E. destruct (mem u vis); cbn [negb length]; lia.
Qed.

Lemma dfs_fuel_enough U g t :
  (forall a b, edge g a b -> In b U) ->
  forall f c vis, In c U -> remn U vis < f -> dfs f g t c vis <> None.
Proof.
  intros HU. induction f as [|f IH]; intros c vis Hc Hf; [lia|].
  rewrite dfs_unfold.
  destruct (Nat.eqb c t); [discriminate|].
  destruct (mem c vis) eqn:Em; [discriminate|].
  assert (Hn: ~ In c vis) by (apply mem_false; exact Em).
  pose proof (remn_decr U c vis Hc Hn) as Hd.
  assert (Hl: forall l vis0, (forall x, In x l -> In x U) -> remn U vis0 < f ->
             loop f g t l vis0 <> None).
  { induction l as [|x xs IHl]; intros vis0 Hsub Hr; simpl; [discriminate|].
    destruct (dfs f g t x vis0) as [[[|] v1]|] eqn:Ed.
    - discriminate.
    - apply IHl; [intros y Hy; apply Hsub; right; exact Hy|].
      destruct (dfs_complete _ _ _ _ _ _ Ed) as [_ [I _]].
      pose proof (remn_mono U vis0 v1 I). lia.
    - exfalso. eapply IH; [apply Hsub; left; reflexivity | exact Hr | exact Ed]. }
  apply Hl; [|lia].
  intros x Hx. apply succs_edge in Hx. eapply HU; eauto.
Qed.

Lemma remn_le_length U vis : remn U vis <= length U.
Proof. unfold remn. induction U as [|u U IH]; simpl; [lia|]. destruct (negb (mem u vis)); simpl; lia. Qed.

(* would_cycle decides reachability, never runs out of fuel *)
Lemma would_cycle_spec g from to :
  (would_cycle g from to = Some true /\ reach g to from) \/
  (would_cycle g from to = Some false /\ ~ reach g to from).
Proof.
  unfold would_cycle.
  destruct (dfs (dfs_fuel g) g from to []) as [[b v]|] eqn:E.
  - destruct b.
    + left. split; [reflexivity|]. eapply dfs_sound; eauto.
    + right. split; [reflexivity|]. eapply dfs_false_not_reach; eauto.
  - exfalso.
    eapply (dfs_fuel_enough (to :: map u_to g) g from); [| | |exact E].
    + intros a b [u [Hin [_ Hb]]]. right. subst b. apply in_map. exact Hin.
    + left. reflexivity.
    + pose proof (remn_le_length (to :: map u_to g) []) as Hle.
      simpl in Hle. rewrite map_length in Hle. unfold dfs_fuel. lia.
Qed.

(* ---------- register ---------- *)

Definition new_upc from to f := {| u_from := from; u_to := to; u_fn := f |}.

Theorem register_accept_iff g from to f :
  let ok := from <> 0 /\ to <> 0 /\ from <> to /\ f <> 0 /\ ~ reach g to from in
  (ok -> register g from to f = (g ++ [new_upc from to f], RegOk)) /\
  (~ ok -> register g from to f = (g, RegRejected)).
Proof.
  cbv zeta. unfold register.
  destruct (Nat.eqb from 0) eqn:E1; [apply Nat.eqb_eq in E1|apply Nat.eqb_neq in E1]; cbn [orb].
  { split; [intros [H _]; contradiction|reflexivity]. }
  destruct (Nat.eqb to 0) eqn:E2; [apply Nat.eqb_eq in E2|apply Nat.eqb_neq in E2].
  { split; [intros [_ [H _]]; contradiction|reflexivity]. }
  destruct (Nat.eqb from to) eqn:E3; [apply Nat.eqb_eq in E3|apply Nat.eqb_neq in E3].
  { split; [intros [_ [_ [H _]]]; contradiction|reflexivity]. }
  destruct (Nat.eqb f 0) eqn:E4; [apply Nat.eqb_eq in E4|apply Nat.eqb_neq in E4].
  { split; [intros [_ [_ [_ [H _]]]]; contradiction|reflexivity]. }
  destruct (would_cycle_spec g from to) as [[-> R]|[-> R]].
  - split; [intros [_ [_ [_ [_ H]]]]; contradiction|reflexivity].
  - split; [reflexivity|]. intros H. exfalso. apply H. tauto.
Qed.

Lemma reach_add g from to f x y :
  reach (g ++ [new_upc from to f]) x y ->
  reach g x y \/ (reach g x from /\ reach g to y).
Proof.
  induction 1 as [a|a b c E R IH].
  - left. constructor.
  - destruct E as [u [Hin [Hf Ht]]]. apply in_app_or in Hin. destruct Hin as [Hin|[Hu|[]]].
    + assert (Eg: edge g a b) by (exists u; tauto).
      destruct IH as [IH|[IH1 IH2]].
      * left. eapply reach_step; eauto.
      * right. split; [eapply reach_step; eauto|exact IH2].
    + subst u. simpl in Hf, Ht. subst a b.
      destruct IH as [IH|[IH1 IH2]].
      * right. split; [constructor|exact IH].
      * right. split; [constructor|exact IH2].
Qed.

Lemma acyclic_add g from to f :
  acyclic g -> ~ reach g to from -> acyclic (g ++ [new_upc from to f]).
Proof.
  intros A NR a [b [E R]].
  destruct E as [u [Hin [Hf Ht]]]. apply in_app_or in Hin.
  apply reach_add in R.
  destruct Hin as [Hin|[Hu|[]]].
  - assert (Eg: edge g a b) by (exists u; tauto).
    destruct R as [R|[R1 R2]].
    + apply (A a). exists b. split; assumption.
    + apply NR. eapply reach_trans; [exact R2|]. eapply reach_step; eauto.
  - subst u. simpl in Hf, Ht. subst a b.
    destruct R as [R|[R1 R2]]; apply NR; assumption.
Qed.

Lemma reach_incl g g' a b : incl g g' -> reach g a b -> reach g' a b.
Proof.
  intros I. induction 1 as [a|a b c E R IH]; [constructor|].
  eapply reach_step; [|exact IH]. destruct E as [u [Hin H]]. exists u. split; [apply I, Hin|exact H].
Qed.

Lemma acyclic_incl g g' : incl g g' -> acyclic g' -> acyclic g.
Proof.
  intros I A a [b [E R]]. apply (A a). exists b. split.
  - destruct E as [u [Hin H]]. exists u. split; [apply I, Hin|exact H].
  - eapply reach_incl; eauto.
Qed.

Lemma acyclic_nil : acyclic [].
Proof. intros a [b [[u [[] _]] _]]. Qed.

Lemma register_acyclic g from to f : acyclic g -> acyclic (fst (register g from to f)).
Proof.
  intros A. pose proof (register_accept_iff g from to f) as [H1 H2]. cbv zeta in *.
  destruct (Nat.eq_dec from 0) as [|N1]; [rewrite H2 by tauto; exact A|].
  destruct (Nat.eq_dec to 0) as [|N2]; [rewrite H2 by tauto; exact A|].
  destruct (Nat.eq_dec from to) as [|N3]; [rewrite H2 by tauto; exact A|].
  destruct (Nat.eq_dec f 0) as [|N4]; [rewrite H2 by tauto; exact A|].
  destruct (would_cycle_spec g from to) as [[_ R]|[_ R]].
  - rewrite H2 by tauto. exact A.
  - rewrite H1 by tauto. simpl. apply acyclic_add; assumption.
Qed.

(* the public registry API as operations *)
Inductive uop := OReg (from to : name) (f : fnid) | OClear | OClearType (t : name).

Definition do_uop (g : registry) (o : uop) : registry :=
  match o with
  | OReg from to f => fst (register g from to f)
  | OClear => clear_all g
  | OClearType t => clear_type g t
  end.

Theorem acyclic_invariant : forall ops, acyclic (fold_left do_uop ops []).
Proof.
  assert (H: forall ops g, acyclic g -> acyclic (fold_left do_uop ops g)).
  { induction ops as [|o ops IH]; intros g A; [exact A|]. cbn [fold_left]. apply IH.
    destruct o as [from to f| |t]; cbn [do_uop].
    - apply register_acyclic, A.
    - apply acyclic_nil.
    - eapply acyclic_incl; [|exact A]. unfold clear_type. intros u Hu.
      apply filter_In in Hu. tauto. }
  intros ops. apply H, acyclic_nil.
Qed.

(* two racing registrations: registration is one atomic step under the write lock,
   so a race is one of the two sequential orders; both are covered above. *)

(* ---------- apply ---------- *)
Section ApplyProofs.
  Variable data : Type.
  Variable beh : fnid -> data -> option (data * name).

  Lemma ups_head_edge g t u rest : ups g t = u :: rest -> In u g /\ u_from u = t.
  Proof. intros H. apply ups_In. rewrite H. left. reflexivity. Qed.

  Lemma apply_loop_fuel : forall fuel g d t applied,
    NoDup applied -> incl applied (map u_from g) -> ~ In t applied ->
    length g < fuel + length applied ->
    apply_loop beh fuel g d t applied <> ApOutOfFuel.
  Proof.
    induction fuel as [|f IH]; intros g d t applied ND I NI L.
    - exfalso. pose proof (NoDup_incl_length ND I) as Hle. rewrite map_length in Hle. simpl in L. lia.
    - cbn [apply_loop].
      destruct (ups g t) as [|u rest] eqn:Eu; [discriminate|].
      destruct (mem (u_to u) (t :: applied)); [discriminate|].
      destruct (beh (u_fn u) d) as [[d' t']|]; [|discriminate].
      destruct (mem t' (t :: applied)) eqn:Em; [discriminate|].
      apply IH.
      + constructor; assumption.
      + intros x [Hx|Hx]; [|apply I, Hx]. subst x.
        apply ups_head_edge in Eu. destruct Eu as [Hin Hf]. rewrite <- Hf. apply in_map. exact Hin.
      + apply mem_false. exact Em.
      + simpl. lia.
  Qed.

  Theorem apply_terminates g d t : apply beh g d t <> ApOutOfFuel.
  Proof.
    unfold apply. destruct (ups g t) eqn:E; [discriminate|].
    apply apply_loop_fuel; [constructor|intros x []|intros []|unfold apply_fuel; simpl; lia].
  Qed.

  (* the specification: repeatedly apply the first-registered upcaster of the current type *)
  Inductive chain (g : registry) : data -> name -> apply_result data -> Prop :=
  | ch_done d t : ups g t = [] -> chain g d t (ApOk d t)
  | ch_fail d t u rest : ups g t = u :: rest -> beh (u_fn u) d = None -> chain g d t (ApFail t d)
  | ch_step d t u rest d' t' r : ups g t = u :: rest -> beh (u_fn u) d = Some (d', t') ->
                                 chain g d' t' r -> chain g d t r.

  Definition honours (g : registry) : Prop :=
    forall u d d' t', In u g -> beh (u_fn u) d = Some (d', t') -> t' = u_to u.

  Lemma chain_det g d t r1 r2 : chain g d t r1 -> chain g d t r2 -> r1 = r2.
  Proof.
    intros C1. revert r2. induction C1 as [d t E|d t u rest E B|d t u rest d' t' r E B C IH]; intros r2 C2;
      inversion C2; subst; try congruence.
    - rewrite E in H. inversion H; subst. rewrite B in H0. inversion H0; subst. apply IH. assumption.
  Qed.

  Lemma apply_loop_chain : forall fuel g d t applied,
    acyclic g -> honours g ->
    (forall x, In x applied -> reach_plus g x t) ->
    NoDup applied -> incl applied (map u_from g) ->
    length g < fuel + length applied ->
    chain g d t (apply_loop beh fuel g d t applied).
  Proof.
    induction fuel as [|f IH]; intros g d t applied A Hh RP ND I L.
    - exfalso. pose proof (NoDup_incl_length ND I) as Hle. rewrite map_length in Hle. simpl in L. lia.
    - cbn [apply_loop].
      destruct (ups g t) as [|u rest] eqn:Eu; [apply ch_done; exact Eu|].
      pose proof (ups_head_edge _ _ _ _ Eu) as [Hin Hf].
      assert (Et: edge g t (u_to u)) by (exists u; tauto).
      assert (Hnt: ~ In t applied).
      { intros Hx. apply (A t). apply RP. exact Hx. }
      assert (Hm: mem (u_to u) (t :: applied) = false).
      { apply mem_false. intros [Hx|Hx].
        - apply (A t). exists (u_to u). split; [exact Et|]. rewrite Hx. constructor.
        - apply (A t). exists (u_to u). split; [exact Et|].
          destruct (RP _ Hx) as [b [E R]]. eapply reach_step; eauto. }
      rewrite Hm.
      destruct (beh (u_fn u) d) as [[d' t']|] eqn:Eb.
      + pose proof (Hh _ _ _ _ Hin Eb) as Ht'. subst t'. rewrite Hm.
        eapply ch_step; [exact Eu|exact Eb|].
        apply IH; try assumption.
        * intros x [Hx|Hx].
          -- subst x. exists (u_to u). split; [exact Et|constructor].
          -- destruct (RP _ Hx) as [b [E R]]. exists b. split; [exact E|]. eapply reach_snoc; eauto.
        * constructor; assumption.
        * intros x [Hx|Hx]; [|apply I, Hx]. subst x. rewrite <- Hf. apply in_map. exact Hin.
        * simpl. lia.
      + eapply ch_fail; eauto.
  Qed.

  Theorem apply_chain g d t :
    acyclic g -> honours g -> chain g d t (apply beh g d t).
  Proof.
    intros A Hh. unfold apply. destruct (ups g t) as [|u rest] eqn:E; [apply ch_done; exact E|].
    apply apply_loop_chain; try assumption.
    - intros x [].
    - constructor.
    - intros x [].
    - unfold apply_fuel. simpl. lia.
  Qed.

  Theorem apply_untouched g d t : ups g t = [] -> apply beh g d t = ApOk d t.
  Proof. intros H. unfold apply. rewrite H. reflexivity. Qed.

  (* all-or-nothing at the replay wrapper: the callback is handed either the fully
     upcast event or the original one, offset and timestamp unchanged, and the error
     handler is called exactly once exactly when a step failed. *)
  Theorem upcast_event_all_or_nothing g (e : stored data) :
    let '(e', calls) := upcast_event beh g e in
    s_off e' = s_off e /\ s_ts e' = s_ts e /\
    match apply beh g (s_data e) (s_ty e) with
    | ApOk d t => s_data e' = d /\ s_ty e' = t /\ calls = []
    | ApFail t d => e' = e /\ calls = [(t, d)]
    | _ => e' = e /\ calls = []
    end.
  Proof.
    unfold upcast_event. destruct (apply beh g (s_data e) (s_ty e)); simpl; auto.
  Qed.
End ApplyProofs.

(* typed upcasters (RegisterUpcast): data -> decode -> f -> encode, returning the declared target *)
Section Typed.
  Variables (data A B : Type).
  Variable decode : data -> option A.
  Variable encode : B -> option data.
  Variable f : A -> B.
  Variable to : name.
  Definition typed_upcast (d : data) : option (data * name) :=
    match decode d with
    | None => None
    | Some a => match encode (f a) with None => None | Some d' => Some (d', to) end
    end.
  Theorem typed_upcast_spec d a d' :
    decode d = Some a -> encode (f a) = Some d' -> typed_upcast d = Some (d', to).
  Proof. intros H1 H2. unfold typed_upcast. rewrite H1, H2. reflexivity. Qed.
  Theorem typed_upcast_honours d d' t' : typed_upcast d = Some (d', t') -> t' = to.
  Proof. unfold typed_upcast. destruct (decode d); [|discriminate]. destruct (encode (f a)); [|discriminate].
         intros H. inversion H. reflexivity. Qed.
End Typed.
