(* Model of /repo/upcast.go: the upcast registry (register / clear / clearType,
   the recursive cycle check with a shared visited set) and the apply loop.
   No proofs in this file: it must keep evaluating when a proof breaks. *)
From Coq Require Import List Arith Bool.
Import ListNotations.

Definition name := nat.          (* type names; 0 models the empty string *)
Definition fnid := nat.          (* identity of an upcast function; 0 models nil *)

Record upc := { u_from : name; u_to : name; u_fn : fnid }.

(* map[string][]Upcaster, kept as one list in registration order: the per-source
   slices of the Go map are the order-preserving filters of this list. *)
Definition registry := list upc.

Definition ups (g : registry) (t : name) : list upc :=
  filter (fun u => Nat.eqb (u_from u) t) g.

Definition succs (g : registry) (t : name) : list name := map u_to (ups g t).

Definition mem (x : name) (l : list name) : bool := existsb (Nat.eqb x) l.

(* hasCycleDFS(current, target, visited): recursion on explicit fuel; None = out of fuel. *)
Fixpoint dfs (fuel : nat) (g : registry) (target cur : name) (vis : list name)
  : option (bool * list name) :=
  match fuel with
  | 0 => None
  | S f =>
    if Nat.eqb cur target then Some (true, vis)
    else if mem cur vis then Some (false, vis)
    else
      (fix loop (l : list name) (vis : list name) : option (bool * list name) :=
         match l with
         | [] => Some (false, vis)
         | x :: xs => match dfs f g target x vis with
                      | None => None
                      | Some (true, v) => Some (true, v)
                      | Some (false, v) => loop xs v
                      end
         end) (succs g cur) (cur :: vis)
  end.

Definition dfs_fuel (g : registry) : nat := length g + 2.

(* wouldCreateCycle(from, to): is there already a path to ->* from ? *)
Definition would_cycle (g : registry) (from to : name) : option bool :=
  match dfs (dfs_fuel g) g from to [] with
  | None => None
  | Some (b, _) => Some b
  end.

Inductive reg_result := RegOk | RegRejected | RegOutOfFuel.

(* register: the three argument checks, then the cycle check, then append. *)
Definition register (g : registry) (from to : name) (f : fnid) : registry * reg_result :=
  if Nat.eqb from 0 || Nat.eqb to 0 then (g, RegRejected)
  else if Nat.eqb from to then (g, RegRejected)
  else if Nat.eqb f 0 then (g, RegRejected)
  else match would_cycle g from to with
       | None => (g, RegOutOfFuel)
       | Some true => (g, RegRejected)
       | Some false => (g ++ [{| u_from := from; u_to := to; u_fn := f |}], RegOk)
       end.

Definition clear_all (g : registry) : registry := [].
Definition clear_type (g : registry) (t : name) : registry :=
  filter (fun u => negb (Nat.eqb (u_from u) t)) g.

(* ---- apply ---- *)
Section Apply.
  Variable data : Type.
  (* behaviour of the registered functions: None = the function returned an error,
     Some (d, t) = transformed data and the type name it *returned* (a raw upcaster
     may return anything, not only its declared target). *)
  Variable beh : fnid -> data -> option (data * name).

  Inductive apply_result :=
  | ApOk (d : data) (t : name)
  | ApLoop                      (* "upcast loop detected": original event is used *)
  | ApFail (t : name) (d : data) (* a step failed; error handler gets (t, d) *)
  | ApOutOfFuel.

  (* One iteration of the for-loop in apply, [applied] is appliedTypes before
     the iteration marks the current type. *)
  Fixpoint apply_loop (fuel : nat) (g : registry) (cur_d : data) (cur_t : name)
           (applied : list name) : apply_result :=
    match fuel with
    | 0 => ApOutOfFuel
    | S f =>
      let applied' := cur_t :: applied in
      match ups g cur_t with
      | [] => ApOk cur_d cur_t
      | u :: _ =>
        if mem (u_to u) applied' then ApLoop
        else match beh (u_fn u) cur_d with
             | None => ApFail cur_t cur_d
             | Some (d', t') =>
               if mem t' applied' then ApLoop   (* returned type already processed *)
               else apply_loop f g d' t' applied'
             end
      end
    end.

  Definition apply_fuel (g : registry) : nat := length g + 2.

  Definition apply (g : registry) (d : data) (t : name) : apply_result :=
    match ups g t with
    | [] => ApOk d t
    | _ => apply_loop (apply_fuel g) g d t []
    end.

  (* What the replay callback is handed for a stored event, and the error-handler calls. *)
  Record stored := { s_off : nat; s_ty : name; s_data : data; s_ts : nat }.

  Definition upcast_event (g : registry) (e : stored) : stored * list (name * data) :=
    match apply g (s_data e) (s_ty e) with
    | ApOk d t => ({| s_off := s_off e; s_ty := t; s_data := d; s_ts := s_ts e |}, [])
    | ApFail t d => (e, [(t, d)])
    | ApLoop => (e, [])
    | ApOutOfFuel => (e, [])
    end.
End Apply.

Arguments ApOk {data}. Arguments ApLoop {data}. Arguments ApFail {data}. Arguments ApOutOfFuel {data}.
Arguments apply {data}. Arguments apply_loop {data}. Arguments upcast_event {data}.
Arguments Build_stored {data}. Arguments s_off {data}. Arguments s_ty {data}.
Arguments s_data {data}. Arguments s_ts {data}.
