(* C03, deadlock half, without the acyclicity hypothesis for a natural class of programs: if no Sequential handler
   publishes (its body contains no publish action; it may subscribe, unsubscribe, clear, query, cancel, panic), then the
   frames of Sequential handlers never nest, a goroutine that waits for a handler mutex holds none, and the progress
   theorem needs no assumption about cycles.  Handlers that are not Sequential, filters, hooks and the panic handler may
   publish as they like. *)
From Coq Require Import List Arith Bool Lia.
Import ListNotations.
From Ebu Require Import Bus.BusModel Bus.BusInv.

Definition is_pub (a : action) : bool := match a with APub _ _ _ _ => true | _ => false end.
Definition nopubb (l : list action) : bool := forallb (fun a => negb (is_pub a)) l.
Definition leafspec (P : program) (sp : hspec) : bool := if h_seq sp then nopubb (body_of P (h_body sp)) else true.
Definition okact (P : program) (a : action) : bool := match a with ASub _ sp => leafspec P sp | _ => true end.
Definition okacts (P : program) (l : list action) : bool := forallb (okact P) l.

(* the program text: every subscription of a Sequential handler made anywhere in it is to a body that does not publish *)
Record Pleaf (P : program) : Prop := {
  pl_bodies : forall b, okacts P (body_of P b) = true;
  pl_filters : forall f fl, assoc_get (p_filters P) f = Some fl -> okacts P (f_acts fl) = true
}.

(* ---------- every registration in the system is such a one ---------- *)
Definition hof (i : instr) : option regn :=
  match i with
  | IEntry _ h | IFilterDone _ h | IClaim _ h | IDispatch _ h | IHandlerStart _ h _ | ILock h | IEnter _ h
  | IRecover _ h _ | IUnlock h | IPanicHandler _ h | IHandlerDone _ h _ | ITaskStart _ h => Some h
  | _ => None
  end.
Definition iok (P : program) (i : instr) : bool :=
  match i with
  | IAct a | IDo a => okact P a
  | _ => match hof i with Some h => leafspec P (r_spec h) | None => true end
  end.
Definition cok (P : program) (c : list instr) : Prop := forall i, In i c -> iok P i = true.
Definition rok (P : program) (reg : list (ty * list regn)) : Prop :=
  forall t l h, In (t, l) reg -> In h l -> leafspec P (r_spec h) = true.

Lemma cok_app P a b : cok P a -> cok P b -> cok P (a ++ b).
Proof. intros Ha Hb i Hi. apply in_app_or in Hi. destruct Hi; auto. Qed.
Lemma cok_cons P i c : iok P i = true -> cok P c -> cok P (i :: c).
Proof. intros Hi Hc x [<-|Hx]; auto. Qed.
Lemma cok_nil P : cok P []. Proof. intros i []. Qed.
Lemma cok_tail P i c : cok P (i :: c) -> cok P c.
Proof. intros H x Hx. apply H. right. exact Hx. Qed.
Lemma cok_acts P l : okacts P l = true -> cok P (acts l).
Proof.
  intros H i Hi. unfold acts in Hi. apply in_map_iff in Hi. destruct Hi as [a [<- Ha]]. cbn [iok].
  unfold okacts in H. rewrite forallb_forall in H. apply H, Ha.
Qed.
Lemma cok_entries P p l : (forall h, In h l -> leafspec P (r_spec h) = true) -> cok P (map (IEntry p) l).
Proof. intros H i Hi. apply in_map_iff in Hi. destruct Hi as [h [<- Hh]]. cbn. apply H, Hh. Qed.
Lemma cok_shards P l : cok P (map IClearShard l).
Proof. intros i Hi. apply in_map_iff in Hi. destruct Hi as [a [<- _]]. reflexivity. Qed.
Lemma cok_after_recover P cfg p h async panicked : leafspec P (r_spec h) = true -> cok P (after_recover cfg p h async panicked).
Proof.
  intros Hh. unfold after_recover. repeat apply cok_app;
    [destruct (h_seq (r_spec h)) | destruct (panicked && c_panic_handler cfg) | destruct (c_obs cfg) | destruct async];
    try apply cok_nil; intros i [<-|[]]; cbn; try reflexivity; exact Hh.
Qed.
Lemma cok_call_handler P p h async obs : Pleaf P -> leafspec P (r_spec h) = true -> cok P (call_handler P p h async obs).
Proof.
  intros HP Hh. unfold call_handler. repeat apply cok_app; try (apply cok_acts, (pl_bodies P HP));
    [destruct obs | destruct (h_seq (r_spec h)) | | ]; try apply cok_nil; intros i [<-|[]]; cbn; exact Hh.
Qed.
Lemma cok_unwind P l p h async r : unwind l = Some (p, h, async, r) -> cok P l -> cok P r /\ leafspec P (r_spec h) = true.
Proof.
  intros U Hl. apply unwind_spec in U. destruct U as [pre [-> _]]. split.
  - intros i Hi. apply Hl. apply in_or_app. right. right. exact Hi.
  - apply (Hl (IRecover p h async)). apply in_or_app. right. left. reflexivity.
Qed.
Lemma cok_panic_acts P v : Pleaf P -> cok P (acts (panic_acts P v)).
Proof. intros HP. apply cok_acts. unfold panic_acts. destruct (Nat.ltb v panic_retry_below); [apply (pl_bodies P HP) | reflexivity]. Qed.
Lemma cok_filter_acts P f : Pleaf P -> cok P (acts (match assoc_get (p_filters P) f with Some fl => f_acts fl | None => [] end)).
Proof. intros HP. destruct (assoc_get (p_filters P) f) as [fl|] eqn:E; [apply cok_acts, (pl_filters P HP f fl E) | apply cok_nil]. Qed.

Lemma assoc_get_In {V} (l : list (nat * V)) k v : assoc_get l k = Some v -> In (k, v) l.
Proof.
  induction l as [|[k' v'] r IH]; cbn [assoc_get]; [discriminate|].
  destruct (Nat.eqb k' k) eqn:E; intros H; [apply Nat.eqb_eq in E; inversion H; subst; left; reflexivity | right; apply IH, H].
Qed.
Lemma rok_handlers P s t h : rok P (registry s) -> In h (handlers_of s t) -> leafspec P (r_spec h) = true.
Proof.
  intros R Hin. unfold handlers_of in Hin. destruct (assoc_get (registry s) t) as [l|] eqn:E; [|destruct Hin].
  apply (R t l h (assoc_get_In _ _ _ E) Hin).
Qed.
Lemma in_assoc_set {V} (l : list (nat * V)) k v k' v' : In (k', v') (assoc_set l k v) -> (k' = k /\ v' = v) \/ In (k', v') l.
Proof.
  induction l as [|[k0 v0] r IH]; cbn [assoc_set]; intros H.
  - destruct H as [H|[]]. inversion H. left. auto.
  - destruct (Nat.eqb k0 k) eqn:E.
    + destruct H as [H|H]; [inversion H; left; auto | right; right; exact H].
    + destruct H as [H|H]; [right; left; exact H | destruct (IH H) as [X|X]; [left; exact X | right; right; exact X]].
Qed.
Lemma rok_set P reg t l : rok P reg -> (forall h, In h l -> leafspec P (r_spec h) = true) -> rok P (assoc_set reg t l).
Proof.
  intros R Hl t' l' h Hin Hh. destruct (in_assoc_set _ _ _ _ _ Hin) as [[-> ->]|Hold]; [apply Hl, Hh | apply (R t' l' h Hold Hh)].
Qed.
Lemma rok_sub P reg reg' : rok P reg -> (forall x, In x reg' -> In x reg) -> rok P reg'.
Proof. intros R Hs t l h Hin Hh. apply (R t l h (Hs _ Hin) Hh). Qed.

Definition hinv (P : program) (s : bstate) : Prop :=
  (forall a c, assoc_get (code s) a = Some c -> cok P c) /\ rok P (registry s).

Ltac ck_tac HP Nr Hh :=
  repeat first
    [ exact Nr
    | apply cok_nil
    | (apply cok_after_recover; exact Hh)
    | (apply (cok_call_handler _ _ _ _ _ HP); exact Hh)
    | apply (cok_panic_acts _ _ HP)
    | apply (cok_filter_acts _ _ HP)
    | apply cok_acts, (pl_bodies _ HP)
    | apply cok_shards
    | apply cok_cons; [first [reflexivity | exact Hh]|]
    | apply cok_app
    | match goal with |- cok _ (if ?b then _ else _) => destruct b end
    | match goal with |- cok _ (match ?b with _ => _ end) => destruct b end
    | (let i := fresh in let H := fresh in intros i H; destruct H as [<-|[]]; cbn; first [reflexivity | exact Hh])
    | (let i := fresh in let H := fresh in intros i H; destruct H) ].

Lemma upd_pub_registry' s p f : registry (upd_pub s p f) = registry s.
Proof. unfold upd_pub. destruct (assoc_get (pubs s) p); reflexivity. Qed.

Ltac fin_hok tac :=
  split; [eexists; split;
          [first [apply code_cont | (cbn [cont set_code code]; rewrite ?upd_pub_code; apply assoc_get_set_same)]
          | tac]|];
  split; [cbn [cont set_code set_registry registry]; rewrite ?upd_pub_registry'; cbn [registry]; assumption|];
  let b := fresh "b" in let c0 := fresh "c0" in let Nba := fresh "Nba" in let Hb := fresh "Hb" in
  intros b c0 Nba Hb; left; cbn [cont set_code code] in Hb; rewrite ?upd_pub_code in Hb; cbn [code] in Hb;
  rewrite assoc_get_set_other in Hb by congruence; exact Hb.

Lemma remove_first_fn_sub l fn l' : remove_first_fn l fn = Some l' -> forall h, In h l' -> In h l.
Proof.
  revert l'. induction l as [|x l IH]; intros l' H; [discriminate|]. cbn [remove_first_fn] in H.
  destruct (Nat.eqb (h_fn (r_spec x)) fn).
  - inversion H; subst. intros h Hh. right. exact Hh.
  - destruct (remove_first_fn l fn) as [r'|] eqn:E; [|discriminate]. inversion H; subst.
    intros h [<-|Hh]; [left; reflexivity | right; apply (IH r' eq_refl h Hh)].
Qed.
Lemma fold_remove_rid_sub cl : forall l h, In h (fold_left remove_rid cl l) -> In h l.
Proof.
  induction cl as [|r cl IH]; intros l h Hh; [exact Hh|]. cbn [fold_left] in Hh. specialize (IH _ _ Hh).
  unfold remove_rid in IH. apply filter_In in IH. apply IH.
Qed.

Lemma step_hok P cfg s a i rest s' ls :
  Pleaf P -> cok P (i :: rest) -> rok P (registry s) -> step_instr P cfg s a i rest = Some (s', ls) ->
  (exists newc, assoc_get (code s') a = Some newc /\ cok P newc) /\ rok P (registry s') /\
  (forall b c, b <> a -> assoc_get (code s') b = Some c -> assoc_get (code s) b = Some c \/ cok P c).
Proof.
  intros HP Nb R H. pose proof (cok_tail _ _ _ Nb) as Nr. pose proof (Nb i (or_introl eq_refl)) as Ni.
  destruct i; cbn [step_instr] in H.
  all: try (assert (Hh : leafspec P (r_spec h) = true) by exact Ni).
  all: try (break_head H; try discriminate; inversion H; subst; clear H;
            first [solve [fin_hok ltac:(ck_tac HP Nr Hh)] | solve [fin_hok ltac:(ck_tac HP Nr Ni)]]).
  - (* IDo *)
    destruct a0; cbn [step_instr] in H; break_head H; try discriminate; inversion H; subst; clear H;
      try solve [fin_hok ltac:(ck_tac HP Nr Ni)].
    + (* ASub: the new registration *)
      cbn [iok okact] in Ni.
      split; [eexists; split; [apply code_cont | exact Nr]|]. split.
      * cbn [cont set_code set_registry registry]. apply rok_set; [exact R|].
        intros h Hh. apply in_app_or in Hh. destruct Hh as [Hh|[<-|[]]]; [apply (rok_handlers P s t h R Hh) | exact Ni].
      * intros b c0 Nba Hb. left. cbn [cont set_code set_registry code] in Hb. rewrite assoc_get_set_other in Hb by congruence. exact Hb.
    + (* AUnsub found *)
      split; [eexists; split; [apply code_cont | exact Nr]|]. split.
      * cbn [cont set_code set_registry registry]. apply rok_set; [exact R|].
        intros h Hh. match goal with E : remove_first_fn _ _ = Some _ |- _ => apply (remove_first_fn_sub _ _ _ E) in Hh end.
        apply (rok_handlers P s t h R Hh).
      * intros b c0 Nba Hb. left. cbn [cont set_code set_registry code] in Hb. rewrite assoc_get_set_other in Hb by congruence. exact Hb.
    + (* AClear *)
      split; [eexists; split; [apply code_cont | exact Nr]|]. split.
      * cbn [cont set_code set_registry registry]. apply (rok_sub P (registry s)); [exact R|].
        intros x Hx. unfold assoc_del in Hx. apply filter_In in Hx. apply Hx.
      * intros b c0 Nba Hb. left. cbn [cont set_code set_registry code] in Hb. rewrite assoc_get_set_other in Hb by congruence. exact Hb.
    + (* AShutdown: the waiter goroutine *)
      split; [eexists; split; [apply code_cont | ck_tac HP Nr Ni]|]. split; [exact R|].
      intros b c0 Nba Hb. cbn [cont set_code code] in Hb. rewrite assoc_get_set_other in Hb by congruence.
      destruct (Nat.eq_dec (next_actor s) b) as [<-|N].
      * rewrite assoc_get_set_same in Hb. inversion Hb; subst. right. intros x [<-|[]]. reflexivity.
      * rewrite assoc_get_set_other in Hb by exact N. left. exact Hb.
    + (* APanic recovered *)
      match goal with U : unwind rest = Some (?p0, ?h, ?async, ?r) |- _ => destruct (cok_unwind P rest p0 h async r U Nr) as [Nr2 Hh] end.
      fin_hok ltac:(apply cok_app; [apply cok_after_recover; exact Hh | exact Nr2]).
  - (* ISnapshot: the handlers come from the registry *)
    inversion H; subst; clear H.
    fin_hok ltac:(apply cok_app; [apply cok_entries; intros h Hh; apply (rok_handlers P s _ h R Hh) | ck_tac HP Nr Ni]).
  - (* IDispatch async: the new goroutine *)
    break_head H; try discriminate; inversion H; subst; clear H; try solve [fin_hok ltac:(ck_tac HP Nr Hh)].
    split; [eexists; split; [apply code_cont | exact Nr]|]. split; [exact R|].
    intros b c0 Nba Hb. cbn [cont set_code code] in Hb. rewrite assoc_get_set_other in Hb by congruence.
    destruct (Nat.eq_dec (next_actor s) b) as [<-|N].
    + rewrite assoc_get_set_same in Hb. inversion Hb; subst. right. intros x [<-|[]]. cbn. exact Hh.
    + rewrite assoc_get_set_other in Hb by exact N. left. exact Hb.
  - (* IRemoveOnce *)
    break_head H; try discriminate; inversion H; subst; clear H; try solve [fin_hok ltac:(ck_tac HP Nr Ni)].
    split; [eexists; split; [apply code_cont | exact Nr]|]. split.
    + cbn [cont set_code set_registry registry]. apply rok_set; [exact R|].
      intros h Hh. apply (rok_handlers P s (pb_ty (get_pub s p)) h R).
      match goal with E : pb_claimed _ = ?cl |- _ => apply (fold_remove_rid_sub cl) end. exact Hh.
    + intros b c0 Nba Hb. left. cbn [cont set_code set_registry code] in Hb. rewrite assoc_get_set_other in Hb by congruence. exact Hb.
  - (* IClearShard *)
    inversion H; subst; clear H.
    split; [eexists; split; [apply code_cont | exact Nr]|]. split.
    + cbn [cont set_code set_registry registry]. apply (rok_sub P (registry s)); [exact R|].
      intros x Hx. apply filter_In in Hx. apply Hx.
    + intros b c0 Nba Hb. left. cbn [cont set_code set_registry code] in Hb. rewrite assoc_get_set_other in Hb by congruence. exact Hb.
Qed.

(* ---------- the frames of Sequential handlers never nest ---------- *)
Definition is_mark (i : instr) : bool :=
  match i with IUnlock _ => true | IRecover _ h _ => h_seq (r_spec h) | _ => false end.
Definition nomark (c : list instr) : Prop := forall i, In i c -> is_mark i = false.
Definition quiet_i (i : instr) : bool :=
  match i with
  | IAct a | IDo a => negb (is_pub a)
  | IEnter _ _ | IClearShard _ | ILock _ | IHandlerStart _ _ _ | IShutdownSelect _ _ | ICrashed => true
  | _ => false
  end.
Definition quietl (c : list instr) : Prop := forall i, In i c -> quiet_i i = true.
(* the code of a goroutine: no open frame of a Sequential handler, or exactly one, and everything in front of its marker
   (the recover frame, later the deferred unlock) is an instruction that neither publishes nor dispatches *)
Definition nst (c : list instr) : Prop :=
  nomark c \/ exists pre m post, c = pre ++ m :: post /\ is_mark m = true /\ quietl pre /\ nomark post.

Lemma quiet_not_mark i : quiet_i i = true -> is_mark i = false.
Proof. destruct i; cbn; try discriminate; reflexivity. Qed.
Lemma nomark_app a b : nomark a -> nomark b -> nomark (a ++ b).
Proof. intros Ha Hb i Hi. apply in_app_or in Hi. destruct Hi; auto. Qed.
Lemma nomark_cons i c : is_mark i = false -> nomark c -> nomark (i :: c).
Proof. intros Hi Hc x [<-|Hx]; auto. Qed.
Lemma nomark_nil : nomark []. Proof. intros i []. Qed.
Lemma nomark_tail i c : nomark (i :: c) -> nomark c.
Proof. intros H x Hx. apply H. right. exact Hx. Qed.
Lemma nomark_acts l : nomark (acts l).
Proof. intros i Hi. unfold acts in Hi. apply in_map_iff in Hi. destruct Hi as [a [<- _]]. reflexivity. Qed.
Lemma nomark_entries p l : nomark (map (IEntry p) l).
Proof. intros i Hi. apply in_map_iff in Hi. destruct Hi as [a [<- _]]. reflexivity. Qed.
Lemma nomark_shards l : nomark (map IClearShard l).
Proof. intros i Hi. apply in_map_iff in Hi. destruct Hi as [a [<- _]]. reflexivity. Qed.
Lemma nomark_after_recover cfg p h async panicked : h_seq (r_spec h) = false -> nomark (after_recover cfg p h async panicked).
Proof.
  intros Hs. unfold after_recover. rewrite Hs. repeat apply nomark_app;
    [ | destruct (panicked && c_panic_handler cfg) | destruct (c_obs cfg) | destruct async];
    try apply nomark_nil; intros i [<-|[]]; reflexivity.
Qed.
Lemma nomark_call_handler P p h async obs : h_seq (r_spec h) = false -> nomark (call_handler P p h async obs).
Proof.
  intros Hs. unfold call_handler. rewrite Hs. repeat apply nomark_app; try apply nomark_acts;
    [destruct obs | | | ]; try apply nomark_nil; intros i [<-|[]]; cbn; try reflexivity; exact Hs.
Qed.
Lemma quietl_app a b : quietl a -> quietl b -> quietl (a ++ b).
Proof. intros Ha Hb i Hi. apply in_app_or in Hi. destruct Hi; auto. Qed.
Lemma quietl_acts l : nopubb l = true -> quietl (acts l).
Proof.
  intros H i Hi. unfold acts in Hi. apply in_map_iff in Hi. destruct Hi as [a [<- Ha]]. cbn.
  unfold nopubb in H. rewrite forallb_forall in H. apply H, Ha.
Qed.
Lemma quietl_tail i c : quietl (i :: c) -> quietl c.
Proof. intros H x Hx. apply H. right. exact Hx. Qed.

(* the call of a Sequential handler whose body does not publish: one frame, quiet up to its marker *)
Lemma call_handler_seq_nst P p h async obs rest :
  h_seq (r_spec h) = true -> nopubb (body_of P (h_body (r_spec h))) = true -> nomark rest ->
  nst (call_handler P p h async obs ++ rest).
Proof.
  intros Hs Hb Nr. right. unfold call_handler. rewrite Hs.
  exists ((if obs then [IHandlerStart p h async] else []) ++ [ILock h] ++ [IEnter p h] ++ acts (body_of P (h_body (r_spec h)))),
         (IRecover p h async), rest.
  split; [rewrite <- !app_assoc; reflexivity|]. split; [cbn; exact Hs|]. split; [|exact Nr].
  repeat apply quietl_app; [destruct obs | | | apply quietl_acts, Hb]; intros i Hi;
    repeat (destruct Hi as [<-|Hi]; [reflexivity|]); destruct Hi.
Qed.

Ltac nm_tac Nr :=
  repeat first
    [ exact Nr
    | apply nomark_nil
    | (apply nomark_after_recover; assumption)
    | (apply nomark_call_handler; assumption)
    | apply nomark_acts
    | apply nomark_entries
    | apply nomark_shards
    | apply nomark_cons; [reflexivity|]
    | apply nomark_app
    | match goal with |- nomark (if ?b then _ else _) => destruct b end
    | match goal with |- nomark (match ?b with _ => _ end) => destruct b end
    | (let i := fresh in let H := fresh in intros i H; destruct H as [<-|[]]; reflexivity)
    | (let i := fresh in let H := fresh in intros i H; destruct H) ].

Lemma nomark_unwind l p h async r : unwind l = Some (p, h, async, r) -> nomark l -> nomark r /\ h_seq (r_spec h) = false.
Proof.
  intros U Hl. apply unwind_spec in U. destruct U as [pre [-> _]]. split.
  - intros i Hi. apply Hl. apply in_or_app. right. right. exact Hi.
  - apply (Hl (IRecover p h async)). apply in_or_app. right. left. reflexivity.
Qed.

(* a step from code without an open Sequential frame: still none, or the call of a Sequential handler has just been set up *)
Lemma step_nomark P cfg s a i rest s' ls :
  Pleaf P -> cok P (i :: rest) -> nomark (i :: rest) -> step_instr P cfg s a i rest = Some (s', ls) ->
  exists newc, assoc_get (code s') a = Some newc /\ nst newc.
Proof.
  intros HP Ck Nm H. pose proof (nomark_tail _ _ Nm) as Nr. pose proof (Nm i (or_introl eq_refl)) as Ni.
  pose proof (Ck i (or_introl eq_refl)) as Ci.
  assert (Hseq : forall p h async obs, leafspec P (r_spec h) = true -> nst (call_handler P p h async obs ++ rest)).
  { intros p h async obs Hl. destruct (h_seq (r_spec h)) eqn:Hs.
    - apply call_handler_seq_nst; [exact Hs | unfold leafspec in Hl; rewrite Hs in Hl; exact Hl | exact Nr].
    - left. apply nomark_app; [apply nomark_call_handler, Hs | exact Nr]. }
  destruct i; cbn [step_instr] in H.
  all: try (break_head H; try discriminate; inversion H; subst; clear H;
            solve [eexists; split;
                   [first [apply code_cont | (cbn [cont set_code code]; rewrite ?upd_pub_code; apply assoc_get_set_same)]
                   | first [solve [left; nm_tac Nr] | solve [apply Hseq; exact Ci]]]]).
  - (* IDo *)
    destruct a0; cbn [step_instr] in H; break_head H; try discriminate; inversion H; subst; clear H;
      try solve [eexists; split;
                 [first [apply code_cont | (cbn [cont set_code code]; rewrite ?upd_pub_code; apply assoc_get_set_same)]
                 | left; nm_tac Nr]].
    (* APanic recovered: the frame found is not a Sequential one *)
    match goal with U : unwind rest = Some (?p0, ?h, ?async, ?r) |- _ => destruct (nomark_unwind rest p0 h async r U Nr) as [Nr2 Hs] end.
    eexists. split; [apply code_cont|]. left. apply nomark_app; [apply nomark_after_recover, Hs | exact Nr2].
Qed.

Lemma unwind_quiet pre l : quietl pre -> unwind (pre ++ l) = unwind l.
Proof.
  induction pre as [|x pre IH]; intros Q; [reflexivity|]. cbn [app].
  pose proof (Q x (or_introl eq_refl)) as Qx. specialize (IH (quietl_tail _ _ Q)).
  destruct x; cbn [quiet_i] in Qx; try discriminate; cbn [unwind]; exact IH.
Qed.

Lemma after_recover_seq cfg p h async panicked : h_seq (r_spec h) = true ->
  exists X, after_recover cfg p h async panicked = IUnlock h :: X /\ nomark X.
Proof.
  intros Hs. unfold after_recover. rewrite Hs. eexists. split; [reflexivity|].
  repeat apply nomark_app; [destruct (panicked && c_panic_handler cfg) | destruct (c_obs cfg) | destruct async];
    try apply nomark_nil; intros i [<-|[]]; reflexivity.
Qed.

(* a step from code with one open Sequential frame *)
Lemma step_open P cfg s a i rest s' ls pre m post :
  i :: rest = pre ++ m :: post -> is_mark m = true -> quietl pre -> nomark post ->
  step_instr P cfg s a i rest = Some (s', ls) ->
  exists newc, assoc_get (code s') a = Some newc /\ nst newc.
Proof.
  intros E Hm Qp Np H. destruct pre as [|x pre].
  - (* the marker itself *)
    cbn [app] in E. inversion E; subst i rest. clear E.
    destruct m; cbn [is_mark] in Hm; try discriminate; cbn [step_instr] in H; inversion H; subst; clear H.
    + (* IRecover of the Sequential handler: the deferred unlock comes next *)
      destruct (after_recover_seq cfg p h async false Hm) as [X [EX NX]].
      eexists. split; [apply code_cont|]. right. exists [], (IUnlock h), (X ++ post).
      split; [rewrite EX; reflexivity|]. split; [reflexivity|]. split; [intros i []|apply nomark_app; assumption].
    + (* IUnlock: the frame is closed *)
      eexists. split; [apply code_cont|]. left. exact Np.
  - cbn [app] in E. inversion E; subst x rest. clear E.
    pose proof (Qp i (or_introl eq_refl)) as Qi. pose proof (quietl_tail _ _ Qp) as Qr.
    assert (Keep : nst (pre ++ m :: post)) by (right; exists pre, m, post; auto).
    destruct i; cbn [quiet_i] in Qi; try discriminate; cbn [step_instr] in H.
    + (* IAct *)
      inversion H; subst; clear H. eexists. split; [apply code_cont|]. right. exists (IDo a0 :: pre), m, post.
      split; [reflexivity|]. split; [exact Hm|]. split; [|exact Np]. intros x [<-|Hx]; [exact Qi | apply Qr, Hx].
    + (* IDo *)
      destruct a0; cbn [is_pub negb] in Qi; try discriminate; cbn [step_instr] in H; break_head H; try discriminate;
        inversion H; subst; clear H;
        try solve [eexists; split; [first [apply code_cont | (cbn [cont set_code code]; apply assoc_get_set_same)] | exact Keep]].
      * (* AClearAll *)
        eexists. split; [apply code_cont|]. right. exists (map IClearShard (seq 0 (p_nshards P)) ++ pre), m, post.
        split; [rewrite <- app_assoc; reflexivity|]. split; [exact Hm|]. split; [|exact Np].
        apply quietl_app; [|exact Qr]. intros x Hx. apply in_map_iff in Hx. destruct Hx as [k [<- _]]. reflexivity.
      * (* AShutdown *)
        eexists. split; [apply code_cont|]. right. exists (IShutdownSelect (next_sid s) c :: pre), m, post.
        split; [reflexivity|]. split; [exact Hm|]. split; [|exact Np]. intros x [<-|Hx]; [reflexivity | apply Qr, Hx].
      * (* APanic recovered *)
        match goal with U : unwind (pre ++ m :: post) = Some _ |- _ => rewrite (unwind_quiet pre (m :: post) Qr) in U; rename U into Hu end.
        destruct m; cbn [is_mark] in Hm; try discriminate; cbn [unwind] in Hu.
        -- inversion Hu; subst; clear Hu.
           match goal with |- context[after_recover cfg ?p1 ?h1 ?a1 true ++ ?l1] =>
             destruct (after_recover_seq cfg p1 h1 a1 true Hm) as [X [EX NX]];
             eexists; split; [apply code_cont|]; right; exists [], (IUnlock h1), (X ++ l1);
             split; [rewrite EX; reflexivity|]; split; [reflexivity|]; split; [intros i []|apply nomark_app; assumption] end.
        -- destruct (nomark_unwind post _ _ _ _ Hu Np) as [Nr2 Hs].
           eexists. split; [apply code_cont|]. left. apply nomark_app; [apply nomark_after_recover, Hs | exact Nr2].
      * (* APanic with no recover frame left: the goroutine is dead *)
        eexists. split; [apply code_cont|]. right. exists (ICrashed :: pre), m, post.
        split; [reflexivity|]. split; [exact Hm|]. split; [|exact Np]. intros x [<-|Hx]; [reflexivity | apply Qr, Hx].
    + (* IHandlerStart *) inversion H; subst; clear H. eexists. split; [apply code_cont | exact Keep].
    + (* ILock *) break_head H; try discriminate; inversion H; subst; clear H. eexists. split; [apply code_cont | exact Keep].
    + (* IEnter *) inversion H; subst; clear H. eexists. split; [apply code_cont | exact Keep].
    + (* IClearShard *) inversion H; subst; clear H. eexists. split; [apply code_cont | exact Keep].
    + (* IShutdownSelect *) break_head H; try discriminate; inversion H; subst; clear H; (eexists; split; [apply code_cont | exact Keep]).
Qed.

(* ---------- the invariant over runs ---------- *)
Definition leafinv (P : program) (s : bstate) : Prop :=
  hinv P s /\ forall a c, assoc_get (code s) a = Some c -> nst c.

Lemma leafinv_step P cfg s a s' ls : Pleaf P -> winv s -> leafinv P s -> mstep P cfg s a = Some (s', ls) -> leafinv P s'.
Proof.
  intros HP WI [[Hc Hr] Hn] H. unfold mstep in H.
  destruct (assoc_get (code s) a) as [[|i rest]|] eqn:Ha; try discriminate.
  assert (Hna : a <> next_actor s) by (destruct (wi_bound s WI a _ Ha); lia).
  destruct (step_hok P cfg s a i rest s' ls HP (Hc a _ Ha) Hr H) as ([newc [Hnew Cn]] & Hr' & Hoth).
  assert (Hnst : exists c, assoc_get (code s') a = Some c /\ nst c).
  { destruct (Hn a _ Ha) as [Nm | [pre [m [post [E [Hm [Qp Np]]]]]]].
    - apply (step_nomark P cfg s a i rest s' ls HP (Hc a _ Ha) Nm H).
    - apply (step_open P cfg s a i rest s' ls pre m post E Hm Qp Np H). }
  destruct Hnst as [c1 [Hc1 N1]].
  split; [split|].
  - intros b c Hb. destruct (Nat.eq_dec b a) as [->|Nb].
    + rewrite Hnew in Hb. inversion Hb; subst. exact Cn.
    + destruct (Hoth b c Nb Hb) as [Hold|Hnewc]; [exact (Hc b c Hold) | exact Hnewc].
  - exact Hr'.
  - intros b c Hb. destruct (Nat.eq_dec b a) as [->|Nb].
    + rewrite Hc1 in Hb. inversion Hb; subst. exact N1.
    + destruct (step_frame2 P cfg s a i rest s' ls H Hna b Nb) as [Esame | [-> [[p [h E]] | [c0 [_ E]]]]].
      * rewrite Esame in Hb. exact (Hn b c Hb).
      * rewrite E in Hb. inversion Hb; subst. left. intros x [<-|[]]. reflexivity.
      * rewrite E in Hb. inversion Hb; subst. left. intros x [<-|[]]. reflexivity.
Qed.

Lemma leafinv_init P threads : (forall l, In l threads -> okacts P l = true) -> leafinv P (init_state threads).
Proof.
  intros Ht.
  assert (Hall : forall b c, assoc_get (code (init_state threads)) b = Some c -> exists l, In l threads /\ c = acts l).
  { intros b c. cbn [init_state code].
    assert (G : forall n (ls : list (list action)), assoc_get (combine (seq n (length ls)) (map acts ls)) b = Some c -> exists l, In l ls /\ c = acts l).
    { intros n ls. revert n. induction ls as [|y ls IH]; intros n Hc; [discriminate|].
      cbn [length seq map combine assoc_get] in Hc. destruct (Nat.eqb n b).
      - inversion Hc. exists y. split; [left; reflexivity | reflexivity].
      - destruct (IH (S n) Hc) as [l [Hin E]]. exists l. split; [right; exact Hin | exact E]. }
    apply G. }
  split; [split|].
  - intros b c Hb. destruct (Hall b c Hb) as [l [Hin ->]]. apply cok_acts, Ht, Hin.
  - intros t l h Hin. destruct Hin.
  - intros b c Hb. destruct (Hall b c Hb) as [l [_ ->]]. left. apply nomark_acts.
Qed.

Lemma leafinv_run P cfg : Pleaf P -> forall sched s, winv s -> leafinv P s -> leafinv P (fst (run P cfg s sched)).
Proof.
  intros HP. induction sched as [|a r IH]; intros s WI L; cbn [run]; [exact L|].
  destruct (mstep P cfg s a) as [[s' ls]|] eqn:E.
  - specialize (IH s' (winv_step P cfg s a s' ls WI E) (leafinv_step P cfg s a s' ls HP WI L E)). destruct (run P cfg s' r). exact IH.
  - apply IH; assumption.
Qed.

(* ---------- a goroutine about to take a handler mutex holds none ---------- *)
Lemma heldc_nomark rid c : nomark c -> heldc rid c = 0.
Proof.
  induction c as [|i c IH]; intros Nm; [reflexivity|]. rewrite heldc_cons, IH by (eapply nomark_tail; exact Nm).
  specialize (Nm i (or_introl eq_refl)). destruct i; cbn [is_mark held_i] in *; try reflexivity; try discriminate.
  rewrite Nm. reflexivity.
Qed.
Lemma heldc_quiet rid c : quietl c -> heldc rid c = 0.
Proof. intros Q. apply heldc_nomark. intros i Hi. apply quiet_not_mark, Q, Hi. Qed.
Lemma held_i_le1 rid i : held_i rid i <= 1.
Proof. destruct i; cbn [held_i]; try lia; match goal with |- (if ?b then _ else _) <= _ => destruct b end; lia. Qed.
Lemma held_i_one rid rid' i : held_i rid i = 1 -> rid' <> rid -> held_i rid' i = 0.
Proof.
  destruct i; cbn [held_i]; try discriminate.
  - destruct (h_seq (r_spec h)); cbn [andb]; [|discriminate]. destruct (Nat.eqb (r_id h) rid) eqn:E; [|discriminate].
    apply Nat.eqb_eq in E. intros _ N. destruct (Nat.eqb (r_id h) rid') eqn:E'; [apply Nat.eqb_eq in E'; congruence | reflexivity].
  - destruct (Nat.eqb (r_id h) rid) eqn:E; [|discriminate].
    apply Nat.eqb_eq in E. intros _ N. destruct (Nat.eqb (r_id h) rid') eqn:E'; [apply Nat.eqb_eq in E'; congruence | reflexivity].
Qed.

Lemma pending_block_holds_nothing h c' :
  nst (ILock h :: c') -> block_tail h c' -> forall rid, heldc rid c' - (if Nat.eqb (r_id h) rid then 1 else 0) = 0.
Proof.
  intros N [mid [p [async [r [E [Pm [Lr Hs]]]]]]] rid.
  assert (Hown : heldc (r_id h) c' >= 1).
  { rewrite E, heldc_app, heldc_cons. cbn [held_i]. rewrite Hs, Nat.eqb_refl. cbn. lia. }
  clear E Pm Lr.
  destruct N as [Nm | [pre [m [post [Ec [Hm [Qp Np]]]]]]].
  - rewrite (heldc_nomark (r_id h) c') in Hown by (eapply nomark_tail; exact Nm). lia.
  - destruct pre as [|x pre]; cbn [app] in Ec; inversion Ec; subst.
    + discriminate Hm.
    + pose proof (quietl_tail _ _ Qp) as Qr.
      assert (Hsum : forall q, heldc q (pre ++ m :: post) = held_i q m).
      { intros q. rewrite heldc_app, heldc_cons, (heldc_quiet q pre Qr), (heldc_nomark q post Np). lia. }
      rewrite Hsum in Hown. pose proof (held_i_le1 (r_id h) m). assert (H1 : held_i (r_id h) m = 1) by lia.
      rewrite Hsum. destruct (Nat.eqb (r_id h) rid) eqn:Er.
      * apply Nat.eqb_eq in Er. subst rid. lia.
      * apply Nat.eqb_neq in Er. rewrite (held_i_one (r_id h) rid m H1) by congruence. reflexivity.
Qed.

(* PROGRESS without any assumption about cycles: in every run of a program whose Sequential handlers do not publish (and
   whose handlers, filters and hooks do not call Wait or Shutdown), as long as no goroutine has died of an unrecovered
   panic, some goroutine can step whenever one is unfinished. *)
Theorem progress_when_sequential_handlers_do_not_publish P cfg threads sched :
  Pwf P -> Pleaf P -> (forall l, In l threads -> okacts P l = true) ->
  let s := fst (run P cfg (init_state threads) sched) in
  (forall a rest, assoc_get (code s) a <> Some (ICrashed :: rest)) ->
  (exists a i rest, assoc_get (code s) a = Some (i :: rest)) ->
  exists b s' ls, mstep P cfg s b = Some (s', ls).
Proof.
  intros HW HP Ht s Hnc Hex.
  assert (R : reachable P cfg s) by (exists threads, sched; reflexivity).
  pose proof (leafinv_run P cfg HP sched _ (winv_init threads) (leafinv_init P threads Ht)) as [_ Hn]. fold s in Hn.
  pose proof (seq_lock_discipline P cfg s R) as L.
  set (rank := fun a : actor => match assoc_get (code s) a with Some (ILock _ :: _) => 1 | _ => 0 end).
  apply (progress_mutex_waits_only P cfg s HW R rank); [|exact Hnc|exact Hex].
  intros a h rest b Ha Hb. unfold rank. rewrite Ha.
  destruct (no_orphaned_handler_lock P cfg s R (r_id h) b Hb) as [cb [Hcb Hheld]]. rewrite Hcb.
  destruct cb as [|ib restb]; [lia|]. destruct ib; try lia.
  (* the holder cannot itself be waiting for a mutex: whoever waits holds nothing *)
  exfalso. pose proof (li_wf s L b _ Hcb) as Wf.
  inversion Wf as [c Lf Ec|h1 c Bt Ec|p0 h1 async0 c Bt Ec]; subst.
  - specialize (Lf (ILock h0) (or_introl eq_refl)). discriminate.
  - cbn [held] in Hheld. rewrite (pending_block_holds_nothing h0 restb (Hn b _ Hcb) Bt (r_id h)) in Hheld. lia.
Qed.

(* ... and when, moreover, only handler bodies panic (not the threads' own code, hooks, filters or the panic handler),
   nobody ever dies of an unrecovered panic: such programs never deadlock *)
Theorem leaf_programs_never_deadlock P cfg threads sched :
  Pwf P -> Pleaf P -> Ppanic P cfg ->
  (forall l, In l threads -> okacts P l = true) -> (forall l, In l threads -> nopanicb l = true) ->
  let s := fst (run P cfg (init_state threads) sched) in
  (exists a i rest, assoc_get (code s) a = Some (i :: rest)) ->
  exists b s' ls, mstep P cfg s b = Some (s', ls).
Proof.
  intros HW HP HPn Ht Hn s Hex.
  apply (progress_when_sequential_handlers_do_not_publish P cfg threads sched HW HP Ht); [|exact Hex].
  intros a rest Ha. apply (handler_panics_never_crash P cfg threads sched HPn Hn a _ Ha). left. reflexivity.
Qed.
