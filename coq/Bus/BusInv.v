(* Invariants of the bus model over ALL schedules (lists of actors), proved by induction over micro-steps. *)
From Coq Require Import List Arith Bool Lia.
Import ListNotations.
From Ebu Require Import Bus.BusModel.

(* ------------------------------------------------------------------ *)
(* C09: whatever the order of the options, a bus given a store persists *)
Definition count_persist (l : list bstep) : nat :=
  length (filter (fun b => match b with BPersist => true | _ => false end) l).
Definition count_store (l : list busopt) : nat :=
  length (filter (fun o => match o with OStore => true | _ => false end) l).

Lemma count_persist_app a b : count_persist (a ++ b) = count_persist a + count_persist b.
Proof. unfold count_persist. rewrite filter_app, app_length. reflexivity. Qed.

Definition is_store (o : busopt) : bool := match o with OStore => true | _ => false end.

Lemma apply_opt_store c o : c_store (apply_opt c o) = c_store c || is_store o.
Proof. destruct o; cbn [apply_opt c_store is_store]; rewrite ?orb_false_r, ?orb_true_r; reflexivity. Qed.

Lemma fold_store : forall opts c,
  c_store (fold_left apply_opt opts c) = c_store c || existsb is_store opts.
Proof.
  induction opts as [|o r IH]; intros c; cbn [fold_left existsb]; [rewrite orb_false_r; reflexivity|].
  rewrite IH, apply_opt_store, orb_assoc. reflexivity.
Qed.

Definition slot_inv (c : buscfg) : Prop :=
  (c_store c = true -> 1 <= count_persist (c_before_ctx c)) /\
  (c_store c = false -> count_persist (c_before_ctx c) = 0).

Lemma apply_opt_slot_inv c o : slot_inv c -> slot_inv (apply_opt c o).
Proof.
  intros [H1 H2]. unfold slot_inv.
  destruct o; cbn [apply_opt c_store c_before_ctx]; try (split; assumption).
  - split; [intros _; rewrite count_persist_app; cbn; lia|discriminate].
  - destruct (c_store c) eqn:E; split; intros H; try discriminate; cbn; try lia; reflexivity.
  - destruct (c_store c) eqn:E; split; intros H; try discriminate; cbn; try lia; reflexivity.
Qed.

Lemma fold_slot_inv : forall opts c, slot_inv c -> slot_inv (fold_left apply_opt opts c).
Proof. induction opts as [|o r IH]; intros c H; cbn [fold_left]; [exact H|]. apply IH, apply_opt_slot_inv, H. Qed.

(* every option list containing WithStore yields a bus whose context-aware before-slot persists *)
Theorem options_persist : forall opts,
  In OStore opts -> c_store (cfg_of opts) = true /\ 1 <= count_persist (c_before_ctx (cfg_of opts)).
Proof.
  intros opts Hin. unfold cfg_of.
  assert (Hst: c_store (fold_left apply_opt opts cfg0) = true).
  { rewrite fold_store. cbn [cfg0 c_store orb]. apply existsb_exists. exists OStore. split; [exact Hin|reflexivity]. }
  split; [exact Hst|].
  destruct (fold_slot_inv opts cfg0) as [H1 _]; [split; [discriminate|reflexivity]|]. apply H1, Hst.
Qed.

(* with exactly one WithStore, exactly one persistence step per publish *)
Lemma apply_opts_one : forall opts c,
  count_store opts + (if c_store c then 1 else 0) <= 1 ->
  count_persist (c_before_ctx c) = (if c_store c then 1 else 0) ->
  count_persist (c_before_ctx (fold_left apply_opt opts c)) = (if c_store (fold_left apply_opt opts c) then 1 else 0).
Proof.
  induction opts as [|o opts IH]; intros c Hc Hp; cbn [fold_left]; [exact Hp|].
  apply IH.
  - unfold count_store in *. cbn [filter] in Hc.
    destruct o; cbn [apply_opt c_store length] in *; try exact Hc.
    destruct (c_store c); cbn in *; lia.
  - destruct o; cbn [apply_opt c_store c_before_ctx]; try exact Hp.
    + rewrite count_persist_app, Hp. unfold count_store in Hc. cbn [filter length] in Hc.
      destruct (c_store c); cbn in *; lia.
    + destruct (c_store c); reflexivity.
    + destruct (c_store c); reflexivity.
Qed.

Theorem options_persist_once : forall opts,
  count_store opts = 1 -> count_persist (c_before_ctx (cfg_of opts)) = 1 /\ c_store (cfg_of opts) = true.
Proof.
  intros opts H. unfold cfg_of.
  pose proof (apply_opts_one opts cfg0) as A. cbn [cfg0 c_store c_before_ctx] in A.
  specialize (A ltac:(lia) eq_refl).
  assert (Hin: In OStore opts).
  { unfold count_store in H. clear A. induction opts as [|o r IH]; [discriminate|].
    destruct o; cbn in H; try (right; apply IH; exact H). left. reflexivity. }
  destruct (options_persist opts Hin) as [Hs _]. unfold cfg_of in Hs. rewrite Hs in A. split; [exact A|exact Hs].
Qed.

(* the persistence step sits in the before-slot, i.e. before the snapshot of the publish *)
Theorem publish_persists_before_snapshot : forall P cfg s a t v c any rest s' ls,
  step_instr P cfg s a (IDo (APub t v c any)) rest = Some (s', ls) ->
  exists pre post, assoc_get (code s') a = Some (pre ++ ISnapshot (next_pid s) :: post) /\ post = rest /\
    (c_before_ctx cfg <> [] -> In (IBeforeCtx (next_pid s) (c_before_ctx cfg)) pre) /\
    (forall i, In i pre -> match i with ISnapshot _ | IEntry _ _ | IEnter _ _ => False | _ => True end).
Proof.
  intros P cfg s a t v c any rest s' ls H. cbn [step_instr] in H. inversion H; subst; clear H.
  exists ((if c_obs cfg then [IPubStart (next_pid s)] else []) ++
          (match c_before_legacy cfg with Some _ => [IBeforeLegacy (next_pid s)] | None => [] end) ++
          (match c_before_ctx cfg with [] => [] | st => [IBeforeCtx (next_pid s) st] end)), rest.
  cbn [cont set_code code].
  assert (Hget: forall l (x : list instr), assoc_get (assoc_set l a x) a = Some x).
  { induction l as [|[k v0] r IH]; intros x; cbn; [rewrite Nat.eqb_refl; reflexivity|].
    destruct (Nat.eqb k a) eqn:E; cbn; [rewrite Nat.eqb_refl; reflexivity|rewrite E; apply IH]. }
  rewrite Hget. split.
  - f_equal. rewrite <- !app_assoc. reflexivity.
  - split; [reflexivity|]. split.
    + intros Hne. apply in_or_app. right. apply in_or_app. right.
      destruct (c_before_ctx cfg); [congruence|]. left. reflexivity.
    + intros i Hi. apply in_app_or in Hi. destruct Hi as [Hi|Hi].
      * destruct (c_obs cfg); [destruct Hi as [<-|[]]; exact I|destruct Hi].
      * apply in_app_or in Hi. destruct Hi as [Hi|Hi].
        -- destruct (c_before_legacy cfg); [destruct Hi as [<-|[]]; exact I|destruct Hi].
        -- destruct (c_before_ctx cfg); [destruct Hi|destruct Hi as [<-|[]]; exact I].
Qed.

(* ------------------------------------------------------------------ *)
(* C06: the wait counter counts exactly the asynchronous deliveries that have not finished *)
Definition weight_i (i : instr) : nat :=
  match i with
  | ITaskStart _ _ | ITaskDone | IRecover _ _ true => 1
  | _ => 0
  end.
Definition weight (l : list instr) : nat := fold_right (fun i n => weight_i i + n) 0 l.

Lemma weight_app a b : weight (a ++ b) = weight a + weight b.
Proof. induction a as [|x a IH]; cbn; [reflexivity|]. unfold weight in *. cbn. rewrite IH. lia. Qed.

Lemma weight_acts l : weight (acts l) = 0.
Proof. induction l; cbn; auto. Qed.
Lemma weight_entries p l : weight (map (IEntry p) l) = 0.
Proof. induction l; cbn; auto. Qed.
Lemma weight_shards l : weight (map IClearShard l) = 0.
Proof. induction l; cbn; auto. Qed.

Lemma weight_call P p h async obs : weight (call_handler P p h async obs) = if async then 1 else 0.
Proof.
  unfold call_handler. rewrite !weight_app, weight_acts.
  destruct obs, (h_seq (r_spec h)), async; reflexivity.
Qed.

Lemma weight_after cfg p h async panicked : weight (after_recover cfg p h async panicked) = if async then 1 else 0.
Proof.
  unfold after_recover. rewrite !weight_app.
  destruct (h_seq (r_spec h)), (panicked && c_panic_handler cfg), (c_obs cfg), async; reflexivity.
Qed.

(* a weighted instruction can only be the last one of an actor's code *)
Definition wfc (l : list instr) : Prop :=
  forall pre x post, l = pre ++ x :: post -> weight_i x = 1 -> post = [].

Lemma wfc_nil : wfc [].
Proof. intros pre x post H. destruct pre; discriminate. Qed.

Lemma wfc_tail i l : wfc (i :: l) -> wfc l.
Proof. intros W pre x post E Hx. apply (W (i :: pre) x post); [rewrite E; reflexivity|exact Hx]. Qed.

Lemma wfc_head0 i l : wfc (i :: l) -> l <> [] -> weight_i i = 0.
Proof.
  intros W Hl. destruct (weight_i i) eqn:E; [reflexivity|].
  assert (E1: weight_i i = 1) by (destruct i; cbn in *; try discriminate; try reflexivity; destruct async; try discriminate; reflexivity).
  specialize (W [] i l eq_refl E1). contradiction.
Qed.

Lemma wfc_weight0_app a b : weight a = 0 -> wfc b -> wfc (a ++ b).
Proof.
  intros Ha Wb pre x post E Hx.
  revert pre E. induction a as [|y a IH]; intros pre E; cbn in E.
  - eapply Wb; eauto.
  - assert (Hy: weight_i y = 0) by (unfold weight in Ha; cbn in Ha; lia).
    assert (Ha': weight a = 0) by (unfold weight in *; cbn in Ha; lia).
    destruct pre as [|z pre]; cbn in E; inversion E; subst.
    + lia.
    + eapply IH; eauto.
Qed.

Lemma wfc_single_end a x : weight a = 0 -> wfc (a ++ [x]).
Proof.
  intros Ha. apply wfc_weight0_app; [exact Ha|].
  intros pre y post E _. destruct pre as [|z pre]; cbn in E; inversion E; [reflexivity|destruct pre; discriminate].
Qed.

Lemma weight0_all l : weight l = 0 -> forall i, In i l -> weight_i i = 0.
Proof.
  induction l as [|x l IH]; intros H i Hi; [destruct Hi|]. unfold weight in H. cbn in H.
  destruct Hi as [<-|Hi]; [lia|]. apply IH; [unfold weight; lia|exact Hi].
Qed.

Lemma call_handler_shape P p h async obs :
  exists pre, call_handler P p h async obs = pre ++ [IRecover p h async] /\ weight pre = 0.
Proof.
  unfold call_handler.
  exists ((if obs then [IHandlerStart p h async] else []) ++ (if h_seq (r_spec h) then [ILock h] else []) ++
          [IEnter p h] ++ acts (body_of P (h_body (r_spec h)))).
  split; [rewrite <- !app_assoc; reflexivity|].
  rewrite !weight_app, weight_acts. destruct obs, (h_seq (r_spec h)); reflexivity.
Qed.

Lemma after_recover_shape cfg p h async panicked :
  exists pre, after_recover cfg p h async panicked = pre ++ (if async then [ITaskDone] else []) /\ weight pre = 0.
Proof.
  unfold after_recover.
  exists ((if h_seq (r_spec h) then [IUnlock h] else []) ++
          (if panicked && c_panic_handler cfg then [IPanicHandler p h] else []) ++
          (if c_obs cfg then [IHandlerDone p h panicked] else [])).
  split; [rewrite <- !app_assoc; reflexivity|].
  rewrite !weight_app. destruct (h_seq (r_spec h)), (panicked && c_panic_handler cfg), (c_obs cfg); reflexivity.
Qed.

(* unwinding a panic keeps the weight and the shape *)
Lemma unwind_weight cfg : forall l p h async r,
  wfc l -> unwind l = Some (p, h, async, r) ->
  weight (after_recover cfg p h async true ++ r) = weight l /\ wfc (after_recover cfg p h async true ++ r).
Proof.
  induction l as [|i l IH]; intros p h async r W U; [discriminate|].
  destruct i; cbn [unwind] in U;
    try (assert (H0: weight_i _ = 0) by (eapply wfc_head0; [exact W|intro E; subst l; discriminate]);
         destruct (IH _ _ _ _ (wfc_tail _ _ W) U) as [Hw Hf]; split; [unfold weight in *; cbn; cbn in H0; lia|exact Hf]).
  (* IRecover *)
  inversion U; subst. rewrite weight_app, weight_after.
  destruct (after_recover_shape cfg p h async true) as [pre [E Hp]]. rewrite E.
  destruct async.
  - assert (r = []) by (apply (W [] (IRecover p h true) r eq_refl); reflexivity). subst r.
    split; [unfold weight; cbn; reflexivity|]. rewrite app_nil_r. apply wfc_single_end, Hp.
  - split; [unfold weight; cbn; reflexivity|]. rewrite app_nil_r. apply wfc_weight0_app; [exact Hp|eapply wfc_tail, W].
Qed.

Definition total (cs : list (actor * list instr)) : nat := fold_right (fun ac n => weight (snd ac) + n) 0 cs.

Lemma assoc_get_set_same {V} (l : list (nat * V)) k v : assoc_get (assoc_set l k v) k = Some v.
Proof.
  induction l as [|[k' v'] r IH]; cbn; [rewrite Nat.eqb_refl; reflexivity|].
  destruct (Nat.eqb k' k) eqn:E; cbn; [rewrite Nat.eqb_refl; reflexivity|rewrite E; exact IH].
Qed.
Lemma assoc_get_set_other {V} (l : list (nat * V)) k v k' : k <> k' -> assoc_get (assoc_set l k v) k' = assoc_get l k'.
Proof.
  intros N. induction l as [|[k0 v0] r IH]; cbn.
  - destruct (Nat.eqb k k') eqn:E; [apply Nat.eqb_eq in E; contradiction|reflexivity].
  - destruct (Nat.eqb k0 k) eqn:E; cbn.
    + apply Nat.eqb_eq in E. subst k0. destruct (Nat.eqb k k') eqn:E2; [apply Nat.eqb_eq in E2; contradiction|reflexivity].
    + destruct (Nat.eqb k0 k'); [reflexivity|exact IH].
Qed.
Lemma keys_set {V} (l : list (nat * V)) k v :
  map fst (assoc_set l k v) = if existsb (Nat.eqb k) (map fst l) then map fst l else map fst l ++ [k].
Proof.
  induction l as [|[k0 v0] r IH]; cbn; [reflexivity|].
  destruct (Nat.eqb k0 k) eqn:E; cbn.
  - apply Nat.eqb_eq in E. subst. rewrite Nat.eqb_refl. reflexivity.
  - rewrite Nat.eqb_sym, E. cbn. rewrite IH. destruct (existsb (Nat.eqb k) (map fst r)); reflexivity.
Qed.
Lemma assoc_get_in {V} (l : list (nat * V)) k : (exists v, assoc_get l k = Some v) <-> In k (map fst l).
Proof.
  induction l as [|[k0 v0] r IH]; cbn; [split; [intros [v H]; discriminate|intros []]|].
  destruct (Nat.eqb k0 k) eqn:E.
  - apply Nat.eqb_eq in E. subst. split; [auto|eauto].
  - rewrite IH. split; [auto|]. intros [H|H]; [apply Nat.eqb_neq in E; contradiction|exact H].
Qed.

Lemma total_cons k v r : total ((k, v) :: r) = weight v + total r.
Proof. reflexivity. Qed.

Lemma total_set cs a c old : assoc_get cs a = Some old -> total (assoc_set cs a c) + weight old = total cs + weight c.
Proof.
  induction cs as [|[k v] r IH]; cbn [assoc_get assoc_set]; [discriminate|].
  destruct (Nat.eqb k a) eqn:E.
  - intros H. inversion H; subst. rewrite !total_cons. lia.
  - intros H. specialize (IH H). rewrite !total_cons. lia.
Qed.
Lemma total_set_new cs a c : assoc_get cs a = None -> total (assoc_set cs a c) = total cs + weight c.
Proof.
  induction cs as [|[k v] r IH]; cbn [assoc_get assoc_set]; [intros _; rewrite total_cons; unfold total; cbn; lia|].
  destruct (Nat.eqb k a) eqn:E; [discriminate|]. intros H. rewrite !total_cons, (IH H). lia.
Qed.

Lemma nodup_snoc {A} (l : list A) x : NoDup l -> ~ In x l -> NoDup (l ++ [x]).
Proof.
  induction l as [|y l IH]; intros ND Hn; cbn; [constructor; [intros []|constructor]|].
  inversion ND; subst. constructor.
  - intro H. apply in_app_or in H. destruct H as [H|[H|[]]]; [contradiction|subst; apply Hn; left; reflexivity].
  - apply IH; [assumption|]. intro H. apply Hn. right. exact H.
Qed.

Record winv (s : bstate) : Prop := {
  wi_nodup : NoDup (map fst (code s));
  wi_bound : forall a c, assoc_get (code s) a = Some c -> a < next_actor s /\ wfc c;
  wi_total : total (code s) = inflight s
}.

Lemma upd_inv s a old newc s' :
  winv s -> assoc_get (code s) a = Some old ->
  code s' = assoc_set (code s) a newc -> next_actor s' = next_actor s ->
  wfc newc -> weight newc + inflight s = weight old + inflight s' -> winv s'.
Proof.
  intros [ND B T] Ha Hc Hn Wn Hw. split.
  - rewrite Hc, keys_set.
    assert (In a (map fst (code s))) by (apply assoc_get_in; eauto).
    match goal with |- context[if ?b then _ else _] =>
      assert (Ex: b = true) by (apply existsb_exists; exists a; split; [assumption|apply Nat.eqb_refl]); rewrite Ex end.
    exact ND.
  - intros b c Hb. rewrite Hc in Hb. rewrite Hn. destruct (Nat.eq_dec a b) as [->|N].
    + rewrite assoc_get_set_same in Hb. inversion Hb; subst. split; [apply (B b old Ha)|exact Wn].
    + rewrite assoc_get_set_other in Hb by exact N. apply B, Hb.
  - rewrite Hc. pose proof (total_set (code s) a newc old Ha). lia.
Qed.

Lemma upd_inv_spawn s a old newc t ct s' :
  winv s -> assoc_get (code s) a = Some old -> t = next_actor s ->
  code s' = assoc_set (assoc_set (code s) t ct) a newc -> next_actor s' = S t ->
  wfc newc -> wfc ct -> weight newc + weight ct + inflight s = weight old + inflight s' -> winv s'.
Proof.
  intros [ND B T] Ha Ht Hc Hn Wn Wt Hw.
  assert (Hlt: a < t) by (subst t; apply (B a old Ha)).
  assert (Hnone: assoc_get (code s) t = None).
  { destruct (assoc_get (code s) t) eqn:E; [|reflexivity]. destruct (B t l E). lia. }
  assert (Hnin: ~ In t (map fst (code s))) by (intro H; apply assoc_get_in in H; destruct H as [v Hv]; congruence).
  split.
  - rewrite Hc, keys_set, keys_set.
    match goal with |- context[existsb (Nat.eqb t) ?l] =>
      assert (E1: existsb (Nat.eqb t) l = false);
      [apply not_true_is_false; intro H; apply existsb_exists in H; destruct H as [x [Hx He]];
       apply Nat.eqb_eq in He; subst; contradiction|rewrite E1] end.
    match goal with |- context[if ?b then _ else _] =>
      assert (E2: b = true);
      [apply existsb_exists; exists a; split; [apply in_or_app; left; apply assoc_get_in; eauto|apply Nat.eqb_refl]|rewrite E2] end.
    apply nodup_snoc; assumption.
  - intros b c Hb. rewrite Hc in Hb. rewrite Hn.
    destruct (Nat.eq_dec a b) as [->|N].
    + rewrite assoc_get_set_same in Hb. inversion Hb; subst. split; [lia|exact Wn].
    + rewrite assoc_get_set_other in Hb by exact N.
      destruct (Nat.eq_dec t b) as [->|N2].
      * rewrite assoc_get_set_same in Hb. inversion Hb; subst. split; [lia|exact Wt].
      * rewrite assoc_get_set_other in Hb by exact N2. destruct (B b c Hb). split; [lia|assumption].
  - rewrite Hc.
    assert (Ha': assoc_get (assoc_set (code s) t ct) a = Some old).
    { rewrite assoc_get_set_other; [exact Ha|lia]. }
    pose proof (total_set _ a newc old Ha'). pose proof (total_set_new (code s) t ct Hnone). lia.
Qed.

Lemma wfc_cons0 x l : weight_i x = 0 -> wfc l -> wfc (x :: l).
Proof. intros H W. change (x :: l) with ([x] ++ l). apply wfc_weight0_app; [unfold weight; cbn; lia|exact W]. Qed.

Lemma weight_cons x l : weight (x :: l) = weight_i x + weight l.
Proof. reflexivity. Qed.

Lemma total_ge cs a c : assoc_get cs a = Some c -> weight c <= total cs.
Proof.
  induction cs as [|[k v] r IH]; cbn [assoc_get]; [discriminate|].
  destruct (Nat.eqb k a); intros H; rewrite total_cons; [inversion H; subst; lia|specialize (IH H); lia].
Qed.

Ltac wsimp := repeat first [rewrite weight_app | rewrite weight_cons | rewrite weight_acts | rewrite weight_entries
                           | rewrite weight_shards | rewrite weight_call | rewrite weight_after];
              cbn [weight_i weight fold_right cont set_code set_registry inflight].

Ltac wfc_tac W :=
  repeat first
    [ exact W
    | apply wfc_nil
    | apply wfc_cons0; [reflexivity|]
    | apply wfc_weight0_app; [wsimp; repeat match goal with |- context[if ?b then _ else _] => destruct b end; reflexivity|] ].

Lemma upd_pub_code s p f : code (upd_pub s p f) = code s.
Proof. unfold upd_pub. destruct (assoc_get (pubs s) p); reflexivity. Qed.
Lemma upd_pub_next_actor s p f : next_actor (upd_pub s p f) = next_actor s.
Proof. unfold upd_pub. destruct (assoc_get (pubs s) p); reflexivity. Qed.
Lemma upd_pub_inflight s p f : inflight (upd_pub s p f) = inflight s.
Proof. unfold upd_pub. destruct (assoc_get (pubs s) p); reflexivity. Qed.

Theorem winv_step P cfg s a s' ls : winv s -> mstep P cfg s a = Some (s', ls) -> winv s'.
Proof.
  intros I H. unfold mstep in H.
  destruct (assoc_get (code s) a) as [[|i rest]|] eqn:Ha; try discriminate.
  pose proof (wi_bound s I a (i :: rest) Ha) as [_ W].
  pose proof (wfc_tail _ _ W) as Wr.
  destruct i; cbn [step_instr] in H.
  (* IAct *)
  - inversion H; subst; clear H.
    eapply upd_inv; [exact I|exact Ha|reflexivity|reflexivity|wfc_tac Wr|wsimp; lia].
  (* IDo *)
  - destruct a0.
    + inversion H; subst; clear H. eapply upd_inv; [exact I|exact Ha|reflexivity|reflexivity|wfc_tac Wr|wsimp; cbn; lia].
    + destruct (remove_first_fn (handlers_of s t) fn); inversion H; subst; clear H;
        (eapply upd_inv; [exact I|exact Ha|reflexivity|reflexivity|wfc_tac Wr|wsimp; cbn; lia]).
    + inversion H; subst; clear H. eapply upd_inv; [exact I|exact Ha|reflexivity|reflexivity|wfc_tac Wr|wsimp; cbn; lia].
    + inversion H; subst; clear H. eapply upd_inv; [exact I|exact Ha|reflexivity|reflexivity|wfc_tac Wr|wsimp; cbn; lia].
    + (* APub *)
      inversion H; subst; clear H.
      eapply upd_inv; [exact I|exact Ha|reflexivity|reflexivity| |].
      * apply wfc_weight0_app; [|apply wfc_weight0_app; [|apply wfc_weight0_app; [|wfc_tac Wr]]].
        -- destruct (c_obs cfg); reflexivity.
        -- destruct (c_before_legacy cfg); reflexivity.
        -- destruct (c_before_ctx cfg); reflexivity.
      * wsimp. destruct (c_obs cfg), (c_before_legacy cfg), (c_before_ctx cfg); cbn; lia.
    + inversion H; subst; clear H. eapply upd_inv; [exact I|exact Ha|reflexivity|reflexivity|wfc_tac Wr|wsimp; cbn; lia].
    + inversion H; subst; clear H. eapply upd_inv; [exact I|exact Ha|reflexivity|reflexivity|wfc_tac Wr|wsimp; cbn; lia].
    + inversion H; subst; clear H. eapply upd_inv; [exact I|exact Ha|reflexivity|reflexivity|wfc_tac Wr|wsimp; cbn; lia].
    + destruct (Nat.eqb (inflight s) 0); inversion H; subst; clear H.
      eapply upd_inv; [exact I|exact Ha|reflexivity|reflexivity|wfc_tac Wr|wsimp; cbn; lia].
    + (* AShutdown: spawns the waiter *)
      inversion H; subst; clear H.
      eapply (upd_inv_spawn s a (IDo (AShutdown c) :: rest) _ (next_actor s) [IWaiterDone (next_sid s)]);
        [exact I|exact Ha|reflexivity|reflexivity|reflexivity|wfc_tac Wr|wfc_tac Wr|wsimp; cbn; lia].
    + (* APanic *)
      destruct (unwind rest) as [[[[p h] async] r]|] eqn:U; inversion H; subst; clear H.
      * destruct (unwind_weight cfg rest p h async r Wr U) as [Hw Hf].
        eapply upd_inv; [exact I|exact Ha|reflexivity|reflexivity|exact Hf|].
        rewrite weight_app, weight_after in Hw. wsimp. cbn. lia.
      * eapply upd_inv; [exact I|exact Ha|reflexivity|reflexivity|wfc_tac Wr|wsimp; cbn; lia].
  - inversion H; subst; clear H. eapply upd_inv; [exact I|exact Ha|reflexivity|reflexivity|wfc_tac Wr|wsimp; lia].
  - inversion H; subst; clear H. eapply upd_inv; [exact I|exact Ha|reflexivity|reflexivity|wfc_tac Wr|wsimp; lia].
  - (* IBeforeCtx *)
    destruct steps as [|[b|] more]; inversion H; subst; clear H;
      (eapply upd_inv; [exact I|exact Ha|reflexivity|reflexivity|wfc_tac Wr|wsimp; lia]).
  - (* IPersistMarshal *)
    destruct (negb (c_store cfg)); [inversion H; subst; clear H; eapply upd_inv; [exact I|exact Ha|reflexivity|reflexivity|wfc_tac Wr|wsimp; lia]|].
    destruct (p_pfault P (pb_val (get_pub s p))); inversion H; subst; clear H;
      (eapply upd_inv; [exact I|exact Ha|reflexivity|reflexivity|
         try (apply wfc_weight0_app; [destruct (c_persist_err_handler cfg), (c_obs cfg); reflexivity|]); wfc_tac Wr|
         wsimp; destruct (c_persist_err_handler cfg), (c_obs cfg); cbn; lia]).
  - inversion H; subst; clear H. eapply upd_inv; [exact I|exact Ha|reflexivity|reflexivity|wfc_tac Wr|wsimp; lia].
  - destruct (store_mu s); inversion H; subst; clear H.
    eapply upd_inv; [exact I|exact Ha|reflexivity|reflexivity|wfc_tac Wr|wsimp; cbn; lia].
  - inversion H; subst; clear H. eapply upd_inv; [exact I|exact Ha|reflexivity|reflexivity|wfc_tac Wr|wsimp; lia].
  - (* IPersistAppendDone *)
    inversion H; subst; clear H.
    eapply upd_inv; [exact I|exact Ha|reflexivity|reflexivity| |].
    + apply wfc_weight0_app; [destruct (c_obs cfg); reflexivity|].
      apply wfc_weight0_app; [|exact Wr].
      match goal with |- context[if ?b then _ else _] => destruct b end; reflexivity.
    + wsimp. destruct (c_obs cfg); match goal with |- context[if ?b then _ else _] => destruct b end; cbn; lia.
  - inversion H; subst; clear H. eapply upd_inv; [exact I|exact Ha|reflexivity|reflexivity|wfc_tac Wr|wsimp; lia].
  - inversion H; subst; clear H. eapply upd_inv; [exact I|exact Ha|reflexivity|reflexivity|wfc_tac Wr|wsimp; lia].
  - (* ISnapshot *)
    inversion H; subst; clear H.
    eapply upd_inv; [exact I|exact Ha|reflexivity|reflexivity| |].
    + apply wfc_weight0_app; [apply weight_entries|].
      apply wfc_cons0; [reflexivity|].
      apply wfc_weight0_app; [destruct (c_after_legacy cfg); reflexivity|].
      apply wfc_weight0_app; [destruct (c_after_ctx cfg); reflexivity|].
      apply wfc_weight0_app; [destruct (c_obs cfg); reflexivity|exact Wr].
    + wsimp. destruct (c_after_legacy cfg), (c_after_ctx cfg), (c_obs cfg); cbn; lia.
  - (* IEntry *)
    destruct (h_filter (r_spec h)); inversion H; subst; clear H;
      (eapply upd_inv; [exact I|exact Ha|reflexivity|reflexivity|wfc_tac Wr|wsimp; lia]).
  - destruct (filter_accepts P h (get_pub s p)); inversion H; subst; clear H;
      (eapply upd_inv; [exact I|exact Ha|reflexivity|reflexivity|wfc_tac Wr|wsimp; lia]).
  - (* IClaim *)
    destruct (h_once (r_spec h)).
    + destruct (is_cancelled s (pb_ctx (get_pub s p))); [inversion H; subst; clear H; eapply upd_inv; [exact I|exact Ha|reflexivity|reflexivity|wfc_tac Wr|wsimp; lia]|].
      destruct (memb (r_id h) (executed s)); inversion H; subst; clear H.
      * eapply upd_inv; [exact I|exact Ha|reflexivity|reflexivity|wfc_tac Wr|wsimp; lia].
      * eapply (upd_inv s a (IClaim p h :: rest) (IDispatch p h :: rest)); [exact I|exact Ha| | |wfc_tac Wr|].
        -- cbn [cont set_code code]. rewrite upd_pub_code. reflexivity.
        -- cbn [cont set_code next_actor]. rewrite upd_pub_next_actor. reflexivity.
        -- wsimp. rewrite upd_pub_inflight. cbn. lia.
    + inversion H; subst; clear H. eapply upd_inv; [exact I|exact Ha|reflexivity|reflexivity|wfc_tac Wr|wsimp; lia].
  - (* IDispatch *)
    destruct (h_async (r_spec h)).
    + inversion H; subst; clear H.
      eapply (upd_inv_spawn s a (IDispatch p h :: rest) rest (next_actor s) [ITaskStart p h]);
        [exact I|exact Ha|reflexivity|reflexivity|reflexivity|exact Wr| |wsimp; cbn; lia].
      intros pre x post E _. destruct pre as [|y pre]; cbn in E; inversion E; [reflexivity|destruct pre; discriminate].
    + destruct (is_cancelled s (pb_ctx (get_pub s p))); inversion H; subst; clear H.
      * eapply upd_inv; [exact I|exact Ha|reflexivity|reflexivity|wfc_tac Wr|wsimp; lia].
      * eapply upd_inv; [exact I|exact Ha|reflexivity|reflexivity| |wsimp; lia].
        apply wfc_weight0_app; [apply weight_call|exact Wr].
  - inversion H; subst; clear H. eapply upd_inv; [exact I|exact Ha|reflexivity|reflexivity|wfc_tac Wr|wsimp; lia].
  - destruct (assoc_get (seqlocks s) (r_id h)); inversion H; subst; clear H.
    eapply upd_inv; [exact I|exact Ha|reflexivity|reflexivity|wfc_tac Wr|wsimp; cbn; lia].
  - inversion H; subst; clear H. eapply upd_inv; [exact I|exact Ha|reflexivity|reflexivity|wfc_tac Wr|wsimp; lia].
  - (* IRecover *)
    inversion H; subst; clear H.
    destruct (after_recover_shape cfg p h async false) as [pre [E Hp]].
    destruct async.
    + assert (rest = []) by (apply (W [] (IRecover p h true) rest eq_refl); reflexivity). subst rest.
      eapply upd_inv; [exact I|exact Ha|reflexivity|reflexivity| |].
      * rewrite app_nil_r, E. apply wfc_single_end, Hp.
      * wsimp. cbn. lia.
    + eapply upd_inv; [exact I|exact Ha|reflexivity|reflexivity| |wsimp; cbn; lia].
      rewrite E, app_nil_r. apply wfc_weight0_app; [exact Hp|exact Wr].
  - inversion H; subst; clear H. eapply upd_inv; [exact I|exact Ha|reflexivity|reflexivity|wfc_tac Wr|wsimp; cbn; lia].
  - inversion H; subst; clear H. eapply upd_inv; [exact I|exact Ha|reflexivity|reflexivity|wfc_tac Wr|wsimp; lia].
  - inversion H; subst; clear H. eapply upd_inv; [exact I|exact Ha|reflexivity|reflexivity|wfc_tac Wr|wsimp; lia].
  - (* ITaskStart: the only instruction of a fresh delivery goroutine *)
    assert (rest = []) by (apply (W [] (ITaskStart p h) rest eq_refl); reflexivity). subst rest.
    destruct (h_seq (r_spec h) && negb (at_head (queue s (r_id h)) a)); [discriminate|].
    destruct (is_cancelled s (pb_ctx (get_pub s p)) && negb (h_once (r_spec h))); inversion H; subst; clear H.
    + eapply upd_inv; [exact I|exact Ha|reflexivity|reflexivity| |wsimp; cbn; lia].
      intros pre x post E _. destruct pre as [|y pre]; cbn in E; inversion E; [reflexivity|destruct pre; discriminate].
    + destruct (call_handler_shape P p h true (c_obs cfg)) as [pre [E Hp]].
      eapply upd_inv; [exact I|exact Ha|reflexivity|reflexivity| |wsimp; cbn; lia].
      rewrite app_nil_r, E. apply wfc_single_end, Hp.
  - (* ITaskDone *)
    assert (rest = []) by (apply (W [] ITaskDone rest eq_refl); reflexivity). subst rest.
    inversion H; subst; clear H.
    pose proof (total_ge (code s) a [ITaskDone] Ha) as Hge. rewrite (wi_total s I) in Hge. cbn in Hge.
    eapply upd_inv; [exact I|exact Ha|reflexivity|reflexivity|apply wfc_nil|wsimp; cbn; lia].
  - (* IRemoveOnce *)
    destruct (pb_claimed (get_pub s p)); inversion H; subst; clear H;
      (eapply upd_inv; [exact I|exact Ha|reflexivity|reflexivity|wfc_tac Wr|wsimp; cbn; lia]).
  - inversion H; subst; clear H. eapply upd_inv; [exact I|exact Ha|reflexivity|reflexivity|wfc_tac Wr|wsimp; lia].
  - inversion H; subst; clear H. eapply upd_inv; [exact I|exact Ha|reflexivity|reflexivity|wfc_tac Wr|wsimp; lia].
  - inversion H; subst; clear H. eapply upd_inv; [exact I|exact Ha|reflexivity|reflexivity|wfc_tac Wr|wsimp; lia].
  - inversion H; subst; clear H. eapply upd_inv; [exact I|exact Ha|reflexivity|reflexivity|wfc_tac Wr|wsimp; cbn; lia].
  - inversion H; subst; clear H. eapply upd_inv; [exact I|exact Ha|reflexivity|reflexivity|wfc_tac Wr|wsimp; lia].
  - (* IShutdownSelect *)
    destruct (memb sid (waiters_done s)); [inversion H; subst; clear H; eapply upd_inv; [exact I|exact Ha|reflexivity|reflexivity|wfc_tac Wr|wsimp; cbn; lia]|].
    destruct (is_cancelled s c); inversion H; subst; clear H.
    eapply upd_inv; [exact I|exact Ha|reflexivity|reflexivity|wfc_tac Wr|wsimp; lia].
  - (* IWaiterDone *)
    destruct (Nat.eqb (inflight s) 0); inversion H; subst; clear H.
    eapply upd_inv; [exact I|exact Ha|reflexivity|reflexivity|wfc_tac Wr|wsimp; cbn; lia].
  - discriminate.
Qed.

(* the stepping actor keeps the weight of its code, except when it executes ITaskDone (wg.Done) *)
Lemma code_cont s a c : assoc_get (code (cont s a c)) a = Some c.
Proof. cbn [cont set_code code]. apply assoc_get_set_same. Qed.

Ltac break_head H :=
  repeat match type of H with
         | (if ?x then _ else _) = _ => destruct x eqn:?
         | (match ?x with _ => _ end) = _ => destruct x eqn:?
         | (let (_, _) := ?x in _) = _ => destruct x eqn:?
         end.

Ltac fin_weight :=
  eexists; split;
  [first [apply code_cont | (cbn [cont set_code code]; rewrite ?upd_pub_code; apply assoc_get_set_same)]
  |left; wsimp; cbn [weight_i];
   repeat (match goal with
           | |- context[if ?b then _ else _] => destruct b
           | |- context[match ?b with _ => _ end] => destruct b
           end); cbn; lia].

Lemma step_weight_actor P cfg s a i rest s' ls :
  wfc (i :: rest) -> step_instr P cfg s a i rest = Some (s', ls) ->
  exists newc, assoc_get (code s') a = Some newc /\ (weight newc = weight (i :: rest) \/ (i = ITaskDone /\ newc = rest)).
Proof.
  intros W H. pose proof (wfc_tail _ _ W) as Wr.
  destruct i; cbn [step_instr] in H.
  all: try (break_head H; try discriminate; inversion H; subst; clear H; solve [fin_weight]).
  - (* IDo *)
    destruct a0; cbn [step_instr] in H; break_head H; try discriminate; inversion H; subst; clear H;
      try solve [fin_weight].
    match goal with U : unwind rest = Some (?p, ?h, ?async, ?r) |- _ =>
      destruct (unwind_weight cfg rest p h async r Wr U) as [Hw _] end.
    eexists; split; [apply code_cont|left; wsimp; cbn [weight_i]; rewrite weight_app, weight_after in Hw; lia].
  - (* ITaskDone *)
    inversion H; subst; clear H. eexists; split; [apply code_cont|right; split; reflexivity].
Qed.

Lemma upd_pub_store_closed s p f : store_closed (upd_pub s p f) = store_closed s.
Proof. unfold upd_pub. destruct (assoc_get (pubs s) p); reflexivity. Qed.
Lemma upd_pub_registry s p f : registry (upd_pub s p f) = registry s.
Proof. unfold upd_pub. destruct (assoc_get (pubs s) p); reflexivity. Qed.
Lemma upd_pub_next_rid s p f : next_rid (upd_pub s p f) = next_rid s.
Proof. unfold upd_pub. destruct (assoc_get (pubs s) p); reflexivity. Qed.
Lemma upd_pub_store_log s p f : store_log (upd_pub s p f) = store_log s.
Proof. unfold upd_pub. destruct (assoc_get (pubs s) p); reflexivity. Qed.
Lemma upd_pub_tasks s p f : tasks (upd_pub s p f) = tasks s.
Proof. unfold upd_pub. destruct (assoc_get (pubs s) p); reflexivity. Qed.

(* what a micro-step of actor a does to the other actors: nothing, except that it may create one new actor *)
Ltac fin_frame :=
  first
    [ left; split; [cbn [cont set_code tasks]; rewrite ?upd_pub_tasks; reflexivity|];
      let x := fresh "x" in let Hx := fresh "Hx" in
      intros x Hx; cbn [cont set_code code]; rewrite ?upd_pub_code; cbn [code];
      rewrite assoc_get_set_other by congruence; reflexivity ].

Lemma step_frame P cfg s a i rest s' ls :
  step_instr P cfg s a i rest = Some (s', ls) ->
  (tasks s' = tasks s /\ forall b, b <> a -> assoc_get (code s') b = assoc_get (code s) b) \/
  (exists p h, tasks s' = tasks s ++ [(p, r_id h, next_actor s)] /\
               (a <> next_actor s -> assoc_get (code s') (next_actor s) = Some [ITaskStart p h]) /\
               forall b, b <> a -> b <> next_actor s -> assoc_get (code s') b = assoc_get (code s) b) \/
  (tasks s' = tasks s /\ (exists w, a <> next_actor s -> assoc_get (code s') (next_actor s) = Some w /\ weight w = 0) /\
   forall b, b <> a -> b <> next_actor s -> assoc_get (code s') b = assoc_get (code s) b).
Proof.
  intros H.
  destruct i; cbn [step_instr] in H.
  all: try (break_head H; try discriminate; inversion H; subst; clear H; solve [fin_frame]).
  - (* IDo *)
    destruct a0; cbn [step_instr] in H; break_head H; try discriminate; inversion H; subst; clear H;
      try solve [fin_frame].
    (* AShutdown: the waiter goroutine *)
    right; right. split; [reflexivity|]. split.
    + exists [IWaiterDone (next_sid s)]. intros Hne. cbn [cont set_code code].
      rewrite assoc_get_set_other by congruence.
      rewrite assoc_get_set_same. split; reflexivity.
    + intros b Hb Hb2. cbn [cont set_code code].
      rewrite assoc_get_set_other by congruence.
      rewrite assoc_get_set_other by congruence. reflexivity.
  - (* IDispatch async *)
    break_head H; try discriminate; inversion H; subst; clear H; try solve [fin_frame].
    right; left. exists p, h. split; [reflexivity|]. split.
    + intros Hne. cbn [cont set_code code].
      rewrite assoc_get_set_other by congruence. apply assoc_get_set_same.
    + intros b Hb Hb2. cbn [cont set_code code].
      rewrite assoc_get_set_other by congruence.
      rewrite assoc_get_set_other by congruence. reflexivity.
Qed.

Lemma map_fst_combine {A B} (l1 : list A) (l2 : list B) : length l1 = length l2 -> map fst (combine l1 l2) = l1.
Proof.
  revert l2. induction l1 as [|x l1 IH]; intros [|y l2] H; cbn in *; try discriminate; [reflexivity|].
  f_equal. apply IH. lia.
Qed.

Section Reach.
  Variable P : program.
  Variable cfg : buscfg.

  Definition reachable (s : bstate) : Prop :=
    exists threads sched, s = fst (run P cfg (init_state threads) sched).

  Lemma weight_acts_all l : weight (acts l) = 0.
  Proof. apply weight_acts. Qed.

  Lemma winv_init threads : winv (init_state threads).
  Proof.
    unfold init_state. split; cbn [code next_actor inflight].
    - rewrite map_fst_combine by (rewrite seq_length, map_length; reflexivity). apply seq_NoDup.
    - intros a c H.
      assert (Hin: In (a, c) (combine (seq 0 (length threads)) (map acts threads))).
      { clear -H. induction (combine (seq 0 (length threads)) (map acts threads)) as [|[k v] r IH]; [discriminate|].
        cbn in H. destruct (Nat.eqb k a) eqn:E; [apply Nat.eqb_eq in E; inversion H; subst; left; reflexivity|right; apply IH, H]. }
      split.
      + apply in_combine_l in Hin. apply in_seq in Hin. lia.
      + apply in_combine_r in Hin. apply in_map_iff in Hin. destruct Hin as [l [<- _]].
        rewrite <- (app_nil_r (acts l)). apply wfc_weight0_app; [apply weight_acts|apply wfc_nil].
    - assert (H: forall k (ts : list (list action)), total (combine (seq k (length ts)) (map acts ts)) = 0).
      { intros k ts. revert k. induction ts as [|t ts IH]; intros k; [reflexivity|].
        cbn [length seq map combine]. rewrite total_cons, weight_acts, IH. reflexivity. }
      apply H.
  Qed.

  Lemma winv_run : forall sched s, winv s -> winv (fst (run P cfg s sched)).
  Proof.
    induction sched as [|a r IH]; intros s I; cbn [run]; [exact I|].
    destruct (mstep P cfg s a) as [[s' ls]|] eqn:E.
    - specialize (IH s' (winv_step P cfg s a s' ls I E)). destruct (run P cfg s' r). exact IH.
    - apply IH, I.
  Qed.

  (* C06_inflight_counts: in every reachable state the bus's wait counter equals the number of
     asynchronous deliveries that have been spawned and have not yet run their wg.Done *)
  Theorem inflight_counts s : reachable s -> inflight s = total (code s) /\ winv s.
  Proof.
    intros [threads [sched ->]]. pose proof (winv_run sched _ (winv_init threads)) as I.
    split; [symmetry; apply (wi_total _ I)|exact I].
  Qed.

  (* every delivery goroutine has weight 1 until its wg.Done, after which its code is empty *)
  Definition task_inv (s : bstate) : Prop :=
    forall p rid t, In (p, rid, t) (tasks s) ->
      exists c, assoc_get (code s) t = Some c /\ (c = [] \/ weight c = 1).

  Lemma task_inv_step s a s' ls : winv s -> task_inv s -> mstep P cfg s a = Some (s', ls) -> task_inv s'.
  Proof.
    intros I T H. unfold mstep in H.
    destruct (assoc_get (code s) a) as [[|i rest]|] eqn:Ha; try discriminate.
    pose proof (wi_bound s I a (i :: rest) Ha) as [Halt W].
    destruct (step_weight_actor P cfg s a i rest s' ls W H) as [newc [Hnew Hw]].
    assert (Hself: forall p rid, In (p, rid, a) (tasks s) -> newc = [] \/ weight newc = 1).
    { intros p rid Hin. destruct (T p rid a Hin) as [c [Hc Hc2]]. rewrite Ha in Hc. inversion Hc; subst c.
      destruct Hc2 as [Hc2|Hc2]; [discriminate|].
      destruct Hw as [Hw|[-> ->]]; [right; lia|].
      left. apply (W [] ITaskDone rest eq_refl). reflexivity. }
    assert (Hold: forall p rid t, In (p, rid, t) (tasks s) ->
              (forall b, b <> a -> b <> next_actor s -> assoc_get (code s') b = assoc_get (code s) b) ->
              exists c, assoc_get (code s') t = Some c /\ (c = [] \/ weight c = 1)).
    { intros p rid t Hin Hsame. destruct (Nat.eq_dec t a) as [->|Hne].
      - exists newc. split; [exact Hnew|eapply Hself; exact Hin].
      - destruct (T p rid t Hin) as [c [Hc Hc2]].
        assert (t < next_actor s) by (apply (wi_bound s I t c Hc)).
        exists c. split; [rewrite Hsame by lia; exact Hc|exact Hc2]. }
    destruct (step_frame P cfg s a i rest s' ls H) as [[Ht Hs]|[[p0 [h0 [Ht [Hn Hs]]]]|[Ht [_ Hs]]]];
      intros p rid t Hin; rewrite Ht in Hin.
    - apply (Hold p rid t Hin). intros b Hb _. apply Hs, Hb.
    - apply in_app_or in Hin. destruct Hin as [Hin|[Hin|[]]].
      + apply (Hold p rid t Hin). exact Hs.
      + inversion Hin; subst. exists [ITaskStart p h0]. split; [apply Hn; lia|right; reflexivity].
    - apply (Hold p rid t Hin). exact Hs.
  Qed.

  Lemma task_inv_run : forall sched s, winv s -> task_inv s -> task_inv (fst (run P cfg s sched)).
  Proof.
    induction sched as [|a r IH]; intros s I T; cbn [run]; [exact T|].
    destruct (mstep P cfg s a) as [[s' ls]|] eqn:E.
    - specialize (IH s' (winv_step P cfg s a s' ls I E) (task_inv_step s a s' ls I T E)). destruct (run P cfg s' r). exact IH.
    - apply IH; assumption.
  Qed.

  Theorem task_inv_reachable s : reachable s -> task_inv s.
  Proof.
    intros [threads [sched ->]]. apply task_inv_run; [apply winv_init|]. intros p rid t [].
  Qed.

  (* C06_wait: Wait (and the waiter goroutine of Shutdown) can proceed only in a state in which every
     asynchronous delivery spawned so far - by any publish, at any nesting depth - has completely finished *)
  Theorem wait_only_when_all_done s a rest s' ls :
    reachable s ->
    (assoc_get (code s) a = Some (IDo AWait :: rest) \/ exists sid, assoc_get (code s) a = Some (IWaiterDone sid :: rest)) ->
    mstep P cfg s a = Some (s', ls) ->
    forall p rid t, In (p, rid, t) (tasks s) -> assoc_get (code s) t = Some [].
  Proof.
    intros R Hhead H p rid t Hin.
    destruct (inflight_counts s R) as [Hc I].
    assert (Hz: inflight s = 0).
    { unfold mstep in H. destruct Hhead as [Ha|[sid Ha]]; rewrite Ha in H; cbn [step_instr] in H;
        destruct (Nat.eqb (inflight s) 0) eqn:E; try discriminate; apply Nat.eqb_eq, E. }
    destruct (task_inv_reachable s R p rid t Hin) as [c [Hcode [->|Hw]]]; [exact Hcode|].
    pose proof (total_ge (code s) t c Hcode). lia.
  Qed.
End Reach.

(* the store is closed only by a Shutdown whose waiter saw Wait return, in the step that reports nil *)
Theorem close_only_on_nil_shutdown P cfg s a i rest s' ls :
  step_instr P cfg s a i rest = Some (s', ls) ->
  store_closed s' = store_closed s \/
  (exists sid c, i = IShutdownSelect sid c /\ memb sid (waiters_done s) = true /\
                 In (LRes (AShutdown c) 1) ls /\ store_closed s' = S (store_closed s)).
Proof.
  intros H. destruct i; cbn [step_instr] in H.
  all: try (break_head H; try discriminate; inversion H; subst; clear H;
            solve [left; cbn [cont set_code store_closed]; rewrite ?upd_pub_store_closed; reflexivity]).
  break_head H; try discriminate; inversion H; subst; clear H.
    + destruct (c_store cfg) eqn:Ec.
      * right. exists sid, c. split; [reflexivity|]. split; [assumption|]. split; [right; left; reflexivity|].
        cbn [cont set_code store_closed]. reflexivity.
      * left. cbn [cont set_code store_closed]. reflexivity.
    + left. reflexivity.
Qed.

(* ================================================================== *)
(* Registry operations are exact (C01) and keep registrations unique (C02)                      *)
Lemma assoc_get_del_same {V} (l : list (nat * V)) k : assoc_get (assoc_del l k) k = None.
Proof.
  induction l as [|[k' v] r IH]; cbn; [reflexivity|].
  destruct (Nat.eqb k' k) eqn:E; cbn; [exact IH|rewrite E; exact IH].
Qed.
Lemma assoc_get_del_other {V} (l : list (nat * V)) k k' : k <> k' -> assoc_get (assoc_del l k) k' = assoc_get l k'.
Proof.
  intros N. induction l as [|[k0 v] r IH]; cbn; [reflexivity|].
  destruct (Nat.eqb k0 k) eqn:E; cbn.
  - apply Nat.eqb_eq in E. subst. destruct (Nat.eqb k k') eqn:E2; [apply Nat.eqb_eq in E2; contradiction|exact IH].
  - destruct (Nat.eqb k0 k'); [reflexivity|exact IH].
Qed.

(* Unsubscribe: exactly the first registration with that function goes away, nothing else changes *)
Lemma remove_first_fn_spec l fn :
  match remove_first_fn l fn with
  | Some l' => exists pre h post, l = pre ++ h :: post /\ l' = pre ++ post /\ h_fn (r_spec h) = fn /\
                                  forall x, In x pre -> h_fn (r_spec x) <> fn
  | None => forall x, In x l -> h_fn (r_spec x) <> fn
  end.
Proof.
  induction l as [|h r IH]; cbn; [intros x []|].
  destruct (Nat.eqb (h_fn (r_spec h)) fn) eqn:E.
  - apply Nat.eqb_eq in E. exists [], h, r. repeat split; auto.
  - apply Nat.eqb_neq in E. destruct (remove_first_fn r fn) as [r'|].
    + destruct IH as [pre [h0 [post [H1 [H2 [H3 H4]]]]]]. exists (h :: pre), h0, post. subst. repeat split; auto.
      intros x [<-|Hx]; [exact E|apply H4, Hx].
    + intros x [<-|Hx]; [exact E|apply IH, Hx].
Qed.

Theorem unsubscribe_exact P cfg s a t fn rest s' ls :
  step_instr P cfg s a (IDo (AUnsub t fn)) rest = Some (s', ls) ->
  (forall t', t' <> t -> handlers_of s' t' = handlers_of s t') /\
  match remove_first_fn (handlers_of s t) fn with
  | Some l' => handlers_of s' t = l' /\ ls = [LRes (AUnsub t fn) 1]
  | None => handlers_of s' t = handlers_of s t /\ ls = [LRes (AUnsub t fn) 0]
  end.
Proof.
  intros H. cbn [step_instr] in H. unfold handlers_of in *.
  destruct (remove_first_fn match assoc_get (registry s) t with Some l => l | None => [] end fn) eqn:E;
    inversion H; subst; clear H; cbn [cont set_code set_registry registry].
  - split; [intros t' N; rewrite assoc_get_set_other by congruence; reflexivity|].
    rewrite assoc_get_set_same. auto.
  - auto.
Qed.

Theorem subscribe_exact P cfg s a t sp rest s' ls :
  step_instr P cfg s a (IDo (ASub t sp)) rest = Some (s', ls) ->
  handlers_of s' t = handlers_of s t ++ [{| r_id := next_rid s; r_ty := t; r_spec := sp |}] /\
  (forall t', t' <> t -> handlers_of s' t' = handlers_of s t') /\ next_rid s' = S (next_rid s).
Proof.
  intros H. cbn [step_instr] in H. inversion H; subst; clear H. unfold handlers_of. cbn [cont set_code set_registry registry next_rid].
  rewrite assoc_get_set_same. split; [reflexivity|]. split; [|reflexivity]. intros t' N. rewrite assoc_get_set_other by congruence. reflexivity.
Qed.

Theorem clear_exact P cfg s a t rest s' ls :
  step_instr P cfg s a (IDo (AClear t)) rest = Some (s', ls) ->
  handlers_of s' t = [] /\ forall t', t' <> t -> handlers_of s' t' = handlers_of s t'.
Proof.
  intros H. cbn [step_instr] in H. inversion H; subst; clear H. unfold handlers_of. cbn [cont set_code set_registry registry].
  rewrite assoc_get_del_same. split; [reflexivity|]. intros t' N. rewrite assoc_get_del_other by congruence. reflexivity.
Qed.

Theorem count_agrees P cfg s a t rest s' ls :
  step_instr P cfg s a (IDo (ACount t)) rest = Some (s', ls) ->
  ls = [LRes (ACount t) (length (handlers_of s t))] /\ registry s' = registry s.
Proof. intros H. cbn [step_instr] in H. inversion H; subst. auto. Qed.

Theorem has_agrees P cfg s a t rest s' ls :
  step_instr P cfg s a (IDo (AHas t)) rest = Some (s', ls) ->
  ls = [LRes (AHas t) (if Nat.ltb 0 (length (handlers_of s t)) then 1 else 0)] /\ registry s' = registry s.
Proof. intros H. cbn [step_instr] in H. inversion H; subst. auto. Qed.

(* one shard step of ClearAll removes exactly the types routed to that shard - for ANY routing function *)
Theorem clear_shard_exact P cfg s a k rest s' ls :
  step_instr P cfg s a (IClearShard k) rest = Some (s', ls) ->
  forall t, handlers_of s' t = if Nat.eqb (p_routes P t) k then [] else handlers_of s t.
Proof.
  intros H t. cbn [step_instr] in H. inversion H; subst; clear H. unfold handlers_of. cbn [cont set_code set_registry registry].
  induction (registry s) as [|[t0 l0] r IH]; cbn; [destruct (Nat.eqb (p_routes P t) k); reflexivity|].
  destruct (Nat.eqb (p_routes P t0) k) eqn:E; cbn.
  - rewrite IH. destruct (Nat.eqb t0 t) eqn:Et; [apply Nat.eqb_eq in Et; subst; rewrite E; reflexivity|reflexivity].
  - destruct (Nat.eqb t0 t) eqn:Et; [apply Nat.eqb_eq in Et; subst; rewrite E; reflexivity|exact IH].
Qed.

(* the snapshot: exactly the registrations of the published type at that step, in subscription order,
   each queued once; then the once-removal, the after hooks and the completion callback *)
Theorem snapshot_exact P cfg s a p rest s' ls :
  step_instr P cfg s a (ISnapshot p) rest = Some (s', ls) ->
  exists tail, assoc_get (code s') a = Some (map (IEntry p) (handlers_of s (pb_ty (get_pub s p))) ++ IRemoveOnce p :: tail) /\
               registry s' = registry s /\ ls = [] /\
               tail = (match c_after_legacy cfg with Some _ => [IAfterLegacy p] | None => [] end) ++
                      (match c_after_ctx cfg with Some _ => [IAfterCtx p] | None => [] end) ++
                      (if c_obs cfg then [IPubDone p] else []) ++ rest.
Proof.
  intros H. cbn [step_instr] in H. inversion H; subst; clear H. eexists. split; [apply code_cont|]. auto.
Qed.

(* per snapshot entry: the decisions of the dispatch loop, in code order *)
Theorem entry_decisions P cfg s a p h rest :
  (forall s' ls, step_instr P cfg s a (IFilterDone p h) rest = Some (s', ls) ->
     assoc_get (code s') a = Some (if filter_accepts P h (get_pub s p) then IClaim p h :: rest else rest)) /\
  (forall s' ls, step_instr P cfg s a (IClaim p h) rest = Some (s', ls) ->
     assoc_get (code s') a =
       Some (if h_once (r_spec h)
             then (if is_cancelled s (pb_ctx (get_pub s p)) then rest
                   else if memb (r_id h) (executed s) then rest else IDispatch p h :: rest)
             else IDispatch p h :: rest)) /\
  (forall s' ls, h_async (r_spec h) = false -> step_instr P cfg s a (IDispatch p h) rest = Some (s', ls) ->
     assoc_get (code s') a = Some (if is_cancelled s (pb_ctx (get_pub s p)) then rest
                                   else call_handler P p h false (c_obs cfg) ++ rest)).
Proof.
  split; [|split].
  - intros s' ls H. cbn [step_instr] in H. destruct (filter_accepts P h (get_pub s p)); inversion H; subst; apply code_cont.
  - intros s' ls H. cbn [step_instr] in H. destruct (h_once (r_spec h)).
    + destruct (is_cancelled s (pb_ctx (get_pub s p))); [inversion H; subst; apply code_cont|].
      destruct (memb (r_id h) (executed s)); inversion H; subst; [apply code_cont|].
      cbn [cont set_code code]. rewrite upd_pub_code. apply assoc_get_set_same.
    + inversion H; subst; apply code_cont.
  - intros s' ls Ha H. cbn [step_instr] in H. rewrite Ha in H.
    destruct (is_cancelled s (pb_ctx (get_pub s p))); inversion H; subst; apply code_cont.
Qed.

(* C02: registration identities are unique and never reused *)
Definition reg_wf (s : bstate) : Prop :=
  forall t, NoDup (map r_id (handlers_of s t)) /\ forall h, In h (handlers_of s t) -> r_id h < next_rid s.

Lemma remove_first_fn_incl l fn l' : remove_first_fn l fn = Some l' -> incl l' l /\ (NoDup (map r_id l) -> NoDup (map r_id l')).
Proof.
  revert l'. induction l as [|h r IH]; cbn; intros l' H; [discriminate|].
  destruct (Nat.eqb (h_fn (r_spec h)) fn).
  - inversion H; subst. split; [intros x Hx; right; exact Hx|]. intros ND. inversion ND; assumption.
  - destruct (remove_first_fn r fn) as [r'|]; [|discriminate]. inversion H; subst.
    destruct (IH r' eq_refl) as [I N]. split.
    + intros x [<-|Hx]; [left; reflexivity|right; apply I, Hx].
    + intros ND. inversion ND; subst. cbn. constructor; [|apply N; assumption].
      intro Hin. apply H2. apply in_map_iff in Hin. destruct Hin as [x [Hx1 Hx2]]. apply in_map_iff. exists x. split; [exact Hx1|apply I, Hx2].
Qed.

Lemma filter_nodup_rid (f : regn -> bool) l : NoDup (map r_id l) -> NoDup (map r_id (filter f l)).
Proof.
  induction l as [|h r IH]; cbn; intros ND; [constructor|]. inversion ND; subst.
  destruct (f h); cbn; [constructor|]; auto.
  intro Hin. apply H1. apply in_map_iff in Hin. destruct Hin as [x [Hx1 Hx2]]. apply in_map_iff. exists x. split; [exact Hx1|].
  apply filter_In in Hx2. tauto.
Qed.

Lemma fold_remove_rid_incl cl : forall l, incl (fold_left remove_rid cl l) l /\ (NoDup (map r_id l) -> NoDup (map r_id (fold_left remove_rid cl l))).
Proof.
  induction cl as [|c cl IH]; intros l; cbn [fold_left]; [split; [apply incl_refl|auto]|].
  destruct (IH (remove_rid l c)) as [I N]. split.
  - intros x Hx. apply I in Hx. unfold remove_rid in Hx. apply filter_In in Hx. tauto.
  - intros ND. apply N. apply filter_nodup_rid, ND.
Qed.

Theorem reg_wf_step P cfg s a s' ls : reg_wf s -> mstep P cfg s a = Some (s', ls) -> reg_wf s'.
Proof.
  intros Wf H. unfold mstep in H.
  destruct (assoc_get (code s) a) as [[|i rest]|] eqn:Ha; try discriminate.
  assert (Hsame: registry s' = registry s -> next_rid s' = next_rid s -> reg_wf s').
  { intros Hr Hn t. unfold handlers_of. rewrite Hr, Hn. apply Wf. }
  destruct i; cbn [step_instr] in H.
  all: try (break_head H; try discriminate; inversion H; subst; clear H;
            solve [apply Hsame; cbn [cont set_code registry next_rid]; rewrite ?upd_pub_registry, ?upd_pub_next_rid; reflexivity]).
  - (* IDo *)
    destruct a0.
    + (* ASub *)
      destruct (subscribe_exact P cfg s a t s0 rest s' ls H) as [Ht [Ho Hn]].
      intros t'. rewrite Hn. destruct (Nat.eq_dec t' t) as [->|N].
      * rewrite Ht, map_app. cbn [map r_id]. destruct (Wf t) as [ND B]. split.
        -- apply nodup_snoc; [exact ND|]. intro Hin. apply in_map_iff in Hin. destruct Hin as [x [Hx1 Hx2]].
           specialize (B x Hx2). lia.
        -- intros h Hh. apply in_app_or in Hh. destruct Hh as [Hh|[<-|[]]]; [specialize (B h Hh); lia|cbn; lia].
      * rewrite Ho by exact N. destruct (Wf t') as [ND B]. split; [exact ND|]. intros h Hh. specialize (B h Hh). lia.
    + (* AUnsub *)
      destruct (unsubscribe_exact P cfg s a t fn rest s' ls H) as [Ho Hm].
      assert (Hn: next_rid s' = next_rid s).
      { cbn [step_instr] in H. destruct (remove_first_fn (handlers_of s t) fn); inversion H; subst; reflexivity. }
      intros t'. rewrite Hn. destruct (Nat.eq_dec t' t) as [->|N]; [|rewrite Ho by exact N; apply Wf].
      destruct (remove_first_fn (handlers_of s t) fn) as [l'|] eqn:E.
      * destruct Hm as [-> _]. destruct (remove_first_fn_incl _ _ _ E) as [I ND]. destruct (Wf t) as [ND0 B].
        split; [apply ND, ND0|]. intros h Hh. apply B, I, Hh.
      * destruct Hm as [-> _]. apply Wf.
    + (* AClear *)
      destruct (clear_exact P cfg s a t rest s' ls H) as [Ht Ho].
      assert (Hn: next_rid s' = next_rid s) by (cbn [step_instr] in H; inversion H; subst; reflexivity).
      intros t'. rewrite Hn. destruct (Nat.eq_dec t' t) as [->|N]; [rewrite Ht; split; [constructor|intros h []]|rewrite Ho by exact N; apply Wf].
    + cbn [step_instr] in H; inversion H; subst; clear H. apply Hsame; reflexivity.
    + cbn [step_instr] in H; inversion H; subst; clear H. apply Hsame; reflexivity.
    + cbn [step_instr] in H; inversion H; subst; clear H. apply Hsame; reflexivity.
    + cbn [step_instr] in H; inversion H; subst; clear H. apply Hsame; reflexivity.
    + cbn [step_instr] in H; inversion H; subst; clear H. apply Hsame; reflexivity.
    + cbn [step_instr] in H; destruct (Nat.eqb (inflight s) 0); inversion H; subst; clear H. apply Hsame; reflexivity.
    + cbn [step_instr] in H; inversion H; subst; clear H. apply Hsame; reflexivity.
    + cbn [step_instr] in H; destruct (unwind rest) as [[[[? ?] ?] ?]|]; inversion H; subst; clear H; apply Hsame; reflexivity.
  - (* IRemoveOnce *)
    destruct (pb_claimed (get_pub s p)) as [|c cl] eqn:Ec; inversion H; subst; clear H; [apply Hsame; reflexivity|].
    intros t'. unfold handlers_of. cbn [cont set_code set_registry registry next_rid].
    destruct (Nat.eq_dec t' (pb_ty (get_pub s p))) as [->|N].
    + rewrite assoc_get_set_same. destruct (fold_remove_rid_incl (c :: cl) (handlers_of s (pb_ty (get_pub s p)))) as [I ND].
      destruct (Wf (pb_ty (get_pub s p))) as [ND0 B]. split; [apply ND, ND0|]. intros h Hh. apply B, I, Hh.
    + rewrite assoc_get_set_other by congruence. apply Wf.
  - (* IClearShard *)
    pose proof (clear_shard_exact P cfg s a i rest s' ls H) as Hc.
    assert (Hn: next_rid s' = next_rid s) by (inversion H; subst; reflexivity).
    intros t'. rewrite Hn, Hc. destruct (Nat.eqb (p_routes P t') i); [split; [constructor|intros h []]|apply Wf].
Qed.


Lemma reg_wf_run P cfg : forall sched s, reg_wf s -> reg_wf (fst (run P cfg s sched)).
Proof.
  induction sched as [|a r IH]; intros s W; cbn [run]; [exact W|].
  destruct (mstep P cfg s a) as [[s' ls]|] eqn:E.
  - specialize (IH s' (reg_wf_step P cfg s a s' ls W E)). destruct (run P cfg s' r). exact IH.
  - apply IH, W.
Qed.
Theorem reg_wf_reachable P cfg s : reachable P cfg s -> reg_wf s.
Proof.
  intros [threads [sched ->]]. apply reg_wf_run. intros t. unfold handlers_of, init_state. cbn. split; [constructor|intros h []].
Qed.

(* ================================================================== *)
(* C05: a panic unwinds to the nearest deferred recover and nothing else is lost *)
Definition no_recover (l : list instr) : Prop := forall i, In i l -> match i with IRecover _ _ _ => False | _ => True end.

Lemma unwind_spec l p h async r :
  unwind l = Some (p, h, async, r) <-> exists pre, l = pre ++ IRecover p h async :: r /\ no_recover pre.
Proof.
  split.
  - revert p h async r. induction l as [|i l IH]; intros p h async r H; [discriminate|].
    destruct i; cbn [unwind] in H;
      try (destruct (IH _ _ _ _ H) as [pre [-> N]]; eexists (_ :: pre); split; [reflexivity|];
           intros x [<-|Hx]; [exact I|apply N, Hx]).
    inversion H; subst. exists []. split; [reflexivity|intros x []].
  - intros [pre [-> N]]. induction pre as [|i pre IH]; [reflexivity|].
    assert (Hi: match i with IRecover _ _ _ => False | _ => True end) by (apply N; left; reflexivity).
    destruct i; try contradiction; cbn [app unwind]; apply IH; intros x Hx; apply N; right; exact Hx.
Qed.

Theorem panic_recovered P cfg s a v pre p h async r s' ls :
  no_recover pre ->
  step_instr P cfg s a (IDo (APanic v)) (pre ++ IRecover p h async :: r) = Some (s', ls) ->
  assoc_get (code s') a = Some (after_recover cfg p h async true ++ r) /\ ls = [] /\
  registry s' = registry s /\ executed s' = executed s /\ inflight s' = inflight s /\ seqlocks s' = seqlocks s.
Proof.
  intros N H. cbn [step_instr] in H.
  assert (U: unwind (pre ++ IRecover p h async :: r) = Some (p, h, async, r)) by (apply unwind_spec; eauto).
  rewrite U in H. inversion H; subst; clear H. split; [apply code_cont|]. repeat split.
Qed.

(* what runs after the recover: the deferred unlock (Sequential), the panic handler exactly once (if set and the
   handler panicked), the completion callback with the error flag (if observability is on), wg.Done (async) *)
Theorem after_recover_contents cfg p h async panicked :
  after_recover cfg p h async panicked =
    (if h_seq (r_spec h) then [IUnlock h] else []) ++
    (if panicked && c_panic_handler cfg then [IPanicHandler p h] else []) ++
    (if c_obs cfg then [IHandlerDone p h panicked] else []) ++
    (if async then [ITaskDone] else []).
Proof. reflexivity. Qed.

(* ================================================================== *)
(* C08: the shape of one publish: observability start, legacy before hook, context-aware before slot, snapshot *)
Theorem publish_shape P cfg s a t v c any rest s' ls :
  step_instr P cfg s a (IDo (APub t v c any)) rest = Some (s', ls) ->
  assoc_get (code s') a =
    Some ((if c_obs cfg then [IPubStart (next_pid s)] else []) ++
          (match c_before_legacy cfg with Some _ => [IBeforeLegacy (next_pid s)] | None => [] end) ++
          (match c_before_ctx cfg with [] => [] | st => [IBeforeCtx (next_pid s) st] end) ++
          [ISnapshot (next_pid s)] ++ rest) /\
  get_pub s' (next_pid s) = {| pb_ty := t; pb_val := v; pb_ctx := c; pb_any := any; pb_claimed := [] |} /\ ls = [].
Proof.
  intros H. cbn [step_instr] in H. inversion H; subst; clear H. split; [apply code_cont|]. split; [|reflexivity].
  unfold get_pub. cbn [cont set_code pubs]. rewrite assoc_get_set_same. reflexivity.
Qed.

(* the panic handler step: one call (one label) with the event and the handler, then the panic handler's own body - with
   nothing locked by this step: the handler's mutex was released by the instruction before (after_recover_contents) *)
Theorem panic_handler_step P cfg s a p h rest s' ls :
  step_instr P cfg s a (IPanicHandler p h) rest = Some (s', ls) ->
  assoc_get (code s') a = Some (acts (panic_acts P (pb_val (get_pub s p))) ++ rest) /\ ls = [LPanicHandler p (r_id h)] /\
  seqlocks s' = seqlocks s /\ registry s' = registry s /\ inflight s' = inflight s.
Proof.
  intros H. cbn [step_instr] in H. inversion H; subst; clear H. split; [apply code_cont|]. repeat split.
Qed.

(* a delivery goroutine whose publish context is cancelled when it starts runs nothing but wg.Done - unless the handler
   is a Once handler, which the publish has already claimed: that one runs *)
Theorem task_start_decision P cfg s a p h rest s' ls :
  step_instr P cfg s a (ITaskStart p h) rest = Some (s', ls) ->
  assoc_get (code s') a = Some (if is_cancelled s (pb_ctx (get_pub s p)) && negb (h_once (r_spec h)) then ITaskDone :: rest
                                else call_handler P p h true (c_obs cfg) ++ rest) /\ ls = [] /\
  (h_seq (r_spec h) = true -> at_head (queue s (r_id h)) a = true).
Proof.
  intros H. cbn [step_instr] in H.
  destruct (h_seq (r_spec h)) eqn:Hs; cbn [andb] in H.
  - destruct (at_head (queue s (r_id h)) a) eqn:Hh; cbn [negb] in H; [|discriminate].
    destruct (is_cancelled s (pb_ctx (get_pub s p)) && negb (h_once (r_spec h))); inversion H; subst;
      (split; [apply code_cont|split; [reflexivity|intros _; reflexivity]]).
  - destruct (is_cancelled s (pb_ctx (get_pub s p)) && negb (h_once (r_spec h))); inversion H; subst;
      (split; [apply code_cont|split; [reflexivity|discriminate]]).
Qed.

(* context-aware handlers are entered with the publish context *)
Theorem enter_ctx P cfg s a p h rest s' ls :
  step_instr P cfg s a (IEnter p h) rest = Some (s', ls) ->
  ls = [LEnter p (r_id h) (if h_ctx (r_spec h) then pb_ctx (get_pub s p) else CtxBg)].
Proof. intros H. cbn [step_instr] in H. inversion H; subst. reflexivity. Qed.

(* ================================================================== *)
(* C13: the persistence step, decision by decision *)
Theorem persist_marshal_decision P cfg s a p rest s' ls :
  c_store cfg = true ->
  step_instr P cfg s a (IPersistMarshal p) rest = Some (s', ls) ->
  ls = [] /\ store_log s' = store_log s /\ last_offset s' = last_offset s /\
  assoc_get (code s') a =
    Some (match p_pfault P (pb_val (get_pub s p)) with
          | PfUnencodable => (if c_persist_err_handler cfg then [IPersistErr p] else []) ++ rest
          | _ => (if c_obs cfg then [IPersistObsStart p] else []) ++ IPersistLock p :: rest
          end).
Proof.
  intros Hs H. cbn [step_instr] in H. rewrite Hs in H. cbn [negb] in H.
  destruct (p_pfault P (pb_val (get_pub s p))); inversion H; subst; repeat split; apply code_cont.
Qed.

Theorem persist_append_effect P cfg s a p rest s' ls :
  step_instr P cfg s a (IPersistAppendDone p) rest = Some (s', ls) ->
  let r := get_pub s p in
  let failed := match p_pfault P (pb_val r) with PfOk => false | _ => true end in
  store_log s' = (if failed then store_log s else store_log s ++ [(pb_ty r, pb_val r)]) /\
  last_offset s' = (if failed then last_offset s else length (store_log s')) /\
  store_mu s' = None /\ ls = [] /\
  assoc_get (code s') a =
    Some ((if c_obs cfg then [IPersistObsDone p failed] else []) ++
          (if failed && c_persist_err_handler cfg then [IPersistErr p] else []) ++ rest).
Proof.
  intros H. cbn [step_instr] in H. inversion H; subst; clear H. cbv zeta.
  cbn [cont set_code store_log last_offset store_mu]. repeat split. apply code_cont.
Qed.

(* the store is only ever appended to, by this one step *)
Theorem log_append_only P cfg s a i rest s' ls :
  step_instr P cfg s a i rest = Some (s', ls) ->
  store_log s' = store_log s \/ exists p, i = IPersistAppendDone p /\ store_log s' = store_log s ++ [(pb_ty (get_pub s p), pb_val (get_pub s p))].
Proof.
  intros H. destruct i; cbn [step_instr] in H.
  all: try (break_head H; try discriminate; inversion H; subst; clear H;
            solve [left; cbn [cont set_code store_log]; rewrite ?upd_pub_store_log; reflexivity]).
  inversion H; subst; clear H. cbn [cont set_code store_log].
  destruct (p_pfault P (pb_val (get_pub s p))); [right; exists p; split; reflexivity|left; reflexivity..].
Qed.

(* ================================================================== *)
(* C04: a Once handler is entered at most once, over every schedule *)
Definition gtotal (f : list instr -> nat) (cs : list (actor * list instr)) : nat :=
  fold_right (fun ac n => f (snd ac) + n) 0 cs.
Lemma gtotal_cons f k v r : gtotal f ((k, v) :: r) = f v + gtotal f r.
Proof. reflexivity. Qed.
Lemma gtotal_set f cs a c old : assoc_get cs a = Some old -> gtotal f (assoc_set cs a c) + f old = gtotal f cs + f c.
Proof.
  induction cs as [|[k v] r IH]; cbn [assoc_get assoc_set]; [discriminate|].
  destruct (Nat.eqb k a) eqn:E.
  - intros H. inversion H; subst. rewrite !gtotal_cons. lia.
  - intros H. specialize (IH H). rewrite !gtotal_cons. lia.
Qed.
Lemma gtotal_set_new f cs a c : assoc_get cs a = None -> gtotal f (assoc_set cs a c) = gtotal f cs + f c.
Proof.
  induction cs as [|[k v] r IH]; cbn [assoc_get assoc_set]; [intros _; rewrite gtotal_cons; unfold gtotal; cbn; lia|].
  destruct (Nat.eqb k a) eqn:E; [discriminate|]. intros H. rewrite !gtotal_cons, (IH H). lia.
Qed.

Definition is_once_rid (rid : nat) (h : regn) : bool := h_once (r_spec h) && Nat.eqb (r_id h) rid.
Definition pend_i (rid : nat) (i : instr) : nat :=
  match i with
  | IDispatch _ h | ITaskStart _ h | IEnter _ h => if is_once_rid rid h then 1 else 0
  | _ => 0
  end.
Definition pend (rid : nat) (l : list instr) : nat := fold_right (fun i n => pend_i rid i + n) 0 l.
Definition cnt_entered (rid : nat) (s : bstate) : nat := length (filter (fun e => is_once_rid rid (snd e)) (entered s)).
Definition allow (rid : nat) (s : bstate) : nat := if memb rid (executed s) then 1 else 0.

Lemma pend_app rid a b : pend rid (a ++ b) = pend rid a + pend rid b.
Proof. induction a as [|x a IH]; [reflexivity|]. unfold pend in *. cbn. rewrite IH. lia. Qed.
Lemma pend_cons rid x l : pend rid (x :: l) = pend_i rid x + pend rid l.
Proof. reflexivity. Qed.
Lemma pend_acts rid l : pend rid (acts l) = 0.
Proof. induction l; cbn; auto. Qed.
Lemma pend_entries rid p l : pend rid (map (IEntry p) l) = 0.
Proof. induction l; cbn; auto. Qed.
Lemma pend_shards rid l : pend rid (map IClearShard l) = 0.
Proof. induction l; cbn; auto. Qed.
Lemma pend_call rid P p h async obs : pend rid (call_handler P p h async obs) = if is_once_rid rid h then 1 else 0.
Proof.
  unfold call_handler. rewrite !pend_app, pend_acts. destruct obs, (h_seq (r_spec h)); cbn; destruct (is_once_rid rid h); reflexivity.
Qed.
Lemma pend_after rid cfg p h async panicked : pend rid (after_recover cfg p h async panicked) = 0.
Proof.
  unfold after_recover. rewrite !pend_app.
  destruct (h_seq (r_spec h)), (panicked && c_panic_handler cfg), (c_obs cfg), async; reflexivity.
Qed.
Lemma pend_unwind rid l p h async r : unwind l = Some (p, h, async, r) -> pend rid r <= pend rid l.
Proof.
  revert p h async r. induction l as [|i l IH]; intros p h async r H; [discriminate|].
  destruct i; cbn [unwind] in H; try (specialize (IH _ _ _ _ H); rewrite pend_cons; lia).
  inversion H; subst. rewrite pend_cons. lia.
Qed.

Definition once_inv (s : bstate) : Prop :=
  forall rid, cnt_entered rid s + gtotal (pend rid) (code s) <= allow rid s.

Lemma once_upd s a old newc s' :
  winv s -> once_inv s -> assoc_get (code s) a = Some old -> code s' = assoc_set (code s) a newc ->
  (forall rid, cnt_entered rid s' + pend rid newc + allow rid s <= cnt_entered rid s + pend rid old + allow rid s') ->
  once_inv s'.
Proof.
  intros I O Ha Hc Hle rid. rewrite Hc.
  pose proof (gtotal_set (pend rid) (code s) a newc old Ha). specialize (O rid). specialize (Hle rid). lia.
Qed.

Lemma once_upd_spawn s a old newc t ct s' :
  winv s -> once_inv s -> assoc_get (code s) a = Some old -> t = next_actor s ->
  code s' = assoc_set (assoc_set (code s) t ct) a newc ->
  (forall rid, cnt_entered rid s' + pend rid newc + pend rid ct + allow rid s <= cnt_entered rid s + pend rid old + allow rid s') ->
  once_inv s'.
Proof.
  intros I O Ha Ht Hc Hle rid. rewrite Hc.
  assert (Hlt: a < t) by (subst t; apply (wi_bound s I a old Ha)).
  assert (Hnone: assoc_get (code s) t = None).
  { destruct (assoc_get (code s) t) eqn:E; [|reflexivity]. destruct (wi_bound s I t l E). lia. }
  assert (Ha': assoc_get (assoc_set (code s) t ct) a = Some old) by (rewrite assoc_get_set_other; [exact Ha|lia]).
  pose proof (gtotal_set (pend rid) _ a newc old Ha').
  pose proof (gtotal_set_new (pend rid) (code s) t ct Hnone).
  specialize (O rid). specialize (Hle rid). lia.
Qed.

Ltac psimp := repeat first [rewrite pend_app | rewrite pend_cons | rewrite pend_acts | rewrite pend_entries
                           | rewrite pend_shards | rewrite pend_call | rewrite pend_after];
              cbn [pend_i pend fold_right].

Lemma cnt_entered_eq rid s s' : entered s' = entered s -> cnt_entered rid s' = cnt_entered rid s.
Proof. unfold cnt_entered. intros ->. reflexivity. Qed.
Lemma allow_eq rid s s' : executed s' = executed s -> allow rid s' = allow rid s.
Proof. unfold allow. intros ->. reflexivity. Qed.
Lemma upd_pub_entered s p f : entered (upd_pub s p f) = entered s.
Proof. unfold upd_pub. destruct (assoc_get (pubs s) p); reflexivity. Qed.
Lemma upd_pub_executed s p f : executed (upd_pub s p f) = executed s.
Proof. unfold upd_pub. destruct (assoc_get (pubs s) p); reflexivity. Qed.

Ltac fin_once I O Ha :=
  first
  [ eapply once_upd; [exact I|exact O|exact Ha|cbn [cont set_code set_registry code]; rewrite ?upd_pub_code; reflexivity|];
    let rid := fresh "rid" in intros rid;
    unfold cnt_entered, allow; cbn [cont set_code set_registry entered executed]; rewrite ?upd_pub_entered, ?upd_pub_executed;
    cbn [entered executed];
    psimp;
    try (match goal with E : h_once (r_spec ?h) = false |- _ => unfold is_once_rid; rewrite E; cbn [andb] end);
    repeat (match goal with
            | |- context[if is_once_rid ?r ?h then _ else _] => destruct (is_once_rid r h)
            | |- context[match ?b with _ => _ end] => destruct b
            | |- context[if ?b then _ else _] => destruct b
            end); cbn [pend pend_i fold_right length app]; lia ].

Theorem once_inv_step P cfg s a s' ls : winv s -> once_inv s -> mstep P cfg s a = Some (s', ls) -> once_inv s'.
Proof.
  intros I O H. unfold mstep in H.
  destruct (assoc_get (code s) a) as [[|i rest]|] eqn:Ha; try discriminate.
  destruct i; cbn [step_instr] in H.
  all: try (break_head H; try discriminate; inversion H; subst; clear H; solve [timeout 10 fin_once I O Ha]).
  - (* IDo *)
    destruct a0; cbn [step_instr] in H; break_head H; try discriminate; inversion H; subst; clear H;
      try solve [timeout 10 fin_once I O Ha].
    + (* AShutdown *)
      eapply (once_upd_spawn s a _ _ (next_actor s) [IWaiterDone (next_sid s)]); [exact I|exact O|exact Ha|reflexivity|reflexivity|].
      intros rid. unfold cnt_entered, allow. cbn [cont set_code entered executed]. psimp. cbn. lia.
    + (* APanic recovered *)
      match goal with U : unwind rest = Some (?p, ?h, ?async, ?r) |- _ => pose proof (fun rid => pend_unwind rid rest p h async r U) as Hu end.
      eapply once_upd; [exact I|exact O|exact Ha|reflexivity|].
      intros rid. unfold cnt_entered, allow. cbn [cont set_code entered executed].
      psimp. specialize (Hu rid). cbn. lia.
  - (* IClaim: the compare-and-swap *)
    break_head H; try discriminate; inversion H; subst; clear H; try solve [timeout 10 fin_once I O Ha].
    eapply once_upd; [exact I|exact O|exact Ha|cbn [cont set_code code]; rewrite upd_pub_code; reflexivity|].
    intros rid. unfold cnt_entered. cbn [cont set_code entered]. rewrite upd_pub_entered. cbn [entered].
    unfold allow at 2. cbn [cont set_code executed]. rewrite upd_pub_executed. cbn [executed memb existsb].
    psimp. unfold is_once_rid, allow.
    match goal with E : h_once (r_spec h) = true |- _ => rewrite E end. cbn [andb].
    destruct (Nat.eqb (r_id h) rid) eqn:Er.
    + apply Nat.eqb_eq in Er. subst rid. rewrite Nat.eqb_refl. cbn [orb].
      match goal with E : memb (r_id h) (executed s) = false |- _ => rewrite E end. lia.
    + rewrite Nat.eqb_sym, Er. cbn [orb]. fold (memb rid (executed s)). destruct (memb rid (executed s)); lia.
  - (* IDispatch *)
    break_head H; try discriminate; inversion H; subst; clear H; try solve [timeout 10 fin_once I O Ha].
    eapply (once_upd_spawn s a _ _ (next_actor s) [ITaskStart p h]); [exact I|exact O|exact Ha|reflexivity|reflexivity|].
    intros rid. unfold cnt_entered, allow. cbn [cont set_code entered executed]. psimp. cbn. lia.
  - (* IEnter *)
    inversion H; subst; clear H.
    eapply once_upd; [exact I|exact O|exact Ha|reflexivity|].
    intros rid. unfold allow. cbn [cont set_code executed].
    unfold cnt_entered. cbn [cont set_code entered]. rewrite filter_app, app_length. cbn [filter snd].
    psimp. destruct (is_once_rid rid h); cbn; lia.
Qed.

Lemma once_inv_run P cfg : forall sched s, winv s -> once_inv s -> once_inv (fst (run P cfg s sched)).
Proof.
  induction sched as [|a r IH]; intros s I O; cbn [run]; [exact O|].
  destruct (mstep P cfg s a) as [[s' ls]|] eqn:E.
  - specialize (IH s' (winv_step P cfg s a s' ls I E) (once_inv_step P cfg s a s' ls I O E)). destruct (run P cfg s' r). exact IH.
  - apply IH; assumption.
Qed.

(* over every schedule of every program: a Once registration is entered at most once in the life of the bus,
   and only after its flag has been claimed *)
Theorem once_at_most_once P cfg s : reachable P cfg s ->
  forall rid, cnt_entered rid s <= 1 /\ (cnt_entered rid s = 1 -> memb rid (executed s) = true).
Proof.
  intros [threads [sched ->]] rid.
  assert (O: once_inv (fst (run P cfg (init_state threads) sched))).
  { apply once_inv_run; [apply winv_init|]. intros r. unfold cnt_entered, allow, init_state. cbn [entered executed code].
    assert (H: forall k (ts : list (list action)), gtotal (pend r) (combine (seq k (length ts)) (map acts ts)) = 0).
    { intros k ts. revert k. induction ts as [|t ts IH]; intros k; [reflexivity|].
      cbn [length seq map combine]. rewrite gtotal_cons, pend_acts, IH. reflexivity. }
    rewrite H. cbn. lia. }
  specialize (O rid). unfold allow in O. destruct (memb rid (executed _)); split; try lia; try reflexivity.
Qed.

(* ================================================================== *)
(* C07: invocations of a Sequential handler never overlap, over every schedule *)
Definition is_lock (i : instr) : bool := match i with ILock _ => true | _ => false end.
Definition lockfree (c : list instr) : Prop := forall i, In i c -> is_lock i = false.

(* the locks an actor holds, read off its lock-free code: a pending deferred unlock, or a recover marker of a
   Sequential handler whose body is running *)
Definition held_i (rid : nat) (i : instr) : nat :=
  match i with
  | IUnlock h => if Nat.eqb (r_id h) rid then 1 else 0
  | IRecover _ h _ => if h_seq (r_spec h) && Nat.eqb (r_id h) rid then 1 else 0
  | _ => 0
  end.
Definition heldc (rid : nat) (c : list instr) : nat := fold_right (fun i n => held_i rid i + n) 0 c.

(* instructions that neither take, hold nor release a handler lock *)
Definition plain_i (i : instr) : bool :=
  match i with ILock _ | IUnlock _ | IRecover _ _ _ => false | _ => true end.
Definition plain (c : list instr) : Prop := forall i, In i c -> plain_i i = true.

(* a call of a Sequential handler that has not taken the lock yet: ILock h, then only plain instructions up to
   its own recover marker; it can only sit at the very front of an actor's code *)
Definition block_tail (h : regn) (c : list instr) : Prop :=
  exists mid p async r, c = mid ++ IRecover p h async :: r /\ plain mid /\ lockfree r /\ h_seq (r_spec h) = true.

Inductive wfl : list instr -> Prop :=
| wfl_free c : lockfree c -> wfl c
| wfl_lock h c : block_tail h c -> wfl (ILock h :: c)
| wfl_start p h async c : block_tail h c -> wfl (IHandlerStart p h async :: ILock h :: c).

(* the locks held by code that may start with a pending block: the block itself holds nothing *)
Definition held (rid : nat) (c : list instr) : nat :=
  match c with
  | ILock h :: c' | IHandlerStart _ _ _ :: ILock h :: c' => heldc rid c' - (if Nat.eqb (r_id h) rid then 1 else 0)
  | _ => heldc rid c
  end.

Lemma heldc_app rid a b : heldc rid (a ++ b) = heldc rid a + heldc rid b.
Proof. induction a as [|x a IH]; [reflexivity|]. unfold heldc in *. cbn. rewrite IH. lia. Qed.
Lemma heldc_cons rid x l : heldc rid (x :: l) = held_i rid x + heldc rid l.
Proof. reflexivity. Qed.
Lemma heldc_plain rid c : plain c -> heldc rid c = 0.
Proof.
  induction c as [|i c IH]; intros Hp; [reflexivity|]. rewrite heldc_cons, IH by (intros x Hx; apply Hp; right; exact Hx).
  specialize (Hp i (or_introl eq_refl)). destruct i; cbn in *; try discriminate; reflexivity.
Qed.
Lemma plain_lockfree c : plain c -> lockfree c.
Proof. intros Hp i Hi. specialize (Hp i Hi). destruct i; cbn in *; try discriminate; reflexivity. Qed.
Lemma lockfree_app a b : lockfree a -> lockfree b -> lockfree (a ++ b).
Proof. intros Ha Hb i Hi. apply in_app_or in Hi. destruct Hi; [apply Ha|apply Hb]; assumption. Qed.
Lemma lockfree_cons i c : is_lock i = false -> lockfree c -> lockfree (i :: c).
Proof. intros Hi Hc x [<-|Hx]; [exact Hi|apply Hc, Hx]. Qed.
Lemma lockfree_tail i c : lockfree (i :: c) -> lockfree c.
Proof. intros H x Hx. apply H. right. exact Hx. Qed.
Lemma plain_acts l : plain (acts l).
Proof. intros i Hi. unfold acts in Hi. apply in_map_iff in Hi. destruct Hi as [a [<- _]]. reflexivity. Qed.
Lemma plain_app a b : plain a -> plain b -> plain (a ++ b).
Proof. intros Ha Hb i Hi. apply in_app_or in Hi. destruct Hi; [apply Ha|apply Hb]; assumption. Qed.
Lemma plain_entries p l : plain (map (IEntry p) l).
Proof. intros i Hi. apply in_map_iff in Hi. destruct Hi as [a [<- _]]. reflexivity. Qed.
Lemma plain_shards l : plain (map IClearShard l).
Proof. intros i Hi. apply in_map_iff in Hi. destruct Hi as [a [<- _]]. reflexivity. Qed.

Lemma held_lockfree_head rid i c : is_lock i = false -> (forall p h a, i <> IHandlerStart p h a) -> held rid (i :: c) = heldc rid (i :: c).
Proof. intros Hl Hs. destruct i; cbn in Hl; try discriminate; try reflexivity. exfalso. eapply Hs. reflexivity. Qed.

(* the shape of a handler call *)
Lemma call_handler_wfl P p h async obs rest :
  lockfree rest -> wfl (call_handler P p h async obs ++ rest) /\
  forall rid, held rid (call_handler P p h async obs ++ rest) = heldc rid rest.
Proof.
  intros Lf. unfold call_handler.
  assert (Bt: h_seq (r_spec h) = true ->
              block_tail h (([IEnter p h] ++ acts (body_of P (h_body (r_spec h))) ++ [IRecover p h async]) ++ rest)).
  { intros Hs. exists ([IEnter p h] ++ acts (body_of P (h_body (r_spec h)))), p, async, rest.
    split; [rewrite <- !app_assoc; reflexivity|]. split; [|split; [exact Lf|exact Hs]].
    apply plain_app; [intros i [<-|[]]; reflexivity|apply plain_acts]. }
  assert (Hc: forall rid, heldc rid (([IEnter p h] ++ acts (body_of P (h_body (r_spec h))) ++ [IRecover p h async]) ++ rest)
                          = (if h_seq (r_spec h) && Nat.eqb (r_id h) rid then 1 else 0) + heldc rid rest).
  { intros rid. rewrite !heldc_app, (heldc_plain rid (acts _)) by apply plain_acts. cbn. lia. }
  assert (Lfree: h_seq (r_spec h) = false -> forall pre, lockfree pre ->
            lockfree (pre ++ ([IEnter p h] ++ acts (body_of P (h_body (r_spec h))) ++ [IRecover p h async]) ++ rest)).
  { intros _ pre Hpre. apply lockfree_app; [exact Hpre|]. apply lockfree_app; [|exact Lf].
    apply lockfree_app; [intros i [<-|[]]; reflexivity|]. apply lockfree_app; [apply plain_lockfree, plain_acts|].
    intros i [<-|[]]; reflexivity. }
  destruct obs, (h_seq (r_spec h)) eqn:Hs; cbn [app].
  - split; [apply wfl_start, Bt; reflexivity|]. intros rid. cbn [held]. rewrite Hc. cbn [andb]. destruct (Nat.eqb (r_id h) rid); lia.
  - split.
    + apply wfl_free. apply (Lfree eq_refl [IHandlerStart p h async]). intros i [<-|[]]; reflexivity.
    + intros rid. cbn [held]. rewrite heldc_cons, Hc. cbn. lia.
  - split; [apply wfl_lock, Bt; reflexivity|]. intros rid. cbn [held]. rewrite Hc. cbn [andb]. destruct (Nat.eqb (r_id h) rid); lia.
  - split.
    + apply wfl_free. apply (Lfree eq_refl []). intros i [].
    + intros rid. specialize (Hc rid). cbn [andb] in Hc. cbn [held app] in *.
      change (held rid (IEnter p h :: (acts (body_of P (h_body (r_spec h))) ++ [IRecover p h async]) ++ rest))
        with (heldc rid (IEnter p h :: (acts (body_of P (h_body (r_spec h))) ++ [IRecover p h async]) ++ rest)).
      cbn [app] in Hc. rewrite Hc. lia.
Qed.

Lemma after_recover_lockfree cfg p h async panicked : lockfree (after_recover cfg p h async panicked).
Proof.
  unfold after_recover. intros i Hi. repeat (apply in_app_or in Hi; destruct Hi as [Hi|Hi]);
    [destruct (h_seq (r_spec h))|destruct (panicked && c_panic_handler cfg)|destruct (c_obs cfg)|destruct async];
    cbn in Hi; try contradiction; destruct Hi as [<-|[]]; reflexivity.
Qed.
Lemma after_recover_heldc cfg p h async panicked rid :
  heldc rid (after_recover cfg p h async panicked) = if h_seq (r_spec h) && Nat.eqb (r_id h) rid then 1 else 0.
Proof.
  unfold after_recover. rewrite !heldc_app.
  destruct (h_seq (r_spec h)), (panicked && c_panic_handler cfg), (c_obs cfg), async; cbn; destruct (Nat.eqb (r_id h) rid); reflexivity.
Qed.

(* dropping a prefix never adds held locks *)
Lemma unwind_lockfree l p h async r : lockfree l -> unwind l = Some (p, h, async, r) ->
  lockfree r /\ forall rid, heldc rid r + (if h_seq (r_spec h) && Nat.eqb (r_id h) rid then 1 else 0) <= heldc rid l.
Proof.
  revert p h async r. induction l as [|i l IH]; intros p h async r Lf U; [discriminate|].
  destruct i; cbn [unwind] in U;
    try (destruct (IH _ _ _ _ (lockfree_tail _ _ Lf) U) as [H1 H2]; split; [exact H1|intros rid; specialize (H2 rid); rewrite heldc_cons; lia]).
  inversion U; subst. split; [eapply lockfree_tail, Lf|]. intros rid. rewrite heldc_cons. cbn [held_i]. lia.
Qed.

(* the invariant: every actor's code is well formed, every lock an actor holds is recorded as held by it, and no
   actor holds a lock twice *)
Record linv (s : bstate) : Prop := {
  li_wf : forall a c, assoc_get (code s) a = Some c -> wfl c;
  li_held : forall a c rid, assoc_get (code s) a = Some c -> 0 < held rid c -> assoc_get (seqlocks s) rid = Some a;
  li_once : forall a c rid, assoc_get (code s) a = Some c -> held rid c <= 1
}.

Lemma held_lockfree rid c : lockfree c -> held rid c = heldc rid c.
Proof.
  intros Lf. destruct c as [|i c]; [reflexivity|].
  destruct i; try reflexivity.
  - destruct c as [|j c]; [reflexivity|]. destruct j; try reflexivity.
    exfalso. specialize (Lf (ILock h0) (or_intror (or_introl eq_refl))). discriminate.
  - exfalso. specialize (Lf (ILock h) (or_introl eq_refl)). discriminate.
Qed.

Lemma heldc_acts rid l : heldc rid (acts l) = 0.
Proof. apply heldc_plain, plain_acts. Qed.
Lemma heldc_entries rid p l : heldc rid (map (IEntry p) l) = 0.
Proof. apply heldc_plain, plain_entries. Qed.
Lemma heldc_shards rid l : heldc rid (map IClearShard l) = 0.
Proof. apply heldc_plain, plain_shards. Qed.

Ltac hsimp := repeat first [rewrite heldc_app | rewrite heldc_cons | rewrite heldc_acts | rewrite heldc_entries
                           | rewrite heldc_shards | rewrite after_recover_heldc];
              cbn [held_i heldc fold_right].

Ltac lf_tac Lr :=
  repeat first
    [ exact Lr
    | apply lockfree_cons; [reflexivity|]
    | apply lockfree_app
    | apply plain_lockfree, plain_acts
    | apply plain_lockfree, plain_entries
    | apply plain_lockfree, plain_shards
    | apply after_recover_lockfree
    | (intros ? []; fail)
    | match goal with |- lockfree (if ?b then _ else _) => destruct b end
    | match goal with |- lockfree (match ?b with _ => _ end) => destruct b end
    | (let i := fresh in let H := fresh in intros i H; destruct H as [<-|[]]; reflexivity)
    | (let i := fresh in let H := fresh in intros i H; destruct H) ].

(* generic update: the handler locks are untouched, the stepping actor's new code is well formed and holds no more
   than before; an optional new actor holds nothing *)
Lemma linv_upd s a old newc s' (spawn : option (actor * list instr)) :
  linv s -> assoc_get (code s) a = Some old -> seqlocks s' = seqlocks s ->
  code s' = assoc_set (match spawn with Some (t, ct) => assoc_set (code s) t ct | None => code s end) a newc ->
  match spawn with Some (t, ct) => assoc_get (code s) t = None /\ lockfree ct /\ (forall rid, heldc rid ct = 0) /\ t <> a | None => True end ->
  wfl newc -> (forall rid, held rid newc <= held rid old) -> linv s'.
Proof.
  intros [Wf Hh Ho] Ha Hs Hc Hsp Wn Hle.
  assert (Hget: forall b c, assoc_get (code s') b = Some c ->
            (b = a /\ c = newc) \/
            (match spawn with Some (t, ct) => b = t /\ c = ct | None => False end) \/
            (b <> a /\ assoc_get (code s) b = Some c)).
  { intros b c Hb. rewrite Hc in Hb. destruct (Nat.eq_dec a b) as [->|N].
    - rewrite assoc_get_set_same in Hb. inversion Hb. left. auto.
    - rewrite assoc_get_set_other in Hb by exact N. destruct spawn as [[t ct]|].
      + destruct (Nat.eq_dec t b) as [->|N2].
        * rewrite assoc_get_set_same in Hb. inversion Hb. right. left. auto.
        * rewrite assoc_get_set_other in Hb by exact N2. right. right. split; [congruence|exact Hb].
      + right. right. split; [congruence|exact Hb]. }
  split.
  - intros b c Hb. destruct (Hget b c Hb) as [[-> ->]|[Hs2|[_ Hold]]]; [exact Wn| |eapply Wf; exact Hold].
    destruct spawn as [[t ct]|]; [|contradiction]. destruct Hs2 as [-> ->]. apply wfl_free. apply Hsp.
  - intros b c rid Hb Hpos. rewrite Hs. destruct (Hget b c Hb) as [[-> ->]|[Hs2|[_ Hold]]].
    + apply (Hh a old rid Ha). specialize (Hle rid). lia.
    + destruct spawn as [[t ct]|]; [|contradiction]. destruct Hs2 as [-> ->]. destruct Hsp as [_ [Lf [Hz _]]].
      rewrite held_lockfree in Hpos by exact Lf. rewrite Hz in Hpos. lia.
    + eapply Hh; eauto.
  - intros b c rid Hb. destruct (Hget b c Hb) as [[-> ->]|[Hs2|[_ Hold]]].
    + specialize (Hle rid). specialize (Ho a old rid Ha). lia.
    + destruct spawn as [[t ct]|]; [|contradiction]. destruct Hs2 as [-> ->]. destruct Hsp as [_ [Lf [Hz _]]].
      rewrite held_lockfree by exact Lf. rewrite Hz. lia.
    + eapply Ho; eauto.
Qed.

Lemma upd_pub_seqlocks s p f : seqlocks (upd_pub s p f) = seqlocks s.
Proof. unfold upd_pub. destruct (assoc_get (pubs s) p); reflexivity. Qed.

Ltac fin_lock L Ha Lr :=
  eapply (linv_upd _ _ _ _ _ None); [exact L|exact Ha
    |cbn [cont set_code set_registry seqlocks]; rewrite ?upd_pub_seqlocks; reflexivity
    |cbn [cont set_code set_registry code]; rewrite ?upd_pub_code; reflexivity
    |exact I
    |apply wfl_free; lf_tac Lr
    |let rid := fresh "rid" in intros rid;
     rewrite !held_lockfree by (first [assumption | lf_tac Lr]);
     hsimp;
     repeat (match goal with
             | |- context[if ?b then _ else _] => destruct b
             | |- context[match ?b with _ => _ end] => destruct b
             end); cbn [heldc held_i fold_right]; lia].

Theorem linv_step P cfg s a s' ls : winv s -> linv s -> mstep P cfg s a = Some (s', ls) -> linv s'.
Proof.
  intros WI L H. unfold mstep in H.
  destruct (assoc_get (code s) a) as [[|i rest]|] eqn:Ha; try discriminate.
  pose proof (li_wf s L a (i :: rest) Ha) as Wf.
  assert (Hfresh: assoc_get (code s) (next_actor s) = None /\ next_actor s <> a).
  { split.
    - destruct (assoc_get (code s) (next_actor s)) eqn:E; [|reflexivity]. destruct (wi_bound s WI _ _ E). lia.
    - destruct (wi_bound s WI a _ Ha). lia. }
  inversion Wf as [c Lf Ec|h c Bt Ec|p0 h async0 c Bt Ec]; subst.
  - (* lock-free code *)
    pose proof (lockfree_tail _ _ Lf) as Lr.
    destruct i; cbn [step_instr] in H.
    all: try (break_head H; try discriminate; inversion H; subst; clear H; solve [timeout 10 fin_lock L Ha Lr]).
    + (* IDo *)
      destruct a0; cbn [step_instr] in H; break_head H; try discriminate; inversion H; subst; clear H;
        try solve [timeout 10 fin_lock L Ha Lr].
      * (* AShutdown *)
        eapply (linv_upd _ _ _ _ _ (Some (next_actor s, [IWaiterDone (next_sid s)]))); [exact L|exact Ha|reflexivity|reflexivity| | |].
        -- destruct Hfresh. repeat split; auto. intros i [<-|[]]; reflexivity.
        -- apply wfl_free. lf_tac Lr.
        -- intros rid. rewrite !held_lockfree by (first [assumption|lf_tac Lr]). hsimp. lia.
      * (* APanic recovered *)
        match goal with U : unwind rest = Some (?p, ?h, ?async, ?r) |- _ => destruct (unwind_lockfree rest p h async r Lr U) as [Lr2 Hle] end.
        eapply (linv_upd _ _ _ _ _ None); [exact L|exact Ha|reflexivity|reflexivity|exact I| |].
        -- apply wfl_free. apply lockfree_app; [apply after_recover_lockfree|exact Lr2].
        -- intros rid. rewrite !held_lockfree by (first [assumption|apply lockfree_app; [apply after_recover_lockfree|exact Lr2]]).
           hsimp. specialize (Hle rid). lia.
    + (* IDispatch *)
      break_head H; try discriminate; inversion H; subst; clear H; try solve [timeout 10 fin_lock L Ha Lr].
      * eapply (linv_upd _ _ _ _ _ (Some (next_actor s, [ITaskStart p h]))); [exact L|exact Ha|reflexivity|reflexivity| | |].
        -- destruct Hfresh. repeat split; auto. intros i [<-|[]]; reflexivity.
        -- apply wfl_free. exact Lr.
        -- intros rid. rewrite !held_lockfree by assumption. hsimp. lia.
      * destruct (call_handler_wfl P p h false (c_obs cfg) rest Lr) as [W1 W2].
        eapply (linv_upd _ _ _ _ _ None); [exact L|exact Ha|reflexivity|reflexivity|exact I|exact W1|].
        intros rid. rewrite W2, held_lockfree by assumption. hsimp. lia.
    + (* ILock cannot head lock-free code *)
      exfalso. specialize (Lf (ILock h) (or_introl eq_refl)). discriminate.
    + (* IUnlock: release *)
      inversion H; subst; clear H.
      destruct L as [Wfa Hh Ho].
      assert (Hmine: assoc_get (seqlocks s) (r_id h) = Some a).
      { apply (Hh a _ (r_id h) Ha). rewrite held_lockfree by exact Lf. hsimp. rewrite Nat.eqb_refl. lia. }
      assert (Hget: forall b c, assoc_get (assoc_set (code s) a rest) b = Some c -> (b = a /\ c = rest) \/ (b <> a /\ assoc_get (code s) b = Some c)).
      { intros b c Hb. destruct (Nat.eq_dec a b) as [->|N]; [rewrite assoc_get_set_same in Hb; inversion Hb; auto|].
        rewrite assoc_get_set_other in Hb by exact N. right. split; [congruence|exact Hb]. }
      split; cbn [cont set_code code seqlocks].
      * intros b c Hb. destruct (Hget b c Hb) as [[-> ->]|[_ Hold]]; [apply wfl_free, Lr|eapply Wfa; exact Hold].
      * intros b c rid Hb Hpos. destruct (Hget b c Hb) as [[-> ->]|[Nb Hold]].
        -- rewrite held_lockfree in Hpos by exact Lr.
           destruct (Nat.eq_dec (r_id h) rid) as [<-|Nr].
           ++ specialize (Ho a _ (r_id h) Ha). rewrite held_lockfree in Ho by exact Lf. revert Ho. hsimp. rewrite Nat.eqb_refl. lia.
           ++ rewrite assoc_get_del_other by exact Nr. apply (Hh a _ rid Ha). rewrite held_lockfree by exact Lf. hsimp. lia.
        -- destruct (Nat.eq_dec (r_id h) rid) as [<-|Nr].
           ++ pose proof (Hh b c (r_id h) Hold Hpos) as Hb2. rewrite Hmine in Hb2. inversion Hb2. congruence.
           ++ rewrite assoc_get_del_other by exact Nr. eapply Hh; eauto.
      * intros b c rid Hb. destruct (Hget b c Hb) as [[-> ->]|[_ Hold]]; [|eapply Ho; eauto].
        specialize (Ho a _ rid Ha). rewrite held_lockfree in Ho by exact Lf. rewrite held_lockfree by exact Lr. revert Ho. hsimp. lia.
    + (* ITaskStart *)
      break_head H; try discriminate; inversion H; subst; clear H; try solve [timeout 10 fin_lock L Ha Lr].
      destruct (call_handler_wfl P p h true (c_obs cfg) rest Lr) as [W1 W2].
      eapply (linv_upd _ _ _ _ _ None); [exact L|exact Ha|reflexivity|reflexivity|exact I|exact W1|].
      intros rid. rewrite W2, held_lockfree by assumption. hsimp. lia.
  - (* ILock h at the head of a pending block: acquire *)
    cbn [step_instr] in H. destruct (assoc_get (seqlocks s) (r_id h)) eqn:Efree; [discriminate|]. inversion H; subst; clear H.
    destruct Bt as [mid [p [async [r [-> [Pm [Lr Hs]]]]]]].
    assert (Lnew: lockfree (mid ++ IRecover p h async :: r)).
    { apply lockfree_app; [apply plain_lockfree, Pm|apply lockfree_cons; [reflexivity|exact Lr]]. }
    destruct L as [Wfa Hh Ho].
    assert (Hzero: heldc (r_id h) r = 0).
    { destruct (heldc (r_id h) r) eqn:E; [reflexivity|]. exfalso.
      assert (Hp: 0 < held (r_id h) (ILock h :: mid ++ IRecover p h async :: r)).
      { cbn [held]. rewrite heldc_app, heldc_cons, (heldc_plain _ mid Pm). cbn [held_i]. rewrite Hs, Nat.eqb_refl. cbn. lia. }
      specialize (Hh a _ _ Ha Hp). congruence. }
    assert (Hget: forall b c, assoc_get (assoc_set (code s) a (mid ++ IRecover p h async :: r)) b = Some c ->
              (b = a /\ c = mid ++ IRecover p h async :: r) \/ (b <> a /\ assoc_get (code s) b = Some c)).
    { intros b c Hb. destruct (Nat.eq_dec a b) as [->|N]; [rewrite assoc_get_set_same in Hb; inversion Hb; auto|].
      rewrite assoc_get_set_other in Hb by exact N. right. split; [congruence|exact Hb]. }
    split; cbn [cont set_code code seqlocks].
    + intros b c Hb. destruct (Hget b c Hb) as [[-> ->]|[_ Hold]]; [apply wfl_free, Lnew|eapply Wfa; exact Hold].
    + intros b c rid Hb Hpos. destruct (Hget b c Hb) as [[-> ->]|[Nb Hold]].
      * destruct (Nat.eq_dec (r_id h) rid) as [<-|Nr]; [apply assoc_get_set_same|].
        rewrite assoc_get_set_other by exact Nr. apply (Hh a _ rid Ha).
        rewrite held_lockfree in Hpos by exact Lnew. cbn [held].
        revert Hpos. rewrite !heldc_app, !heldc_cons. cbn [held_i]. apply Nat.eqb_neq in Nr. rewrite Nr. rewrite andb_false_r. lia.
      * destruct (Nat.eq_dec (r_id h) rid) as [<-|Nr].
        -- pose proof (Hh b c (r_id h) Hold Hpos). congruence.
        -- rewrite assoc_get_set_other by exact Nr. eapply Hh; eauto.
    + intros b c rid Hb. destruct (Hget b c Hb) as [[-> ->]|[_ Hold]]; [|eapply Ho; eauto].
      rewrite held_lockfree by exact Lnew. rewrite heldc_app, heldc_cons, (heldc_plain _ mid Pm). cbn [held_i]. rewrite Hs. cbn [andb].
      destruct (Nat.eqb (r_id h) rid) eqn:Er.
      * apply Nat.eqb_eq in Er. subst rid. rewrite Hzero. lia.
      * specialize (Ho a _ rid Ha). cbn [held] in Ho. rewrite heldc_app, heldc_cons, (heldc_plain _ mid Pm) in Ho.
        cbn [held_i] in Ho. rewrite Er, andb_false_r in Ho. lia.
  - (* IHandlerStart before a pending block *)
    cbn [step_instr] in H. inversion H; subst; clear H.
    eapply (linv_upd _ _ _ _ _ None); [exact L|exact Ha|reflexivity|reflexivity|exact I|apply wfl_lock, Bt|].
    intros rid. cbn [held]. lia.
Qed.

Lemma linv_init threads : linv (init_state threads).
Proof.
  assert (Hin: forall a c, assoc_get (code (init_state threads)) a = Some c -> exists l, c = acts l).
  { unfold init_state. cbn [code]. intros a c H.
    assert (Hi: In (a, c) (combine (seq 0 (length threads)) (map acts threads))).
    { clear -H. induction (combine (seq 0 (length threads)) (map acts threads)) as [|[k v] r IH]; [discriminate|].
      cbn in H. destruct (Nat.eqb k a) eqn:E; [apply Nat.eqb_eq in E; inversion H; subst; left; reflexivity|right; apply IH, H]. }
    apply in_combine_r in Hi. apply in_map_iff in Hi. destruct Hi as [l [<- _]]. eauto. }
  split.
  - intros a c H. destruct (Hin a c H) as [l ->]. apply wfl_free, plain_lockfree, plain_acts.
  - intros a c rid H Hp. destruct (Hin a c H) as [l ->].
    rewrite held_lockfree in Hp by apply plain_lockfree, plain_acts. rewrite heldc_acts in Hp. lia.
  - intros a c rid H. destruct (Hin a c H) as [l ->].
    rewrite held_lockfree by apply plain_lockfree, plain_acts. rewrite heldc_acts. lia.
Qed.

Lemma linv_run P cfg : forall sched s, winv s -> linv s -> linv (fst (run P cfg s sched)).
Proof.
  induction sched as [|a r IH]; intros s I L; cbn [run]; [exact L|].
  destruct (mstep P cfg s a) as [[s' ls]|] eqn:E.
  - specialize (IH s' (winv_step P cfg s a s' ls I E) (linv_step P cfg s a s' ls I L E)). destruct (run P cfg s' r). exact IH.
  - apply IH; assumption.
Qed.

(* C07_mutex: under every schedule of every program, two different actors never hold the lock of the same
   Sequential registration - and an actor is inside the body of a Sequential handler only while it holds it:
   between its IEnter and its deferred unlock its code contains that handler's recover marker or unlock *)
Theorem seq_mutex P cfg s : reachable P cfg s ->
  forall a b ca cb rid, assoc_get (code s) a = Some ca -> assoc_get (code s) b = Some cb ->
    0 < held rid ca -> 0 < held rid cb -> a = b.
Proof.
  intros [threads [sched ->]] a b ca cb rid Ha Hb Pa Pb.
  pose proof (linv_run P cfg sched _ (winv_init threads) (linv_init threads)) as L.
  pose proof (li_held _ L a ca rid Ha Pa) as H1. pose proof (li_held _ L b cb rid Hb Pb) as H2. congruence.
Qed.

Theorem seq_lock_discipline P cfg s : reachable P cfg s -> linv s.
Proof. intros [threads [sched ->]]. apply linv_run; [apply winv_init|apply linv_init]. Qed.

(* running the body of a Sequential handler means holding its lock: right after the entry step the actor's code
   still contains the recover marker of that invocation *)
Theorem enter_holds_lock P cfg s a p h rest s' ls :
  h_seq (r_spec h) = true -> lockfree (IEnter p h :: rest) ->
  (exists mid async r, rest = mid ++ IRecover p h async :: r /\ plain mid) ->
  step_instr P cfg s a (IEnter p h) rest = Some (s', ls) ->
  exists c, assoc_get (code s') a = Some c /\ 0 < held (r_id h) c.
Proof.
  intros Hs Lf [mid [async [r [-> Pm]]]] H. cbn [step_instr] in H. inversion H; subst; clear H.
  eexists. split; [apply code_cont|].
  rewrite held_lockfree by (eapply lockfree_tail, Lf).
  rewrite heldc_app, heldc_cons, (heldc_plain _ mid Pm). cbn [held_i]. rewrite Hs, Nat.eqb_refl. cbn. lia.
Qed.

(* ================================================================== *)
(* C03: which instructions can block *)
Theorem only_these_block P cfg s a i rest :
  step_instr P cfg s a i rest = None ->
  (exists h, i = ILock h) \/ (exists p, i = IPersistLock p) \/ i = IDo AWait \/ (exists sid, i = IWaiterDone sid) \/
  (exists sid c, i = IShutdownSelect sid c) \/ i = ICrashed \/
  (exists p h, i = ITaskStart p h /\ h_seq (r_spec h) = true /\ at_head (queue s (r_id h)) a = false).
Proof.
  intros H. destruct i; cbn [step_instr] in H;
    try solve [discriminate H];
    try solve [left; eauto];
    try solve [right; left; eauto];
    try solve [right; right; right; left; eauto];
    try solve [right; right; right; right; left; eauto];
    try solve [right; right; right; right; right; left; reflexivity];
    try solve [break_head H; discriminate H].
  - (* IDo *)
    destruct a0; cbn [step_instr] in H; try solve [break_head H; discriminate H]; try discriminate H.
    right. right. left. reflexivity.
  - (* ITaskStart: not its turn yet *)
    do 6 right. exists p, h. destruct (h_seq (r_spec h)); cbn [andb] in H; [|break_head H; discriminate H].
    destruct (at_head (queue s (r_id h)) a); cbn [negb] in H; [break_head H; discriminate H|]. auto.
Qed.

Lemma self_delivery_blocks :
  let P := {| p_bodies := [(0, {| b_acts := [] |}); (1, {| b_acts := [APub 0 2 CtxBg false] |})]; p_filters := [];
              p_routes := fun _ => 0; p_nshards := 32; p_pfault := fun _ => PfOk |} in
  let sp := {| h_fn := 0; h_once := false; h_async := false; h_seq := true; h_ctx := false; h_filter := None; h_body := 1 |} in
  let s := fst (run P cfg0 (init_state [[ASub 0 sp; APub 0 1 CtxBg false]]) (repeat 0 40)) in
  mstep P cfg0 s 0 = None /\
  (exists h rest, assoc_get (code s) 0 = Some (ILock h :: rest) /\ assoc_get (seqlocks s) (r_id h) = Some 0).
Proof. vm_compute. split; [reflexivity|]. eexists. eexists. split; reflexivity. Qed.

(* ================================================================== *)
(* C03: no orphaned handler mutex - whoever is recorded as the holder of a Sequential handler's mutex still has the
   matching deferred unlock (or the recover frame that produces it) in its code, in every reachable state *)
Definition is_unlock (i : instr) : bool := match i with IUnlock _ => true | _ => false end.
Definition nounlock (c : list instr) : Prop := forall i, In i c -> is_unlock i = false.
(* a deferred unlock is only ever the very next instruction of a goroutine *)
Definition uinv (s : bstate) : Prop := forall a c, assoc_get (code s) a = Some c -> nounlock (tl c).
Definition cinv (s : bstate) : Prop :=
  forall rid a, assoc_get (seqlocks s) rid = Some a -> exists c, assoc_get (code s) a = Some c /\ 0 < held rid c.

Lemma nounlock_app a b : nounlock a -> nounlock b -> nounlock (a ++ b).
Proof. intros Ha Hb i Hi. apply in_app_or in Hi. destruct Hi; auto. Qed.
Lemma nounlock_cons i c : is_unlock i = false -> nounlock c -> nounlock (i :: c).
Proof. intros Hi Hc x [<-|Hx]; auto. Qed.
Lemma nounlock_tl c : nounlock c -> nounlock (tl c).
Proof. intros H i Hi. apply H. destruct c; [contradiction | right; exact Hi]. Qed.
Lemma plain_nounlock c : plain c -> nounlock c.
Proof. intros H i Hi. specialize (H i Hi). destruct i; try reflexivity; discriminate. Qed.
Lemma nounlock_nil : nounlock []. Proof. intros i []. Qed.

Lemma after_recover_tl cfg p h async panicked r : nounlock r -> nounlock (tl (after_recover cfg p h async panicked ++ r)).
Proof.
  intros Hr. unfold after_recover.
  assert (T : nounlock ((if panicked && c_panic_handler cfg then [IPanicHandler p h] else []) ++
                        (if c_obs cfg then [IHandlerDone p h panicked] else []) ++ (if async then [ITaskDone] else []) ++ r)).
  { repeat apply nounlock_app; try exact Hr;
      [destruct (panicked && c_panic_handler cfg) | destruct (c_obs cfg) | destruct async];
      try apply nounlock_nil; intros i [<-|[]]; reflexivity. }
  destruct (h_seq (r_spec h)); cbn [app tl]; rewrite <- ?app_assoc; [exact T | apply nounlock_tl; exact T].
Qed.

Lemma unwind_suffix l p h async r : unwind l = Some (p, h, async, r) -> nounlock l -> nounlock r.
Proof.
  intros U Hl. apply unwind_spec in U. destruct U as [pre [-> _]]. intros i Hi. apply Hl.
  apply in_or_app. right. right. exact Hi.
Qed.

Lemma unwind_heldc_ge l p h async r : nounlock l -> unwind l = Some (p, h, async, r) ->
  forall rid, heldc rid l <= heldc rid r + (if h_seq (r_spec h) && Nat.eqb (r_id h) rid then 1 else 0).
Proof.
  revert p h async r. induction l as [|i l IH]; intros p h async r Nu U rid; [discriminate|].
  assert (Nl : nounlock l) by (intros x Hx; apply Nu; right; exact Hx).
  assert (Ni : is_unlock i = false) by (apply Nu; left; reflexivity).
  destruct i; cbn [unwind] in U; try discriminate Ni;
    try (specialize (IH _ _ _ _ Nl U rid); rewrite heldc_cons; cbn [held_i]; lia).
  inversion U; subst. rewrite heldc_cons. cbn [held_i]. lia.
Qed.

Ltac nu_tac Nr :=
  repeat first
    [ exact Nr
    | apply nounlock_nil
    | apply nounlock_cons; [reflexivity|]
    | apply nounlock_app
    | apply plain_nounlock, plain_acts
    | apply plain_nounlock, plain_entries
    | apply plain_nounlock, plain_shards
    | match goal with |- nounlock (if ?b then _ else _) => destruct b end
    | match goal with |- nounlock (match ?b with _ => _ end) => destruct b end
    | (let i := fresh in let H := fresh in intros i H; destruct H as [<-|[]]; reflexivity)
    | (let i := fresh in let H := fresh in intros i H; destruct H) ].

Lemma ucinv_upd s a old newc s' (spawn : option (actor * list instr)) :
  uinv s -> cinv s -> assoc_get (code s) a = Some old -> seqlocks s' = seqlocks s ->
  code s' = assoc_set (match spawn with Some (t, ct) => assoc_set (code s) t ct | None => code s end) a newc ->
  match spawn with Some (t, ct) => assoc_get (code s) t = None /\ nounlock ct /\ t <> a | None => True end ->
  nounlock (tl newc) -> (forall rid, 0 < held rid old -> 0 < held rid newc) -> uinv s' /\ cinv s'.
Proof.
  intros U C Ha Hs Hc Hsp Nn Hge.
  assert (Hget: forall b c, assoc_get (code s') b = Some c ->
            (b = a /\ c = newc) \/
            (match spawn with Some (t, ct) => b = t /\ c = ct | None => False end) \/
            (b <> a /\ assoc_get (code s) b = Some c)).
  { intros b c Hb. rewrite Hc in Hb. destruct (Nat.eq_dec a b) as [->|N].
    - rewrite assoc_get_set_same in Hb. inversion Hb. left. auto.
    - rewrite assoc_get_set_other in Hb by exact N. destruct spawn as [[t ct]|].
      + destruct (Nat.eq_dec t b) as [->|N2].
        * rewrite assoc_get_set_same in Hb. inversion Hb. right. left. auto.
        * rewrite assoc_get_set_other in Hb by exact N2. right. right. split; [congruence|exact Hb].
      + right. right. split; [congruence|exact Hb]. }
  split.
  - intros b c Hb. destruct (Hget b c Hb) as [[-> ->]|[Hs2|[_ Hold]]]; [exact Nn| |eapply U; exact Hold].
    destruct spawn as [[t ct]|]; [|contradiction]. destruct Hs2 as [-> ->]. apply nounlock_tl. apply Hsp.
  - intros rid b Hb. rewrite Hs in Hb. destruct (C rid b Hb) as [c [Hc1 Hc2]].
    destruct (Nat.eq_dec b a) as [->|N].
    + exists newc. split; [rewrite Hc; apply assoc_get_set_same|]. apply Hge. rewrite Ha in Hc1. inversion Hc1; subst. exact Hc2.
    + exists c. split; [|exact Hc2]. rewrite Hc. rewrite assoc_get_set_other by congruence.
      destruct spawn as [[t ct]|]; [|exact Hc1].
      destruct (Nat.eq_dec t b) as [->|N2]; [destruct Hsp as [Hn _]; congruence|].
      rewrite assoc_get_set_other by exact N2. exact Hc1.
Qed.

Ltac fin_uc U C Ha Lr Nr :=
  eapply (ucinv_upd _ _ _ _ _ None); [exact U|exact C|exact Ha
    |cbn [cont set_code set_registry seqlocks]; rewrite ?upd_pub_seqlocks; reflexivity
    |cbn [cont set_code set_registry code]; rewrite ?upd_pub_code; reflexivity
    |exact I
    |apply nounlock_tl; nu_tac Nr
    |let rid := fresh "rid" in intros rid;
     rewrite !held_lockfree by (first [assumption | lf_tac Lr]);
     hsimp;
     repeat (match goal with
             | |- context[if ?b then _ else _] => destruct b
             | |- context[match ?b with _ => _ end] => destruct b
             end); cbn [heldc held_i fold_right]; lia].

Theorem ucinv_step P cfg s a s' ls :
  winv s -> linv s -> uinv s -> cinv s -> mstep P cfg s a = Some (s', ls) -> uinv s' /\ cinv s'.
Proof.
  intros WI L U C H. unfold mstep in H.
  destruct (assoc_get (code s) a) as [[|i rest]|] eqn:Ha; try discriminate.
  pose proof (li_wf s L a (i :: rest) Ha) as Wf.
  pose proof (U a (i :: rest) Ha) as Nr. cbn [tl] in Nr.
  assert (Hfresh: assoc_get (code s) (next_actor s) = None /\ next_actor s <> a).
  { split.
    - destruct (assoc_get (code s) (next_actor s)) eqn:E; [|reflexivity]. destruct (wi_bound s WI _ _ E). lia.
    - destruct (wi_bound s WI a _ Ha). lia. }
  inversion Wf as [c Lf Ec|h c Bt Ec|p0 h async0 c Bt Ec]; subst.
  - (* lock-free code *)
    pose proof (lockfree_tail _ _ Lf) as Lr.
    destruct i; cbn [step_instr] in H.
    all: try (break_head H; try discriminate; inversion H; subst; clear H; solve [timeout 20 fin_uc U C Ha Lr Nr]).
    + (* IDo *)
      destruct a0; cbn [step_instr] in H; break_head H; try discriminate; inversion H; subst; clear H;
        try solve [timeout 20 fin_uc U C Ha Lr Nr].
      * (* AShutdown *)
        eapply (ucinv_upd _ _ _ _ _ (Some (next_actor s, [IWaiterDone (next_sid s)]))); [exact U|exact C|exact Ha|reflexivity|reflexivity| | |].
        -- destruct Hfresh. repeat split; auto. intros i [<-|[]]; reflexivity.
        -- apply nounlock_tl. nu_tac Nr.
        -- intros rid. rewrite !held_lockfree by (first [assumption|lf_tac Lr]). hsimp. lia.
      * (* APanic recovered *)
        match goal with Un : unwind rest = Some (?p, ?h, ?async, ?r) |- _ =>
          destruct (unwind_lockfree rest p h async r Lr Un) as [Lr2 _];
          pose proof (unwind_heldc_ge rest p h async r Nr Un) as Hge;
          pose proof (unwind_suffix rest p h async r Un Nr) as Nr2 end.
        eapply (ucinv_upd _ _ _ _ _ None); [exact U|exact C|exact Ha|reflexivity|reflexivity|exact I| |].
        -- apply after_recover_tl. exact Nr2.
        -- intros rid. rewrite !held_lockfree by (first [assumption|apply lockfree_app; [apply after_recover_lockfree|exact Lr2]]).
           hsimp. specialize (Hge rid). lia.
    + (* IDispatch *)
      break_head H; try discriminate; inversion H; subst; clear H; try solve [timeout 20 fin_uc U C Ha Lr Nr].
      * eapply (ucinv_upd _ _ _ _ _ (Some (next_actor s, [ITaskStart p h]))); [exact U|exact C|exact Ha|reflexivity|reflexivity| | |].
        -- destruct Hfresh. repeat split; auto. intros i [<-|[]]; reflexivity.
        -- apply nounlock_tl. exact Nr.
        -- intros rid. rewrite !held_lockfree by assumption. hsimp. lia.
      * destruct (call_handler_wfl P p h false (c_obs cfg) rest Lr) as [W1 W2].
        eapply (ucinv_upd _ _ _ _ _ None); [exact U|exact C|exact Ha|reflexivity|reflexivity|exact I| |].
        -- apply nounlock_tl. unfold call_handler. nu_tac Nr.
        -- intros rid. rewrite W2, held_lockfree by assumption. hsimp. lia.
    + (* ILock cannot head lock-free code *)
      exfalso. specialize (Lf (ILock h) (or_introl eq_refl)). discriminate.
    + (* IRecover: the deferred unlock becomes the next instruction *)
      inversion H; subst; clear H.
      eapply (ucinv_upd _ _ _ _ _ None); [exact U|exact C|exact Ha|reflexivity|reflexivity|exact I| |].
      * apply after_recover_tl. exact Nr.
      * intros rid. rewrite !held_lockfree by (first [assumption | apply lockfree_app; [apply after_recover_lockfree | exact Lr]]).
        hsimp. lia.
    + (* IUnlock: release *)
      inversion H; subst; clear H.
      assert (Hmine: assoc_get (seqlocks s) (r_id h) = Some a).
      { apply (li_held s L a _ (r_id h) Ha). rewrite held_lockfree by exact Lf. hsimp. rewrite Nat.eqb_refl. lia. }
      split; [unfold uinv | unfold cinv]; cbn [cont set_code code seqlocks].
      * intros b c Hb. destruct (Nat.eq_dec a b) as [->|N].
        -- rewrite assoc_get_set_same in Hb. inversion Hb; subst. apply nounlock_tl. exact Nr.
        -- rewrite assoc_get_set_other in Hb by exact N. eapply U; exact Hb.
      * intros rid b Hb. destruct (Nat.eq_dec (r_id h) rid) as [<-|Nr2]; [rewrite assoc_get_del_same in Hb; discriminate|].
        rewrite assoc_get_del_other in Hb by exact Nr2. destruct (C rid b Hb) as [c [Hc1 Hc2]].
        destruct (Nat.eq_dec a b) as [<-|N].
        -- exists rest. split; [apply assoc_get_set_same|]. rewrite Ha in Hc1. inversion Hc1; subst.
           rewrite held_lockfree in Hc2 by exact Lf. rewrite held_lockfree by exact Lr. revert Hc2. hsimp.
           apply Nat.eqb_neq in Nr2. rewrite Nr2. lia.
        -- exists c. split; [rewrite assoc_get_set_other by exact N; exact Hc1 | exact Hc2].
    + (* ITaskStart *)
      break_head H; try discriminate; inversion H; subst; clear H; try solve [timeout 20 fin_uc U C Ha Lr Nr].
      destruct (call_handler_wfl P p h true (c_obs cfg) rest Lr) as [W1 W2].
      eapply (ucinv_upd _ _ _ _ _ None); [exact U|exact C|exact Ha|reflexivity|reflexivity|exact I| |].
      * apply nounlock_tl. unfold call_handler. nu_tac Nr.
      * intros rid. rewrite W2, held_lockfree by assumption. hsimp. lia.
  - (* ILock h at the head of a pending block: acquire *)
    cbn [step_instr] in H. destruct (assoc_get (seqlocks s) (r_id h)) eqn:Efree; [discriminate|]. inversion H; subst; clear H.
    destruct Bt as [mid [p [async [r [-> [Pm [Lr Hs]]]]]]].
    assert (Lnew: lockfree (mid ++ IRecover p h async :: r)).
    { apply lockfree_app; [apply plain_lockfree, Pm|apply lockfree_cons; [reflexivity|exact Lr]]. }
    split; [unfold uinv | unfold cinv]; cbn [cont set_code code seqlocks].
    + intros b c Hb. destruct (Nat.eq_dec a b) as [->|N].
      * rewrite assoc_get_set_same in Hb. inversion Hb; subst. apply nounlock_tl. exact Nr.
      * rewrite assoc_get_set_other in Hb by exact N. eapply U; exact Hb.
    + intros rid b Hb. destruct (Nat.eq_dec (r_id h) rid) as [<-|Nr2].
      * rewrite assoc_get_set_same in Hb. inversion Hb; subst b.
        exists (mid ++ IRecover p h async :: r). split; [apply assoc_get_set_same|].
        rewrite held_lockfree by exact Lnew. rewrite heldc_app, heldc_cons, (heldc_plain _ mid Pm). cbn [held_i].
        rewrite Hs, Nat.eqb_refl. cbn. lia.
      * rewrite assoc_get_set_other in Hb by exact Nr2. destruct (C rid b Hb) as [c [Hc1 Hc2]].
        destruct (Nat.eq_dec a b) as [<-|N].
        -- exists (mid ++ IRecover p h async :: r). split; [apply assoc_get_set_same|]. rewrite Ha in Hc1. inversion Hc1; subst.
           rewrite held_lockfree by exact Lnew. cbn [held] in Hc2. revert Hc2. rewrite !heldc_app, !heldc_cons. cbn [held_i].
           apply Nat.eqb_neq in Nr2. rewrite Nr2. rewrite andb_false_r. lia.
        -- exists c. split; [rewrite assoc_get_set_other by exact N; exact Hc1 | exact Hc2].
  - (* IHandlerStart before a pending block *)
    cbn [step_instr] in H. inversion H; subst; clear H.
    eapply (ucinv_upd _ _ _ _ _ None); [exact U|exact C|exact Ha|reflexivity|reflexivity|exact I| |].
    + cbn [tl]. exact (nounlock_tl _ Nr).
    + intros rid. cbn [held]. lia.
Qed.

Lemma ucinv_init threads : uinv (init_state threads) /\ cinv (init_state threads).
Proof.
  split.
  - intros a c H.
    assert (Hi: In (a, c) (combine (seq 0 (length threads)) (map acts threads))).
    { unfold init_state in H. cbn [code] in H.
      induction (combine (seq 0 (length threads)) (map acts threads)) as [|[k v] r IH]; [discriminate|].
      cbn in H. destruct (Nat.eqb k a) eqn:E; [apply Nat.eqb_eq in E; inversion H; subst; left; reflexivity|right; apply IH, H]. }
    apply in_combine_r in Hi. apply in_map_iff in Hi. destruct Hi as [l [<- _]].
    apply nounlock_tl, plain_nounlock, plain_acts.
  - intros rid a H. discriminate H.
Qed.

Lemma ucinv_run P cfg : forall sched s, winv s -> linv s -> uinv s -> cinv s ->
  uinv (fst (run P cfg s sched)) /\ cinv (fst (run P cfg s sched)).
Proof.
  induction sched as [|a r IH]; intros s I L U C; cbn [run]; [split; assumption|].
  destruct (mstep P cfg s a) as [[s' ls]|] eqn:E.
  - destruct (ucinv_step P cfg s a s' ls I L U C E) as [U' C'].
    specialize (IH s' (winv_step P cfg s a s' ls I E) (linv_step P cfg s a s' ls I L E) U' C'). destruct (run P cfg s' r). exact IH.
  - apply IH; assumption.
Qed.

(* over every schedule of every program: a Sequential handler's mutex that is held is held by a goroutine that still
   carries the matching deferred unlock - no panic, cancellation or re-entrant call ever orphans it *)
Theorem no_orphaned_handler_lock P cfg s : reachable P cfg s ->
  forall rid a, assoc_get (seqlocks s) rid = Some a -> exists c, assoc_get (code s) a = Some c /\ 0 < held rid c.
Proof.
  intros [threads [sched ->]].
  destruct (ucinv_init threads) as [U C].
  exact (proj2 (ucinv_run P cfg sched _ (winv_init threads) (linv_init threads) U C)).
Qed.

(* ================================================================== *)
(* C03: the store mutex is held only across the store's Append - its holder is never blocked *)
Lemma upd_pub_store_mu s p f : store_mu (upd_pub s p f) = store_mu s.
Proof. unfold upd_pub. destruct (assoc_get (pubs s) p); reflexivity. Qed.

Lemma store_mu_step P cfg s a i rest s' ls :
  step_instr P cfg s a i rest = Some (s', ls) ->
  match i with
  | IPersistLock p => store_mu s = None /\ store_mu s' = Some a /\ assoc_get (code s') a = Some (IPersistAppend p :: rest)
  | IPersistAppend p => store_mu s' = store_mu s /\ assoc_get (code s') a = Some (IPersistAppendDone p :: rest)
  | IPersistAppendDone p => store_mu s' = None
  | _ => store_mu s' = store_mu s
  end.
Proof.
  intros H. destruct i; cbn [step_instr] in H.
  all: try (break_head H; try discriminate; inversion H; subst; clear H;
            solve [cbn [cont set_code store_mu]; rewrite ?upd_pub_store_mu; reflexivity]).
  - (* IPersistLock *)
    destruct (store_mu s) eqn:E; [discriminate|]. inversion H; subst; clear H.
    split; [reflexivity|]. split; [reflexivity | apply code_cont].
  - (* IPersistAppend *)
    inversion H; subst; clear H. split; [reflexivity | apply code_cont].
Qed.

Definition sminv (s : bstate) : Prop :=
  forall a, store_mu s = Some a ->
  exists p rest, assoc_get (code s) a = Some (IPersistAppend p :: rest) \/ assoc_get (code s) a = Some (IPersistAppendDone p :: rest).

Lemma sminv_step P cfg s b s' ls : winv s -> sminv s -> mstep P cfg s b = Some (s', ls) -> sminv s'.
Proof.
  intros WI SM H. unfold mstep in H.
  destruct (assoc_get (code s) b) as [[|i rest]|] eqn:Hb; try discriminate.
  pose proof (store_mu_step P cfg s b i rest s' ls H) as M.
  pose proof (step_frame P cfg s b i rest s' ls H) as F.
  assert (Hother : forall a c, a <> b -> assoc_get (code s) a = Some c -> assoc_get (code s') a = Some c).
  { intros a c Nab Ha. assert (Nn : a <> next_actor s) by (destruct (wi_bound s WI a c Ha); lia).
    destruct F as [[_ F]|[[p0 [h0 [_ [_ F]]]]|[_ [_ F]]]]; rewrite F; auto. }
  intros a Ha'.
  assert (Hkeep : store_mu s' = store_mu s -> (forall p, i <> IPersistAppend p) ->
                  exists p r, assoc_get (code s') a = Some (IPersistAppend p :: r) \/ assoc_get (code s') a = Some (IPersistAppendDone p :: r)).
  { intros E Ni. rewrite E in Ha'. destruct (SM a Ha') as [p [r Hc]].
    destruct (Nat.eq_dec a b) as [->|Nab].
    - exfalso. rewrite Hb in Hc. destruct Hc as [Hc|Hc]; inversion Hc; subst.
      + apply (Ni p). reflexivity.
      + cbn in M. rewrite M in E. rewrite <- E in Ha'. discriminate.
    - exists p, r. destruct Hc as [Hc|Hc]; [left|right]; apply (Hother a _ Nab Hc). }
  destruct i; try (apply Hkeep; [exact M | intros q; discriminate]).
  - (* IPersistLock *)
    destruct M as (_ & M2 & M3). rewrite M2 in Ha'. inversion Ha'; subst a. eexists. eexists. left. exact M3.
  - (* IPersistAppend *)
    destruct M as (M1 & M2). rewrite M1 in Ha'. destruct (SM a Ha') as [q [r Hc]].
    destruct (Nat.eq_dec a b) as [->|Nab].
    + eexists. eexists. right. exact M2.
    + exists q, r. destruct Hc as [Hc|Hc]; [left|right]; apply (Hother a _ Nab Hc).
  - (* IPersistAppendDone *)
    cbn in M. rewrite M in Ha'. discriminate.
Qed.

Lemma sminv_run P cfg : forall sched s, winv s -> sminv s -> sminv (fst (run P cfg s sched)).
Proof.
  induction sched as [|a r IH]; intros s I S; cbn [run]; [exact S|].
  destruct (mstep P cfg s a) as [[s' ls]|] eqn:E.
  - specialize (IH s' (winv_step P cfg s a s' ls I E) (sminv_step P cfg s a s' ls I S E)). destruct (run P cfg s' r). exact IH.
  - apply IH; assumption.
Qed.

(* over every schedule: whoever holds the store mutex is at the store's Append or just past it, and can step *)
Theorem store_lock_holder_runs P cfg s : reachable P cfg s ->
  forall a, store_mu s = Some a -> exists s' ls, mstep P cfg s a = Some (s', ls).
Proof.
  intros [threads [sched ->]] a Ha.
  assert (SM : sminv (fst (run P cfg (init_state threads) sched))).
  { apply sminv_run; [apply winv_init|]. intros x Hx. discriminate Hx. }
  destruct (SM a Ha) as [p [rest [Hc|Hc]]]; unfold mstep; rewrite Hc; cbn [step_instr].
  - eexists. eexists. reflexivity.
  - destruct (match p_pfault P (pb_val (get_pub (fst (run P cfg (init_state threads) sched)) p)) with PfOk => true | _ => false end) eqn:E;
      eexists; eexists; reflexivity.
Qed.

(* ================================================================== *)
(* C07: the turn queue of an Async+Sequential handler.  Deliveries are queued by the publishing goroutine at dispatch;
   a delivery goroutine starts only when it heads the queue and leaves it when it is over.  Over every schedule: the
   queue holds exactly the dispatched deliveries that have not finished, in dispatch order (q_fifo); everybody behind
   the head has not started (q_wait); everybody in it is an unfinished delivery (q_live). *)
Definition is_tstart (i : instr) : bool := match i with ITaskStart _ _ => true | _ => false end.
Definition nots (c : list instr) : Prop := forall i, In i c -> is_tstart i = false.
Lemma nots_app a b : nots a -> nots b -> nots (a ++ b).
Proof. intros Ha Hb i Hi. apply in_app_or in Hi. destruct Hi; auto. Qed.
Lemma nots_cons i c : is_tstart i = false -> nots c -> nots (i :: c).
Proof. intros Hi Hc x [<-|Hx]; auto. Qed.
Lemma nots_nil : nots []. Proof. intros i []. Qed.
Lemma nots_acts l : nots (acts l).
Proof. intros i Hi. unfold acts in Hi. apply in_map_iff in Hi. destruct Hi as [a [<- _]]. reflexivity. Qed.
Lemma nots_entries p l : nots (map (IEntry p) l).
Proof. intros i Hi. apply in_map_iff in Hi. destruct Hi as [a [<- _]]. reflexivity. Qed.
Lemma nots_shards l : nots (map IClearShard l).
Proof. intros i Hi. apply in_map_iff in Hi. destruct Hi as [a [<- _]]. reflexivity. Qed.
Lemma nots_after_recover cfg p h async panicked : nots (after_recover cfg p h async panicked).
Proof.
  unfold after_recover. repeat apply nots_app;
    [destruct (h_seq (r_spec h)) | destruct (panicked && c_panic_handler cfg) | destruct (c_obs cfg) | destruct async];
    try apply nots_nil; intros i [<-|[]]; reflexivity.
Qed.
Lemma nots_call_handler P p h async obs : nots (call_handler P p h async obs).
Proof.
  unfold call_handler. repeat apply nots_app; try apply nots_acts;
    [destruct obs | destruct (h_seq (r_spec h)) | | ]; try apply nots_nil; intros i [<-|[]]; reflexivity.
Qed.
Lemma nots_unwind l p h async r : unwind l = Some (p, h, async, r) -> nots l -> nots r.
Proof.
  intros U Hl. apply unwind_spec in U. destruct U as [pre [-> _]]. intros i Hi. apply Hl.
  apply in_or_app. right. right. exact Hi.
Qed.

Ltac nt_tac Nr :=
  repeat first
    [ exact Nr
    | apply nots_nil
    | apply nots_after_recover
    | apply nots_call_handler
    | apply nots_acts
    | apply nots_entries
    | apply nots_shards
    | apply nots_cons; [reflexivity|]
    | apply nots_app
    | match goal with |- nots (if ?b then _ else _) => destruct b end
    | match goal with |- nots (match ?b with _ => _ end) => destruct b end
    | (let i := fresh in let H := fresh in intros i H; destruct H as [<-|[]]; reflexivity)
    | (let i := fresh in let H := fresh in intros i H; destruct H) ].

(* no step puts a delivery start into the stepping goroutine's own code *)
Lemma step_nots P cfg s a i rest s' ls :
  nots rest -> step_instr P cfg s a i rest = Some (s', ls) ->
  exists newc, assoc_get (code s') a = Some newc /\ nots newc.
Proof.
  intros Nr H. destruct i; cbn [step_instr] in H.
  all: try (break_head H; try discriminate; inversion H; subst; clear H;
            solve [eexists; split;
                   [first [apply code_cont | (cbn [cont set_code code]; rewrite ?upd_pub_code; apply assoc_get_set_same)]
                   | nt_tac Nr]]).
  (* IDo *)
  destruct a0; cbn [step_instr] in H; break_head H; try discriminate; inversion H; subst; clear H;
    try solve [eexists; split;
               [first [apply code_cont | (cbn [cont set_code code]; rewrite ?upd_pub_code; apply assoc_get_set_same)]
               | nt_tac Nr]].
  (* APanic recovered *)
  match goal with U : unwind rest = Some (?p, ?h, ?async, ?r) |- _ => pose proof (nots_unwind rest p h async r U Nr) as Nr2 end.
  eexists. split; [apply code_cont|]. apply nots_app; [apply nots_after_recover | exact Nr2].
Qed.

Lemma upd_pub_turnq s p f : turnq (upd_pub s p f) = turnq s.
Proof. unfold upd_pub. destruct (assoc_get (pubs s) p); reflexivity. Qed.
Lemma upd_pub_turnlog s p f : turnlog (upd_pub s p f) = turnlog s.
Proof. unfold upd_pub. destruct (assoc_get (pubs s) p); reflexivity. Qed.
Lemma upd_pub_turndone s p f : turndone (upd_pub s p f) = turndone s.
Proof. unfold upd_pub. destruct (assoc_get (pubs s) p); reflexivity. Qed.

(* only an asynchronous dispatch and the end of a delivery touch the queues *)
Lemma step_turn_frame P cfg s a i rest s' ls :
  step_instr P cfg s a i rest = Some (s', ls) ->
  i <> ITaskDone -> (forall p h, i = IDispatch p h -> h_async (r_spec h) = false) ->
  turnq s' = turnq s /\ turnlog s' = turnlog s /\ turndone s' = turndone s.
Proof.
  intros H Hd Hp. destruct i; cbn [step_instr] in H.
  all: try (break_head H; try discriminate; inversion H; subst; clear H;
            solve [cbn [cont set_code set_registry turnq turnlog turndone];
                   rewrite ?upd_pub_turnq, ?upd_pub_turnlog, ?upd_pub_turndone; auto]).
  - (* IDispatch *)
    rewrite (Hp p h eq_refl) in H. break_head H; inversion H; subst; clear H; cbn [cont set_code turnq turnlog turndone]; auto.
  - (* ITaskDone *) contradiction Hd. reflexivity.
Qed.

Ltac fin_others :=
  let x := fresh "x" in let Hx := fresh "Hx" in
  intros x Hx; left; cbn [cont set_code code]; rewrite ?upd_pub_code; cbn [code];
  rewrite assoc_get_set_other by congruence; reflexivity.

(* the other goroutines: untouched, except for Shutdown's new waiter *)
Lemma step_others P cfg s a i rest s' ls :
  step_instr P cfg s a i rest = Some (s', ls) -> a <> next_actor s ->
  (forall p h, i = IDispatch p h -> h_async (r_spec h) = false) ->
  forall b, b <> a ->
    assoc_get (code s') b = assoc_get (code s) b \/
    (b = next_actor s /\ assoc_get (code s') b = Some [IWaiterDone (next_sid s)]).
Proof.
  intros H Hna Hp.
  destruct i; cbn [step_instr] in H.
  all: try (break_head H; try discriminate; inversion H; subst; clear H; solve [fin_others]).
  - (* IDo *)
    destruct a0; cbn [step_instr] in H; break_head H; try discriminate; inversion H; subst; clear H;
      try solve [fin_others].
    intros b Hb. cbn [cont set_code code]. rewrite assoc_get_set_other by congruence.
    destruct (Nat.eq_dec (next_actor s) b) as [<-|N].
    + right. split; [reflexivity | apply assoc_get_set_same].
    + left. rewrite assoc_get_set_other by exact N. reflexivity.
  - (* IDispatch *)
    rewrite (Hp p h eq_refl) in H. break_head H; inversion H; subst; clear H; fin_others.
Qed.

(* the queue of one registration, and what the two queue operations do to it *)
Definition qof (tq : list (nat * list actor)) (rid : nat) : list actor :=
  match assoc_get tq rid with Some q => q | None => [] end.
Lemma queue_qof s rid : queue s rid = qof (turnq s) rid. Proof. reflexivity. Qed.
Lemma qof_set_same tq rid q : qof (assoc_set tq rid q) rid = q.
Proof. unfold qof. rewrite assoc_get_set_same. reflexivity. Qed.
Lemma qof_set_other tq rid r q : rid <> r -> qof (assoc_set tq rid q) r = qof tq r.
Proof. intros N. unfold qof. rewrite assoc_get_set_other by exact N. reflexivity. Qed.
Lemma qof_pop tq a rid : qof (pop_turn tq a) rid = if at_head (qof tq rid) a then tl (qof tq rid) else qof tq rid.
Proof.
  unfold qof, pop_turn. induction tq as [|[k q] r IH]; [reflexivity|].
  cbn [map assoc_get fst snd]. destruct (Nat.eqb k rid); [reflexivity | exact IH].
Qed.
Lemma pop_keys tq a : map fst (pop_turn tq a) = map fst tq.
Proof. unfold pop_turn. rewrite map_map. reflexivity. Qed.
Lemma at_head_spec q a : at_head q a = true <-> exists more, q = a :: more.
Proof.
  destruct q as [|b more]; cbn [at_head]; split.
  - discriminate.
  - intros [more E]. discriminate.
  - intros E. apply Nat.eqb_eq in E. subst. eauto.
  - intros [more' E]. inversion E. apply Nat.eqb_refl.
Qed.

Definition on (rid : nat) (l : list (nat * actor)) : list actor := map snd (filter (fun x => Nat.eqb (fst x) rid) l).
Lemma on_app rid a b : on rid (a ++ b) = on rid a ++ on rid b.
Proof. unfold on. rewrite filter_app, map_app. reflexivity. Qed.
Lemma on_popped_none tq a rid : ~ In rid (map fst tq) -> on rid (popped tq a) = [].
Proof.
  induction tq as [|[k q] r IH]; intros Hn; [reflexivity|].
  unfold popped. cbn [flat_map fst snd]. fold (popped r a). rewrite on_app, IH by (intro Hx; apply Hn; right; exact Hx).
  destruct (at_head q a); [|reflexivity]. unfold on. cbn [filter fst].
  destruct (Nat.eqb k rid) eqn:E; [|reflexivity]. apply Nat.eqb_eq in E. exfalso. apply Hn. left. exact E.
Qed.
Lemma on_popped tq a rid : NoDup (map fst tq) -> on rid (popped tq a) = if at_head (qof tq rid) a then [a] else [].
Proof.
  induction tq as [|[k q] r IH]; intros ND; [reflexivity|].
  cbn [map fst] in ND. apply NoDup_cons_iff in ND. destruct ND as [Hk ND].
  unfold popped. cbn [flat_map fst snd]. fold (popped r a). rewrite on_app.
  unfold qof. cbn [assoc_get]. destruct (Nat.eqb k rid) eqn:E.
  - apply Nat.eqb_eq in E. subst k. rewrite (on_popped_none r a rid Hk), app_nil_r.
    destruct (at_head q a); [|reflexivity]. unfold on. cbn [filter fst]. rewrite Nat.eqb_refl. reflexivity.
  - rewrite (IH ND). unfold qof.
    destruct (at_head q a); [|reflexivity]. unfold on. cbn [filter fst]. rewrite E. reflexivity.
Qed.

Record qinv (s : bstate) : Prop := {
  q_live : forall rid b, In b (queue s rid) -> exists c, assoc_get (code s) b = Some c /\ weight c = 1;
  q_wait : forall rid hd more b, queue s rid = hd :: more -> In b more ->
             exists p h, assoc_get (code s) b = Some [ITaskStart p h] /\ r_id h = rid /\ h_seq (r_spec h) = true;
  q_nodup : forall rid, NoDup (queue s rid);
  q_one : forall r1 r2 b, In b (queue s r1) -> In b (queue s r2) -> r1 = r2;
  q_fresh : forall b p h, assoc_get (code s) b = Some [ITaskStart p h] -> h_seq (r_spec h) = true -> In b (queue s (r_id h));
  q_sole : forall b c, assoc_get (code s) b = Some c -> nots c \/ exists p h, c = [ITaskStart p h];
  q_fifo : forall rid, on rid (turnlog s) = on rid (turndone s) ++ queue s rid;
  q_keys : NoDup (map fst (turnq s))
}.

(* a step that leaves the queues alone *)
Lemma qinv_frame s s' a old newc :
  qinv s -> assoc_get (code s) a = Some old ->
  turnq s' = turnq s -> turnlog s' = turnlog s -> turndone s' = turndone s ->
  assoc_get (code s') a = Some newc ->
  (forall b, b <> a -> assoc_get (code s') b = assoc_get (code s) b \/
       (assoc_get (code s) b = None /\ exists c, assoc_get (code s') b = Some c /\
          (nots c \/ exists p h, c = [ITaskStart p h] /\ h_seq (r_spec h) = false))) ->
  (forall rid hd more, queue s rid = hd :: more -> ~ In a more) ->
  nots newc -> (weight old = 1 -> weight newc = 1) -> qinv s'.
Proof.
  intros Q Ha Eq El Ed Hn Hoth Hnt Nn Hw.
  assert (Hq : forall rid, queue s' rid = queue s rid) by (intros; unfold queue; rewrite Eq; reflexivity).
  assert (Hmem : forall rid b, In b (queue s rid) -> b <> a -> assoc_get (code s') b = assoc_get (code s) b).
  { intros rid b Hb Nb. destruct (Hoth b Nb) as [E|[E _]]; [exact E|].
    destruct (q_live s Q rid b Hb) as [c [Hc _]]. congruence. }
  split.
  - intros rid b Hb. rewrite Hq in Hb. destruct (Nat.eq_dec b a) as [->|Nb].
    + exists newc. split; [exact Hn|]. destruct (q_live s Q rid a Hb) as [c [Hc Hwc]]. rewrite Ha in Hc. inversion Hc; subst. auto.
    + rewrite (Hmem rid b Hb Nb). apply (q_live s Q rid b Hb).
  - intros rid hd more b Hqd Hb. rewrite Hq in Hqd. destruct (Nat.eq_dec b a) as [->|Nb].
    + exfalso. apply (Hnt rid hd more Hqd Hb).
    + rewrite (Hmem rid b); [apply (q_wait s Q rid hd more b Hqd Hb) | rewrite Hqd; right; exact Hb | exact Nb].
  - intros rid. rewrite Hq. apply (q_nodup s Q).
  - intros r1 r2 b. rewrite !Hq. apply (q_one s Q).
  - intros b p h Hb Hs. rewrite Hq. destruct (Nat.eq_dec b a) as [->|Nb].
    + rewrite Hn in Hb. inversion Hb; subst. specialize (Nn (ITaskStart p h) (or_introl eq_refl)). discriminate.
    + destruct (Hoth b Nb) as [E|[_ [c [Hc [Nc|[p' [h' [Ec Hs']]]]]]]].
      * rewrite E in Hb. apply (q_fresh s Q b p h Hb Hs).
      * rewrite Hc in Hb. inversion Hb; subst. specialize (Nc _ (or_introl eq_refl)). discriminate.
      * rewrite Hc in Hb. inversion Hb; subst. inversion H0; subst. congruence.
  - intros b c Hb. destruct (Nat.eq_dec b a) as [->|Nb].
    + rewrite Hn in Hb. inversion Hb; subst. left. exact Nn.
    + destruct (Hoth b Nb) as [E|[_ [c' [Hc [Nc|[p' [h' [Ec _]]]]]]]].
      * rewrite E in Hb. apply (q_sole s Q b c Hb).
      * rewrite Hc in Hb. inversion Hb; subst. left. exact Nc.
      * rewrite Hc in Hb. inversion Hb; subst. right. eauto.
  - intros rid. rewrite Hq, El, Ed. apply (q_fifo s Q).
  - rewrite Eq. apply (q_keys s Q).
Qed.

Lemma in_tl {A} (x : A) l : In x (tl l) -> In x l.
Proof. destruct l; [intros []|intros H; right; exact H]. Qed.

Theorem qinv_step P cfg s a s' ls : winv s -> qinv s -> mstep P cfg s a = Some (s', ls) -> qinv s'.
Proof.
  intros WI Q H. unfold mstep in H.
  destruct (assoc_get (code s) a) as [[|i rest]|] eqn:Ha; try discriminate.
  destruct (wi_bound s WI a _ Ha) as [Hlt W].
  assert (Hfresh : assoc_get (code s) (next_actor s) = None).
  { destruct (assoc_get (code s) (next_actor s)) eqn:E; [|reflexivity]. destruct (wi_bound s WI _ _ E). lia. }
  assert (Hna : a <> next_actor s) by lia.
  (* what is common to every step that does not touch the queues *)
  assert (Generic : i <> ITaskDone -> (forall p h, i = IDispatch p h -> h_async (r_spec h) = false) ->
            (forall rid hd more, queue s rid = hd :: more -> ~ In a more) -> nots rest -> qinv s').
  { intros Hd Hp Hnt Nr.
    destruct (step_turn_frame P cfg s a i rest s' ls H Hd Hp) as [Eq [El Ed]].
    destruct (step_nots P cfg s a i rest s' ls Nr H) as [newc [Hn Nn]].
    destruct (step_weight_actor P cfg s a i rest s' ls W H) as [newc' [Hn' [Hw|[Hw _]]]]; [|contradiction].
    rewrite Hn in Hn'. inversion Hn'; subst newc'.
    apply (qinv_frame s s' a (i :: rest) newc Q Ha Eq El Ed Hn); [|exact Hnt|exact Nn|intros E; lia].
    intros b Nb. destruct (step_others P cfg s a i rest s' ls H Hna Hp b Nb) as [E|[-> E]]; [left; exact E|].
    right. split; [exact Hfresh|]. eexists. split; [exact E|]. left. intros x [<-|[]]. reflexivity. }
  destruct (q_sole s Q a _ Ha) as [Nold | [p0 [h0 E0]]].
  - (* the stepping goroutine is past its start (or is no delivery at all) *)
    assert (Nr : nots rest) by (intros x Hx; apply Nold; right; exact Hx).
    assert (Hnt : forall rid hd more, queue s rid = hd :: more -> ~ In a more).
    { intros rid hd more Hq Hin. destruct (q_wait s Q rid hd more a Hq Hin) as [p [h [Hc _]]]. rewrite Ha in Hc. inversion Hc; subst.
      specialize (Nold _ (or_introl eq_refl)). discriminate. }
    destruct i; try (apply Generic; [discriminate | intros; discriminate | exact Hnt | exact Nr]).
    + (* IDispatch *)
      destruct (h_async (r_spec h)) eqn:Hasync;
        [|apply Generic; [discriminate | intros p' h' E; inversion E; subst; exact Hasync | exact Hnt | exact Nr]].
      cbn [step_instr] in H. rewrite Hasync in H. inversion H; subst; clear H.
      set (t := next_actor s) in *.
      assert (Ht : forall rid, ~ In t (queue s rid)).
      { intros rid Hin. destruct (q_live s Q rid t Hin) as [c [Hc _]]. congruence. }
      assert (Hca : forall b, b <> a -> b <> t -> assoc_get (assoc_set (assoc_set (code s) t [ITaskStart p h]) a rest) b = assoc_get (code s) b).
      { intros b N1 N2. rewrite assoc_get_set_other by congruence. rewrite assoc_get_set_other by congruence. reflexivity. }
      assert (Hct : assoc_get (assoc_set (assoc_set (code s) t [ITaskStart p h]) a rest) t = Some [ITaskStart p h]).
      { rewrite assoc_get_set_other by congruence. apply assoc_get_set_same. }
      assert (Hcaa : assoc_get (assoc_set (assoc_set (code s) t [ITaskStart p h]) a rest) a = Some rest) by apply assoc_get_set_same.
      destruct (h_seq (r_spec h)) eqn:Hseq.
      * (* Sequential: queued behind everybody dispatched before *)
        assert (Hq : forall rid, queue (cont {| registry := registry s; next_rid := next_rid s; next_pid := next_pid s; next_actor := S t;
                       next_sid := next_sid s; executed := executed s; seqlocks := seqlocks s;
                       inflight := S (inflight s); cancelled := cancelled s; store_log := store_log s;
                       last_offset := last_offset s; store_mu := store_mu s; store_closed := store_closed s;
                       waiters_done := waiters_done s; pubs := pubs s; tasks := tasks s ++ [(p, r_id h, t)]; entered := entered s;
                       turnq := assoc_set (turnq s) (r_id h) (queue s (r_id h) ++ [t]);
                       turnlog := turnlog s ++ [(r_id h, t)]; turndone := turndone s;
                       code := assoc_set (code s) t [ITaskStart p h] |} a rest) rid =
                     if Nat.eqb (r_id h) rid then queue s rid ++ [t] else queue s rid).
        { intros rid. unfold queue at 1. cbn [cont set_code turnq]. fold (qof (assoc_set (turnq s) (r_id h) (queue s (r_id h) ++ [t])) rid).
          destruct (Nat.eqb (r_id h) rid) eqn:E.
          - apply Nat.eqb_eq in E. subst rid. apply qof_set_same.
          - apply Nat.eqb_neq in E. rewrite qof_set_other by exact E. reflexivity. }
        assert (Hsub : forall rid b, In b (if Nat.eqb (r_id h) rid then queue s rid ++ [t] else queue s rid) ->
                        In b (queue s rid) \/ (b = t /\ rid = r_id h)).
        { intros rid b Hb. destruct (Nat.eqb (r_id h) rid) eqn:E; [|left; exact Hb].
          apply in_app_or in Hb. destruct Hb as [Hb|[<-|[]]]; [left; exact Hb|]. right. split; [reflexivity|]. apply Nat.eqb_eq in E. auto. }
        split.
        -- intros rid b Hb. rewrite Hq in Hb. cbn [cont set_code code]. destruct (Hsub rid b Hb) as [Hin|[-> ->]].
           ++ destruct (Nat.eq_dec b a) as [->|Nb].
              ** exists rest. split; [exact Hcaa|]. destruct (q_live s Q rid a Hin) as [c [Hc Hwc]]. rewrite Ha in Hc. inversion Hc; subst.
                 rewrite weight_cons in Hwc. cbn [weight_i] in Hwc. lia.
              ** rewrite Hca; [apply (q_live s Q rid b Hin) | exact Nb | intros ->; apply (Ht rid Hin)].
           ++ exists [ITaskStart p h]. split; [exact Hct|reflexivity].
        -- intros rid hd more b Hqd Hb. rewrite Hq in Hqd. cbn [cont set_code code].
           destruct (Nat.eqb (r_id h) rid) eqn:E.
           ++ apply Nat.eqb_eq in E. subst rid. destruct (queue s (r_id h)) as [|hd0 tl0] eqn:Eq0.
              ** cbn in Hqd. inversion Hqd; subst. destruct Hb.
              ** cbn in Hqd. inversion Hqd; subst. apply in_app_or in Hb. destruct Hb as [Hb|[<-|[]]].
                 --- assert (Nb : b <> a) by (intros ->; apply (Hnt (r_id h) hd tl0 Eq0 Hb)).
                     assert (Nt : b <> t) by (intros ->; apply (Ht (r_id h)); rewrite Eq0; right; exact Hb).
                     rewrite (Hca b Nb Nt). apply (q_wait s Q (r_id h) hd tl0 b Eq0 Hb).
                 --- exists p, h. split; [exact Hct|]. split; [reflexivity|exact Hseq].
           ++ assert (Nb : b <> a) by (intros ->; apply (Hnt rid hd more Hqd Hb)).
              assert (Nt : b <> t) by (intros ->; apply (Ht rid); rewrite Hqd; right; exact Hb).
              rewrite (Hca b Nb Nt). apply (q_wait s Q rid hd more b Hqd Hb).
        -- intros rid. rewrite Hq. destruct (Nat.eqb (r_id h) rid); [|apply (q_nodup s Q)].
           apply nodup_snoc; [apply (q_nodup s Q) | apply Ht].
        -- intros r1 r2 b H1 H2. rewrite Hq in H1, H2.
           destruct (Hsub r1 b H1) as [I1|[E1 R1]]; destruct (Hsub r2 b H2) as [I2|[E2 R2]].
           ++ apply (q_one s Q r1 r2 b I1 I2).
           ++ subst b. exfalso. apply (Ht r1 I1).
           ++ subst b. exfalso. apply (Ht r2 I2).
           ++ congruence.
        -- intros b p' h' Hb Hs'. rewrite Hq. cbn [cont set_code code] in Hb.
           destruct (Nat.eq_dec b a) as [->|Nb].
           ++ rewrite Hcaa in Hb. inversion Hb; subst. specialize (Nr (ITaskStart p' h') (or_introl eq_refl)). discriminate.
           ++ destruct (Nat.eq_dec b t) as [->|Nt].
              ** rewrite Hct in Hb. inversion Hb; subst. rewrite Nat.eqb_refl. apply in_or_app. right. left. reflexivity.
              ** rewrite (Hca b Nb Nt) in Hb. pose proof (q_fresh s Q b p' h' Hb Hs') as Hin.
                 destruct (Nat.eqb (r_id h) (r_id h')); [apply in_or_app; left; exact Hin | exact Hin].
        -- intros b c Hb. cbn [cont set_code code] in Hb.
           destruct (Nat.eq_dec b a) as [->|Nb].
           ++ rewrite Hcaa in Hb. inversion Hb; subst. left. exact Nr.
           ++ destruct (Nat.eq_dec b t) as [->|Nt].
              ** rewrite Hct in Hb. inversion Hb; subst. right. eauto.
              ** rewrite (Hca b Nb Nt) in Hb. apply (q_sole s Q b c Hb).
        -- intros rid. rewrite Hq. cbn [cont set_code turnlog turndone]. rewrite on_app, (q_fifo s Q rid), <- app_assoc. f_equal.
           assert (E1 : on rid [(r_id h, t)] = if Nat.eqb (r_id h) rid then [t] else [])
             by (unfold on; cbn [filter fst]; destruct (Nat.eqb (r_id h) rid); reflexivity).
           rewrite E1. destruct (Nat.eqb (r_id h) rid); [reflexivity | apply app_nil_r].
        -- cbn [cont set_code turnq]. rewrite keys_set. destruct (existsb (Nat.eqb (r_id h)) (map fst (turnq s))) eqn:Ex; [apply (q_keys s Q)|].
           apply nodup_snoc; [apply (q_keys s Q)|]. intros Hin.
           assert (existsb (Nat.eqb (r_id h)) (map fst (turnq s)) = true) by (apply existsb_exists; exists (r_id h); split; [exact Hin|apply Nat.eqb_refl]).
           congruence.
      * (* not Sequential: the queues are untouched, the new goroutine waits for nobody *)
        eapply (qinv_frame s _ a (IDispatch p h :: rest) rest Q Ha); try reflexivity.
        -- cbn [cont set_code code]. exact Hcaa.
        -- intros b Nb. cbn [cont set_code code]. destruct (Nat.eq_dec b t) as [->|Nt].
           ++ right. split; [exact Hfresh|]. eexists. split; [exact Hct|]. right. exists p, h. split; [reflexivity|exact Hseq].
           ++ left. apply Hca; assumption.
        -- exact Hnt.
        -- exact Nr.
        -- rewrite weight_cons. cbn [weight_i]. lia.
    + (* ITaskDone: the goroutine leaves the queue it heads *)
      assert (rest = []) by (apply (W [] ITaskDone rest eq_refl); reflexivity). subst rest.
      cbn [step_instr] in H. inversion H; subst; clear H.
      assert (Hq : forall rid, queue (cont {| registry := registry s; next_rid := next_rid s; next_pid := next_pid s; next_actor := next_actor s;
                      next_sid := next_sid s; executed := executed s; seqlocks := seqlocks s;
                      inflight := pred (inflight s); cancelled := cancelled s; store_log := store_log s;
                      last_offset := last_offset s; store_mu := store_mu s; store_closed := store_closed s;
                      waiters_done := waiters_done s; pubs := pubs s; tasks := tasks s; entered := entered s;
                      turnq := pop_turn (turnq s) a; turnlog := turnlog s; turndone := turndone s ++ popped (turnq s) a;
                      code := code s |} a []) rid =
                   if at_head (queue s rid) a then tl (queue s rid) else queue s rid).
      { intros rid. unfold queue at 1. cbn [cont set_code turnq]. fold (qof (pop_turn (turnq s) a) rid). rewrite qof_pop. reflexivity. }
      assert (Hsub : forall rid b, In b (if at_head (queue s rid) a then tl (queue s rid) else queue s rid) -> In b (queue s rid) /\ b <> a).
      { intros rid b Hb. destruct (at_head (queue s rid) a) eqn:E.
        - apply at_head_spec in E. destruct E as [more E]. rewrite E in Hb. cbn [tl] in Hb. split; [rewrite E; right; exact Hb|].
          intros ->. pose proof (q_nodup s Q rid) as ND. rewrite E in ND. apply NoDup_cons_iff in ND. tauto.
        - split; [exact Hb|]. intros ->. destruct (queue s rid) as [|hd more] eqn:Eq0; [destruct Hb|].
          destruct Hb as [->|Hb]; [cbn [at_head] in E; rewrite Nat.eqb_refl in E; discriminate | apply (Hnt rid hd more Eq0 Hb)]. }
      assert (Hca : forall b, b <> a -> assoc_get (assoc_set (code s) a []) b = assoc_get (code s) b)
        by (intros b Nb; rewrite assoc_get_set_other by congruence; reflexivity).
      split.
      * intros rid b Hb. rewrite Hq in Hb. destruct (Hsub rid b Hb) as [Hin Nb]. cbn [cont set_code code].
        rewrite (Hca b Nb). apply (q_live s Q rid b Hin).
      * intros rid hd more b Hqd Hb. rewrite Hq in Hqd. cbn [cont set_code code].
        assert (Hin' : In b (if at_head (queue s rid) a then tl (queue s rid) else queue s rid)) by (rewrite Hqd; right; exact Hb).
        destruct (Hsub rid b Hin') as [_ Nb]. rewrite (Hca b Nb).
        destruct (at_head (queue s rid) a) eqn:E.
        -- apply at_head_spec in E. destruct E as [more1 E]. rewrite E in Hqd. cbn [tl] in Hqd. subst more1.
           apply (q_wait s Q rid a (hd :: more) b E). right. exact Hb.
        -- apply (q_wait s Q rid hd more b Hqd Hb).
      * intros rid. rewrite Hq. destruct (at_head (queue s rid) a); [|apply (q_nodup s Q)].
        pose proof (q_nodup s Q rid) as ND. destruct (queue s rid); [exact ND|]. apply NoDup_cons_iff in ND. apply ND.
      * intros r1 r2 b H1 H2. rewrite Hq in H1, H2. apply (q_one s Q r1 r2 b); [apply (Hsub r1 b H1)|apply (Hsub r2 b H2)].
      * intros b p h Hb Hs. rewrite Hq. cbn [cont set_code code] in Hb. destruct (Nat.eq_dec b a) as [->|Nb].
        -- rewrite assoc_get_set_same in Hb. discriminate.
        -- rewrite (Hca b Nb) in Hb. pose proof (q_fresh s Q b p h Hb Hs) as Hin.
           destruct (at_head (queue s (r_id h)) a) eqn:E; [|exact Hin].
           apply at_head_spec in E. destruct E as [more E]. rewrite E in Hin |- *. destruct Hin as [->|Hin]; [contradiction Nb; reflexivity|exact Hin].
      * intros b c Hb. cbn [cont set_code code] in Hb. destruct (Nat.eq_dec b a) as [->|Nb].
        -- rewrite assoc_get_set_same in Hb. inversion Hb; subst. left. apply nots_nil.
        -- rewrite (Hca b Nb) in Hb. apply (q_sole s Q b c Hb).
      * intros rid. rewrite Hq. cbn [cont set_code turnlog turndone]. rewrite on_app, (on_popped _ a rid (q_keys s Q)), (q_fifo s Q rid).
        rewrite <- (queue_qof s rid), <- app_assoc. f_equal.
        destruct (at_head (queue s rid) a) eqn:E; [|reflexivity].
        apply at_head_spec in E. destruct E as [more E]. rewrite E. reflexivity.
      * cbn [cont set_code turnq]. rewrite pop_keys. apply (q_keys s Q).
  - (* a fresh delivery goroutine starts: it heads its queue if its handler is Sequential *)
    inversion E0; subst i rest.
    destruct (task_start_decision P cfg s a p0 h0 [] s' ls H) as [Hn [_ Hhead]].
    apply Generic; [discriminate | intros; discriminate | | apply nots_nil].
    intros rid hd more Hq Hin. destruct (q_wait s Q rid hd more a Hq Hin) as [p [h [Hc [Hr Hs]]]].
    rewrite Ha in Hc. inversion Hc; subst p h. specialize (Hhead Hs). rewrite Hr, Hq in Hhead.
    cbn [at_head] in Hhead. apply Nat.eqb_eq in Hhead. subst hd.
    pose proof (q_nodup s Q rid) as ND. rewrite Hq in ND. apply NoDup_cons_iff in ND. tauto.
Qed.

Lemma qinv_init threads : qinv (init_state threads).
Proof.
  split; unfold queue; cbn [init_state turnq turnlog turndone assoc_get].
  - intros rid b [].
  - intros rid hd more b E. discriminate.
  - intros rid. constructor.
  - intros r1 r2 b [].
  - intros b p h Hb _. exfalso. cbn [code] in Hb.
    assert (Hall : forall n (l : list (list action)) c, assoc_get (combine (seq n (length l)) (map acts l)) b = Some c -> nots c).
    { intros n l. revert n. induction l as [|x l IH]; intros n c Hc; [discriminate|].
      cbn [length seq map combine assoc_get] in Hc. destruct (Nat.eqb n b); [inversion Hc; apply nots_acts | apply (IH (S n) c Hc)]. }
    specialize (Hall 0 threads _ Hb (ITaskStart p h) (or_introl eq_refl)). discriminate.
  - intros b c Hb. left. cbn [code] in Hb.
    assert (Hall : forall n (l : list (list action)) c, assoc_get (combine (seq n (length l)) (map acts l)) b = Some c -> nots c).
    { intros n l. revert n. induction l as [|x l IH]; intros n c0 Hc; [discriminate|].
      cbn [length seq map combine assoc_get] in Hc. destruct (Nat.eqb n b); [inversion Hc; apply nots_acts | apply (IH (S n) c0 Hc)]. }
    apply (Hall 0 threads c Hb).
  - intros rid. reflexivity.
  - constructor.
Qed.

Lemma qinv_run P cfg : forall sched s, winv s -> qinv s -> qinv (fst (run P cfg s sched)).
Proof.
  induction sched as [|a r IH]; intros s I Q; cbn [run]; [exact Q|].
  destruct (mstep P cfg s a) as [[s' ls]|] eqn:E.
  - specialize (IH s' (winv_step P cfg s a s' ls I E) (qinv_step P cfg s a s' ls I Q E)). destruct (run P cfg s' r). exact IH.
  - apply IH; assumption.
Qed.

(* C07, over every schedule: the turn-queue discipline *)
Theorem turn_queue_discipline P cfg s : reachable P cfg s -> qinv s.
Proof. intros [threads [sched ->]]. apply qinv_run; [apply winv_init|apply qinv_init]. Qed.

(* ... so the deliveries to an Async+Sequential handler finish in exactly the order in which they were dispatched:
   what has been dispatched is what has finished followed by what is still queued *)
Theorem async_sequential_fifo P cfg s : reachable P cfg s ->
  forall rid, on rid (turnlog s) = on rid (turndone s) ++ queue s rid.
Proof. intros R. apply (q_fifo s (turn_queue_discipline P cfg s R)). Qed.

(* ... and a delivery starts (and so its handler runs) only when every delivery dispatched before it has finished:
   when the start step is taken the goroutine heads the queue, so by the theorem above everything dispatched before
   it is in the finished part *)
Theorem async_sequential_starts_in_turn P cfg s a p h rest s' ls : reachable P cfg s ->
  h_seq (r_spec h) = true ->
  step_instr P cfg s a (ITaskStart p h) rest = Some (s', ls) ->
  exists later, on (r_id h) (turnlog s) = on (r_id h) (turndone s) ++ a :: later.
Proof.
  intros R Hs H. destruct (task_start_decision P cfg s a p h rest s' ls H) as [_ [_ Hh]].
  specialize (Hh Hs). apply at_head_spec in Hh. destruct Hh as [more E]. exists more.
  rewrite (async_sequential_fifo P cfg s R), E. reflexivity.
Qed.

(* the dispatch step of an Async+Sequential handler puts the new delivery goroutine at the end of the handler's queue and
   of the dispatch log - on the publishing goroutine, before the goroutine is started *)
Theorem dispatch_queues_at_end P cfg s a p h rest s' ls :
  h_async (r_spec h) = true -> h_seq (r_spec h) = true ->
  step_instr P cfg s a (IDispatch p h) rest = Some (s', ls) ->
  turnlog s' = turnlog s ++ [(r_id h, next_actor s)] /\ queue s' (r_id h) = queue s (r_id h) ++ [next_actor s] /\
  (a <> next_actor s -> assoc_get (code s') (next_actor s) = Some [ITaskStart p h]) /\
  assoc_get (code s') a = Some rest.
Proof.
  intros Ha Hs H. cbn [step_instr] in H. rewrite Ha, Hs in H. inversion H; subst; clear H.
  cbn [cont set_code turnlog]. split; [reflexivity|]. split.
  - unfold queue at 1. cbn [cont set_code turnq]. rewrite assoc_get_set_same. reflexivity.
  - split; [|apply code_cont]. intros N. cbn [cont set_code code]. rewrite assoc_get_set_other by congruence. apply assoc_get_set_same.
Qed.

(* everybody behind the head of a queue is a delivery that has not started *)
Theorem queued_deliveries_have_not_started P cfg s : reachable P cfg s ->
  forall rid hd more b, queue s rid = hd :: more -> In b more ->
    exists p h, assoc_get (code s) b = Some [ITaskStart p h] /\ r_id h = rid /\ h_seq (r_spec h) = true.
Proof. intros R. apply (q_wait s (turn_queue_discipline P cfg s R)). Qed.

Lemma instr_eq_taskdone i : i = ITaskDone \/ i <> ITaskDone.
Proof. destruct i; try (right; discriminate). left. reflexivity. Qed.
Lemma instr_eq_dispatch_async i :
  (exists p h, i = IDispatch p h /\ h_async (r_spec h) = true) \/ (forall p h, i = IDispatch p h -> h_async (r_spec h) = false).
Proof.
  destruct i; try (right; intros; discriminate).
  destruct (h_async (r_spec h)) eqn:E; [left; eauto | right; intros p' h' E'; inversion E'; subst; exact E].
Qed.

(* ------------------------------------------------------------------ *)
(* C07: the body of an Async+Sequential handler is entered only by the goroutine that heads the handler's queue *)
Definition seqasync (h : regn) : bool := h_async (r_spec h) && h_seq (r_spec h).
Definition ent_i (rid : nat) (i : instr) : bool :=
  match i with IEnter _ h => seqasync h && Nat.eqb (r_id h) rid | _ => false end.
Definition noent (rid : nat) (c : list instr) : Prop := forall i, In i c -> ent_i rid i = false.
Lemma noent_app rid a b : noent rid a -> noent rid b -> noent rid (a ++ b).
Proof. intros Ha Hb i Hi. apply in_app_or in Hi. destruct Hi; auto. Qed.
Lemma noent_cons rid i c : ent_i rid i = false -> noent rid c -> noent rid (i :: c).
Proof. intros Hi Hc x [<-|Hx]; auto. Qed.
Lemma noent_nil rid : noent rid []. Proof. intros i []. Qed.
Lemma noent_tail rid i c : noent rid (i :: c) -> noent rid c.
Proof. intros H x Hx. apply H. right. exact Hx. Qed.
Lemma noent_acts rid l : noent rid (acts l).
Proof. intros i Hi. unfold acts in Hi. apply in_map_iff in Hi. destruct Hi as [a [<- _]]. reflexivity. Qed.
Lemma noent_entries rid p l : noent rid (map (IEntry p) l).
Proof. intros i Hi. apply in_map_iff in Hi. destruct Hi as [a [<- _]]. reflexivity. Qed.
Lemma noent_shards rid l : noent rid (map IClearShard l).
Proof. intros i Hi. apply in_map_iff in Hi. destruct Hi as [a [<- _]]. reflexivity. Qed.
Lemma noent_after_recover rid cfg p h async panicked : noent rid (after_recover cfg p h async panicked).
Proof.
  unfold after_recover. repeat apply noent_app;
    [destruct (h_seq (r_spec h)) | destruct (panicked && c_panic_handler cfg) | destruct (c_obs cfg) | destruct async];
    try apply noent_nil; intros i [<-|[]]; reflexivity.
Qed.
(* a synchronous call never enters an asynchronous handler *)
Lemma noent_call_handler_sync rid P p h async obs : h_async (r_spec h) = false -> noent rid (call_handler P p h async obs).
Proof.
  intros Hs. unfold call_handler. repeat apply noent_app; try apply noent_acts;
    [destruct obs | destruct (h_seq (r_spec h)) | | ]; try apply noent_nil; intros i [<-|[]]; try reflexivity.
  cbn [ent_i]. unfold seqasync. rewrite Hs. reflexivity.
Qed.
Lemma noent_unwind rid l p h async r : unwind l = Some (p, h, async, r) -> noent rid l -> noent rid r.
Proof.
  intros U Hl. apply unwind_spec in U. destruct U as [pre [-> _]]. intros i Hi. apply Hl.
  apply in_or_app. right. right. exact Hi.
Qed.

Ltac ne_tac Nr :=
  repeat first
    [ exact Nr
    | apply noent_nil
    | apply noent_after_recover
    | (apply noent_call_handler_sync; assumption)
    | apply noent_acts
    | apply noent_entries
    | apply noent_shards
    | apply noent_cons; [reflexivity|]
    | apply noent_app
    | match goal with |- noent _ (if ?b then _ else _) => destruct b end
    | match goal with |- noent _ (match ?b with _ => _ end) => destruct b end
    | (let i := fresh in let H := fresh in intros i H; destruct H as [<-|[]]; reflexivity)
    | (let i := fresh in let H := fresh in intros i H; destruct H) ].

(* apart from the start of a delivery goroutine, no step puts such an entry into the stepping goroutine's code *)
Lemma step_noent rid P cfg s a i rest s' ls :
  noent rid rest -> (forall p h, i <> ITaskStart p h) -> step_instr P cfg s a i rest = Some (s', ls) ->
  exists newc, assoc_get (code s') a = Some newc /\ noent rid newc.
Proof.
  intros Nr Hts H. destruct i; cbn [step_instr] in H.
  all: try (break_head H; try discriminate; inversion H; subst; clear H;
            solve [eexists; split;
                   [first [apply code_cont | (cbn [cont set_code code]; rewrite ?upd_pub_code; apply assoc_get_set_same)]
                   | ne_tac Nr]]).
  - (* IDo *)
    destruct a0; cbn [step_instr] in H; break_head H; try discriminate; inversion H; subst; clear H;
      try solve [eexists; split;
                 [first [apply code_cont | (cbn [cont set_code code]; rewrite ?upd_pub_code; apply assoc_get_set_same)]
                 | ne_tac Nr]].
    match goal with U : unwind rest = Some (?p, ?h, ?async, ?r) |- _ => pose proof (noent_unwind rid rest p h async r U Nr) as Nr2 end.
    eexists. split; [apply code_cont|]. apply noent_app; [apply noent_after_recover | exact Nr2].
  - (* ITaskStart *) exfalso. apply (Hts p h). reflexivity.
Qed.

Lemma existsb_false {A} (f : A -> bool) l : existsb f l = false -> forall x, In x l -> f x = false.
Proof.
  induction l as [|y l IH]; intros H x Hx; [destruct Hx|]. cbn in H. apply orb_false_iff in H. destruct H as [Hy Hl].
  destruct Hx as [<-|Hx]; [exact Hy | apply IH; assumption].
Qed.

Definition einv (s : bstate) : Prop :=
  forall b c rid, assoc_get (code s) b = Some c -> (exists x, In x c /\ ent_i rid x = true) -> In b (queue s rid).

Lemma einv_step P cfg s a s' ls : winv s -> qinv s -> einv s -> mstep P cfg s a = Some (s', ls) -> einv s'.
Proof.
  intros WI Q E H. pose proof H as Hm. unfold mstep in H.
  destruct (assoc_get (code s) a) as [[|i rest]|] eqn:Ha; try discriminate.
  destruct (wi_bound s WI a _ Ha) as [Hlt W].
  assert (Hfresh : assoc_get (code s) (next_actor s) = None).
  { destruct (assoc_get (code s) (next_actor s)) eqn:E0; [|reflexivity]. destruct (wi_bound s WI _ _ E0). lia. }
  assert (Hna : a <> next_actor s) by lia.
  (* queues only lose the goroutine that finishes *)
  assert (Hkeep : forall rid b, In b (queue s rid) -> b <> a \/ i <> ITaskDone -> In b (queue s' rid)).
  { intros rid b Hb Hor.
    destruct (instr_eq_taskdone i) as [->|Hnd].
    - destruct Hor as [Nb|Hx]; [|contradiction Hx; reflexivity].
      cbn [step_instr] in H. inversion H; subst; clear H. unfold queue at 1. cbn [cont set_code turnq].
      fold (qof (pop_turn (turnq s) a) rid). rewrite qof_pop, <- (queue_qof s rid).
      destruct (at_head (queue s rid) a) eqn:Eh; [|exact Hb].
      apply at_head_spec in Eh. destruct Eh as [more Eh]. rewrite Eh in Hb |- *. destruct Hb as [->|Hb]; [contradiction Nb; reflexivity | exact Hb].
    - destruct i; try (destruct (step_turn_frame P cfg s a _ rest s' ls H Hnd ltac:(intros; discriminate)) as [Eq _];
                       unfold queue; rewrite Eq; exact Hb).
      + (* IDispatch *)
        destruct (h_async (r_spec h)) eqn:Hasync.
        * cbn [step_instr] in H. rewrite Hasync in H. inversion H; subst; clear H.
          unfold queue at 1. cbn [cont set_code turnq]. destruct (h_seq (r_spec h)); [|exact Hb].
          fold (qof (assoc_set (turnq s) (r_id h) (queue s (r_id h) ++ [next_actor s])) rid).
          destruct (Nat.eq_dec (r_id h) rid) as [<-|N]; [rewrite qof_set_same; apply in_or_app; left; exact Hb | rewrite qof_set_other by exact N; exact Hb].
        * destruct (step_turn_frame P cfg s a _ rest s' ls H Hnd) as [Eq _]; [intros p' h' E'; inversion E'; subst; exact Hasync|].
          unfold queue; rewrite Eq; exact Hb. }
  intros b c rid Hb [x [Hx Ex]].
  destruct (Nat.eq_dec b a) as [->|Nb].
  - (* the stepping goroutine *)
    destruct (q_sole s Q a _ Ha) as [Nold | [p0 [h0 E0]]].
    + (* not a fresh delivery *)
      destruct (existsb (ent_i rid) rest) eqn:Eold.
      * apply existsb_exists in Eold. destruct Eold as [y [Hy Ey]].
        assert (Hin : In a (queue s rid)) by (apply (E a _ rid Ha); exists y; split; [right; exact Hy|exact Ey]).
        apply (Hkeep rid a Hin). right. intros ->.
        assert (rest = []) by (apply (W [] ITaskDone rest eq_refl); reflexivity). subst rest. destruct Hy.
      * exfalso. pose proof (existsb_false _ _ Eold) as Nr.
        destruct (step_noent rid P cfg s a i rest s' ls Nr) as [newc [Hn Nn]]; [|exact H|].
        -- intros p h ->. specialize (Nold _ (or_introl eq_refl)). discriminate.
        -- rewrite Hn in Hb. inversion Hb; subst c. specialize (Nn x Hx). congruence.
    + (* a fresh delivery starts *)
      inversion E0; subst i rest.
      destruct (task_start_decision P cfg s a p0 h0 [] s' ls H) as [Hn _]. rewrite Hn in Hb. inversion Hb; subst c. clear Hb.
      destruct (is_cancelled s (pb_ctx (get_pub s p0)) && negb (h_once (r_spec h0))).
      * destruct Hx as [<-|[]]. discriminate Ex.
      * rewrite app_nil_r in Hx. unfold call_handler in Hx.
        assert (Hxe : x = IEnter p0 h0).
        { repeat (apply in_app_or in Hx; destruct Hx as [Hx|Hx]).
          - destruct (c_obs cfg); [destruct Hx as [<-|[]]; discriminate Ex | destruct Hx].
          - destruct (h_seq (r_spec h0)); [destruct Hx as [<-|[]]; discriminate Ex | destruct Hx].
          - destruct Hx as [<-|[]]. reflexivity.
          - exfalso. pose proof (noent_acts rid _ x Hx). congruence.
          - destruct Hx as [<-|[]]. discriminate Ex. }
        subst x. cbn [ent_i] in Ex. apply andb_true_iff in Ex. destruct Ex as [Sa Er]. apply Nat.eqb_eq in Er. subst rid.
        unfold seqasync in Sa. apply andb_true_iff in Sa. destruct Sa as [_ Hs].
        apply (Hkeep (r_id h0) a); [apply (q_fresh s Q a p0 h0 Ha Hs) | right; discriminate].
  - (* somebody else: unchanged code, or freshly spawned *)
    assert (Hold : assoc_get (code s) b = Some c \/ (forall y, In y c -> ent_i rid y = false)).
    { destruct (instr_eq_dispatch_async i) as [[p [h [-> Hasync]]]|Hnd].
      - cbn [step_instr] in H. rewrite Hasync in H. inversion H; subst; clear H. cbn [cont set_code code] in Hb.
        rewrite assoc_get_set_other in Hb by congruence.
        destruct (Nat.eq_dec (next_actor s) b) as [<-|N].
        + rewrite assoc_get_set_same in Hb. inversion Hb; subst c. right. intros y [<-|[]]. reflexivity.
        + rewrite assoc_get_set_other in Hb by exact N. left. exact Hb.
      - destruct (step_others P cfg s a i rest s' ls H Hna Hnd b Nb) as [Eo|[-> Eo]].
        + left. rewrite <- Eo. exact Hb.
        + right. rewrite Eo in Hb. inversion Hb; subst c. intros y [<-|[]]. reflexivity. }
    destruct Hold as [Hold|Hnone]; [|specialize (Hnone x Hx); congruence].
    apply (Hkeep rid b); [apply (E b c rid Hold); exists x; auto | left; exact Nb].
Qed.

Lemma einv_init threads : einv (init_state threads).
Proof.
  intros b c rid Hb [x [Hx Ex]]. exfalso. cbn [init_state code] in Hb.
  assert (Hall : forall n (l : list (list action)) c, assoc_get (combine (seq n (length l)) (map acts l)) b = Some c -> noent rid c).
  { intros n l. revert n. induction l as [|y l IH]; intros n c0 Hc; [discriminate|].
    cbn [length seq map combine assoc_get] in Hc. destruct (Nat.eqb n b); [inversion Hc; apply noent_acts | apply (IH (S n) c0 Hc)]. }
  pose proof (Hall 0 threads c Hb x Hx). congruence.
Qed.

Lemma einv_run P cfg : forall sched s, winv s -> qinv s -> einv s -> einv (fst (run P cfg s sched)).
Proof.
  induction sched as [|a r IH]; intros s I Q E; cbn [run]; [exact E|].
  destruct (mstep P cfg s a) as [[s' ls]|] eqn:Em.
  - specialize (IH s' (winv_step P cfg s a s' ls I Em) (qinv_step P cfg s a s' ls I Q Em) (einv_step P cfg s a s' ls I Q E Em)).
    destruct (run P cfg s' r). exact IH.
  - apply IH; assumption.
Qed.

(* over every schedule: whoever is about to enter the body of an Async+Sequential handler heads that handler's queue -
   so (async_sequential_fifo) every delivery dispatched to the handler before this one has finished *)
Theorem async_sequential_enters_in_turn P cfg s a p h rest : reachable P cfg s ->
  h_async (r_spec h) = true -> h_seq (r_spec h) = true ->
  assoc_get (code s) a = Some (IEnter p h :: rest) -> at_head (queue s (r_id h)) a = true.
Proof.
  intros R Ha Hs Hc. pose proof (turn_queue_discipline P cfg s R) as Q.
  destruct R as [threads [sched ->]].
  pose proof (einv_run P cfg sched _ (winv_init threads) (qinv_init threads) (einv_init threads)) as E.
  assert (Hin : In a (queue (fst (run P cfg (init_state threads) sched)) (r_id h))).
  { apply (E a _ (r_id h) Hc). exists (IEnter p h). split; [left; reflexivity|]. cbn [ent_i]. unfold seqasync. rewrite Ha, Hs, Nat.eqb_refl. reflexivity. }
  destruct (queue (fst (run P cfg (init_state threads) sched)) (r_id h)) as [|hd more] eqn:Eq; [destruct Hin|].
  destruct Hin as [->|Hin]; [cbn [at_head]; apply Nat.eqb_refl|].
  destruct (q_wait _ Q (r_id h) hd more a Eq Hin) as [p' [h' [Hc' _]]]. rewrite Hc in Hc'. discriminate.
Qed.

(* ================================================================== *)
(* C03: progress.  In a reachable state in which (H1) the goroutines waiting for handler mutexes do not wait in a
   cycle - the documented exception is exactly such a cycle - and (H2) no goroutine sits in Wait, in Shutdown's
   waiter or select, or crashed, while it is itself an in-flight delivery or holds a handler mutex (Wait and
   Shutdown are not among the calls a handler may make), and (H3) a pending Shutdown still has its waiter, some
   goroutine can take a step whenever some goroutine is unfinished. *)
Definition stuckish (i : instr) : bool :=
  match i with IDo AWait | IWaiterDone _ | IShutdownSelect _ _ | ICrashed => true | _ => false end.

Lemma assoc_get_in_keys {V} (l : list (nat * V)) k v : assoc_get l k = Some v -> In k (map fst l).
Proof.
  induction l as [|[k' v'] r IH]; cbn [assoc_get]; [discriminate|].
  destruct (Nat.eqb k' k) eqn:E; intros H; [left; apply Nat.eqb_eq, E | right; apply IH, H].
Qed.

Lemma total_pos cs : NoDup (map fst cs) -> 0 < total cs -> exists a c, assoc_get cs a = Some c /\ 0 < weight c.
Proof.
  induction cs as [|[k v] r IH]; intros ND H; [cbn in H; lia|].
  rewrite total_cons in H. cbn [map fst] in ND. apply NoDup_cons_iff in ND. destruct ND as [Hk ND].
  destruct (weight v) eqn:E.
  - destruct (IH ND) as [a [c [Ha Hc]]]; [lia|]. exists a, c. split; [|exact Hc].
    cbn [assoc_get]. destruct (Nat.eqb k a) eqn:Ek; [|exact Ha].
    apply Nat.eqb_eq in Ek. subst a. exfalso. apply Hk. eapply assoc_get_in_keys; exact Ha.
  - exists k, v. cbn [assoc_get]. rewrite Nat.eqb_refl. split; [reflexivity | lia].
Qed.

Section Progress.
  Variable P : program.
  Variable cfg : buscfg.
  Variable s : bstate.
  Hypothesis R : reachable P cfg s.
  Variable rank : actor -> nat.
  Hypothesis H1 : forall a h rest b, assoc_get (code s) a = Some (ILock h :: rest) ->
                    assoc_get (seqlocks s) (r_id h) = Some b -> rank b < rank a.
  Hypothesis H1t : forall a p h rest b more, assoc_get (code s) a = Some (ITaskStart p h :: rest) ->
                    h_seq (r_spec h) = true -> queue s (r_id h) = b :: more -> b <> a -> rank b < rank a.
  Hypothesis H2 : forall a i rest, assoc_get (code s) a = Some (i :: rest) -> stuckish i = true ->
                    weight (i :: rest) = 0 /\ forall rid, held rid (i :: rest) = 0.
  Hypothesis H3 : forall a sid c rest, assoc_get (code s) a = Some (IShutdownSelect sid c :: rest) ->
                    memb sid (waiters_done s) = true \/ exists w r, assoc_get (code s) w = Some (IWaiterDone sid :: r).

  Definition enabled_somewhere : Prop := exists b s' ls, mstep P cfg s b = Some (s', ls).

  (* a delivery that waits for its turn waits for the head of its queue, which is an unfinished delivery *)
  Lemma turn_waits_for : forall a p h rest, assoc_get (code s) a = Some (ITaskStart p h :: rest) ->
    h_seq (r_spec h) = true -> at_head (queue s (r_id h)) a = false ->
    exists b more cb, queue s (r_id h) = b :: more /\ b <> a /\ assoc_get (code s) b = Some cb /\ weight cb = 1.
  Proof.
    intros a p h rest Ha Hs Hh. pose proof (turn_queue_discipline P cfg s R) as Q.
    destruct (q_sole s Q a _ Ha) as [N|[p' [h' E]]]; [specialize (N _ (or_introl eq_refl)); discriminate|].
    inversion E; subst p' h' rest.
    pose proof (q_fresh s Q a p h Ha Hs) as Hin.
    destruct (queue s (r_id h)) as [|b more] eqn:Eq; [destruct Hin|].
    assert (Nb : b <> a) by (intros ->; cbn [at_head] in Hh; rewrite Nat.eqb_refl in Hh; discriminate).
    destruct (q_live s Q (r_id h) b) as [cb [Hcb Hw]]; [rewrite Eq; left; reflexivity|].
    exists b, more, cb. auto.
  Qed.

  (* a goroutine that is not in Wait / Shutdown / crashed: either it can step, or it waits for a mutex or for its
     turn, and the holder (further down the acyclic wait-for order) leads to somebody who can *)
  Lemma chain_progress : forall n a i rest, rank a <= n ->
    assoc_get (code s) a = Some (i :: rest) -> stuckish i = false -> enabled_somewhere.
  Proof.
    induction n as [|n IH]; intros a i rest Hr Ha Hs.
    - destruct (step_instr P cfg s a i rest) as [[s' ls]|] eqn:E.
      + exists a, s', ls. unfold mstep. rewrite Ha. exact E.
      + destruct (only_these_block P cfg s a i rest E) as [[h ->]|[[p ->]|[->|[[sid ->]|[[sid [c ->]]|[->|[p [h [-> [Hq Hh]]]]]]]]]]; try discriminate Hs.
        * cbn [step_instr] in E. destruct (assoc_get (seqlocks s) (r_id h)) as [b|] eqn:Eb; [|discriminate].
          pose proof (H1 a h rest b Ha Eb). lia.
        * cbn [step_instr] in E. destruct (store_mu s) as [b|] eqn:Eb; [|discriminate].
          destruct (store_lock_holder_runs P cfg s R b Eb) as [s' [ls Hb]]. exists b, s', ls. exact Hb.
        * destruct (turn_waits_for a p h rest Ha Hq Hh) as [b [more [cb [Eq [Nb _]]]]].
          pose proof (H1t a p h rest b more Ha Hq Eq Nb). lia.
    - destruct (step_instr P cfg s a i rest) as [[s' ls]|] eqn:E.
      + exists a, s', ls. unfold mstep. rewrite Ha. exact E.
      + destruct (only_these_block P cfg s a i rest E) as [[h ->]|[[p ->]|[->|[[sid ->]|[[sid [c ->]]|[->|[p [h [-> [Hq Hh]]]]]]]]]]; try discriminate Hs.
        * cbn [step_instr] in E. destruct (assoc_get (seqlocks s) (r_id h)) as [b|] eqn:Eb; [|discriminate].
          pose proof (H1 a h rest b Ha Eb) as Hlt.
          destruct (no_orphaned_handler_lock P cfg s R (r_id h) b Eb) as [cb [Hcb Hheld]].
          destruct cb as [|ib restb]; [cbn in Hheld; lia|].
          destruct (stuckish ib) eqn:Sb.
          -- destruct (H2 b ib restb Hcb Sb) as [_ Hz]. rewrite Hz in Hheld. lia.
          -- apply (IH b ib restb); [lia | exact Hcb | exact Sb].
        * cbn [step_instr] in E. destruct (store_mu s) as [b|] eqn:Eb; [|discriminate].
          destruct (store_lock_holder_runs P cfg s R b Eb) as [s' [ls Hb]]. exists b, s', ls. exact Hb.
        * destruct (turn_waits_for a p h rest Ha Hq Hh) as [b [more [cb [Eq [Nb [Hcb Hw]]]]]].
          pose proof (H1t a p h rest b more Ha Hq Eq Nb) as Hlt.
          destruct cb as [|ib restb]; [cbn in Hw; lia|].
          destruct (stuckish ib) eqn:Sb.
          -- destruct (H2 b ib restb Hcb Sb) as [Hz _]. lia.
          -- apply (IH b ib restb); [lia | exact Hcb | exact Sb].
  Qed.

  (* with deliveries in flight, one of them is not stuck in Wait / Shutdown, so the chain lemma applies to it *)
  Lemma inflight_progress : 0 < inflight s -> enabled_somewhere.
  Proof.
    intros Hpos. destruct (inflight_counts P cfg s R) as [Hc WI].
    destruct (total_pos (code s) (wi_nodup s WI)) as [t [ct [Ht Hw]]]; [lia|].
    destruct ct as [|it restt]; [cbn in Hw; lia|].
    destruct (stuckish it) eqn:St.
    - destruct (H2 t it restt Ht St) as [Hz _]. lia.
    - apply (chain_progress (rank t) t it restt (le_n _) Ht St).
  Qed.

  Theorem progress_partial :
    (exists a i rest, assoc_get (code s) a = Some (i :: rest) /\ i <> ICrashed) -> enabled_somewhere.
  Proof.
    intros [a [i [rest [Ha Hnc]]]].
    destruct (stuckish i) eqn:Si; [|apply (chain_progress (rank a) a i rest (le_n _) Ha Si)].
    destruct (Nat.eq_dec (inflight s) 0) as [Hz|Hnz]; [|apply inflight_progress; lia].
    destruct i; try discriminate Si.
    - (* IDo: only AWait is stuckish *)
      destruct a0; try discriminate Si. exists a. unfold mstep. rewrite Ha. cbn [step_instr].
      destruct (Nat.eqb (inflight s) 0) eqn:E; [eexists; eexists; reflexivity | apply Nat.eqb_neq in E; contradiction].
    - (* IShutdownSelect *)
      destruct (H3 a sid c rest Ha) as [Hd | [w [r Hw]]].
      + exists a. unfold mstep. rewrite Ha. cbn [step_instr].
        destruct (memb sid (waiters_done s)) eqn:E; [eexists; eexists; reflexivity | discriminate].
      + exists w. unfold mstep. rewrite Hw. cbn [step_instr].
        destruct (Nat.eqb (inflight s) 0) eqn:E; [eexists; eexists; reflexivity | apply Nat.eqb_neq in E; contradiction].
    - (* IWaiterDone *)
      exists a. unfold mstep. rewrite Ha. cbn [step_instr].
      destruct (Nat.eqb (inflight s) 0) eqn:E; [eexists; eexists; reflexivity | apply Nat.eqb_neq in E; contradiction].
    - contradiction Hnc. reflexivity.
  Qed.
End Progress.

(* ================================================================== *)
(* C03: hypothesis H3 of progress_partial is an invariant - a Shutdown waiting in its select has its waiter *)
Definition is_select (i : instr) : bool := match i with IShutdownSelect _ _ => true | _ => false end.
Definition nosel (c : list instr) : Prop := forall i, In i c -> is_select i = false.
Lemma nosel_app a b : nosel a -> nosel b -> nosel (a ++ b).
Proof. intros Ha Hb i Hi. apply in_app_or in Hi. destruct Hi; auto. Qed.
Lemma nosel_cons i c : is_select i = false -> nosel c -> nosel (i :: c).
Proof. intros Hi Hc x [<-|Hx]; auto. Qed.
Lemma nosel_nil : nosel []. Proof. intros i []. Qed.
Lemma nosel_tl c : nosel c -> nosel (tl c).
Proof. intros H i Hi. apply H. destruct c; [contradiction | right; exact Hi]. Qed.
Lemma nosel_acts l : nosel (acts l).
Proof. intros i Hi. unfold acts in Hi. apply in_map_iff in Hi. destruct Hi as [a [<- _]]. reflexivity. Qed.
Lemma nosel_entries p l : nosel (map (IEntry p) l).
Proof. intros i Hi. apply in_map_iff in Hi. destruct Hi as [a [<- _]]. reflexivity. Qed.
Lemma nosel_shards l : nosel (map IClearShard l).
Proof. intros i Hi. apply in_map_iff in Hi. destruct Hi as [a [<- _]]. reflexivity. Qed.
Lemma nosel_after_recover cfg p h async panicked : nosel (after_recover cfg p h async panicked).
Proof.
  unfold after_recover. repeat apply nosel_app;
    [destruct (h_seq (r_spec h)) | destruct (panicked && c_panic_handler cfg) | destruct (c_obs cfg) | destruct async];
    try apply nosel_nil; intros i [<-|[]]; reflexivity.
Qed.
Lemma nosel_call_handler P p h async obs : nosel (call_handler P p h async obs).
Proof.
  unfold call_handler. repeat apply nosel_app; try apply nosel_acts;
    [destruct obs | destruct (h_seq (r_spec h)) | | ]; try apply nosel_nil; intros i [<-|[]]; reflexivity.
Qed.
Lemma nosel_unwind l p h async r : unwind l = Some (p, h, async, r) -> nosel l -> nosel r.
Proof.
  intros U Hl. apply unwind_spec in U. destruct U as [pre [-> _]]. intros i Hi. apply Hl.
  apply in_or_app. right. right. exact Hi.
Qed.

Ltac ns_tac Nr :=
  repeat first
    [ exact Nr
    | apply nosel_nil
    | apply nosel_after_recover
    | apply nosel_call_handler
    | apply nosel_acts
    | apply nosel_entries
    | apply nosel_shards
    | apply nosel_cons; [reflexivity|]
    | apply nosel_app
    | match goal with |- nosel (if ?b then _ else _) => destruct b end
    | match goal with |- nosel (match ?b with _ => _ end) => destruct b end
    | (let i := fresh in let H := fresh in intros i H; destruct H as [<-|[]]; reflexivity)
    | (let i := fresh in let H := fresh in intros i H; destruct H) ].

(* a step either introduces no Shutdown select into the stepping goroutine's code, or it is the Shutdown call itself,
   which puts the select at the head and spawns the waiter *)
Lemma step_select P cfg s a i rest s' ls :
  nosel rest -> step_instr P cfg s a i rest = Some (s', ls) ->
  exists newc, assoc_get (code s') a = Some newc /\
    (nosel newc \/
     (exists c, i = IDo (AShutdown c) /\ newc = IShutdownSelect (next_sid s) c :: rest /\
                (a <> next_actor s -> assoc_get (code s') (next_actor s) = Some [IWaiterDone (next_sid s)]))).
Proof.
  intros Nr H. destruct i; cbn [step_instr] in H.
  all: try (break_head H; try discriminate; inversion H; subst; clear H;
            solve [eexists; split;
                   [first [apply code_cont | (cbn [cont set_code code]; rewrite ?upd_pub_code; apply assoc_get_set_same)]
                   | left; ns_tac Nr]]).
  - (* IDo *)
    destruct a0; cbn [step_instr] in H; break_head H; try discriminate; inversion H; subst; clear H;
      try solve [eexists; split;
                 [first [apply code_cont | (cbn [cont set_code code]; rewrite ?upd_pub_code; apply assoc_get_set_same)]
                 | left; ns_tac Nr]].
    + (* AShutdown *)
      eexists. split; [apply code_cont|]. right. exists c. split; [reflexivity|]. split; [reflexivity|].
      intros Hne. cbn [cont set_code code]. rewrite assoc_get_set_other by congruence. apply assoc_get_set_same.
    + (* APanic recovered *)
      match goal with U : unwind rest = Some (?p, ?h, ?async, ?r) |- _ => pose proof (nosel_unwind rest p h async r U Nr) as Nr2 end.
      eexists. split; [apply code_cont|]. left. apply nosel_app; [apply nosel_after_recover | exact Nr2].
Qed.

Ltac fin_frame2 :=
  let x := fresh "x" in let Hx := fresh "Hx" in
  intros x Hx; left; cbn [cont set_code code]; rewrite ?upd_pub_code; cbn [code];
  rewrite assoc_get_set_other by congruence; reflexivity.

Lemma step_frame2 P cfg s a i rest s' ls :
  step_instr P cfg s a i rest = Some (s', ls) -> a <> next_actor s ->
  forall b, b <> a ->
    assoc_get (code s') b = assoc_get (code s) b \/
    (b = next_actor s /\
     ((exists p h, assoc_get (code s') b = Some [ITaskStart p h]) \/
      (exists c, i = IDo (AShutdown c) /\ assoc_get (code s') b = Some [IWaiterDone (next_sid s)]))).
Proof.
  intros H Hna.
  destruct i; cbn [step_instr] in H.
  all: try (break_head H; try discriminate; inversion H; subst; clear H; solve [fin_frame2]).
  - (* IDo *)
    destruct a0; cbn [step_instr] in H; break_head H; try discriminate; inversion H; subst; clear H;
      try solve [fin_frame2].
    intros b Hb. cbn [cont set_code code]. rewrite assoc_get_set_other by congruence.
    destruct (Nat.eq_dec (next_actor s) b) as [<-|N].
    + right. split; [reflexivity|]. right. exists c. split; [reflexivity | apply assoc_get_set_same].
    + left. rewrite assoc_get_set_other by exact N. reflexivity.
  - (* IDispatch async *)
    break_head H; try discriminate; inversion H; subst; clear H; try solve [fin_frame2].
    intros b Hb. cbn [cont set_code code]. rewrite assoc_get_set_other by congruence.
    destruct (Nat.eq_dec (next_actor s) b) as [<-|N].
    + right. split; [reflexivity|]. left. exists p, h. apply assoc_get_set_same.
    + left. rewrite assoc_get_set_other by exact N. reflexivity.
Qed.

Lemma upd_pub_waiters s p f : waiters_done (upd_pub s p f) = waiters_done s.
Proof. unfold upd_pub. destruct (assoc_get (pubs s) p); reflexivity. Qed.
Lemma upd_pub_next_sid s p f : next_sid (upd_pub s p f) = next_sid s.
Proof. unfold upd_pub. destruct (assoc_get (pubs s) p); reflexivity. Qed.

Lemma waiters_step P cfg s a i rest s' ls :
  step_instr P cfg s a i rest = Some (s', ls) ->
  match i with
  | IWaiterDone sid => waiters_done s' = sid :: waiters_done s
  | _ => waiters_done s' = waiters_done s
  end.
Proof.
  intros H. destruct i; cbn [step_instr] in H.
  all: try (break_head H; try discriminate; inversion H; subst; clear H;
            solve [cbn [cont set_code waiters_done]; rewrite ?upd_pub_waiters; reflexivity]).
Qed.

Record h3inv (s : bstate) : Prop := {
  h3_head : forall a c, assoc_get (code s) a = Some c -> nosel (tl c);
  h3_waiter : forall a sid c rest, assoc_get (code s) a = Some (IShutdownSelect sid c :: rest) ->
                memb sid (waiters_done s) = true \/ exists w r, assoc_get (code s) w = Some (IWaiterDone sid :: r)
}.

Lemma memb_cons x y l : memb x l = true -> memb x (y :: l) = true.
Proof. unfold memb. cbn. intros ->. apply orb_true_r. Qed.

Lemma h3inv_step P cfg s b s' ls : winv s -> h3inv s -> mstep P cfg s b = Some (s', ls) -> h3inv s'.
Proof.
  intros WI [Hh Hw] H. unfold mstep in H.
  destruct (assoc_get (code s) b) as [[|i rest]|] eqn:Hb; try discriminate.
  pose proof (Hh b _ Hb) as Nr. cbn [tl] in Nr.
  assert (Hnb : b <> next_actor s) by (destruct (wi_bound s WI b _ Hb); lia).
  destruct (step_select P cfg s b i rest s' ls Nr H) as [newc [Hnew Hsel]].
  pose proof (step_frame2 P cfg s b i rest s' ls H Hnb) as F.
  pose proof (waiters_step P cfg s b i rest s' ls H) as Wd.
  assert (Wmono : forall x, memb x (waiters_done s) = true -> memb x (waiters_done s') = true).
  { intros x Hx. destruct i; try (rewrite Wd; exact Hx). rewrite Wd. apply memb_cons. exact Hx. }
  split.
  - intros a c Ha. destruct (Nat.eq_dec a b) as [->|N].
    + rewrite Hnew in Ha. inversion Ha; subst c.
      destruct Hsel as [Hs | [cx [-> [-> _]]]]; [apply nosel_tl, Hs | exact Nr].
    + destruct (F a N) as [E | [-> [[p [h E]] | [cx [_ E]]]]].
      * rewrite E in Ha. apply (Hh a c Ha).
      * rewrite E in Ha. inversion Ha. intros x [].
      * rewrite E in Ha. inversion Ha. intros x [].
  - intros a sid c rest0 Ha. destruct (Nat.eq_dec a b) as [->|N].
    + rewrite Hnew in Ha. inversion Ha; subst newc.
      destruct Hsel as [Hs | [cx [-> [E Hwt]]]].
      * exfalso. specialize (Hs _ (or_introl eq_refl)). discriminate.
      * inversion E; subst. right. exists (next_actor s), []. apply Hwt. exact Hnb.
    + assert (Hold : assoc_get (code s) a = Some (IShutdownSelect sid c :: rest0)).
      { destruct (F a N) as [E | [-> [[p [h E]] | [cx [_ E]]]]]; [rewrite <- E; exact Ha | | ]; rewrite E in Ha; discriminate. }
      destruct (Hw a sid c rest0 Hold) as [Hd | [w [r Hwc]]]; [left; apply Wmono; exact Hd|].
      destruct (Nat.eq_dec w b) as [->|Nw].
      * rewrite Hb in Hwc. inversion Hwc; subst. left. cbn in Wd. rewrite Wd. unfold memb. cbn. rewrite Nat.eqb_refl. reflexivity.
      * right. exists w, r. destruct (F w Nw) as [E | [-> [_ | _]]]; [rewrite E; exact Hwc | | ];
          exfalso; destruct (wi_bound s WI _ _ Hwc); lia.
Qed.

Lemma h3inv_init threads : h3inv (init_state threads).
Proof.
  assert (Hin: forall a c, assoc_get (code (init_state threads)) a = Some c -> exists l, c = acts l).
  { unfold init_state. cbn [code]. intros a c H.
    assert (Hi: In (a, c) (combine (seq 0 (length threads)) (map acts threads))).
    { clear -H. induction (combine (seq 0 (length threads)) (map acts threads)) as [|[k v] r IH]; [discriminate|].
      cbn in H. destruct (Nat.eqb k a) eqn:E; [apply Nat.eqb_eq in E; inversion H; subst; left; reflexivity|right; apply IH, H]. }
    apply in_combine_r in Hi. apply in_map_iff in Hi. destruct Hi as [l [<- _]]. eauto. }
  split.
  - intros a c H. destruct (Hin a c H) as [l ->]. apply nosel_tl, nosel_acts.
  - intros a sid c rest H. destruct (Hin a _ H) as [l E]. exfalso.
    assert (X : In (IShutdownSelect sid c) (acts l)) by (rewrite <- E; left; reflexivity).
    apply nosel_acts in X. discriminate.
Qed.

Lemma h3inv_run P cfg : forall sched s, winv s -> h3inv s -> h3inv (fst (run P cfg s sched)).
Proof.
  induction sched as [|a r IH]; intros s I S; cbn [run]; [exact S|].
  destruct (mstep P cfg s a) as [[s' ls]|] eqn:E.
  - specialize (IH s' (winv_step P cfg s a s' ls I E) (h3inv_step P cfg s a s' ls I S E)). destruct (run P cfg s' r). exact IH.
  - apply IH; assumption.
Qed.

Theorem shutdown_has_its_waiter P cfg s : reachable P cfg s ->
  forall a sid c rest, assoc_get (code s) a = Some (IShutdownSelect sid c :: rest) ->
    memb sid (waiters_done s) = true \/ exists w r, assoc_get (code s) w = Some (IWaiterDone sid :: r).
Proof.
  intros [threads [sched ->]]. apply (h3_waiter _ (h3inv_run P cfg sched _ (winv_init threads) (h3inv_init threads))).
Qed.

(* progress with H3 discharged *)
Theorem progress_partial2 P cfg s : reachable P cfg s ->
  forall rank : actor -> nat,
  (forall a h rest b, assoc_get (code s) a = Some (ILock h :: rest) -> assoc_get (seqlocks s) (r_id h) = Some b -> rank b < rank a) ->
  (forall a p h rest b more, assoc_get (code s) a = Some (ITaskStart p h :: rest) ->
     h_seq (r_spec h) = true -> queue s (r_id h) = b :: more -> b <> a -> rank b < rank a) ->
  (forall a i rest, assoc_get (code s) a = Some (i :: rest) -> stuckish i = true ->
     weight (i :: rest) = 0 /\ forall rid, held rid (i :: rest) = 0) ->
  (exists a i rest, assoc_get (code s) a = Some (i :: rest) /\ i <> ICrashed) ->
  exists b s' ls, mstep P cfg s b = Some (s', ls).
Proof.
  intros R rank H1 H1t H2 Hex. apply (progress_partial P cfg s R rank H1 H1t H2 (shutdown_has_its_waiter P cfg s R) Hex).
Qed.

(* ================================================================== *)
(* C03: hypothesis H2 of the progress theorem follows from the shape of admissible programs: handlers, filters and
   hooks do not call Wait or Shutdown (the property lets them publish, subscribe, unsubscribe and clear).  Then, in
   every reachable state, Wait / Shutdown instructions sit only below every delivery frame of their goroutine. *)
Definition wait_act (a : action) : bool := match a with AWait | AShutdown _ => true | _ => false end.
Definition waitish (i : instr) : bool :=
  match i with IAct a | IDo a => wait_act a | IShutdownSelect _ _ | IWaiterDone _ => true | _ => false end.
Definition frameish (i : instr) : bool :=
  match i with ITaskStart _ _ | ITaskDone | IRecover _ _ _ | IUnlock _ | ILock _ | IHandlerStart _ _ _ => true | _ => false end.
Definition nowait (c : list instr) : Prop := forall i, In i c -> waitish i = false.
Definition noframe (c : list instr) : Prop := forall i, In i c -> frameish i = false.
Definition wb (c : list instr) : Prop := forall pre x post, c = pre ++ x :: post -> waitish x = true -> noframe post.

Definition Pwf (P : program) : Prop :=
  (forall b a, In a (body_of P b) -> wait_act a = false) /\
  (forall f fl, assoc_get (p_filters P) f = Some fl -> forall a, In a (f_acts fl) -> wait_act a = false).

Lemma nowait_app a b : nowait a -> nowait b -> nowait (a ++ b).
Proof. intros Ha Hb i Hi. apply in_app_or in Hi. destruct Hi; auto. Qed.
Lemma nowait_cons i c : waitish i = false -> nowait c -> nowait (i :: c).
Proof. intros Hi Hc x [<-|Hx]; auto. Qed.
Lemma nowait_nil : nowait []. Proof. intros i []. Qed.
Lemma nowait_acts l : (forall a, In a l -> wait_act a = false) -> nowait (acts l).
Proof. intros H i Hi. unfold acts in Hi. apply in_map_iff in Hi. destruct Hi as [a [<- Ha]]. cbn. apply H, Ha. Qed.
Lemma nowait_entries p l : nowait (map (IEntry p) l).
Proof. intros i Hi. apply in_map_iff in Hi. destruct Hi as [a [<- _]]. reflexivity. Qed.
Lemma nowait_shards l : nowait (map IClearShard l).
Proof. intros i Hi. apply in_map_iff in Hi. destruct Hi as [a [<- _]]. reflexivity. Qed.
Lemma nowait_after_recover cfg p h async panicked : nowait (after_recover cfg p h async panicked).
Proof.
  unfold after_recover. repeat apply nowait_app;
    [destruct (h_seq (r_spec h)) | destruct (panicked && c_panic_handler cfg) | destruct (c_obs cfg) | destruct async];
    try apply nowait_nil; intros i [<-|[]]; reflexivity.
Qed.
Lemma nowait_call_handler P p h async obs : Pwf P -> nowait (call_handler P p h async obs).
Proof.
  intros [HP _]. unfold call_handler. repeat apply nowait_app; try (apply nowait_acts, HP);
    [destruct obs | destruct (h_seq (r_spec h)) | | ]; try apply nowait_nil; intros i [<-|[]]; reflexivity.
Qed.
Lemma nowait_filter_acts P f : Pwf P -> nowait (acts (match assoc_get (p_filters P) f with Some fl => f_acts fl | None => [] end)).
Proof.
  intros [_ HF]. destruct (assoc_get (p_filters P) f) as [fl|] eqn:E; [apply nowait_acts, (HF f fl E) | apply nowait_nil].
Qed.

Lemma panic_acts_wf P v : Pwf P -> forall a, In a (panic_acts P v) -> wait_act a = false.
Proof. intros [HP _] a. unfold panic_acts. destruct (Nat.ltb v panic_retry_below); [apply HP | intros []]. Qed.

Lemma wb_suffix pre c : wb (pre ++ c) -> wb c.
Proof. intros H p x post E W. apply (H (pre ++ p) x post); [rewrite E, app_assoc; reflexivity | exact W]. Qed.
Lemma wb_nowait_app X suf : nowait X -> wb suf -> wb (X ++ suf).
Proof.
  induction X as [|y X IH]; intros Hn Hs; [exact Hs|].
  intros pre x post E W. destruct pre as [|p0 pre]; cbn in E; inversion E; subst.
  - rewrite (Hn x (or_introl eq_refl)) in W. discriminate.
  - apply (IH (fun i Hi => Hn i (or_intror Hi)) Hs pre x post); [assumption | exact W].
Qed.
Lemma wb_head x rest : wb (x :: rest) -> waitish x = true -> noframe rest.
Proof. intros H W. apply (H [] x rest eq_refl W). Qed.
Lemma noframe_wb c : noframe c -> wb c.
Proof. intros H pre x post E _ i Hi. apply H. rewrite E. apply in_or_app. right. right. exact Hi. Qed.
Lemma wb_cons_noframe x rest : noframe rest -> wb (x :: rest).
Proof.
  intros H pre y post E W. destruct pre as [|p0 pre]; cbn in E; inversion E; subst; [exact H|].
  intros i Hi. apply H. apply in_or_app. right. right. exact Hi.
Qed.

Lemma splits_nil (rest : list instr) : rest = [] ++ rest. Proof. reflexivity. Qed.
Lemma splits_cons (i : instr) c rest X : c = X ++ rest -> i :: c = (i :: X) ++ rest.
Proof. intros ->. reflexivity. Qed.
Lemma splits_app (l c rest X : list instr) : c = X ++ rest -> l ++ c = (l ++ X) ++ rest.
Proof. intros ->. rewrite app_assoc. reflexivity. Qed.

Ltac sp_tac := repeat first [apply splits_nil | apply splits_cons | apply splits_app].
Ltac nw_tac HP :=
  repeat first
    [ apply nowait_nil
    | apply nowait_after_recover
    | apply (nowait_call_handler _ _ _ _ _ HP)
    | apply (nowait_filter_acts _ _ HP)
    | apply nowait_acts, (proj1 HP)
    | apply nowait_acts, (panic_acts_wf _ _ HP)
    | apply nowait_entries
    | apply nowait_shards
    | apply nowait_cons; [reflexivity|]
    | apply nowait_app
    | match goal with |- nowait (if ?b then _ else _) => destruct b end
    | match goal with |- nowait (match ?b with _ => _ end) => destruct b end
    | (let i := fresh in let H := fresh in intros i H; destruct H as [<-|[]]; reflexivity)
    | (let i := fresh in let H := fresh in intros i H; destruct H) ].

Ltac fin_wait HP :=
  eexists; split;
  [first [apply code_cont | (cbn [cont set_code code]; rewrite ?upd_pub_code; apply assoc_get_set_same)]
  | left; eexists; match goal with Hr : _ |- context[step_instr] => idtac | _ => idtac end;
    match goal with rest : list instr |- _ => exists rest, []; split; [sp_tac | split; [reflexivity | nw_tac HP]] end].

Lemma step_wait P cfg s a i rest s' ls :
  Pwf P -> step_instr P cfg s a i rest = Some (s', ls) ->
  exists newc, assoc_get (code s') a = Some newc /\
   ((exists X suf drop, newc = X ++ suf /\ rest = drop ++ suf /\ nowait X) \/
    (waitish i = true /\ (newc = rest \/ exists x, newc = x :: rest))).
Proof.
  intros HP H. destruct i; cbn [step_instr] in H.
  all: try (break_head H; try discriminate; inversion H; subst; clear H; solve [fin_wait HP]).
  - (* IAct *)
    inversion H; subst; clear H.
    match goal with |- context[IDo ?act] => destruct (wait_act act) eqn:Ew;
      [ eexists; split; [apply code_cont|]; right; split; [exact Ew|]; right; eexists; reflexivity
      | eexists; split; [apply code_cont|]; left; exists [IDo act], rest, []; split; [reflexivity|]; split; [reflexivity|];
        intros x [<-|[]]; exact Ew ] end.
  - (* IDo *)
    destruct a0; cbn [step_instr] in H; break_head H; try discriminate; inversion H; subst; clear H;
      try solve [fin_wait HP].
    + (* AShutdown *) eexists. split; [apply code_cont|]. right. split; [reflexivity|]. right. eexists. reflexivity.
    + (* APanic recovered *)
      match goal with U : unwind rest = Some (?p, ?h, ?async, ?r) |- _ =>
        apply unwind_spec in U; destruct U as [pre [E _]];
        eexists; split; [apply code_cont|]; left; eexists; eexists; exists (pre ++ [IRecover p h async]);
        split; [reflexivity|]; split; [rewrite E, <- app_assoc; reflexivity | apply nowait_after_recover] end.
Qed.

Definition wbinv (s : bstate) : Prop := forall a c, assoc_get (code s) a = Some c -> wb c.

Lemma wbinv_step P cfg s b s' ls : Pwf P -> winv s -> wbinv s -> mstep P cfg s b = Some (s', ls) -> wbinv s'.
Proof.
  intros HP WI WB H. unfold mstep in H.
  destruct (assoc_get (code s) b) as [[|i rest]|] eqn:Hb; try discriminate.
  pose proof (WB b _ Hb) as Wold.
  assert (Hnb : b <> next_actor s) by (destruct (wi_bound s WI b _ Hb); lia).
  destruct (step_wait P cfg s b i rest s' ls HP H) as [newc [Hnew Hcase]].
  pose proof (step_frame2 P cfg s b i rest s' ls H Hnb) as F.
  intros a c Ha. destruct (Nat.eq_dec a b) as [->|N].
  - rewrite Hnew in Ha. inversion Ha; subst c.
    destruct Hcase as [[X [suf [drop [-> [E Hn]]]]] | [Wi [-> | [x ->]]]].
    + apply wb_nowait_app; [exact Hn|]. apply (wb_suffix (i :: drop)). cbn. rewrite <- E. exact Wold.
    + apply noframe_wb. apply (wb_head i rest Wold Wi).
    + apply wb_cons_noframe. apply (wb_head i rest Wold Wi).
  - destruct (F a N) as [E | [-> [[p [h E]] | [cx [_ E]]]]].
    + rewrite E in Ha. apply (WB a c Ha).
    + rewrite E in Ha. inversion Ha. apply wb_cons_noframe. intros x [].
    + rewrite E in Ha. inversion Ha. apply wb_cons_noframe. intros x [].
Qed.

Lemma wbinv_init threads : wbinv (init_state threads).
Proof.
  intros a c H.
  assert (Hi: In (a, c) (combine (seq 0 (length threads)) (map acts threads))).
  { unfold init_state in H. cbn [code] in H.
    induction (combine (seq 0 (length threads)) (map acts threads)) as [|[k v] r IH]; [discriminate|].
    cbn in H. destruct (Nat.eqb k a) eqn:E; [apply Nat.eqb_eq in E; inversion H; subst; left; reflexivity|right; apply IH, H]. }
  apply in_combine_r in Hi. apply in_map_iff in Hi. destruct Hi as [l [<- _]].
  apply noframe_wb. intros i Hi. unfold acts in Hi. apply in_map_iff in Hi. destruct Hi as [x [<- _]]. reflexivity.
Qed.

Lemma wbinv_run P cfg : Pwf P -> forall sched s, winv s -> wbinv s -> wbinv (fst (run P cfg s sched)).
Proof.
  intros HP. induction sched as [|a r IH]; intros s I S; cbn [run]; [exact S|].
  destruct (mstep P cfg s a) as [[s' ls]|] eqn:E.
  - specialize (IH s' (winv_step P cfg s a s' ls I E) (wbinv_step P cfg s a s' ls HP I S E)). destruct (run P cfg s' r). exact IH.
  - apply IH; assumption.
Qed.

Lemma noframe_weight c : noframe c -> weight c = 0.
Proof.
  induction c as [|i c IH]; intros H; [reflexivity|]. unfold weight in *. cbn [fold_right].
  rewrite IH by (intros x Hx; apply H; right; exact Hx).
  specialize (H i (or_introl eq_refl)). destruct i; try discriminate H; try reflexivity.
Qed.
Lemma noframe_heldc rid c : noframe c -> heldc rid c = 0.
Proof.
  induction c as [|i c IH]; intros H; [reflexivity|]. rewrite heldc_cons.
  rewrite IH by (intros x Hx; apply H; right; exact Hx).
  specialize (H i (or_introl eq_refl)). destruct i; try discriminate H; reflexivity.
Qed.

(* in programs whose handlers, filters and hooks do not call Wait or Shutdown, a goroutine that sits in Wait, in
   Shutdown's select or is Shutdown's waiter is not an in-flight delivery and holds no handler mutex *)
Theorem waiting_goroutines_are_outside_handlers P cfg s : Pwf P -> reachable P cfg s ->
  forall a i rest, assoc_get (code s) a = Some (i :: rest) -> waitish i = true ->
    weight (i :: rest) = 0 /\ forall rid, held rid (i :: rest) = 0.
Proof.
  intros HP [threads [sched ->]] a i rest Ha Wi.
  pose proof (wbinv_run P cfg HP sched _ (winv_init threads) (wbinv_init threads) a _ Ha) as W.
  pose proof (wb_head i rest W Wi) as Nf.
  split.
  - unfold weight. cbn [fold_right]. change (fold_right (fun i n => weight_i i + n) 0 rest) with (weight rest).
    rewrite (noframe_weight rest Nf). destruct i; try discriminate Wi; reflexivity.
  - intros rid. assert (E : held rid (i :: rest) = heldc rid (i :: rest)) by (destruct i; try discriminate Wi; reflexivity).
    rewrite E, heldc_cons, (noframe_heldc rid rest Nf). destruct i; try discriminate Wi; reflexivity.
Qed.

(* PROGRESS: for programs whose handlers, filters and hooks do not call Wait or Shutdown, in every reachable state in
   which no goroutine has died of an unrecovered panic (which in Go ends the process) and the goroutines waiting for
   handler mutexes - or, as Async+Sequential deliveries, for the delivery queued before them - do not wait in a cycle
   (the documented exception), some goroutine can step whenever one is unfinished *)
Theorem progress P cfg s : Pwf P -> reachable P cfg s ->
  forall rank : actor -> nat,
  (forall a h rest b, assoc_get (code s) a = Some (ILock h :: rest) -> assoc_get (seqlocks s) (r_id h) = Some b -> rank b < rank a) ->
  (forall a p h rest b more, assoc_get (code s) a = Some (ITaskStart p h :: rest) ->
     h_seq (r_spec h) = true -> queue s (r_id h) = b :: more -> b <> a -> rank b < rank a) ->
  (forall a rest, assoc_get (code s) a <> Some (ICrashed :: rest)) ->
  (exists a i rest, assoc_get (code s) a = Some (i :: rest)) ->
  exists b s' ls, mstep P cfg s b = Some (s', ls).
Proof.
  intros HP R rank H1 H1t Hnc [a [i [rest Ha]]].
  apply (progress_partial2 P cfg s R rank H1 H1t).
  - intros a0 i0 rest0 Ha0 St. destruct i0; try discriminate St.
    + destruct a1; try discriminate St. apply (waiting_goroutines_are_outside_handlers P cfg s HP R a0 _ rest0 Ha0). reflexivity.
    + apply (waiting_goroutines_are_outside_handlers P cfg s HP R a0 _ rest0 Ha0). reflexivity.
    + apply (waiting_goroutines_are_outside_handlers P cfg s HP R a0 _ rest0 Ha0). reflexivity.
    + exfalso. apply (Hnc a0 rest0 Ha0).
  - exists a, i, rest. split; [exact Ha|]. intros ->. apply (Hnc a rest Ha).
Qed.

(* C06 / C07: when Wait (or Shutdown's waiter) can proceed, no Async+Sequential delivery is queued any more *)
Theorem wait_only_when_queues_empty P cfg s a rest s' ls :
  reachable P cfg s ->
  (assoc_get (code s) a = Some (IDo AWait :: rest) \/ exists sid, assoc_get (code s) a = Some (IWaiterDone sid :: rest)) ->
  mstep P cfg s a = Some (s', ls) ->
  forall rid, queue s rid = [].
Proof.
  intros R Hhead H rid.
  destruct (inflight_counts P cfg s R) as [Hc I].
  assert (Hz: inflight s = 0).
  { unfold mstep in H. destruct Hhead as [Ha|[sid Ha]]; rewrite Ha in H; cbn [step_instr] in H;
      destruct (Nat.eqb (inflight s) 0) eqn:E; try discriminate; apply Nat.eqb_eq, E. }
  destruct (queue s rid) as [|b more] eqn:Eq; [reflexivity|]. exfalso.
  destruct (q_live s (turn_queue_discipline P cfg s R) rid b) as [c [Hcb Hw]]; [rewrite Eq; left; reflexivity|].
  pose proof (total_ge (code s) b c Hcb). lia.
Qed.

(* Turn waits never close a cycle: an Async+Sequential delivery that waits for its turn holds nothing, and nobody waits
   for it (only the head of a queue is waited for) - so a rank for the mutex waits alone suffices.  PROGRESS with the
   acyclicity hypothesis on handler-mutex waits only: the ordering of Async+Sequential deliveries adds no deadlock. *)
Lemma rank_le_max (rank : actor -> nat) {V} (l : list (nat * V)) b c :
  assoc_get l b = Some c -> rank b <= list_max (map (fun x => rank (fst x)) l).
Proof.
  induction l as [|[k v] r IH]; cbn [assoc_get map list_max fold_right fst]; [discriminate|].
  destruct (Nat.eqb k b) eqn:E; intros H.
  - apply Nat.eqb_eq in E. subst. lia.
  - specialize (IH H). unfold list_max in IH. lia.
Qed.

Theorem progress_mutex_waits_only P cfg s : Pwf P -> reachable P cfg s ->
  forall rank : actor -> nat,
  (forall a h rest b, assoc_get (code s) a = Some (ILock h :: rest) -> assoc_get (seqlocks s) (r_id h) = Some b -> rank b < rank a) ->
  (forall a rest, assoc_get (code s) a <> Some (ICrashed :: rest)) ->
  (exists a i rest, assoc_get (code s) a = Some (i :: rest)) ->
  exists b s' ls, mstep P cfg s b = Some (s', ls).
Proof.
  intros HP R rank H1 Hnc Hex.
  pose proof (turn_queue_discipline P cfg s R) as Q.
  set (M := S (list_max (map (fun x => rank (fst x)) (code s)))).
  set (waits := fun a => match assoc_get (code s) a with
                         | Some (ITaskStart _ h :: _) => h_seq (r_spec h) && negb (at_head (queue s (r_id h)) a)
                         | _ => false end).
  set (rank' := fun a => if waits a then M else rank a).
  assert (Hlt : forall b c, assoc_get (code s) b = Some c -> rank b < M).
  { intros b c Hb. unfold M. pose proof (rank_le_max rank (code s) b c Hb). lia. }
  apply (progress P cfg s HP R rank'); [| |exact Hnc|exact Hex].
  - (* mutex waits: neither end waits for a turn *)
    intros a h rest b Ha Hb. unfold rank', waits. rewrite Ha.
    destruct (no_orphaned_handler_lock P cfg s R (r_id h) b Hb) as [cb [Hcb Hheld]]. rewrite Hcb.
    destruct cb as [|ib restb]; [apply (H1 a h rest b Ha Hb)|].
    destruct ib; try apply (H1 a h rest b Ha Hb).
    (* the holder cannot be a fresh delivery: that holds nothing *)
    destruct (q_sole s Q b _ Hcb) as [N|[p' [h' E]]]; [specialize (N _ (or_introl eq_refl)); discriminate|].
    inversion E; subst. cbn in Hheld. lia.
  - (* turn waits: the waiter gets the top rank, the head does not wait *)
    intros a p h rest b more Ha Hs Hq Nb. unfold rank', waits. rewrite Ha, Hs, Hq. cbn [at_head andb].
    assert (Eb : Nat.eqb b a = false) by (apply Nat.eqb_neq; exact Nb). rewrite Eb. cbn [negb].
    destruct (q_live s Q (r_id h) b) as [cb [Hcb Hw]]; [rewrite Hq; left; reflexivity|]. rewrite Hcb.
    destruct cb as [|ib restb]; [apply (Hlt b _ Hcb)|].
    destruct ib; try apply (Hlt b _ Hcb).
    destruct (h_seq (r_spec h0)) eqn:Hs0; cbn [andb]; [|apply (Hlt b _ Hcb)].
    destruct (q_sole s Q b _ Hcb) as [N|[p' [h' E]]]; [specialize (N _ (or_introl eq_refl)); discriminate|].
    inversion E; subst p' h' restb.
    pose proof (q_fresh s Q b p0 h0 Hcb Hs0) as Hin.
    assert (Er : r_id h0 = r_id h) by (apply (q_one s Q (r_id h0) (r_id h) b Hin); rewrite Hq; left; reflexivity).
    rewrite Er, Hq. cbn [at_head]. rewrite Nat.eqb_refl. cbn [negb]. apply (Hlt b _ Hcb).
Qed.

(* ================================================================== *)
(* C04: "exactly once when eligible" has one residual hole in the faithful model: a synchronous Once handler is claimed
   (context live), another goroutine cancels the context before the publisher reaches the per-handler cancellation
   check two statements later, and the handler is skipped although it has been used up.  (The asynchronous form of this
   hole - the context cancelled before the delivery goroutine starts - was a reproducible defect and has been repaired.) *)
Lemma sync_claim_then_cancel :
  let P := {| p_bodies := [(0, {| b_acts := [] |})]; p_filters := []; p_routes := fun _ => 0; p_nshards := 32; p_pfault := fun _ => PfOk |} in
  let sp := {| h_fn := 0; h_once := true; h_async := false; h_seq := false; h_ctx := false; h_filter := None; h_body := 0 |} in
  let th := [[ASub 0 sp; APub 0 1 (CtxId 1) false; ACount 0; APub 0 2 CtxBg false; ACount 0]; [ACancel 1]] in
  let '(s, ls) := run P cfg0 (init_state th) (repeat 0 7 ++ [1; 1; 1] ++ repeat 0 80) in
  cnt_entered 0 s = 0 /\
  filter (fun l => match l with LRes (ACount _) _ => true | _ => false end) ls = [LRes (ACount 0) 0; LRes (ACount 0) 0].
Proof. vm_compute. auto. Qed.

(* ================================================================== *)
(* C05: a panic inside a handler never takes a goroutine down.  If the only user code that panics is handler bodies
   (not the threads' top level, not hooks, not filters), then over every schedule no goroutine ever reaches the
   crashed state: every panicking action in anybody's code has a recover frame after it. *)
Definition is_panic (a : action) : bool := match a with APanic _ => true | _ => false end.
Definition nopanicb (l : list action) : bool := forallb (fun a => negb (is_panic a)) l.
Definition panicky (i : instr) : bool := match i with IAct a | IDo a => is_panic a | _ => false end.
Definition is_rec (i : instr) : bool := match i with IRecover _ _ _ => true | _ => false end.
Definition has_rec (c : list instr) : bool := existsb is_rec c.
Definition pr (c : list instr) : Prop := forall pre x post, c = pre ++ x :: post -> panicky x = true -> has_rec post = true.
Definition nopan (c : list instr) : Prop := forall i, In i c -> panicky i = false.
Definition is_some {A} (o : option A) : bool := match o with Some _ => true | None => false end.
Definition hookok (P : program) (cfg : buscfg) (i : instr) : bool :=
  match i with
  | IBeforeCtx _ steps => forallb (fun st => match st with BUser b => nopanicb (body_of P b) | BPersist => true end) steps
  | IBeforeLegacy _ => is_some (c_before_legacy cfg)
  | IAfterLegacy _ => is_some (c_after_legacy cfg)
  | IAfterCtx _ => is_some (c_after_ctx cfg)
  | _ => true
  end.
Definition is_crashed (i : instr) : bool := match i with ICrashed => true | _ => false end.
Definition tidy (P : program) (cfg : buscfg) (c : list instr) : Prop :=
  forall i, In i c -> hookok P cfg i = true /\ is_crashed i = false.

Record Ppanic (P : program) (cfg : buscfg) : Prop := {
  pp_bl : forall b, c_before_legacy cfg = Some b -> nopanicb (body_of P b) = true;
  pp_al : forall b, c_after_legacy cfg = Some b -> nopanicb (body_of P b) = true;
  pp_ac : forall b, c_after_ctx cfg = Some b -> nopanicb (body_of P b) = true;
  pp_bc : forallb (fun st => match st with BUser b => nopanicb (body_of P b) | BPersist => true end) (c_before_ctx cfg) = true;
  pp_fl : forall f fl, assoc_get (p_filters P) f = Some fl -> nopanicb (f_acts fl) = true;
  pp_ph : nopanicb (body_of P panic_body) = true     (* the panic handler does not panic itself *)
}.

Lemma nopan_acts l : nopanicb l = true -> nopan (acts l).
Proof.
  intros H i Hi. unfold acts in Hi. apply in_map_iff in Hi. destruct Hi as [a [<- Ha]]. cbn.
  unfold nopanicb in H. rewrite forallb_forall in H. specialize (H a Ha). destruct (is_panic a); [discriminate | reflexivity].
Qed.
Lemma tidy_acts P cfg l : tidy P cfg (acts l).
Proof. intros i Hi. unfold acts in Hi. apply in_map_iff in Hi. destruct Hi as [a [<- _]]. split; reflexivity. Qed.
Lemma nopan_pr c : nopan c -> pr c.
Proof. intros H pre x post E Px. rewrite (H x) in Px; [discriminate|]. rewrite E. apply in_or_app. right. left. reflexivity. Qed.
Lemma pr_app X suf : pr X -> pr suf -> pr (X ++ suf).
Proof.
  revert suf. induction X as [|y X IH]; intros suf HX Hs; [exact Hs|].
  intros pre x post E Px. destruct pre as [|p0 pre]; cbn in E; inversion E; subst.
  - pose proof (HX [] x X eq_refl Px) as H1. unfold has_rec in *. rewrite existsb_app, H1. reflexivity.
  - assert (HX' : pr X).
    { intros pre' x' post' E' Px'. apply (HX (p0 :: pre') x' post'); [cbn; rewrite E'; reflexivity | exact Px']. }
    apply (IH suf HX' Hs pre x post); [assumption | exact Px].
Qed.
Lemma pr_suffix pre c : pr (pre ++ c) -> pr c.
Proof. intros H p x post E W. apply (H (pre ++ p) x post); [rewrite E, app_assoc; reflexivity | exact W]. Qed.
Lemma pr_snoc_rec X p h a : pr (X ++ [IRecover p h a]).
Proof.
  induction X as [|y X IH]; intros pre x post E Px.
  - destruct pre as [|p0 pre]; cbn in E; inversion E; subst; [discriminate Px | destruct pre; discriminate].
  - destruct pre as [|p0 pre]; cbn in E; inversion E; subst.
    + unfold has_rec. rewrite existsb_app. cbn. apply orb_true_r.
    + apply (IH pre x post); [assumption | exact Px].
Qed.
Lemma pr_call_handler P p h async obs : pr (call_handler P p h async obs).
Proof. unfold call_handler. rewrite !app_assoc. apply pr_snoc_rec. Qed.
Lemma pr_head x rest : pr (x :: rest) -> panicky x = true -> has_rec rest = true.
Proof. intros H W. apply (H [] x rest eq_refl W). Qed.
Lemma has_rec_unwind l : has_rec l = true -> unwind l <> None.
Proof.
  induction l as [|i l IH]; cbn; [discriminate|]. destruct i; cbn; try exact IH; discriminate.
Qed.

Lemma tidy_app P cfg a b : tidy P cfg a -> tidy P cfg b -> tidy P cfg (a ++ b).
Proof. intros Ha Hb i Hi. apply in_app_or in Hi. destruct Hi; auto. Qed.
Lemma tidy_cons P cfg i c : hookok P cfg i = true -> is_crashed i = false -> tidy P cfg c -> tidy P cfg (i :: c).
Proof. intros H1 H2 Hc x [<-|Hx]; auto. Qed.
Lemma tidy_nil P cfg : tidy P cfg []. Proof. intros i []. Qed.
Lemma tidy_entries P cfg p l : tidy P cfg (map (IEntry p) l).
Proof. intros i Hi. apply in_map_iff in Hi. destruct Hi as [a [<- _]]. split; reflexivity. Qed.
Lemma tidy_shards P cfg l : tidy P cfg (map IClearShard l).
Proof. intros i Hi. apply in_map_iff in Hi. destruct Hi as [a [<- _]]. split; reflexivity. Qed.
Lemma tidy_after_recover P cfg p h async panicked : tidy P cfg (after_recover cfg p h async panicked).
Proof.
  unfold after_recover. repeat apply tidy_app;
    [destruct (h_seq (r_spec h)) | destruct (panicked && c_panic_handler cfg) | destruct (c_obs cfg) | destruct async];
    try apply tidy_nil; intros i [<-|[]]; split; reflexivity.
Qed.
Lemma tidy_call_handler P cfg p h async obs : tidy P cfg (call_handler P p h async obs).
Proof.
  unfold call_handler. repeat apply tidy_app; try apply tidy_acts;
    [destruct obs | destruct (h_seq (r_spec h)) | | ]; try apply tidy_nil; intros i [<-|[]]; split; reflexivity.
Qed.
Lemma nopan_app a b : nopan a -> nopan b -> nopan (a ++ b).
Proof. intros Ha Hb i Hi. apply in_app_or in Hi. destruct Hi; auto. Qed.
Lemma nopan_cons i c : panicky i = false -> nopan c -> nopan (i :: c).
Proof. intros Hi Hc x [<-|Hx]; auto. Qed.
Lemma nopan_nil : nopan []. Proof. intros i []. Qed.
Lemma nopan_entries p l : nopan (map (IEntry p) l).
Proof. intros i Hi. apply in_map_iff in Hi. destruct Hi as [a [<- _]]. reflexivity. Qed.
Lemma nopan_shards l : nopan (map IClearShard l).
Proof. intros i Hi. apply in_map_iff in Hi. destruct Hi as [a [<- _]]. reflexivity. Qed.
Lemma nopan_after_recover cfg p h async panicked : nopan (after_recover cfg p h async panicked).
Proof.
  unfold after_recover. repeat apply nopan_app;
    [destruct (h_seq (r_spec h)) | destruct (panicked && c_panic_handler cfg) | destruct (c_obs cfg) | destruct async];
    try apply nopan_nil; intros i [<-|[]]; reflexivity.
Qed.
Lemma nopan_filter_acts P cfg f : Ppanic P cfg -> nopan (acts (match assoc_get (p_filters P) f with Some fl => f_acts fl | None => [] end)).
Proof.
  intros HP. destruct (assoc_get (p_filters P) f) as [fl|] eqn:E; [apply nopan_acts, (pp_fl P cfg HP f fl E) | apply nopan_nil].
Qed.

Ltac pn_tac HP :=
  repeat first
    [ apply nopan_nil
    | apply nopan_after_recover
    | apply (nopan_filter_acts _ _ _ HP)
    | apply nopan_entries
    | apply nopan_shards
    | apply nopan_cons; [reflexivity|]
    | apply nopan_app
    | match goal with |- nopan (if ?b then _ else _) => destruct b end
    | match goal with |- nopan (match ?b with _ => _ end) => destruct b end
    | (let i := fresh in let H := fresh in intros i H; destruct H as [<-|[]]; reflexivity)
    | (let i := fresh in let H := fresh in intros i H; destruct H) ].
Ltac td_tac :=
  repeat first
    [ apply tidy_nil
    | apply tidy_after_recover
    | apply tidy_call_handler
    | apply tidy_acts
    | apply tidy_entries
    | apply tidy_shards
    | apply tidy_cons; [reflexivity|reflexivity|]
    | apply tidy_app
    | match goal with |- tidy _ _ (if ?b then _ else _) => destruct b end
    | match goal with |- tidy _ _ (match ?b with _ => _ end) => destruct b end
    | (let i := fresh in let H := fresh in intros i H; destruct H as [<-|[]]; split; reflexivity)
    | (let i := fresh in let H := fresh in intros i H; destruct H) ].

Ltac fin_pan HP :=
  eexists; split;
  [first [apply code_cont | (cbn [cont set_code code]; rewrite ?upd_pub_code; apply assoc_get_set_same)]
  | left; eexists;
    match goal with rest : list instr |- _ =>
      exists rest, []; split; [sp_tac | split; [reflexivity | split; [apply nopan_pr; pn_tac HP | td_tac]]] end].

Lemma step_panic P cfg s a i rest s' ls :
  Ppanic P cfg -> hookok P cfg i = true -> pr (i :: rest) ->
  step_instr P cfg s a i rest = Some (s', ls) ->
  exists newc, assoc_get (code s') a = Some newc /\
   ((exists X suf drop, newc = X ++ suf /\ rest = drop ++ suf /\ pr X /\ tidy P cfg X) \/
    (panicky i = true /\ exists v, newc = IDo (APanic v) :: rest)).
Proof.
  intros HP Hk Hpr H. destruct i; cbn [step_instr] in H.
  all: try (break_head H; try discriminate; inversion H; subst; clear H; solve [fin_pan HP]).
  - (* IAct *)
    inversion H; subst; clear H.
    match goal with |- context[IDo ?act] => destruct act;
      try (eexists; split; [apply code_cont|]; left; eexists; exists rest, []; split; [apply (splits_cons _ _ _ _ (splits_nil rest))|];
           split; [reflexivity|]; split; [apply nopan_pr; intros x [<-|[]]; reflexivity | intros x [<-|[]]; split; reflexivity]) end.
    eexists. split; [apply code_cont|]. right. split; [reflexivity|]. eexists. reflexivity.
  - (* IDo *)
    destruct a0; cbn [step_instr] in H; break_head H; try discriminate; inversion H; subst; clear H;
      try solve [fin_pan HP].
    + (* APub *)
      eexists. split; [cbn [cont set_code code]; apply assoc_get_set_same|]. left. eexists. exists rest, []. split; [sp_tac|].
      split; [reflexivity|]. split.
      * apply nopan_pr. pn_tac HP.
      * apply tidy_app; [td_tac|]. apply tidy_app; [|apply tidy_app; [|td_tac]].
        -- destruct (c_before_legacy cfg) eqn:E; [|apply tidy_nil]. intros x [<-|[]]. cbn [hookok is_crashed]. rewrite E. split; reflexivity.
        -- destruct (c_before_ctx cfg) eqn:E; [apply tidy_nil|]. intros x [<-|[]]. cbn [hookok is_crashed]. rewrite <- E. split; [apply (pp_bc P cfg HP) | reflexivity].
    + (* APanic recovered *)
      match goal with U : unwind rest = Some (?p, ?h, ?async, ?r) |- _ =>
        apply unwind_spec in U; destruct U as [pre [E _]];
        eexists; split; [apply code_cont|]; left; eexists; eexists; exists (pre ++ [IRecover p h async]);
        split; [reflexivity|]; split; [rewrite E, <- app_assoc; reflexivity|];
        split; [apply nopan_pr, nopan_after_recover | apply tidy_after_recover] end.
    + (* APanic unrecovered: impossible, a recover frame follows *)
      exfalso. pose proof (pr_head _ _ Hpr eq_refl) as Hr. apply has_rec_unwind in Hr. congruence.
  - (* IBeforeLegacy *)
    inversion H; subst; clear H. cbn [hookok] in Hk. destruct (c_before_legacy cfg) as [b|] eqn:E; [|discriminate].
    eexists. split; [apply code_cont|]. left. eexists. exists rest, []. split; [sp_tac|]. split; [reflexivity|].
    split; [apply nopan_pr, nopan_app; [apply nopan_acts, (pp_bl P cfg HP b E) | apply nopan_nil] | apply tidy_app; [apply tidy_acts | apply tidy_nil]].
  - (* IBeforeCtx *)
    destruct steps as [|[b|] more]; inversion H; subst; clear H.
    + fin_pan HP.
    + cbn [hookok forallb] in Hk. apply andb_true_iff in Hk. destruct Hk as [Hb Hm].
      eexists. split; [apply code_cont|]. left. eexists. exists rest, []. split; [sp_tac|]. split; [reflexivity|].
      split; [apply nopan_pr, nopan_app; [apply nopan_acts, Hb | pn_tac HP] |].
      apply tidy_app; [apply tidy_acts|]. apply tidy_cons; [exact Hm | reflexivity | apply tidy_nil].
    + cbn [hookok forallb] in Hk.
      eexists. split; [apply code_cont|]. left. eexists. exists rest, []. split; [sp_tac|]. split; [reflexivity|].
      split; [apply nopan_pr; pn_tac HP |].
      apply tidy_cons; [reflexivity | reflexivity |]. apply tidy_cons; [exact Hk | reflexivity | apply tidy_nil].
  - (* ISnapshot *)
    inversion H; subst; clear H.
    eexists. split; [first [apply code_cont | (cbn [cont set_code code]; rewrite ?upd_pub_code; apply assoc_get_set_same)]|].
    left. eexists. exists rest, []. split; [sp_tac|]. split; [reflexivity|]. split; [apply nopan_pr; pn_tac HP|].
    apply tidy_app; [apply tidy_entries|]. apply tidy_cons; [reflexivity|reflexivity|]. apply tidy_app; [|apply tidy_app; [|td_tac]].
    + destruct (c_after_legacy cfg) eqn:E; [|apply tidy_nil]. intros x [<-|[]]. cbn [hookok is_crashed]. rewrite E. split; reflexivity.
    + destruct (c_after_ctx cfg) eqn:E; [|apply tidy_nil]. intros x [<-|[]]. cbn [hookok is_crashed]. rewrite E. split; reflexivity.
  - (* IDispatch *)
    break_head H; try discriminate; inversion H; subst; clear H; try solve [fin_pan HP].
    eexists. split; [apply code_cont|]. left. eexists. exists rest, []. split; [sp_tac|]. split; [reflexivity|].
    split; [rewrite app_nil_r; apply pr_call_handler | apply tidy_app; [apply tidy_call_handler | apply tidy_nil]].
  - (* IPanicHandler: its body runs here *)
    inversion H; subst; clear H.
    eexists. split; [apply code_cont|]. left. eexists. exists rest, []. split; [sp_tac|]. split; [reflexivity|].
    split; [apply nopan_pr, nopan_app; [apply nopan_acts; unfold panic_acts; destruct (Nat.ltb _ _); [apply (pp_ph P cfg HP) | reflexivity] | apply nopan_nil]
           | apply tidy_app; [apply tidy_acts | apply tidy_nil]].
  - (* ITaskStart *)
    break_head H; try discriminate; inversion H; subst; clear H; try solve [fin_pan HP].
    eexists. split; [apply code_cont|]. left. eexists. exists rest, []. split; [sp_tac|]. split; [reflexivity|].
    split; [rewrite app_nil_r; apply pr_call_handler | apply tidy_app; [apply tidy_call_handler | apply tidy_nil]].
  - (* IAfterLegacy *)
    inversion H; subst; clear H. cbn [hookok] in Hk. destruct (c_after_legacy cfg) as [b|] eqn:E; [|discriminate].
    eexists. split; [apply code_cont|]. left. eexists. exists rest, []. split; [sp_tac|]. split; [reflexivity|].
    split; [apply nopan_pr, nopan_app; [apply nopan_acts, (pp_al P cfg HP b E) | apply nopan_nil] | apply tidy_app; [apply tidy_acts | apply tidy_nil]].
  - (* IAfterCtx *)
    inversion H; subst; clear H. cbn [hookok] in Hk. destruct (c_after_ctx cfg) as [b|] eqn:E; [|discriminate].
    eexists. split; [apply code_cont|]. left. eexists. exists rest, []. split; [sp_tac|]. split; [reflexivity|].
    split; [apply nopan_pr, nopan_app; [apply nopan_acts, (pp_ac P cfg HP b E) | apply nopan_nil] | apply tidy_app; [apply tidy_acts | apply tidy_nil]].
Qed.

Definition pinv (P : program) (cfg : buscfg) (s : bstate) : Prop :=
  forall a c, assoc_get (code s) a = Some c -> pr c /\ tidy P cfg c.

Lemma pinv_step P cfg s b s' ls : Ppanic P cfg -> winv s -> pinv P cfg s -> mstep P cfg s b = Some (s', ls) -> pinv P cfg s'.
Proof.
  intros HP WI PI H. unfold mstep in H.
  destruct (assoc_get (code s) b) as [[|i rest]|] eqn:Hb; try discriminate.
  destruct (PI b _ Hb) as [Hpr Htd].
  assert (Hnb : b <> next_actor s) by (destruct (wi_bound s WI b _ Hb); lia).
  destruct (step_panic P cfg s b i rest s' ls HP (proj1 (Htd i (or_introl eq_refl))) Hpr H) as [newc [Hnew Hcase]].
  pose proof (step_frame2 P cfg s b i rest s' ls H Hnb) as F.
  assert (Hrest : pr rest /\ tidy P cfg rest).
  { split; [apply (pr_suffix [i]); exact Hpr | intros x Hx; apply Htd; right; exact Hx]. }
  intros a c Ha. destruct (Nat.eq_dec a b) as [->|N].
  - rewrite Hnew in Ha. inversion Ha; subst c.
    destruct Hcase as [[X [suf [drop [-> [E [HX TX]]]]]] | [Pi [v ->]]].
    + assert (Hsuf : pr suf /\ tidy P cfg suf).
      { destruct Hrest as [R1 R2]. rewrite E in R1, R2. split; [apply (pr_suffix drop); exact R1 | intros x Hx; apply R2; apply in_or_app; right; exact Hx]. }
      split; [apply pr_app; [exact HX | apply Hsuf] | apply tidy_app; [exact TX | apply Hsuf]].
    + split.
      * intros pre x post Ec Px. destruct pre as [|p0 pre]; cbn in Ec; inversion Ec; subst.
        -- apply (pr_head _ _ Hpr Pi).
        -- apply (proj1 Hrest pre x post); [reflexivity | exact Px].
      * apply tidy_cons; [reflexivity | reflexivity | apply Hrest].
  - destruct (F a N) as [E | [-> [[p [h E]] | [cx [_ E]]]]].
    + rewrite E in Ha. apply (PI a c Ha).
    + rewrite E in Ha. inversion Ha. split; [apply nopan_pr; intros x [<-|[]]; reflexivity | intros x [<-|[]]; split; reflexivity].
    + rewrite E in Ha. inversion Ha. split; [apply nopan_pr; intros x [<-|[]]; reflexivity | intros x [<-|[]]; split; reflexivity].
Qed.

Lemma pinv_init P cfg threads : (forall l, In l threads -> nopanicb l = true) -> pinv P cfg (init_state threads).
Proof.
  intros Hth a c H.
  assert (Hi: In (a, c) (combine (seq 0 (length threads)) (map acts threads))).
  { unfold init_state in H. cbn [code] in H.
    induction (combine (seq 0 (length threads)) (map acts threads)) as [|[k v] r IH]; [discriminate|].
    cbn in H. destruct (Nat.eqb k a) eqn:E; [apply Nat.eqb_eq in E; inversion H; subst; left; reflexivity|right; apply IH, H]. }
  apply in_combine_r in Hi. apply in_map_iff in Hi. destruct Hi as [l [<- Hl]].
  split; [apply nopan_pr, nopan_acts, Hth, Hl | apply tidy_acts].
Qed.

Lemma pinv_run P cfg : Ppanic P cfg -> forall sched s, winv s -> pinv P cfg s -> pinv P cfg (fst (run P cfg s sched)).
Proof.
  intros HP. induction sched as [|a r IH]; intros s I S; cbn [run]; [exact S|].
  destruct (mstep P cfg s a) as [[s' ls]|] eqn:E.
  - specialize (IH s' (winv_step P cfg s a s' ls I E) (pinv_step P cfg s a s' ls HP I S E)). destruct (run P cfg s' r). exact IH.
  - apply IH; assumption.
Qed.

(* over every schedule: when the only user code that panics is handler bodies, no goroutine ever crashes - every panic
   is caught by the recover frame of the handler invocation it happened in *)
Theorem handler_panics_never_crash P cfg threads sched :
  Ppanic P cfg -> (forall l, In l threads -> nopanicb l = true) ->
  forall a c, assoc_get (code (fst (run P cfg (init_state threads) sched))) a = Some c -> ~ In ICrashed c.
Proof.
  intros HP Hth a c Ha Hin.
  destruct (pinv_run P cfg HP sched _ (winv_init threads) (pinv_init P cfg threads Hth) a c Ha) as [_ Td].
  destruct (Td ICrashed Hin) as [_ X]. discriminate X.
Qed.

(* ================================================================== *)
(* C08: cancellation is permanent and a publish keeps its context - so "already cancelled when PublishContext was called"
   implies "cancelled" at each later per-handler check of that publish (entry_decisions, task_start_decision) *)
Lemma upd_pub_cancelled s p f : cancelled (upd_pub s p f) = cancelled s.
Proof. unfold upd_pub. destruct (assoc_get (pubs s) p); reflexivity. Qed.

Lemma cancelled_step P cfg s a i rest s' ls :
  step_instr P cfg s a i rest = Some (s', ls) ->
  match i with
  | IDo (ACancel c) => cancelled s' = c :: cancelled s
  | _ => cancelled s' = cancelled s
  end.
Proof.
  intros H. destruct i; cbn [step_instr] in H.
  all: try (break_head H; try discriminate; inversion H; subst; clear H;
            solve [cbn [cont set_code set_registry cancelled]; rewrite ?upd_pub_cancelled; reflexivity]).
Qed.

Theorem cancellation_is_permanent P cfg s a s' ls c :
  mstep P cfg s a = Some (s', ls) -> is_cancelled s c = true -> is_cancelled s' c = true.
Proof.
  unfold mstep. destruct (assoc_get (code s) a) as [[|i rest]|]; try discriminate. intros H Hc.
  pose proof (cancelled_step P cfg s a i rest s' ls H) as E.
  destruct c as [|k]; [discriminate Hc|]. cbn [is_cancelled] in *.
  destruct i; try (rewrite E; exact Hc). destruct a0; try (rewrite E; exact Hc).
  rewrite E. apply memb_cons. exact Hc.
Qed.

Theorem cancellation_is_permanent_run P cfg c : forall sched s,
  is_cancelled s c = true -> is_cancelled (fst (run P cfg s sched)) c = true.
Proof.
  induction sched as [|a r IH]; intros s Hc; cbn [run]; [exact Hc|].
  destruct (mstep P cfg s a) as [[s' ls]|] eqn:E.
  - specialize (IH s' (cancellation_is_permanent P cfg s a s' ls c E Hc)). destruct (run P cfg s' r). exact IH.
  - apply IH. exact Hc.
Qed.


(* ================================================================== *)
(* C08, run level: a publish whose context is already cancelled when PublishContext is called enters no handler at all,
   whatever the schedule does afterwards.  [badp p] marks the instructions that would lead into a handler body for
   publish p: a started call, or a pending dispatch / delivery start of a Once handler (the one case in which a
   delivery runs although the context is cancelled: it was claimed while the context was live - impossible here). *)
Definition badp (p : nat) (i : instr) : bool :=
  match i with
  | IHandlerStart p' _ _ | IEnter p' _ | IRecover p' _ _ => Nat.eqb p' p
  | IDispatch p' h | ITaskStart p' h => Nat.eqb p' p && h_once (r_spec h)
  | _ => false
  end.
Definition nobad (p : nat) (c : list instr) : Prop := forall i, In i c -> badp p i = false.
Lemma nobad_app p a b : nobad p a -> nobad p b -> nobad p (a ++ b).
Proof. intros Ha Hb i Hi. apply in_app_or in Hi. destruct Hi; auto. Qed.
Lemma nobad_cons p i c : badp p i = false -> nobad p c -> nobad p (i :: c).
Proof. intros Hi Hc x [<-|Hx]; auto. Qed.
Lemma nobad_nil p : nobad p []. Proof. intros i []. Qed.
Lemma nobad_tail p i c : nobad p (i :: c) -> nobad p c.
Proof. intros H x Hx. apply H. right. exact Hx. Qed.
Lemma nobad_acts p l : nobad p (acts l).
Proof. intros i Hi. unfold acts in Hi. apply in_map_iff in Hi. destruct Hi as [a [<- _]]. reflexivity. Qed.
Lemma nobad_entries p p0 l : nobad p (map (IEntry p0) l).
Proof. intros i Hi. apply in_map_iff in Hi. destruct Hi as [a [<- _]]. reflexivity. Qed.
Lemma nobad_shards p l : nobad p (map IClearShard l).
Proof. intros i Hi. apply in_map_iff in Hi. destruct Hi as [a [<- _]]. reflexivity. Qed.
Lemma nobad_after_recover p cfg p0 h async panicked : nobad p (after_recover cfg p0 h async panicked).
Proof.
  unfold after_recover. repeat apply nobad_app;
    [destruct (h_seq (r_spec h)) | destruct (panicked && c_panic_handler cfg) | destruct (c_obs cfg) | destruct async];
    try apply nobad_nil; intros i [<-|[]]; reflexivity.
Qed.
Lemma nobad_call_handler p P p0 h async obs : p0 <> p -> nobad p (call_handler P p0 h async obs).
Proof.
  intros Hne. apply Nat.eqb_neq in Hne. unfold call_handler. repeat apply nobad_app; try apply nobad_acts;
    [destruct obs | destruct (h_seq (r_spec h)) | | ]; try apply nobad_nil; intros i [<-|[]]; cbn [badp]; try reflexivity; exact Hne.
Qed.
Lemma nobad_unwind p l p0 h async r : unwind l = Some (p0, h, async, r) -> nobad p l -> nobad p r.
Proof.
  intros U Hl. apply unwind_spec in U. destruct U as [pre [-> _]]. intros i Hi. apply Hl.
  apply in_or_app. right. right. exact Hi.
Qed.

Ltac nb_tac Nr :=
  repeat first
    [ exact Nr
    | apply nobad_nil
    | apply nobad_after_recover
    | apply nobad_acts
    | apply nobad_entries
    | apply nobad_shards
    | apply nobad_cons; [reflexivity|]
    | apply nobad_app
    | match goal with |- nobad _ (if ?b then _ else _) => destruct b end
    | match goal with |- nobad _ (match ?b with _ => _ end) => destruct b end
    | (let i := fresh in let H := fresh in intros i H; destruct H as [<-|[]]; reflexivity)
    | (let i := fresh in let H := fresh in intros i H; destruct H) ].

Lemma upd_pub_next_pid s p f : next_pid (upd_pub s p f) = next_pid s.
Proof. unfold upd_pub. destruct (assoc_get (pubs s) p); reflexivity. Qed.
Lemma get_pub_cont s a c q : get_pub (cont s a c) q = get_pub s q.
Proof. reflexivity. Qed.
Lemma upd_pub_ctx s p f q : (forall r, pb_ctx (f r) = pb_ctx r) -> pb_ctx (get_pub (upd_pub s p f) q) = pb_ctx (get_pub s q).
Proof.
  intros Hf. unfold upd_pub, get_pub. destruct (assoc_get (pubs s) p) as [r|] eqn:E; [|reflexivity]. cbn [pubs].
  destruct (Nat.eq_dec p q) as [->|N]; [rewrite assoc_get_set_same, E; apply Hf | rewrite assoc_get_set_other by exact N; reflexivity].
Qed.

Ltac fin_ctx :=
  split; [rewrite ?get_pub_cont; rewrite ?upd_pub_ctx by (intros; reflexivity); unfold get_pub; cbn [cont set_code set_registry pubs]; reflexivity
         | cbn [cont set_code set_registry next_pid]; rewrite ?upd_pub_next_pid; cbn [next_pid]; lia].

(* the state part: the publish exists, its context stays the one it was made with *)
Lemma step_pub_ctx P cfg s a i rest s' ls p :
  step_instr P cfg s a i rest = Some (s', ls) -> p < next_pid s ->
  pb_ctx (get_pub s' p) = pb_ctx (get_pub s p) /\ p < next_pid s'.
Proof.
  intros H Hp. destruct i; cbn [step_instr] in H.
  all: try (break_head H; try discriminate; inversion H; subst; clear H; solve [fin_ctx]).
  (* IDo *)
  destruct a0; cbn [step_instr] in H; break_head H; try discriminate; inversion H; subst; clear H; try solve [fin_ctx].
  (* APub: a new publish, not p *)
  split; [|cbn [cont set_code next_pid]; lia]. unfold get_pub. cbn [cont set_code pubs].
  rewrite assoc_get_set_other by lia. reflexivity.
Qed.

(* one step keeps the code of everybody free of entries for p, given that p's context is cancelled *)
Ltac fin_nobad tac :=
  split; [eexists; split;
          [first [apply code_cont | (cbn [cont set_code code]; rewrite ?upd_pub_code; apply assoc_get_set_same)]
          | tac]|];
  split; [let h0 := fresh "h0" in let Hin := fresh "Hin" in
          intros h0 Hin; cbn [cont set_code set_registry entered] in Hin; rewrite ?upd_pub_entered in Hin; exact Hin|];
  let b := fresh "b" in let c0 := fresh "c0" in let Nba := fresh "Nba" in let Hb := fresh "Hb" in
  intros b c0 Nba Hb; left; cbn [cont set_code code] in Hb; rewrite ?upd_pub_code in Hb; cbn [code] in Hb;
  rewrite assoc_get_set_other in Hb by congruence; exact Hb.

Lemma step_nobad p P cfg s a i rest s' ls :
  is_cancelled s (pb_ctx (get_pub s p)) = true -> p < next_pid s ->
  nobad p (i :: rest) -> step_instr P cfg s a i rest = Some (s', ls) ->
  (exists newc, assoc_get (code s') a = Some newc /\ nobad p newc) /\
  (forall h, In (p, h) (entered s') -> In (p, h) (entered s)) /\
  (forall b c, b <> a -> assoc_get (code s') b = Some c -> assoc_get (code s) b = Some c \/ nobad p c).
Proof.
  intros Hc Hp Nb H. pose proof (nobad_tail _ _ _ Nb) as Nr. pose proof (Nb i (or_introl eq_refl)) as Ni.
  assert (Hcall : forall p0 h async obs, is_cancelled s (pb_ctx (get_pub s p0)) = false -> nobad p (call_handler P p0 h async obs)).
  { intros p0 h async obs Hf. apply nobad_call_handler. intros ->. congruence. }
  destruct i; cbn [step_instr] in H.
  all: try (break_head H; try discriminate; inversion H; subst; clear H; solve [fin_nobad ltac:(nb_tac Nr)]).
  - (* IDo *)
    destruct a0; cbn [step_instr] in H; break_head H; try discriminate; inversion H; subst; clear H;
      try solve [fin_nobad ltac:(nb_tac Nr)].
    + (* AShutdown: the waiter goroutine *)
      split; [eexists; split; [apply code_cont | nb_tac Nr]|]. split; [intros h0 Hin; exact Hin|].
      intros b c0 Nba Hb. cbn [cont set_code code] in Hb. rewrite assoc_get_set_other in Hb by congruence.
      destruct (Nat.eq_dec (next_actor s) b) as [<-|N].
      * rewrite assoc_get_set_same in Hb. inversion Hb; subst. right. intros x [<-|[]]. reflexivity.
      * rewrite assoc_get_set_other in Hb by exact N. left. exact Hb.
    + (* APanic recovered *)
      match goal with U : unwind rest = Some (?p0, ?h, ?async, ?r) |- _ => pose proof (nobad_unwind p rest p0 h async r U Nr) as Nr2 end.
      fin_nobad ltac:(apply nobad_app; [apply nobad_after_recover | exact Nr2]).
  - (* IClaim: a Once handler is claimed only while the context is live *)
    break_head H; try discriminate; inversion H; subst; clear H; try solve [fin_nobad ltac:(nb_tac Nr)].
    + fin_nobad ltac:(apply nobad_cons; [cbn [badp]; destruct (Nat.eqb p0 p) eqn:E; [apply Nat.eqb_eq in E; subst; congruence | reflexivity] | exact Nr]).
    + fin_nobad ltac:(apply nobad_cons; [cbn [badp]; match goal with E : h_once _ = false |- _ => rewrite E end; apply andb_false_r | exact Nr]).
  - (* IDispatch *)
    break_head H; try discriminate; inversion H; subst; clear H; try solve [fin_nobad ltac:(nb_tac Nr)].
    + (* async: the new goroutine starts a delivery of the same handler *)
      split; [eexists; split; [apply code_cont | exact Nr]|]. split; [intros h0 Hin; exact Hin|].
      intros b c0 Nba Hb. cbn [cont set_code code] in Hb. rewrite assoc_get_set_other in Hb by congruence.
      destruct (Nat.eq_dec (next_actor s) b) as [<-|N].
      * rewrite assoc_get_set_same in Hb. inversion Hb; subst. right. intros x [<-|[]]. exact Ni.
      * rewrite assoc_get_set_other in Hb by exact N. left. exact Hb.
    + (* sync, context live: not publish p *)
      fin_nobad ltac:(apply nobad_app; [apply Hcall; assumption | exact Nr]).
  - (* IEnter: not for p *)
    inversion H; subst; clear H. cbn [badp] in Ni.
    split; [eexists; split; [apply code_cont | exact Nr]|]. split.
    + intros h0 Hin. cbn [cont set_code entered] in Hin. apply in_app_or in Hin. destruct Hin as [Hin|[E|[]]]; [exact Hin|].
      inversion E; subst. rewrite Nat.eqb_refl in Ni. discriminate.
    + intros b c0 Nba Hb. left. cbn [cont set_code code] in Hb. rewrite assoc_get_set_other in Hb by congruence. exact Hb.
  - (* ITaskStart: runs the handler only if the context is live or the handler is a Once handler - neither for p *)
    break_head H; try discriminate; inversion H; subst; clear H; try solve [fin_nobad ltac:(nb_tac Nr)].
    fin_nobad ltac:(apply nobad_app; [apply nobad_call_handler; intros ->; cbn [badp] in Ni; rewrite Nat.eqb_refl in Ni; cbn [andb] in Ni;
                                      match goal with E : _ && negb _ = false |- _ => rewrite Hc, Ni in E; discriminate E end | exact Nr]).
Qed.



(* every publish mentioned anywhere in the code, or in the entry log, has already been made *)
Definition pid_of (i : instr) : option nat :=
  match i with
  | IPubStart p | IBeforeLegacy p | IBeforeCtx p _ | IPersistMarshal p | IPersistObsStart p | IPersistLock p
  | IPersistAppend p | IPersistAppendDone p | IPersistObsDone p _ | IPersistErr p | ISnapshot p | IEntry p _
  | IFilterDone p _ | IClaim p _ | IDispatch p _ | IHandlerStart p _ _ | IEnter p _ | IRecover p _ _
  | IPanicHandler p _ | IHandlerDone p _ _ | ITaskStart p _ | IRemoveOnce p | IAfterLegacy p | IAfterCtx p
  | IPubDone p => Some p
  | _ => None
  end.
Definition pid_ok (n : nat) (i : instr) : bool := match pid_of i with Some q => Nat.ltb q n | None => true end.
Definition plt (n : nat) (c : list instr) : Prop := forall i, In i c -> pid_ok n i = true.
Lemma plt_app n a b : plt n a -> plt n b -> plt n (a ++ b).
Proof. intros Ha Hb i Hi. apply in_app_or in Hi. destruct Hi; auto. Qed.
Lemma plt_cons n i c : pid_ok n i = true -> plt n c -> plt n (i :: c).
Proof. intros Hi Hc x [<-|Hx]; auto. Qed.
Lemma plt_nil n : plt n []. Proof. intros i []. Qed.
Lemma plt_tail n i c : plt n (i :: c) -> plt n c.
Proof. intros H x Hx. apply H. right. exact Hx. Qed.
Lemma plt_weaken n m c : n <= m -> plt n c -> plt m c.
Proof.
  intros Hle H i Hi. specialize (H i Hi). unfold pid_ok in *. destruct (pid_of i); [|reflexivity].
  apply Nat.ltb_lt in H. apply Nat.ltb_lt. lia.
Qed.
Lemma plt_acts n l : plt n (acts l).
Proof. intros i Hi. unfold acts in Hi. apply in_map_iff in Hi. destruct Hi as [a [<- _]]. reflexivity. Qed.
Lemma plt_entries n p l : p < n -> plt n (map (IEntry p) l).
Proof. intros Hp i Hi. apply in_map_iff in Hi. destruct Hi as [a [<- _]]. unfold pid_ok. cbn. apply Nat.ltb_lt. exact Hp. Qed.
Lemma plt_shards n l : plt n (map IClearShard l).
Proof. intros i Hi. apply in_map_iff in Hi. destruct Hi as [a [<- _]]. reflexivity. Qed.
Lemma plt_after_recover n cfg p h async panicked : p < n -> plt n (after_recover cfg p h async panicked).
Proof.
  intros Hp. apply Nat.ltb_lt in Hp. unfold after_recover. repeat apply plt_app;
    [destruct (h_seq (r_spec h)) | destruct (panicked && c_panic_handler cfg) | destruct (c_obs cfg) | destruct async];
    try apply plt_nil; intros i [<-|[]]; unfold pid_ok; cbn; try reflexivity; exact Hp.
Qed.
Lemma plt_call_handler n P p h async obs : p < n -> plt n (call_handler P p h async obs).
Proof.
  intros Hp. apply Nat.ltb_lt in Hp. unfold call_handler. repeat apply plt_app; try apply plt_acts;
    [destruct obs | destruct (h_seq (r_spec h)) | | ]; try apply plt_nil; intros i [<-|[]]; unfold pid_ok; cbn; try reflexivity; exact Hp.
Qed.
Lemma plt_unwind n l p h async r : unwind l = Some (p, h, async, r) -> plt n l -> plt n r /\ p < n.
Proof.
  intros U Hl. apply unwind_spec in U. destruct U as [pre [-> _]]. split.
  - intros i Hi. apply Hl. apply in_or_app. right. right. exact Hi.
  - specialize (Hl (IRecover p h async)). unfold pid_ok in Hl. cbn in Hl. apply Nat.ltb_lt. apply Hl.
    apply in_or_app. right. left. reflexivity.
Qed.
Lemma plt_head n i c p : plt n (i :: c) -> pid_of i = Some p -> p < n.
Proof. intros H E. specialize (H i (or_introl eq_refl)). unfold pid_ok in H. rewrite E in H. apply Nat.ltb_lt. exact H. Qed.

Ltac pl_tac Nr Hp :=
  repeat first
    [ exact Nr
    | apply plt_nil
    | (apply plt_after_recover; exact Hp)
    | (apply plt_call_handler; exact Hp)
    | apply plt_acts
    | (apply plt_entries; exact Hp)
    | apply plt_shards
    | apply plt_cons; [unfold pid_ok; cbn [pid_of]; first [reflexivity | (apply Nat.ltb_lt; exact Hp)]|]
    | apply plt_app
    | match goal with |- plt _ (if ?b then _ else _) => destruct b end
    | match goal with |- plt _ (match ?b with _ => _ end) => destruct b end
    | (let i := fresh in let H := fresh in intros i H; destruct H as [<-|[]]; unfold pid_ok; cbn [pid_of]; first [reflexivity | (apply Nat.ltb_lt; exact Hp)])
    | (let i := fresh in let H := fresh in intros i H; destruct H) ].

Definition pidinv (s : bstate) : Prop :=
  (forall a c, assoc_get (code s) a = Some c -> plt (next_pid s) c) /\
  (forall p h, In (p, h) (entered s) -> p < next_pid s).

Ltac fin_plt tac :=
  split; [cbn [cont set_code set_registry next_pid]; rewrite ?upd_pub_next_pid; cbn [next_pid]; lia|];
  split; [eexists; split;
          [first [apply code_cont | (cbn [cont set_code code]; rewrite ?upd_pub_code; apply assoc_get_set_same)]
          | cbn [cont set_code set_registry next_pid]; rewrite ?upd_pub_next_pid; cbn [next_pid]; tac]|];
  split; [let p1 := fresh "p1" in let h1 := fresh "h1" in let Hin := fresh "Hin" in
          intros p1 h1 Hin; left; cbn [cont set_code set_registry entered] in Hin; rewrite ?upd_pub_entered in Hin; exact Hin|];
  let b := fresh "b" in let c0 := fresh "c0" in let Nba := fresh "Nba" in let Hb := fresh "Hb" in
  intros b c0 Nba Hb; left; cbn [cont set_code code] in Hb; rewrite ?upd_pub_code in Hb; cbn [code] in Hb;
  rewrite assoc_get_set_other in Hb by congruence; exact Hb.

Lemma step_plt P cfg s a i rest s' ls :
  plt (next_pid s) (i :: rest) -> step_instr P cfg s a i rest = Some (s', ls) ->
  next_pid s <= next_pid s' /\
  (exists newc, assoc_get (code s') a = Some newc /\ plt (next_pid s') newc) /\
  (forall p h, In (p, h) (entered s') -> In (p, h) (entered s) \/ p < next_pid s) /\
  (forall b c, b <> a -> assoc_get (code s') b = Some c -> assoc_get (code s) b = Some c \/ plt (next_pid s') c).
Proof.
  intros Nb H. pose proof (plt_tail _ _ _ Nb) as Nr.
  assert (Hq : forall q, pid_of i = Some q -> q < next_pid s) by (intros q E; exact (plt_head _ _ _ _ Nb E)).
  destruct i; cbn [step_instr] in H.
  all: try (first [pose proof (Hq _ eq_refl) as Hp | pose proof I as Hp];
            break_head H; try discriminate; inversion H; subst; clear H; solve [fin_plt ltac:(pl_tac Nr Hp)]).
  - (* IDo *)
    pose proof I as Hp.
    destruct a0; cbn [step_instr] in H; break_head H; try discriminate; inversion H; subst; clear H;
      try solve [fin_plt ltac:(pl_tac Nr Hp)].
    + (* APub: the new publish *)
      assert (Hp0 : next_pid s < S (next_pid s)) by lia.
      pose proof (plt_weaken _ (S (next_pid s)) _ (Nat.le_succ_diag_r _) Nr) as Nr'.
      split; [cbn [cont set_code next_pid]; lia|].
      split; [eexists; split; [cbn [cont set_code code]; apply assoc_get_set_same | cbn [cont set_code next_pid]; pl_tac Nr' Hp0]|].
      split; [intros p1 h1 Hin; left; exact Hin|].
      intros b c0 Nba Hb. left. cbn [cont set_code code] in Hb. rewrite assoc_get_set_other in Hb by congruence. exact Hb.
    + (* AShutdown: the waiter goroutine *)
      split; [cbn [cont set_code next_pid]; lia|].
      split; [eexists; split; [apply code_cont | cbn [cont set_code next_pid]; pl_tac Nr Hp]|]. split; [intros p1 h1 Hin; left; exact Hin|].
      intros b c0 Nba Hb. cbn [cont set_code code] in Hb. rewrite assoc_get_set_other in Hb by congruence.
      destruct (Nat.eq_dec (next_actor s) b) as [<-|N].
      * rewrite assoc_get_set_same in Hb. inversion Hb; subst. right. intros x [<-|[]]. reflexivity.
      * rewrite assoc_get_set_other in Hb by exact N. left. exact Hb.
    + (* APanic recovered *)
      match goal with U : unwind rest = Some (?p0, ?h, ?async, ?r) |- _ => destruct (plt_unwind _ rest p0 h async r U Nr) as [Nr2 Hp0] end.
      fin_plt ltac:(apply plt_app; [apply plt_after_recover; exact Hp0 | exact Nr2]).
  - (* IDispatch *)
    pose proof (Hq _ eq_refl) as Hp.
    break_head H; try discriminate; inversion H; subst; clear H; try solve [fin_plt ltac:(pl_tac Nr Hp)].
    split; [cbn [cont set_code next_pid]; lia|].
    split; [eexists; split; [apply code_cont | cbn [cont set_code next_pid]; exact Nr]|]. split; [intros p1 h1 Hin; left; exact Hin|].
    intros b c0 Nba Hb. cbn [cont set_code code] in Hb. rewrite assoc_get_set_other in Hb by congruence.
    destruct (Nat.eq_dec (next_actor s) b) as [<-|N].
    + rewrite assoc_get_set_same in Hb. inversion Hb; subst. right. cbn [cont set_code next_pid].
      intros x [<-|[]]. unfold pid_ok. cbn [pid_of]. apply Nat.ltb_lt. exact Hp.
    + rewrite assoc_get_set_other in Hb by exact N. left. exact Hb.
  - (* IEnter *)
    pose proof (Hq _ eq_refl) as Hp. inversion H; subst; clear H.
    split; [cbn [cont set_code next_pid]; lia|].
    split; [eexists; split; [apply code_cont | cbn [cont set_code next_pid]; exact Nr]|]. split.
    + intros p1 h1 Hin. cbn [cont set_code entered] in Hin. apply in_app_or in Hin. destruct Hin as [Hin|[E|[]]]; [left; exact Hin|].
      inversion E; subst. right. exact Hp.
    + intros b c0 Nba Hb. left. cbn [cont set_code code] in Hb. rewrite assoc_get_set_other in Hb by congruence. exact Hb.
Qed.

Lemma pidinv_step P cfg s a s' ls : pidinv s -> mstep P cfg s a = Some (s', ls) -> pidinv s'.
Proof.
  intros [Hc He] H. unfold mstep in H.
  destruct (assoc_get (code s) a) as [[|i rest]|] eqn:Ha; try discriminate.
  destruct (step_plt P cfg s a i rest s' ls (Hc a _ Ha) H) as (Hle & [newc [Hn Nn]] & Hent & Hoth).
  split.
  - intros b c Hb. destruct (Nat.eq_dec b a) as [->|Nb].
    + rewrite Hn in Hb. inversion Hb; subst. exact Nn.
    + destruct (Hoth b c Nb Hb) as [Hold|Hnew]; [eapply plt_weaken; [exact Hle | exact (Hc b c Hold)] | exact Hnew].
  - intros p h Hin. destruct (Hent p h Hin) as [Hold|Hlt]; [specialize (He p h Hold); lia | lia].
Qed.

Lemma pidinv_init threads : pidinv (init_state threads).
Proof.
  split; [|intros p h []]. intros b c Hb. cbn [init_state code next_pid] in *.
  assert (Hall : forall n (l : list (list action)) c, assoc_get (combine (seq n (length l)) (map acts l)) b = Some c -> plt 0 c).
  { intros n l. revert n. induction l as [|y l IH]; intros n c0 Hc; [discriminate|].
    cbn [length seq map combine assoc_get] in Hc. destruct (Nat.eqb n b); [inversion Hc; apply plt_acts | apply (IH (S n) c0 Hc)]. }
  apply (Hall 0 threads c Hb).
Qed.

Lemma pidinv_run P cfg : forall sched s, pidinv s -> pidinv (fst (run P cfg s sched)).
Proof.
  induction sched as [|a r IH]; intros s I; cbn [run]; [exact I|].
  destruct (mstep P cfg s a) as [[s' ls]|] eqn:E.
  - specialize (IH s' (pidinv_step P cfg s a s' ls I E)). destruct (run P cfg s' r). exact IH.
  - apply IH; assumption.
Qed.

(* nothing in the code, and nothing in the entry log, mentions a publish that has not been made yet *)
Lemma plt_nobad p n c : n <= p -> plt n c -> nobad p c.
Proof.
  intros Hle H i Hi. specialize (H i Hi). unfold pid_ok in H.
  destruct i; cbn [badp pid_of] in *; try reflexivity; apply Nat.ltb_lt in H;
    try (apply Nat.eqb_neq; lia);
    (destruct (Nat.eqb p0 p) eqn:E; [apply Nat.eqb_eq in E; lia | reflexivity]).
Qed.

Definition preinv (p : nat) (s : bstate) : Prop :=
  is_cancelled s (pb_ctx (get_pub s p)) = true /\ p < next_pid s /\
  (forall a c, assoc_get (code s) a = Some c -> nobad p c) /\
  (forall h, ~ In (p, h) (entered s)).

Lemma preinv_step P cfg p s a s' ls : preinv p s -> mstep P cfg s a = Some (s', ls) -> preinv p s'.
Proof.
  intros (Hc & Hp & Hcode & Hent) H. pose proof H as Hm. unfold mstep in H.
  destruct (assoc_get (code s) a) as [[|i rest]|] eqn:Ha; try discriminate.
  destruct (step_pub_ctx P cfg s a i rest s' ls p H Hp) as [Ectx Hp'].
  destruct (step_nobad p P cfg s a i rest s' ls Hc Hp (Hcode a _ Ha) H) as ([newc [Hn Nn]] & He & Hoth).
  split; [rewrite Ectx; apply (cancellation_is_permanent P cfg s a s' ls _ Hm Hc)|]. split; [exact Hp'|]. split.
  - intros b c Hb. destruct (Nat.eq_dec b a) as [->|Nb].
    + rewrite Hn in Hb. inversion Hb; subst. exact Nn.
    + destruct (Hoth b c Nb Hb) as [Hold|Hnew]; [exact (Hcode b c Hold) | exact Hnew].
  - intros h Hin. apply (Hent h). apply He. exact Hin.
Qed.

Lemma preinv_run P cfg p : forall sched s, preinv p s -> preinv p (fst (run P cfg s sched)).
Proof.
  induction sched as [|a r IH]; intros s I; cbn [run]; [exact I|].
  destruct (mstep P cfg s a) as [[s' ls]|] eqn:E.
  - specialize (IH s' (preinv_step P cfg p s a s' ls I E)). destruct (run P cfg s' r). exact IH.
  - apply IH; assumption.
Qed.

(* C08, over every schedule: a publish made with a context that is already cancelled enters no handler, ever.
   s is any reachable state in which goroutine a is about to execute the publish; whatever schedule follows, the
   entry log never contains an entry for that publish. *)
Theorem precancelled_publish_enters_nothing P cfg s a t v c any rest s1 ls sched :
  reachable P cfg s ->
  assoc_get (code s) a = Some (IDo (APub t v c any) :: rest) -> is_cancelled s c = true ->
  mstep P cfg s a = Some (s1, ls) ->
  forall h, ~ In (next_pid s, h) (entered (fst (run P cfg s1 sched))).
Proof.
  intros [threads [sched0 ->]] Ha Hc Hm.
  set (s := fst (run P cfg (init_state threads) sched0)) in *.
  pose proof (pidinv_run P cfg sched0 _ (pidinv_init threads)) as [Pc Pe]. fold s in Pc, Pe.
  assert (Pre : preinv (next_pid s) s1).
  { pose proof Hm as Hm'. unfold mstep in Hm'. rewrite Ha in Hm'. cbn [step_instr] in Hm'. inversion Hm'; subst s1 ls; clear Hm'.
    split; [|split; [|split]].
    - unfold get_pub. cbn [cont set_code pubs]. rewrite assoc_get_set_same. cbn [pb_ctx].
      destruct c as [|k]; [discriminate Hc | exact Hc].
    - cbn [cont set_code next_pid]. lia.
    - intros b c0 Hb. cbn [cont set_code code] in Hb. destruct (Nat.eq_dec b a) as [->|Nb].
      + rewrite assoc_get_set_same in Hb. inversion Hb; subst c0.
        pose proof (plt_nobad (next_pid s) (next_pid s) rest (le_n _) (plt_tail _ _ _ (Pc a _ Ha))) as Nr.
        nb_tac Nr.
      + rewrite assoc_get_set_other in Hb by congruence. apply (plt_nobad _ _ _ (le_n _) (Pc b c0 Hb)).
    - intros h Hin. cbn [cont set_code entered] in Hin. specialize (Pe _ _ Hin). lia. }
  intros h. apply (preinv_run P cfg (next_pid s) sched s1 Pre).
Qed.

(* ================================================================== *)
(* C09 / C13: over every schedule the store's log only ever grows at its end (no record is removed, rewritten or
   inserted in the middle, whatever fails) and the record count equals the number of successful appends *)
Theorem log_only_grows P cfg : forall sched s, exists ext, store_log (fst (run P cfg s sched)) = store_log s ++ ext.
Proof.
  induction sched as [|a r IH]; intros s; cbn [run]; [exists []; rewrite app_nil_r; reflexivity|].
  destruct (mstep P cfg s a) as [[s' ls]|] eqn:E; [|apply IH].
  destruct (IH s') as [ext Hext]. destruct (run P cfg s' r) as [s2 l2]. cbn [fst] in *.
  unfold mstep in E. destruct (assoc_get (code s) a) as [[|i rest]|]; try discriminate.
  destruct (log_append_only P cfg s a i rest s' ls E) as [Hs | [p [_ Hs]]]; rewrite Hext, Hs.
  - exists ext. reflexivity.
  - eexists. rewrite <- app_assoc. reflexivity.
Qed.
