(* Replaying a controller schedule on the model: the harness resumes one parked actor at a time and
   then lets every other runnable goroutine reach its next park point; the model does the same. *)
From Coq Require Import List Arith Bool.
Import ListNotations.
From Ebu Require Import Bus.BusModel.

Definition parks (l : label) : bool := match l with LRes _ _ => false | _ => true end.

Section Replay.
  Variable P : program.
  Variable cfg : buscfg.

  (* run actor a until it emits a parking label, blocks or finishes; returns its labels *)
  Fixpoint advance (fuel : nat) (s : bstate) (a : actor) (acc : list label) : bstate * list label * bool :=
    match fuel with
    | 0 => (s, acc, false)
    | S f => match mstep P cfg s a with
             | None => (s, acc, false)
             | Some (s', ls) => if existsb parks ls then (s', acc ++ ls, true)
                                else advance f s' a (acc ++ ls)
             end
    end.

  Record rstate := { rs_state : bstate; rs_parked : list actor; rs_trace : list (actor * list label) }.

  Definition add_trace (t : list (actor * list label)) (a : actor) (ls : list label) : list (actor * list label) :=
    match ls with
    | [] => t
    | _ => assoc_set t a (match assoc_get t a with Some l => l ++ ls | None => ls end)
    end.

  Definition advance_actor (fuel : nat) (r : rstate) (a : actor) : rstate * bool :=
    let '(s', ls, parked) := advance fuel (rs_state r) a [] in
    let progressed := match ls with [] => negb (match mstep P cfg (rs_state r) a with None => true | Some _ => false end)
                               | _ => true end in
    ({| rs_state := s';
        rs_parked := if parked then a :: filter (fun x => negb (Nat.eqb x a)) (rs_parked r)
                     else filter (fun x => negb (Nat.eqb x a)) (rs_parked r);
        rs_trace := add_trace (rs_trace r) a ls |}, progressed).

  (* everybody who is not parked runs as far as possible, to a fixpoint *)
  Fixpoint settle_round (fuel : nat) (r : rstate) (actors : list actor) : rstate * bool :=
    match actors with
    | [] => (r, false)
    | a :: rest =>
      if memb a (rs_parked r) then settle_round fuel r rest
      else let '(r', p) := advance_actor fuel r a in
           let '(r'', p') := settle_round fuel r' rest in (r'', p || p')
    end.
  Fixpoint settle (rounds fuel : nat) (r : rstate) : rstate :=
    match rounds with
    | 0 => r
    | S k => let '(r', progressed) := settle_round fuel r (map fst (code (rs_state r))) in
             if progressed then settle k fuel r' else r'
    end.

  (* run actor a through micro-steps that enter no user code (no parking label), as far as possible *)
  Fixpoint advance_silent (fuel : nat) (s : bstate) (a : actor) (acc : list label) : bstate * list label * bool :=
    match fuel with
    | 0 => (s, acc, false)
    | S f =>
      (* taking a lock somebody else may be waiting for is a scheduling decision, never done silently:
         the actor that got it always parks right after (handler entry / store Append) and is logged *)
      if (match assoc_get (code s) a with
          | Some (ILock _ :: _) | Some (IPersistLock _ :: _) => true
          | _ => false end) then (s, acc, false)
      else match mstep P cfg s a with
           | None => (s, acc, false)
           | Some (s', ls) => if existsb parks ls then (s, acc, false)
                              else let '(s'', acc', _) := advance_silent f s' a (acc ++ ls) in (s'', acc', true)
           end
    end.
  Fixpoint silent_round (fuel : nat) (r : rstate) (actors : list actor) : rstate * bool :=
    match actors with
    | [] => (r, false)
    | a :: rest =>
      if memb a (rs_parked r) then silent_round fuel r rest
      else let '(s', ls, p) := advance_silent fuel (rs_state r) a [] in
           let r' := {| rs_state := s'; rs_parked := rs_parked r; rs_trace := add_trace (rs_trace r) a ls |} in
           let '(r'', p') := silent_round fuel r' rest in (r'', p || p')
    end.
  Fixpoint settle_silent (rounds fuel : nat) (r : rstate) : rstate :=
    match rounds with
    | 0 => r
    | S k => let '(r', progressed) := silent_round fuel r (map fst (code (rs_state r))) in
             if progressed then settle_silent k fuel r' else r'
    end.

  (* who the harness resumed: a program thread, or the async delivery of publish p to registration rid *)
  Inductive who := WThread (i : nat) | WTask (p rid : nat).

  Definition resolve (r : rstate) (w : who) : option actor :=
    match w with
    | WThread i => Some i
    | WTask p rid =>
        match find (fun t => Nat.eqb (fst (fst t)) p && Nat.eqb (snd (fst t)) rid) (tasks (rs_state r)) with
        | Some t => Some (snd t)
        | None => None
        end
    end.

  (* the controller's log: it resumed a parked actor, or an actor arrived at a park point on its own
     (a new goroutine, or one released by somebody else's unlock / Done) *)
  (* Resume w b: the controller resumed w; b = it reached another park point within that step (otherwise it
     blocked or finished).  Arrive w: w reached a park point on its own. *)
  Inductive sevent := Resume (w : who) (parked_again : bool) | Arrive (w : who).

  (* advance a; if it stops without parking, let goroutines that need no scheduling decision (e.g. Shutdown's
     waiter) run and try again: within one controller step they all run concurrently *)
  Fixpoint advance_rounds (rounds fuel : nat) (r : rstate) (a : actor) : rstate :=
    match rounds with
    | 0 => r
    | S k => let '(r1, progressed) := advance_actor fuel r a in
             if memb a (rs_parked r1) then r1
             else let r2 := settle_silent 6 fuel r1 in
                  match mstep P cfg (rs_state r2) a with
                  | Some _ => advance_rounds k fuel r2 a
                  | None => r2
                  end
    end.

  (* returns the final replay state and, if the log could not be followed, the index of the offending event *)
  Fixpoint replay_at (fuel : nat) (r : rstate) (sched : list sevent) (idx : nat) : rstate * option nat :=
    match sched with
    | [] => (settle_silent 6 fuel r, None)
    | Resume w again :: rest =>
      match resolve r w with
      | None => (r, Some idx)
      | Some a =>
        if negb (memb a (rs_parked r)) then (r, Some idx)        (* only parked actors can be resumed *)
        else let r1 := advance_rounds 4 fuel r a in
             if Bool.eqb (memb a (rs_parked r1)) again then replay_at fuel (settle_silent 6 fuel r1) rest (S idx)
             else (r1, Some idx)
      end
    | Arrive w :: rest =>
      match resolve r w with
      | None => (r, Some idx)
      | Some a =>
        if memb a (rs_parked r) then (r, Some idx)
        else let r1 := advance_rounds 4 fuel (settle_silent 6 fuel r) a in
             if memb a (rs_parked r1) then replay_at fuel (settle_silent 6 fuel r1) rest (S idx) else (r1, Some idx)
      end
    end.
  Definition replay (fuel : nat) (r : rstate) (sched : list sevent) : option rstate :=
    match replay_at fuel r sched 0 with (r', None) => Some r' | _ => None end.

  Definition start (threads : list (list action)) : rstate :=
    {| rs_state := init_state threads; rs_parked := []; rs_trace := [] |}.
End Replay.
