(* Small-step model of the bus core (/repo/event_bus.go, persistEvent in /repo/persist.go).
   Every actor (program thread or async delivery goroutine) owns a list of pending instructions;
   one micro-step executes the first instruction of one actor.  A micro-step is either one
   lock-protected registry operation, one lock acquire/release, or the entry into one piece of user
   code (handler, filter, hook, observability callback, store method), which emits a label.
   A schedule is a list of actors; nothing else is nondeterministic.  No proofs here. *)
From Coq Require Import List Arith Bool.
Import ListNotations.

Definition actor := nat.
Definition ty := nat.

(* ---- static program text ---- *)
Inductive ctxref := CtxBg | CtxId (c : nat).          (* context.Background() or a cancellable context *)

Record hspec := {
  h_fn : nat;                 (* code pointer of the handler function: Unsubscribe's identity *)
  h_once : bool; h_async : bool; h_seq : bool;
  h_ctx : bool;               (* SubscribeContext *)
  h_filter : option nat;      (* filter id *)
  h_body : nat                (* body id *)
}.

Inductive action :=
| ASub (t : ty) (s : hspec)
| AUnsub (t : ty) (fn : nat)
| AClear (t : ty)
| AClearAll
| APub (t : ty) (v : nat) (c : ctxref) (via_any : bool)
| AHas (t : ty)
| ACount (t : ty)
| ACancel (c : nat)
| AWait
| AShutdown (c : ctxref)
| APanic (v : nat).

Record body := { b_acts : list action }.
Record filt := { f_acts : list action; f_min : nat }.    (* accepts values >= f_min, after running f_acts *)

Inductive bstep := BUser (hook : nat) | BPersist.          (* the context-aware before-publish slot *)

Record buscfg := {
  c_before_legacy : option nat;      (* body id of the legacy before hook *)
  c_after_legacy : option nat;
  c_before_ctx : list bstep;
  c_after_ctx : option nat;
  c_panic_handler : bool;
  c_persist_err_handler : bool;
  c_obs : bool;
  c_store : bool
}.

(* bus options as New() applies them, left to right *)
Inductive busopt :=
| OStore | OBeforeLegacy (b : nat) | OAfterLegacy (b : nat) | OBeforeCtx (b : nat) | ONilBeforeCtx | OAfterCtx (b : nat)
| OPanicHandler | OPersistErrHandler | OObs
| ONilBeforeLegacy | ONilAfterLegacy | ONilAfterCtx.     (* a hook option given a nil function: "no hook" *)

Definition cfg0 : buscfg :=
  {| c_before_legacy := None; c_after_legacy := None; c_before_ctx := []; c_after_ctx := None;
     c_panic_handler := false; c_persist_err_handler := false; c_obs := false; c_store := false |}.

Definition apply_opt (c : buscfg) (o : busopt) : buscfg :=
  match o with
  | OStore => {| c_before_legacy := c_before_legacy c; c_after_legacy := c_after_legacy c;
                 c_before_ctx := c_before_ctx c ++ [BPersist]; c_after_ctx := c_after_ctx c;
                 c_panic_handler := c_panic_handler c; c_persist_err_handler := c_persist_err_handler c;
                 c_obs := c_obs c; c_store := true |}
  | OBeforeLegacy b => {| c_before_legacy := Some b; c_after_legacy := c_after_legacy c;
                 c_before_ctx := c_before_ctx c; c_after_ctx := c_after_ctx c;
                 c_panic_handler := c_panic_handler c; c_persist_err_handler := c_persist_err_handler c;
                 c_obs := c_obs c; c_store := c_store c |}
  | OAfterLegacy b => {| c_before_legacy := c_before_legacy c; c_after_legacy := Some b;
                 c_before_ctx := c_before_ctx c; c_after_ctx := c_after_ctx c;
                 c_panic_handler := c_panic_handler c; c_persist_err_handler := c_persist_err_handler c;
                 c_obs := c_obs c; c_store := c_store c |}
  | OBeforeCtx b => {| c_before_legacy := c_before_legacy c; c_after_legacy := c_after_legacy c;
                 (* replaces the user's hook; a store configured earlier keeps persisting *)
                 c_before_ctx := if c_store c then [BUser b; BPersist] else [BUser b];
                 c_after_ctx := c_after_ctx c;
                 c_panic_handler := c_panic_handler c; c_persist_err_handler := c_persist_err_handler c;
                 c_obs := c_obs c; c_store := c_store c |}
  | ONilBeforeCtx => {| c_before_legacy := c_before_legacy c; c_after_legacy := c_after_legacy c;
                 (* removes the user's hook; a store configured earlier keeps persisting *)
                 c_before_ctx := if c_store c then [BPersist] else [];
                 c_after_ctx := c_after_ctx c;
                 c_panic_handler := c_panic_handler c; c_persist_err_handler := c_persist_err_handler c;
                 c_obs := c_obs c; c_store := c_store c |}
  | OAfterCtx b => {| c_before_legacy := c_before_legacy c; c_after_legacy := c_after_legacy c;
                 c_before_ctx := c_before_ctx c; c_after_ctx := Some b;
                 c_panic_handler := c_panic_handler c; c_persist_err_handler := c_persist_err_handler c;
                 c_obs := c_obs c; c_store := c_store c |}
  | OPanicHandler => {| c_before_legacy := c_before_legacy c; c_after_legacy := c_after_legacy c;
                 c_before_ctx := c_before_ctx c; c_after_ctx := c_after_ctx c;
                 c_panic_handler := true; c_persist_err_handler := c_persist_err_handler c;
                 c_obs := c_obs c; c_store := c_store c |}
  | OPersistErrHandler => {| c_before_legacy := c_before_legacy c; c_after_legacy := c_after_legacy c;
                 c_before_ctx := c_before_ctx c; c_after_ctx := c_after_ctx c;
                 c_panic_handler := c_panic_handler c; c_persist_err_handler := true;
                 c_obs := c_obs c; c_store := c_store c |}
  | OObs => {| c_before_legacy := c_before_legacy c; c_after_legacy := c_after_legacy c;
                 c_before_ctx := c_before_ctx c; c_after_ctx := c_after_ctx c;
                 c_panic_handler := c_panic_handler c; c_persist_err_handler := c_persist_err_handler c;
                 c_obs := true; c_store := c_store c |}
  | ONilBeforeLegacy => {| c_before_legacy := None; c_after_legacy := c_after_legacy c;
                 c_before_ctx := c_before_ctx c; c_after_ctx := c_after_ctx c;
                 c_panic_handler := c_panic_handler c; c_persist_err_handler := c_persist_err_handler c;
                 c_obs := c_obs c; c_store := c_store c |}
  | ONilAfterLegacy => {| c_before_legacy := c_before_legacy c; c_after_legacy := None;
                 c_before_ctx := c_before_ctx c; c_after_ctx := c_after_ctx c;
                 c_panic_handler := c_panic_handler c; c_persist_err_handler := c_persist_err_handler c;
                 c_obs := c_obs c; c_store := c_store c |}
  | ONilAfterCtx => {| c_before_legacy := c_before_legacy c; c_after_legacy := c_after_legacy c;
                 c_before_ctx := c_before_ctx c; c_after_ctx := None;
                 c_panic_handler := c_panic_handler c; c_persist_err_handler := c_persist_err_handler c;
                 c_obs := c_obs c; c_store := c_store c |}
  end.
Definition cfg_of (opts : list busopt) : buscfg := fold_left apply_opt opts cfg0.

(* how persisting the event published with value v goes: decided by the program text *)
Inductive pfault := PfOk | PfUnencodable | PfReject | PfTimeout.

Record program := {
  p_bodies : list (nat * body);
  p_filters : list (nat * filt);
  p_routes : ty -> nat;             (* shard of a type: arbitrary *)
  p_nshards : nat;
  p_pfault : nat -> pfault          (* by published value *)
}.

(* ---- dynamic state ---- *)
Record regn := { r_id : nat; r_ty : ty; r_spec : hspec }.

Record pubrec := { pb_ty : ty; pb_val : nat; pb_ctx : ctxref; pb_any : bool; pb_claimed : list nat }.

Inductive instr :=
| IAct (a : action)                         (* about to announce a user action *)
| IDo (a : action)                          (* announced; execute it *)
| IPubStart (p : nat)
| IBeforeLegacy (p : nat)
| IBeforeCtx (p : nat) (steps : list bstep)
| IPersistMarshal (p : nat)
| IPersistObsStart (p : nat)
| IPersistLock (p : nat)
| IPersistAppend (p : nat)
| IPersistAppendDone (p : nat)
| IPersistObsDone (p : nat) (failed : bool)
| IPersistErr (p : nat)
| ISnapshot (p : nat)
| IEntry (p : nat) (h : regn)
| IFilterDone (p : nat) (h : regn)
| IClaim (p : nat) (h : regn)
| IDispatch (p : nat) (h : regn)
| IHandlerStart (p : nat) (h : regn) (async : bool)
| ILock (h : regn)
| IEnter (p : nat) (h : regn)
| IRecover (p : nat) (h : regn) (async : bool)    (* the deferred recover of callHandlerWithContext *)
| IUnlock (h : regn)
| IPanicHandler (p : nat) (h : regn)
| IHandlerDone (p : nat) (h : regn) (panicked : bool)
| ITaskStart (p : nat) (h : regn)
| ITaskDone
| IRemoveOnce (p : nat)
| IAfterLegacy (p : nat)
| IAfterCtx (p : nat)
| IPubDone (p : nat)
| IClearShard (i : nat)
| IWaitDone
| IShutdownSelect (sid : nat) (c : ctxref)
| IWaiterDone (sid : nat)
| ICrashed.

(* labels: entries into user code and API results; exactly what the harness records *)
Inductive label :=
| LAct (a : action)
| LRes (a : action) (r : nat)               (* result of Unsubscribe (1 ok / 0 not found), Has, Count, Shutdown (1 nil / 0 ctx error) *)
| LPubStart (p : nat)
| LHook (p : nat) (k : nat)                 (* 0 legacy before, 1 ctx before, 2 legacy after, 3 ctx after *)
| LPersistStart (p : nat)
| LAppend (p : nat)
| LPersistDone (p : nat) (failed : bool)
| LPersistErr (p : nat)
| LFilter (p : nat) (rid : nat)
| LHandlerStart (p : nat) (async : bool)
| LEnter (p : nat) (rid : nat) (c : ctxref)
| LPanicHandler (p : nat) (rid : nat)
| LHandlerDone (p : nat) (panicked : bool)
| LPubDone (p : nat)
| LClose
| LCrash.

Record bstate := {
  registry : list (ty * list regn);
  next_rid : nat;
  next_pid : nat;
  next_actor : nat;
  next_sid : nat;
  executed : list nat;                  (* once handlers whose flag has been claimed (CAS 0 -> 1) *)
  seqlocks : list (nat * actor);        (* internalHandler.mu holders *)
  inflight : nat;                       (* bus.wg counter *)
  cancelled : list nat;
  store_log : list (nat * nat);         (* appended (type, value) *)
  last_offset : nat;                    (* position of the last successful append *)
  store_mu : option actor;
  store_closed : nat;
  waiters_done : list nat;              (* Shutdown waiter goroutines that saw Wait() return *)
  pubs : list (nat * pubrec);
  tasks : list (nat * nat * actor);      (* ghost: (publish, registration) of every async delivery goroutine *)
  entered : list (nat * regn);           (* ghost: every handler entry (publish, registration), oldest first *)
  turnq : list (nat * list actor);       (* Async+Sequential: per registration, the delivery goroutines that have not finished, in dispatch order *)
  turnlog : list (nat * actor);          (* ghost: every Async+Sequential dispatch (registration, goroutine), oldest first *)
  turndone : list (nat * actor);         (* ghost: every finished Async+Sequential delivery, oldest first *)
  code : list (actor * list instr)
}.

Fixpoint assoc_get {V} (l : list (nat * V)) (k : nat) : option V :=
  match l with
  | [] => None
  | (k', v) :: r => if Nat.eqb k' k then Some v else assoc_get r k
  end.
Fixpoint assoc_set {V} (l : list (nat * V)) (k : nat) (v : V) : list (nat * V) :=
  match l with
  | [] => [(k, v)]
  | (k', v') :: r => if Nat.eqb k' k then (k, v) :: r else (k', v') :: assoc_set r k v
  end.
Definition assoc_del {V} (l : list (nat * V)) (k : nat) : list (nat * V) :=
  filter (fun kv => negb (Nat.eqb (fst kv) k)) l.
Definition memb (x : nat) (l : list nat) : bool := existsb (Nat.eqb x) l.

Definition handlers_of (s : bstate) (t : ty) : list regn :=
  match assoc_get (registry s) t with Some l => l | None => [] end.

Definition is_cancelled (s : bstate) (c : ctxref) : bool :=
  match c with CtxBg => false | CtxId i => memb i (cancelled s) end.

(* the deliveries of an Async+Sequential registration that have been dispatched and have not finished, oldest first *)
Definition queue (s : bstate) (rid : nat) : list actor :=
  match assoc_get (turnq s) rid with Some q => q | None => [] end.
(* whose turn it is *)
Definition at_head (q : list actor) (a : actor) : bool :=
  match q with b :: _ => Nat.eqb b a | [] => false end.
(* the finished delivery goroutine a leaves the queue it heads (close(done)) *)
Definition pop_turn (tq : list (nat * list actor)) (a : actor) : list (nat * list actor) :=
  map (fun rq => (fst rq, if at_head (snd rq) a then tl (snd rq) else snd rq)) tq.
Definition popped (tq : list (nat * list actor)) (a : actor) : list (nat * actor) :=
  flat_map (fun rq => if at_head (snd rq) a then [(fst rq, a)] else []) tq.

(* remove the first registration whose function is fn (Unsubscribe) *)
Fixpoint remove_first_fn (l : list regn) (fn : nat) : option (list regn) :=
  match l with
  | [] => None
  | h :: r => if Nat.eqb (h_fn (r_spec h)) fn then Some r
              else match remove_first_fn r fn with Some r' => Some (h :: r') | None => None end
  end.
(* remove the registration with identity rid (once-handler removal: pointer equality) *)
Definition remove_rid (l : list regn) (rid : nat) : list regn :=
  filter (fun h => negb (Nat.eqb (r_id h) rid)) l.

Definition set_registry (s : bstate) (r : list (ty * list regn)) : bstate :=
  {| registry := r; next_rid := next_rid s; next_pid := next_pid s; next_actor := next_actor s; next_sid := next_sid s;
     executed := executed s; seqlocks := seqlocks s; inflight := inflight s; cancelled := cancelled s;
     store_log := store_log s; last_offset := last_offset s; store_mu := store_mu s; store_closed := store_closed s;
     waiters_done := waiters_done s; pubs := pubs s; tasks := tasks s; entered := entered s; turnq := turnq s; turnlog := turnlog s; turndone := turndone s; code := code s |}.
Definition set_code (s : bstate) (c : list (actor * list instr)) : bstate :=
  {| registry := registry s; next_rid := next_rid s; next_pid := next_pid s; next_actor := next_actor s; next_sid := next_sid s;
     executed := executed s; seqlocks := seqlocks s; inflight := inflight s; cancelled := cancelled s;
     store_log := store_log s; last_offset := last_offset s; store_mu := store_mu s; store_closed := store_closed s;
     waiters_done := waiters_done s; pubs := pubs s; tasks := tasks s; entered := entered s; turnq := turnq s; turnlog := turnlog s; turndone := turndone s; code := c |}.

(* the body of the panic handler, when the program gives it one (none = it only records the panic).  It reacts only to
   events whose value is below a threshold - "retry the failed event once": what it publishes carries larger values, so
   that a handler which panics again does not start the retry again *)
Definition panic_body : nat := 90.
Definition panic_retry_below : nat := 50.
Definition body_of (P : program) (b : nat) : list action :=
  match assoc_get (p_bodies P) b with Some bd => b_acts bd | None => [] end.
Definition acts (l : list action) : list instr := map IAct l.
(* what the panic handler does when the failed event carries value v *)
Definition panic_acts (P : program) (v : nat) : list action :=
  if Nat.ltb v panic_retry_below then body_of P panic_body else [].

(* the instructions of one callHandlerWithContext *)
Definition call_handler (P : program) (p : nat) (h : regn) (async : bool) (obs : bool) : list instr :=
  (if obs then [IHandlerStart p h async] else []) ++
  (if h_seq (r_spec h) then [ILock h] else []) ++
  [IEnter p h] ++ acts (body_of P (h_body (r_spec h))) ++ [IRecover p h async].

(* unwinding a panic: drop everything up to the nearest deferred recover *)
Fixpoint unwind (l : list instr) : option (nat * regn * bool * list instr) :=
  match l with
  | [] => None
  | IRecover p h a :: r => Some (p, h, a, r)
  | _ :: r => unwind r
  end.

Definition after_recover (s_cfg : buscfg) (p : nat) (h : regn) (async : bool) (panicked : bool) : list instr :=
  (if h_seq (r_spec h) then [IUnlock h] else []) ++
  (if panicked && c_panic_handler s_cfg then [IPanicHandler p h] else []) ++
  (if c_obs s_cfg then [IHandlerDone p h panicked] else []) ++
  (if async then [ITaskDone] else []).

Definition upd_pub (s : bstate) (p : nat) (f : pubrec -> pubrec) : bstate :=
  match assoc_get (pubs s) p with
  | None => s
  | Some r =>
    {| registry := registry s; next_rid := next_rid s; next_pid := next_pid s; next_actor := next_actor s; next_sid := next_sid s;
       executed := executed s; seqlocks := seqlocks s; inflight := inflight s; cancelled := cancelled s;
       store_log := store_log s; last_offset := last_offset s; store_mu := store_mu s; store_closed := store_closed s;
       waiters_done := waiters_done s; pubs := assoc_set (pubs s) p (f r); tasks := tasks s; entered := entered s; turnq := turnq s; turnlog := turnlog s; turndone := turndone s; code := code s |}
  end.

Definition pub_default : pubrec := {| pb_ty := 0; pb_val := 0; pb_ctx := CtxBg; pb_any := false; pb_claimed := [] |}.
Definition get_pub (s : bstate) (p : nat) : pubrec :=
  match assoc_get (pubs s) p with Some r => r | None => pub_default end.

Definition filter_accepts (P : program) (h : regn) (r : pubrec) : bool :=
  match h_filter (r_spec h) with
  | None => true
  | Some f => match assoc_get (p_filters P) f with
              | Some fl => Nat.leb (f_min fl) (pb_val r)
              | None => true end
  end.

(* result of one micro-step of actor [a] whose code is [i :: rest]:
   the new state (with a's code replaced), emitted labels; None = not enabled (blocked) *)
Section Step.
  Variable P : program.
  Variable cfg : buscfg.

  Definition cont (s : bstate) (a : actor) (c : list instr) : bstate := set_code s (assoc_set (code s) a c).

  Definition step_instr (s : bstate) (a : actor) (i : instr) (rest : list instr) : option (bstate * list label) :=
    match i with
    | IAct act => Some (cont s a (IDo act :: rest), [LAct act])
    | IDo act =>
      match act with
      | ASub t sp =>
          let h := {| r_id := next_rid s; r_ty := t; r_spec := sp |} in
          let s1 := set_registry s (assoc_set (registry s) t (handlers_of s t ++ [h])) in
          let s2 := {| registry := registry s1; next_rid := S (next_rid s); next_pid := next_pid s; next_actor := next_actor s;
                       next_sid := next_sid s; executed := executed s; seqlocks := seqlocks s; inflight := inflight s;
                       cancelled := cancelled s; store_log := store_log s; last_offset := last_offset s;
                       store_mu := store_mu s; store_closed := store_closed s; waiters_done := waiters_done s;
                       pubs := pubs s; tasks := tasks s; entered := entered s; turnq := turnq s; turnlog := turnlog s; turndone := turndone s; code := code s |} in
          Some (cont s2 a rest, [])
      | AUnsub t fn =>
          match remove_first_fn (handlers_of s t) fn with
          | Some l' => Some (cont (set_registry s (assoc_set (registry s) t l')) a rest, [LRes act 1])
          | None => Some (cont s a rest, [LRes act 0])
          end
      | AClear t => Some (cont (set_registry s (assoc_del (registry s) t)) a rest, [])
      | AClearAll => Some (cont s a (map IClearShard (seq 0 (p_nshards P)) ++ rest), [])
      | AHas t => Some (cont s a rest, [LRes act (if Nat.ltb 0 (length (handlers_of s t)) then 1 else 0)])
      | ACount t => Some (cont s a rest, [LRes act (length (handlers_of s t))])
      | ACancel c =>
          Some (cont {| registry := registry s; next_rid := next_rid s; next_pid := next_pid s; next_actor := next_actor s;
                        next_sid := next_sid s; executed := executed s; seqlocks := seqlocks s; inflight := inflight s;
                        cancelled := c :: cancelled s; store_log := store_log s; last_offset := last_offset s;
                        store_mu := store_mu s; store_closed := store_closed s; waiters_done := waiters_done s;
                        pubs := pubs s; tasks := tasks s; entered := entered s; turnq := turnq s; turnlog := turnlog s; turndone := turndone s; code := code s |} a rest, [])
      | AWait => if Nat.eqb (inflight s) 0 then Some (cont s a rest, []) else None
      | AShutdown c =>
          (* go func() { bus.Wait(); close(done) }() ; select *)
          let sid := next_sid s in
          let w := next_actor s in
          let s1 := {| registry := registry s; next_rid := next_rid s; next_pid := next_pid s; next_actor := S w;
                       next_sid := S sid; executed := executed s; seqlocks := seqlocks s; inflight := inflight s;
                       cancelled := cancelled s; store_log := store_log s; last_offset := last_offset s;
                       store_mu := store_mu s; store_closed := store_closed s; waiters_done := waiters_done s;
                       pubs := pubs s; tasks := tasks s; entered := entered s; turnq := turnq s; turnlog := turnlog s; turndone := turndone s; code := assoc_set (code s) w [IWaiterDone sid] |} in
          Some (cont s1 a (IShutdownSelect sid c :: rest), [])
      | APanic v =>
          match unwind rest with
          | Some (p, h, async, r) => Some (cont s a (after_recover cfg p h async true ++ r), [])
          | None => Some (cont s a (ICrashed :: rest), [LCrash])   (* an unrecovered panic: the goroutine never continues *)
          end
      | APub t v c any =>
          let p := next_pid s in
          let rec := {| pb_ty := t; pb_val := v; pb_ctx := c; pb_any := any; pb_claimed := [] |} in
          let s1 := {| registry := registry s; next_rid := next_rid s; next_pid := S p; next_actor := next_actor s;
                       next_sid := next_sid s; executed := executed s; seqlocks := seqlocks s; inflight := inflight s;
                       cancelled := cancelled s; store_log := store_log s; last_offset := last_offset s;
                       store_mu := store_mu s; store_closed := store_closed s; waiters_done := waiters_done s;
                       pubs := assoc_set (pubs s) p rec; tasks := tasks s; entered := entered s; turnq := turnq s; turnlog := turnlog s; turndone := turndone s; code := code s |} in
          Some (cont s1 a ((if c_obs cfg then [IPubStart p] else []) ++
                           (match c_before_legacy cfg with Some _ => [IBeforeLegacy p] | None => [] end) ++
                           (match c_before_ctx cfg with [] => [] | st => [IBeforeCtx p st] end) ++
                           [ISnapshot p] ++ rest), [])
      end
    | IPubStart p => Some (cont s a rest, [LPubStart p])
    | IBeforeLegacy p =>
        Some (cont s a (acts (body_of P (match c_before_legacy cfg with Some b => b | None => 0 end)) ++ rest), [LHook p 0])
    | IBeforeCtx p steps =>
        match steps with
        | [] => Some (cont s a rest, [])
        | BUser b :: more => Some (cont s a (acts (body_of P b) ++ IBeforeCtx p more :: rest), [LHook p 1])
        | BPersist :: more => Some (cont s a (IPersistMarshal p :: IBeforeCtx p more :: rest), [])
        end
    | IPersistMarshal p =>
        if negb (c_store cfg) then Some (cont s a rest, [])
        else match p_pfault P (pb_val (get_pub s p)) with
             | PfUnencodable => Some (cont s a ((if c_persist_err_handler cfg then [IPersistErr p] else []) ++ rest), [])
             | _ => Some (cont s a ((if c_obs cfg then [IPersistObsStart p] else []) ++ IPersistLock p :: rest), [])
             end
    | IPersistObsStart p => Some (cont s a rest, [LPersistStart p])
    | IPersistLock p =>
        match store_mu s with
        | Some _ => None
        | None =>
          Some (cont {| registry := registry s; next_rid := next_rid s; next_pid := next_pid s; next_actor := next_actor s;
                        next_sid := next_sid s; executed := executed s; seqlocks := seqlocks s; inflight := inflight s;
                        cancelled := cancelled s; store_log := store_log s; last_offset := last_offset s;
                        store_mu := Some a; store_closed := store_closed s; waiters_done := waiters_done s;
                        pubs := pubs s; tasks := tasks s; entered := entered s; turnq := turnq s; turnlog := turnlog s; turndone := turndone s; code := code s |} a (IPersistAppend p :: rest), [])
        end
    | IPersistAppend p => Some (cont s a (IPersistAppendDone p :: rest), [LAppend p])
    | IPersistAppendDone p =>
        (* the store's Append has returned: on success record it and lastOffset, then unlock *)
        let r := get_pub s p in
        let failed := match p_pfault P (pb_val r) with PfOk => false | _ => true end in
        let log' := if failed then store_log s else store_log s ++ [(pb_ty r, pb_val r)] in
        let s1 := {| registry := registry s; next_rid := next_rid s; next_pid := next_pid s; next_actor := next_actor s;
                     next_sid := next_sid s; executed := executed s; seqlocks := seqlocks s; inflight := inflight s;
                     cancelled := cancelled s; store_log := log';
                     last_offset := if failed then last_offset s else length log';
                     store_mu := None; store_closed := store_closed s; waiters_done := waiters_done s;
                     pubs := pubs s; tasks := tasks s; entered := entered s; turnq := turnq s; turnlog := turnlog s; turndone := turndone s; code := code s |} in
        Some (cont s1 a ((if c_obs cfg then [IPersistObsDone p failed] else []) ++
                         (if failed && c_persist_err_handler cfg then [IPersistErr p] else []) ++ rest), [])
    | IPersistObsDone p failed => Some (cont s a rest, [LPersistDone p failed])
    | IPersistErr p => Some (cont s a rest, [LPersistErr p])
    | ISnapshot p =>
        let r := get_pub s p in
        Some (cont s a (map (IEntry p) (handlers_of s (pb_ty r)) ++
                        IRemoveOnce p ::
                        (match c_after_legacy cfg with Some _ => [IAfterLegacy p] | None => [] end) ++
                        (match c_after_ctx cfg with Some _ => [IAfterCtx p] | None => [] end) ++
                        (if c_obs cfg then [IPubDone p] else []) ++ rest), [])
    | IEntry p h =>
        let r := get_pub s p in
        match h_filter (r_spec h) with
        | Some f =>
            (* the filter is evaluated whatever static type the publish call was instantiated with *)
            Some (cont s a (acts (match assoc_get (p_filters P) f with Some fl => f_acts fl | None => [] end) ++
                            IFilterDone p h :: rest), [LFilter p (r_id h)])
        | None => Some (cont s a (IClaim p h :: rest), [])
        end
    | IFilterDone p h =>
        if filter_accepts P h (get_pub s p) then Some (cont s a (IClaim p h :: rest), [])
        else Some (cont s a rest, [])
    | IClaim p h =>
        let r := get_pub s p in
        if h_once (r_spec h) then
          (* skipped because the context is already cancelled: the claim is not consumed *)
          if is_cancelled s (pb_ctx r) then Some (cont s a rest, [])
          else if memb (r_id h) (executed s) then Some (cont s a rest, [])
          else
            let s1 := {| registry := registry s; next_rid := next_rid s; next_pid := next_pid s; next_actor := next_actor s;
                         next_sid := next_sid s; executed := r_id h :: executed s; seqlocks := seqlocks s;
                         inflight := inflight s; cancelled := cancelled s; store_log := store_log s;
                         last_offset := last_offset s; store_mu := store_mu s; store_closed := store_closed s;
                         waiters_done := waiters_done s; pubs := pubs s; tasks := tasks s; entered := entered s; turnq := turnq s; turnlog := turnlog s; turndone := turndone s; code := code s |} in
            let s2 := upd_pub s1 p (fun r => {| pb_ty := pb_ty r; pb_val := pb_val r; pb_ctx := pb_ctx r; pb_any := pb_any r;
                                               pb_claimed := pb_claimed r ++ [r_id h] |}) in
            Some (cont s2 a (IDispatch p h :: rest), [])
        else Some (cont s a (IDispatch p h :: rest), [])
    | IDispatch p h =>
        let r := get_pub s p in
        if h_async (r_spec h) then
          let t := next_actor s in
          let s1 := {| registry := registry s; next_rid := next_rid s; next_pid := next_pid s; next_actor := S t;
                       next_sid := next_sid s; executed := executed s; seqlocks := seqlocks s;
                       inflight := S (inflight s); cancelled := cancelled s; store_log := store_log s;
                       last_offset := last_offset s; store_mu := store_mu s; store_closed := store_closed s;
                       waiters_done := waiters_done s; pubs := pubs s; tasks := tasks s ++ [(p, r_id h, t)]; entered := entered s;
                     (* Sequential: the delivery is queued here, on the publishing goroutine *)
                     turnq := if h_seq (r_spec h) then assoc_set (turnq s) (r_id h) (queue s (r_id h) ++ [t]) else turnq s;
                     turnlog := if h_seq (r_spec h) then turnlog s ++ [(r_id h, t)] else turnlog s; turndone := turndone s;
                       code := assoc_set (code s) t [ITaskStart p h] |} in
          Some (cont s1 a rest, [])
        else if is_cancelled s (pb_ctx r) then Some (cont s a rest, [])
        else Some (cont s a (call_handler P p h false (c_obs cfg) ++ rest), [])
    | ITaskStart p h =>
        (* the goroutine checks the context first - except for a Once handler, which this publish has already claimed
           and retired while its context was live: it runs (and sees the cancelled context) *)
        (* a Sequential delivery first waits until every delivery dispatched before it has finished *)
        if h_seq (r_spec h) && negb (at_head (queue s (r_id h)) a) then None
        else if is_cancelled s (pb_ctx (get_pub s p)) && negb (h_once (r_spec h)) then Some (cont s a (ITaskDone :: rest), [])
        else Some (cont s a (call_handler P p h true (c_obs cfg) ++ rest), [])
    | IHandlerStart p h async => Some (cont s a rest, [LHandlerStart p async])
    | ILock h =>
        match assoc_get (seqlocks s) (r_id h) with
        | Some _ => None
        | None =>
          Some (cont {| registry := registry s; next_rid := next_rid s; next_pid := next_pid s; next_actor := next_actor s;
                        next_sid := next_sid s; executed := executed s; seqlocks := assoc_set (seqlocks s) (r_id h) a;
                        inflight := inflight s; cancelled := cancelled s; store_log := store_log s;
                        last_offset := last_offset s; store_mu := store_mu s; store_closed := store_closed s;
                        waiters_done := waiters_done s; pubs := pubs s; tasks := tasks s; entered := entered s; turnq := turnq s; turnlog := turnlog s; turndone := turndone s; code := code s |} a rest, [])
        end
    | IEnter p h =>
        Some (cont {| registry := registry s; next_rid := next_rid s; next_pid := next_pid s; next_actor := next_actor s;
                      next_sid := next_sid s; executed := executed s; seqlocks := seqlocks s; inflight := inflight s;
                      cancelled := cancelled s; store_log := store_log s; last_offset := last_offset s;
                      store_mu := store_mu s; store_closed := store_closed s; waiters_done := waiters_done s;
                      pubs := pubs s; tasks := tasks s; entered := entered s ++ [(p, h)]; turnq := turnq s; turnlog := turnlog s; turndone := turndone s; code := code s |} a rest,
              [LEnter p (r_id h) (if h_ctx (r_spec h) then pb_ctx (get_pub s p) else CtxBg)])
    | IRecover p h async => Some (cont s a (after_recover cfg p h async false ++ rest), [])
    | IUnlock h =>
        Some (cont {| registry := registry s; next_rid := next_rid s; next_pid := next_pid s; next_actor := next_actor s;
                      next_sid := next_sid s; executed := executed s; seqlocks := assoc_del (seqlocks s) (r_id h);
                      inflight := inflight s; cancelled := cancelled s; store_log := store_log s;
                      last_offset := last_offset s; store_mu := store_mu s; store_closed := store_closed s;
                      waiters_done := waiters_done s; pubs := pubs s; tasks := tasks s; entered := entered s; turnq := turnq s; turnlog := turnlog s; turndone := turndone s; code := code s |} a rest, [])
    | IPanicHandler p h =>
        (* the panic handler is user code: it may call back into the bus (e.g. publish the event again); it runs in the
           deferred function of callHandlerWithContext, after the handler's mutex has been released *)
        Some (cont s a (acts (panic_acts P (pb_val (get_pub s p))) ++ rest), [LPanicHandler p (r_id h)])
    | IHandlerDone p h panicked => Some (cont s a rest, [LHandlerDone p panicked])
    | ITaskDone =>
        Some (cont {| registry := registry s; next_rid := next_rid s; next_pid := next_pid s; next_actor := next_actor s;
                      next_sid := next_sid s; executed := executed s; seqlocks := seqlocks s;
                      inflight := pred (inflight s); cancelled := cancelled s; store_log := store_log s;
                      last_offset := last_offset s; store_mu := store_mu s; store_closed := store_closed s;
                      waiters_done := waiters_done s; pubs := pubs s; tasks := tasks s; entered := entered s;
                      turnq := pop_turn (turnq s) a; turnlog := turnlog s; turndone := turndone s ++ popped (turnq s) a;
                      code := code s |} a rest, [])
    | IRemoveOnce p =>
        let r := get_pub s p in
        match pb_claimed r with
        | [] => Some (cont s a rest, [])
        | cl => let l' := fold_left remove_rid cl (handlers_of s (pb_ty r)) in
                Some (cont (set_registry s (assoc_set (registry s) (pb_ty r) l')) a rest, [])
        end
    | IAfterLegacy p =>
        Some (cont s a (acts (body_of P (match c_after_legacy cfg with Some b => b | None => 0 end)) ++ rest), [LHook p 2])
    | IAfterCtx p =>
        Some (cont s a (acts (body_of P (match c_after_ctx cfg with Some b => b | None => 0 end)) ++ rest), [LHook p 3])
    | IPubDone p => Some (cont s a rest, [LPubDone p])
    | IClearShard i =>
        Some (cont (set_registry s (filter (fun tl => negb (Nat.eqb (p_routes P (fst tl)) i)) (registry s))) a rest, [])
    | IWaitDone => Some (cont s a rest, [])
    | IWaiterDone sid =>
        if Nat.eqb (inflight s) 0 then
          Some (cont {| registry := registry s; next_rid := next_rid s; next_pid := next_pid s; next_actor := next_actor s;
                        next_sid := next_sid s; executed := executed s; seqlocks := seqlocks s; inflight := inflight s;
                        cancelled := cancelled s; store_log := store_log s; last_offset := last_offset s;
                        store_mu := store_mu s; store_closed := store_closed s; waiters_done := sid :: waiters_done s;
                        pubs := pubs s; tasks := tasks s; entered := entered s; turnq := turnq s; turnlog := turnlog s; turndone := turndone s; code := code s |} a rest, [])
        else None
    | IShutdownSelect sid c =>
        if memb sid (waiters_done s) then
          (* done: close the store (if it has Close), return nil *)
          Some (cont {| registry := registry s; next_rid := next_rid s; next_pid := next_pid s; next_actor := next_actor s;
                        next_sid := next_sid s; executed := executed s; seqlocks := seqlocks s; inflight := inflight s;
                        cancelled := cancelled s; store_log := store_log s; last_offset := last_offset s;
                        store_mu := store_mu s; store_closed := if c_store cfg then S (store_closed s) else store_closed s;
                        waiters_done := waiters_done s; pubs := pubs s; tasks := tasks s; entered := entered s; turnq := turnq s; turnlog := turnlog s; turndone := turndone s; code := code s |} a rest,
                (if c_store cfg then [LClose] else []) ++ [LRes (AShutdown c) 1])
        else if is_cancelled s c then Some (cont s a rest, [LRes (AShutdown c) 0])
        else None
    | ICrashed => None
    end.

  Definition mstep (s : bstate) (a : actor) : option (bstate * list label) :=
    match assoc_get (code s) a with
    | Some (i :: rest) => step_instr s a i rest
    | _ => None
    end.

  (* run a schedule of micro-steps; steps of actors that are not enabled are skipped *)
  Fixpoint run (s : bstate) (sched : list actor) : bstate * list label :=
    match sched with
    | [] => (s, [])
    | a :: r => match mstep s a with
                | Some (s', ls) => let '(s'', ls') := run s' r in (s'', ls ++ ls')
                | None => run s r
                end
    end.
End Step.

Definition init_state (threads : list (list action)) : bstate :=
  {| registry := []; next_rid := 0; next_pid := 0; next_actor := length threads; next_sid := 0;
     executed := []; seqlocks := []; inflight := 0; cancelled := []; store_log := []; last_offset := 0;
     store_mu := None; store_closed := 0; waiters_done := []; pubs := []; tasks := []; entered := []; turnq := []; turnlog := []; turndone := [];
     code := combine (seq 0 (length threads)) (map acts threads) |}.
