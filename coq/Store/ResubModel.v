(* Model of resumable subscriptions (/repo/persist.go SubscribeWithReplay, the live wrappedHandler, persistEvent) over
   an abstract store: the log is a list of events, the position of the i-th event (0-based) is i+1, position 0 is
   OffsetOldest / "never saved".  What C10 proves about the bundled stores (Read/ReadStream return exactly the events
   after the given offset, in order; SaveOffset/LoadOffset are a map) is what this file assumes of the store.

   A history is a list of operations, each with a plan: the process may die after a given number of ticks of the
   operation, and one tick of the operation may fail.  Ticks are the individual store operations (append, load offset,
   open the read stream, fetch one element, save offset) and the individual handler deliveries. *)
From Coq Require Import List Arith Bool.
Import ListNotations.

Record ev := { e_ty : nat; e_val : nat }.

(* which code is modelled: the pinned code saved an empty lastOffset from the live handler and ignored LoadOffset
   errors; the repaired code (fix: commits recorded in known_findings.json) does neither *)
Record variant := { v_save_empty : bool; v_ignore_load_err : bool }.
Definition fixed : variant := {| v_save_empty := false; v_ignore_load_err := false |}.
Definition pinned : variant := {| v_save_empty := true; v_ignore_load_err := true |}.

Inductive op :=
| OPub (ty val : nat)
| OSub (id : nat) (inner : list (nat * nat * nat))  (* (k, ty, val): the handler publishes (ty,val) during its k-th delivery of this replay *)
| ORestart.

Record plan := { p_budget : option nat;   (* the process dies after this many ticks of the operation *)
                 p_fail : option nat }.   (* the tick with this index (0-based, within the operation) fails *)
Definition clean : plan := {| p_budget := None; p_fail := None |}.

(* a delivery: subscription id, event value, position in the log (0: the event was not persisted), and the
   subscription's saved position at the moment of the delivery (ghost, for the theorems) *)
Record del := { d_id : nat; d_val : nat; d_pos : nat; d_sv : nat }.

Record rs := {
  log : list ev;
  saved : list (nat * nat);       (* durable: id -> saved position *)
  last : nat;                     (* volatile: bus.lastOffset, 0 = empty *)
  live : list (nat * nat);        (* volatile: live registrations (id, type) in subscription order *)
  dead : bool;
  tickno : nat; budget : option nat; failat : option nat;
  dels : list del                 (* newest first *)
}.

Definition init : rs :=
  {| log := []; saved := []; last := 0; live := []; dead := false; tickno := 0; budget := None; failat := None; dels := [] |}.

Fixpoint get_saved' (l : list (nat * nat)) (id : nat) : nat :=
  match l with [] => 0 | (i, p) :: r => if Nat.eqb i id then p else get_saved' r id end.
Definition get_saved (s : rs) (id : nat) : nat := get_saved' (saved s) id.
Fixpoint set_saved' (l : list (nat * nat)) (id p : nat) : list (nat * nat) :=
  match l with
  | [] => [(id, p)]
  | (i, q) :: r => if Nat.eqb i id then (i, p) :: r else (i, q) :: set_saved' r id p
  end.

Definition is_live (s : rs) (id : nat) : bool := existsb (fun l => Nat.eqb (fst l) id) (live s).

(* one tick: (state, performed, fails) *)
Definition tick (s : rs) : rs * bool * bool :=
  if dead s then (s, false, false)
  else
    let f := match failat s with Some k => Nat.eqb k (tickno s) | None => false end in
    let d := match budget s with Some 0 | Some 1 => true | _ => false end in
    ({| log := log s; saved := saved s; last := last s; live := live s; dead := d; tickno := S (tickno s);
        budget := option_map pred (budget s); failat := failat s; dels := dels s |}, true, f).

Definition with_saved (s : rs) (id p : nat) : rs :=
  {| log := log s; saved := set_saved' (saved s) id p; last := last s; live := live s; dead := dead s; tickno := tickno s;
     budget := budget s; failat := failat s; dels := dels s |}.
Definition with_del (s : rs) (d : del) : rs :=
  {| log := log s; saved := saved s; last := last s; live := live s; dead := dead s; tickno := tickno s;
     budget := budget s; failat := failat s; dels := d :: dels s |}.
Definition with_append (s : rs) (e : ev) : rs :=
  {| log := log s ++ [e]; saved := saved s; last := S (length (log s)); live := live s; dead := dead s; tickno := tickno s;
     budget := budget s; failat := failat s; dels := dels s |}.
Definition with_live (s : rs) (id ty : nat) : rs :=
  {| log := log s; saved := saved s; last := last s; live := live s ++ [(id, ty)]; dead := dead s; tickno := tickno s;
     budget := budget s; failat := failat s; dels := dels s |}.

(* a handler delivery (never fails; it is a tick so that the process can die right after it) *)
Definition deliver (s : rs) (id val pos : nat) : rs :=
  let '(s1, p, _) := tick s in
  if p then with_del s1 {| d_id := id; d_val := val; d_pos := pos; d_sv := get_saved s id |} else s1.

Definition save (s : rs) (id pos : nat) : rs :=
  let '(s1, p, f) := tick s in if p && negb f then with_saved s1 id pos else s1.

(* the live wrappedHandler: handler(event), then SaveOffset(bus.lastOffset) *)
Definition live_handle (v : variant) (s : rs) (id val pos : nat) : rs :=
  let s1 := deliver s id val pos in
  if Nat.eqb (last s1) 0 && negb (v_save_empty v) then s1 else save s1 id (last s1).

(* Publish: persistEvent (Append, lastOffset), then the live handlers of that type in subscription order *)
Definition pub (v : variant) (s : rs) (ty val : nat) : rs :=
  let '(s1, p, f) := tick s in
  let ok := p && negb f in
  let s2 := if ok then with_append s1 {| e_ty := ty; e_val := val |} else s1 in
  let pos := if ok then last s2 else 0 in
  fold_left (fun acc l => if Nat.eqb (snd l) ty then live_handle v acc (fst l) val pos else acc) (live s2) s2.

Fixpoint indexed (l : list ev) (i : nat) : list (nat * ev) :=
  match l with [] => [] | e :: r => (i, e) :: indexed r (S i) end.

Definition inner_at (inner : list (nat * nat * nat)) (k : nat) : list (nat * nat) :=
  map (fun x => (snd (fst x), snd x)) (filter (fun x => Nat.eqb (fst (fst x)) k) inner).

(* Replay over the snapshot the stream took when it was opened; per element: fetch, and for an event of the subscribed
   type: handler (which may publish), then SaveOffset of that event's offset *)
Fixpoint replay_loop (v : variant) (snap : list (nat * ev)) (s : rs) (id ty k : nat) (inner : list (nat * nat * nat)) : rs * bool :=
  match snap with
  | [] => (s, false)
  | (pos, e) :: r =>
    let '(s1, p, f) := tick s in
    if negb p || f then (s1, true)
    else if Nat.eqb (e_ty e) ty then
      let s2 := deliver s1 id (e_val e) pos in
      let s3 := fold_left (fun acc tv => pub v acc (fst tv) (snd tv)) (inner_at inner k) s2 in
      let s4 := save s3 id pos in
      replay_loop v r s4 id ty (S k) inner
    else replay_loop v r s1 id ty k inner
  end.

(* SubscribeWithReplay: LoadOffset, Replay from it, then register the live handler *)
Definition sub (v : variant) (tys : list nat) (s : rs) (id : nat) (inner : list (nat * nat * nat)) : rs * bool :=
  let ty := nth id tys 0 in
  let '(s1, p, f) := tick s in
  if negb p then (s1, true)
  else if f && negb (v_ignore_load_err v) then (s1, true)
  else
    let from := if f then 0 else get_saved s1 id in
    let '(s2, p2, f2) := tick s1 in
    if negb p2 || f2 then (s2, true)
    else
      let '(s3, err) := replay_loop v (skipn from (indexed (log s2) 1)) s2 id ty 0 inner in
      if err || dead s3 then (s3, true) else (with_live s3 id ty, false).

Definition begin_op (s : rs) (pl : plan) : rs :=
  {| log := log s; saved := saved s; last := last s; live := live s;
     dead := dead s || match p_budget pl with Some 0 => true | _ => false end;
     tickno := 0; budget := p_budget pl; failat := p_fail pl; dels := dels s |}.

Definition restart (s : rs) : rs :=
  {| log := log s; saved := saved s; last := 0; live := []; dead := false; tickno := 0; budget := None; failat := None;
     dels := dels s |}.

(* a subscription id is subscribed at most once per incarnation of the bus *)
Definition op_ok (s : rs) (o : op) : bool :=
  match o with OSub id _ => negb (is_live s id) | _ => true end.

Definition step (v : variant) (tys : list nat) (s : rs) (o : op) (pl : plan) : rs * bool :=
  match o with
  | ORestart => (restart s, false)
  | OPub ty val => (pub v (begin_op s pl) ty val, false)
  | OSub id inner =>
      if op_ok s o then sub v tys (begin_op s pl) id inner else (s, true)
  end.

Definition run (v : variant) (tys : list nat) (h : list (op * plan)) (s : rs) : rs :=
  fold_left (fun acc x => fst (step v tys acc (fst x) (snd x))) h s.

(* ---- what the correspondence check compares, per operation ---- *)
Record oobs := { oo_dels : list (nat * nat);      (* (id, value) delivered during the operation, in order *)
                 oo_err : bool;                   (* SubscribeWithReplay returned an error (false once the process is dead) *)
                 oo_saved : list nat;             (* saved position of ids 0..n-1 after the operation *)
                 oo_dead : bool }.

Definition new_dels (before after : rs) : list (nat * nat) :=
  rev (map (fun d => (d_id d, d_val d)) (firstn (length (dels after) - length (dels before)) (dels after))).

Fixpoint run_obs (v : variant) (tys : list nat) (h : list (op * plan)) (s : rs) : list oobs :=
  match h with
  | [] => []
  | (o, pl) :: r =>
    let '(s', err) := step v tys s o pl in
    {| oo_dels := new_dels s s'; oo_err := err && negb (dead s');
       oo_saved := map (get_saved s') (seq 0 (length tys)); oo_dead := dead s' |} :: run_obs v tys r s'
  end.
