(* Model of EventBus.Replay (/repo/persist.go): streaming path over each streaming store's
   iterator (MemoryStore.ReadStream; SQLiteStore streamRows / streamBatched / streamBatch) and the
   paged fallback over any Read.  Faults: the callback fails at the i-th delivery, the context is
   cancelled by the callback at the i-th delivery, a row fetch fails at the k-th row, the j-th Read
   call fails. *)
From Coq Require Import List NArith ZArith Bool Lia.
Import ListNotations.
From Ebu Require Import Store.Lex Store.StoreModel.

Inductive fault :=
| FNone
| FCallback (i : nat)      (* handler returns an error on its i-th call (0-based) *)
| FCancel (i : nat)        (* handler cancels the context during its i-th call *)
| FRow (k : nat)           (* fetching the k-th row (0-based, counted over the whole replay) fails *)
| FReadCall (j : nat).     (* the j-th call of EventStore.Read fails (paged path) *)

Inductive rres := RNil | RErr | ROutOfFuel.

Definition cb_fails (f : fault) (i : nat) : bool := match f with FCallback j => Nat.eqb i j | _ => false end.
Definition cancels (f : fault) (i : nat) : bool := match f with FCancel j => Nat.eqb i j | _ => false end.
Definition row_fails (f : fault) (k : nat) : bool := match f with FRow j => Nat.eqb k j | _ => false end.
Definition read_fails (f : fault) (j : nat) : bool := match f with FReadCall i => Nat.eqb i j | _ => false end.

(* MemoryStore.ReadStream + Replay's range loop: ctx check before every yield *)
Fixpoint stream_mem (evs : list sev) (idx : nat) (f : fault) (cancelled : bool) : list sev * rres :=
  match evs with
  | [] => ([], RNil)
  | e :: r => if cancelled then ([], RErr)
              else if cb_fails f idx then ([e], RErr)
              else let '(d, res) := stream_mem r (S idx) f (cancels f idx) in (e :: d, res)
  end.

(* SQLiteStore.streamRows: rows.Next() fails on a fetch error and once the context is cancelled
   (database/sql closes the rows); rows.Err() is checked after the loop *)
Fixpoint stream_rows (evs : list sev) (idx : nat) (f : fault) (cancelled : bool) : list sev * rres :=
  match evs with
  | [] => ([], if cancelled then RErr else RNil)
  | e :: r => if cancelled || row_fails f idx then ([], RErr)
              else if cb_fails f idx then ([e], RErr)
              else let '(d, res) := stream_rows r (S idx) f (cancels f idx) in (e :: d, res)
  end.

(* streamBatch over one batch: (delivered, stop-with-error?, cancelled-after) *)
Fixpoint stream_batch (evs : list sev) (idx : nat) (f : fault) (cancelled : bool) : list sev * bool * bool :=
  match evs with
  | [] => ([], cancelled, cancelled)          (* rows.Err() reports the cancellation *)
  | e :: r => if cancelled || row_fails f idx then ([], true, cancelled)
              else if cb_fails f idx then ([e], true, cancelled)
              else let '(d, err, c) := stream_batch r (S idx) f (cancels f idx) in (e :: d, err, c)
  end.

(* streamBatched: LIMIT b queries, stop when a batch comes back short *)
Fixpoint stream_batched (fuel : nat) (rows : list sev) (b : nat) (idx : nat) (f : fault) (cancelled : bool)
  : list sev * rres :=
  match fuel with
  | 0 => ([], ROutOfFuel)
  | S fuel' =>
    if cancelled then ([], RErr)
    else let batch := firstn b rows in
         let '(d, err, c) := stream_batch batch idx f false in
         if err then (d, RErr)
         else if Nat.ltb (length batch) b then (d, RNil)
         else let '(d', res) := stream_batched fuel' (skipn b rows) b (idx + length batch) f c in (d ++ d', res)
  end.

(* deliver one page of the paged path: no context check inside a page *)
Fixpoint deliver_page (evs : list sev) (idx : nat) (f : fault) (cancelled : bool) : list sev * bool * bool :=
  match evs with
  | [] => ([], false, cancelled)
  | e :: r => if cb_fails f idx then ([e], true, cancelled)
              else let '(d, err, c) := deliver_page r (S idx) f (cancelled || cancels f idx) in (e :: d, err, c)
  end.

Section Paged.
  Variable read : offset -> Z -> option (list sev * offset).
  (* the fallback loop of Replay *)
  Fixpoint replay_paged (fuel : nat) (off : offset) (batch : Z) (idx nreads : nat) (f : fault) (cancelled : bool)
    : list sev * rres :=
    match fuel with
    | 0 => ([], ROutOfFuel)
    | S fuel' =>
      if cancelled then ([], RErr)
      else if read_fails f nreads then ([], RErr)
      else match read off batch with
           | None => ([], RErr)
           | Some (evs, next) =>
             match evs with
             | [] => ([], RNil)
             | _ => let '(d, err, c) := deliver_page evs idx f false in
                    if err then (d, RErr)
                    else if bytes_eqb next off then (d, RErr)          (* non-advancing offset guard *)
                    else let '(d', res) := replay_paged fuel' next batch (idx + length evs) (S nreads) f c in
                         (d ++ d', res)
             end
           end
    end.
End Paged.

Definition eff_batch (b : Z) : Z := if (b <=? 0)%Z then 100%Z else b.   (* replayBatchSize default *)
