(* C12 over the durable-streams store (model Store/ResubDs.v): what survives, and what does not.
   Survives, over every history with crash points and failing store operations: the saved offset of a subscription
   never moves backwards, saved positions stay within the log.
   Does not: "no event is lost when the process dies" - the replay saves a position that covers the whole page after
   the first handled event (witness below); nor "a delivery happens only while the saved position is below it" (the
   rest of a page is delivered while the saved position already covers it). *)
From Coq Require Import List Arith Bool Lia Sorted.
Import ListNotations.
From Ebu Require Import Store.ResubModel Store.ResubProofs Store.ResubDs.

Definition mono (s s' : rs) : Prop :=
  (exists more, log s' = log s ++ more) /\ (forall id, get_saved s id <= get_saved s' id).

Lemma mono_refl s : mono s s.
Proof. split; [exists []; rewrite app_nil_r; reflexivity | auto]. Qed.
Lemma mono_trans a b c : mono a b -> mono b c -> mono a c.
Proof.
  intros [[m1 L1] S1] [[m2 L2] S2]. split.
  - exists (m1 ++ m2). rewrite L2, L1, app_assoc. reflexivity.
  - intros id. specialize (S1 id). specialize (S2 id). lia.
Qed.
Lemma ext_mono s s' : ext s s' -> mono s s'.
Proof. intros [L S _]. split; assumption. Qed.
Lemma mono_len s s' : mono s s' -> length (log s) <= length (log s').
Proof. intros [[m L] _]. rewrite L, app_length. lia. Qed.

Lemma deliver_mono s id val pos : mono s (deliver s id val pos).
Proof.
  pose proof (deliver_fields s id val pos) as H. cbv zeta in H. destruct H as (L & S & _).
  split; [exists []; rewrite app_nil_r; exact L | intros i; unfold get_saved; rewrite S; lia].
Qed.

(* one page *)
Lemma page_loop_mono : forall page s id ty N k inner,
  wf s -> is_live s id = false -> N <= length (log s) -> get_saved s id <= N ->
  let r := page_loop page s id ty N k inner in
  wf (fst r) /\ mono s (fst r) /\ live (fst r) = live s /\ get_saved (fst r) id <= N.
Proof.
  induction page as [|[pos e] page IH]; intros s id ty N k inner W NL HN Hs; cbn [page_loop].
  - cbn. splits; auto using mono_refl.
  - destruct (Nat.eqb (e_ty e) ty).
    + set (s2 := deliver s id (e_val e) pos).
      pose proof (deliver_fields s id (e_val e) pos) as F2. cbv zeta in F2. fold s2 in F2.
      destruct F2 as (L2 & S2 & La2 & Li2 & _).
      pose proof (deliver_wf s id (e_val e) pos W) as W2. fold s2 in W2.
      pose proof (deliver_mono s id (e_val e) pos) as M2. fold s2 in M2.
      pose proof (pubs_ext (inner_at inner k) s2 W2) as F3. cbv zeta in F3.
      set (s3 := fold_left (fun acc tv => pub fixed acc (fst tv) (snd tv)) (inner_at inner k) s2) in *.
      destruct F3 as (W3 & E3 & Li3 & _ & O3).
      assert (NL2 : is_live s2 id = false) by (rewrite (is_live_same s s2 id); [exact NL | congruence]).
      assert (Hs3 : get_saved s3 id <= N) by (rewrite (O3 id NL2); unfold get_saved; rewrite S2; exact Hs).
      assert (HN3 : N <= length (log s3)) by (apply ext_len in E3; rewrite L2 in E3; lia).
      set (s4 := save s3 id N).
      pose proof (save_fields s3 id N) as F4. cbv zeta in F4. fold s4 in F4. destruct F4 as (L4 & La4 & Li4 & _).
      pose proof (save_wf s3 id N HN3 W3) as W4. fold s4 in W4.
      pose proof (save_ext s3 id N Hs3) as E4. fold s4 in E4.
      assert (Hs4 : get_saved s4 id <= N).
      { destruct (save_saved_same s3 id N) as [X | [_ X]]; fold s4 in X; rewrite X; lia. }
      assert (NL4 : is_live s4 id = false) by (rewrite (is_live_same s s4 id); [exact NL | congruence]).
      assert (HN4 : N <= length (log s4)) by (rewrite L4; exact HN3).
      specialize (IH s4 id ty N (S k) inner W4 NL4 HN4 Hs4). cbv zeta in IH. destruct IH as (W5 & M5 & Li5 & Hs5).
      splits; auto.
      * exact (mono_trans _ _ _ M2 (mono_trans _ _ _ (ext_mono _ _ E3) (mono_trans _ _ _ (ext_mono _ _ E4) M5))).
      * congruence.
    + apply IH; assumption.
Qed.

(* the paging loop *)
Lemma replay_pages_mono : forall fuel s id ty from k inner,
  wf s -> is_live s id = false ->
  let r := replay_pages fuel s id ty from k inner in
  wf (fst r) /\ mono s (fst r) /\ live (fst r) = live s.
Proof.
  induction fuel as [|fuel IH]; intros s id ty from k inner W NL; cbn [replay_pages].
  - cbn. auto using mono_refl.
  - destruct (tick s) as [[s1 p] fl] eqn:Ht.
    destruct (tick_ext _ _ _ _ Ht) as [E1 W1]. specialize (W1 W).
    apply tick_fields in Ht. destruct Ht as (L1 & S1 & La1 & Li1 & _).
    destruct (negb p || fl); [cbn; auto using ext_mono|].
    assert (NL1 : is_live s1 id = false) by (rewrite (is_live_same s s1 id); [exact NL | congruence]).
    destruct (firstn batch (skipn from (indexed (log s1) 1))) as [|x page] eqn:Epage; [cbn; auto using ext_mono|].
    pose proof (page_loop_mono (x :: page) s1 id ty (length (log s1)) k inner W1 NL1 (le_n _) (proj1 (proj2 W1) id)) as H.
    cbv zeta in H.
    destruct (page_loop (x :: page) s1 id ty (length (log s1)) k inner) as [s2 k2]. cbn [fst] in H.
    destruct H as (W2 & M2 & Li2 & _).
    destruct (Nat.eqb (length (log s1)) from).
    + cbn [fst]. splits; [exact W2 | exact (mono_trans _ _ _ (ext_mono _ _ E1) M2) | congruence].
    + assert (NL2 : is_live s2 id = false) by (rewrite (is_live_same s s2 id); [exact NL | congruence]).
      specialize (IH s2 id ty (length (log s1)) k2 inner W2 NL2). cbv zeta in IH. destruct IH as (W3 & M3 & Li3).
      splits; [exact W3 | exact (mono_trans _ _ _ (ext_mono _ _ E1) (mono_trans _ _ _ M2 M3)) | congruence].
Qed.

Lemma sub_ds_mono fuel tys s id inner :
  wf s -> is_live s id = false ->
  let r := sub_ds fuel tys s id inner in wf (fst r) /\ mono s (fst r).
Proof.
  intros W NL. unfold sub_ds.
  destruct (tick s) as [[s1 p] f] eqn:Ht.
  destruct (tick_ext _ _ _ _ Ht) as [E1 W1]. specialize (W1 W).
  apply tick_fields in Ht. destruct Ht as (L1 & S1 & La1 & Li1 & _).
  destruct (negb p || f); [cbn; auto using ext_mono|].
  assert (NL1 : is_live s1 id = false) by (rewrite (is_live_same s s1 id); [exact NL | congruence]).
  pose proof (replay_pages_mono fuel s1 id (nth id tys 0) (get_saved s1 id) 0 inner W1 NL1) as H. cbv zeta in H.
  destruct (replay_pages fuel s1 id (nth id tys 0) (get_saved s1 id) 0 inner) as [s3 err]. cbn [fst] in H.
  destruct H as (W3 & M3 & Li3).
  assert (M03 : mono s s3) by (eapply mono_trans; [apply ext_mono; exact E1 | exact M3]).
  destruct (err || dead s3); cbn [fst]; [split; assumption|].
  split; [|eapply mono_trans; [exact M03 | apply ext_mono, with_live_ext]].
  destruct W3 as [W3a [W3b W3c]]. unfold wf, get_saved. cbn. splits; auto.
  rewrite map_app. cbn. apply nodup_snoc; [exact W3c|]. apply not_live_notin. rewrite (is_live_same s s3 id); [exact NL | congruence].
Qed.

Lemma step_ds_mono fuel tys s o pl : wf s -> wf (fst (step_ds fuel tys s o pl)) /\ mono s (fst (step_ds fuel tys s o pl)).
Proof.
  intros W. destruct o as [ty val | id inner |]; cbn [step_ds].
  - destruct (begin_op_ext s pl) as (E0 & W0 & _). specialize (W0 W).
    pose proof (pub_ext (begin_op s pl) ty val W0) as H. cbv zeta in H. destruct H as (W1 & E1 & _).
    cbn [fst]. split; [exact W1 | apply ext_mono; eapply ext_trans; eassumption].
  - destruct (op_ok s (OSub id inner)) eqn:Ok; [|cbn; split; [exact W | apply mono_refl]].
    destruct (begin_op_ext s pl) as (E0 & W0 & Li0). specialize (W0 W).
    cbn [op_ok] in Ok. apply negb_true_iff in Ok.
    assert (NL : is_live (begin_op s pl) id = false) by (rewrite (is_live_same s _ id Li0); exact Ok).
    pose proof (sub_ds_mono fuel tys (begin_op s pl) id inner W0 NL) as H. cbv zeta in H. destruct H as [W1 M1].
    split; [exact W1 | eapply mono_trans; [apply ext_mono; exact E0 | exact M1]].
  - cbn [fst]. destruct (restart_ext s) as [E W']. split; auto using ext_mono.
Qed.

Lemma run_ds_mono fuel tys : forall h s, wf s -> wf (run_ds fuel tys h s) /\ mono s (run_ds fuel tys h s).
Proof.
  induction h as [|[o pl] r IH]; intros s W; cbn [run_ds fold_left].
  - split; [exact W | apply mono_refl].
  - cbn [fst snd]. destruct (step_ds_mono fuel tys s o pl W) as [W1 M1].
    destruct (IH _ W1) as [W2 M2]. unfold run_ds in *. split; [exact W2 | eapply mono_trans; eassumption].
Qed.

(* over every history (any fuel, crash points, failing operations, publishes during replay): the saved offset of a
   subscription never moves backwards, and never points beyond the log *)
Theorem saved_monotone_ds fuel tys h1 h2 id :
  get_saved (run_ds fuel tys h1 init) id <= get_saved (run_ds fuel tys (h1 ++ h2) init) id.
Proof.
  unfold run_ds. rewrite fold_left_app. fold (run_ds fuel tys h1 init).
  destruct (run_ds_mono fuel tys h1 init wf_init) as [W1 _].
  destruct (run_ds_mono fuel tys h2 _ W1) as [_ [_ M]]. apply M.
Qed.

Theorem saved_within_log_ds fuel tys h id :
  get_saved (run_ds fuel tys h init) id <= length (log (run_ds fuel tys h init)).
Proof. destruct (run_ds_mono fuel tys h init wf_init) as [[_ [W _]] _]. apply W. Qed.

(* REFUTED on the faithful model (and reproduced on the real store, suite resubds): three events, the process dies
   during the first SubscribeWithReplay right after the first event has been handled and its offset saved; after the
   restart a clean SubscribeWithReplay delivers nothing: events 2 and 3 are never delivered, the saved position (3)
   covers them *)
Definition h_ds_crash : list (op * plan) :=
  [(OPub 0 1, clean); (OPub 0 2, clean); (OPub 0 3, clean); (OSub 0 [], dying 4); (ORestart, clean); (OSub 0 [], clean)].

Lemma ds_interrupted_replay_loses :
  let s := run_ds 80 [0; 1; 0] h_ds_crash init in
  map e_val (log s) = [1; 2; 3] /\ for_id 0 (dels s) = [1] /\ get_saved s 0 = 3 /\ is_live s 0 = true.
Proof. vm_compute. auto. Qed.

(* the same history without the crash delivers everything once, in order, also when the handler publishes during the
   replay (the next page picks the new event up) *)
Lemma ds_clean_example :
  let s := run_ds 80 [0; 1; 0] [(OPub 0 1, clean); (OPub 1 2, clean); (OPub 0 3, clean); (OSub 0 [(0, 0, 4)], clean);
                                (OPub 0 5, clean); (ORestart, clean); (OSub 0 [], clean)] init in
  map e_val (log s) = [1; 2; 3; 4; 5] /\ rev (for_id 0 (dels s)) = [1; 3; 4; 5] /\ get_saved s 0 = 5.
Proof. vm_compute. auto. Qed.

(* ================================================================== *)
(* No loss, as long as no SubscribeWithReplay is cut short: histories in which publishes may die or fail at any point,
   but every SubscribeWithReplay runs undisturbed (clean plan, no publishes from inside the replay) and the log fits one
   page.  Then everything of a subscription's type at or below its saved position has been delivered to it, and a live
   subscription is up to date - the same invariant as for the other stores (ResubProofs.inv). *)

Lemma page_cov tys id N : forall tl cur s k,
  quiet s -> 1 <= cur -> cur - 1 + length tl = length (log s) ->
  (forall j e, nth_error tl j = Some e -> nth_error (log s) (cur - 1 + j) = Some e) ->
  (forall p, typed tys (log s) id p -> p < cur -> delivered s id p) ->
  let r := page_loop (indexed tl cur) s id (nth id tys 0) N k [] in
  quiet (fst r) /\ grows s (fst r) /\ log (fst r) = log s /\ live (fst r) = live s /\ last (fst r) = last s /\
  (forall i, i <> id -> get_saved (fst r) i = get_saved s i) /\
  (get_saved (fst r) id = get_saved s id \/ get_saved (fst r) id = N) /\
  (forall p, typed tys (log s) id p -> delivered (fst r) id p).
Proof.
  induction tl as [|e tl IH]; intros cur s k Q Hc Hlen Hnth Hb; cbn [indexed page_loop].
  - cbn [fst]. splits; auto using grows_refl. intros p Ht. apply (Hb p Ht). apply typed_bound in Ht. cbn in Hlen. lia.
  - assert (He : nth_error (log s) (cur - 1) = Some e) by (rewrite <- (Nat.add_0_r (cur - 1)); apply Hnth; reflexivity).
    cbn [length] in Hlen.
    assert (Hnth' : forall s', log s' = log s -> forall j e', nth_error tl j = Some e' -> nth_error (log s') (S cur - 1 + j) = Some e').
    { intros s' L' j e' Hj. rewrite L'. replace (S cur - 1 + j) with (cur - 1 + S j) by lia. apply Hnth. exact Hj. }
    destruct (Nat.eqb (e_ty e) (nth id tys 0)) eqn:Ety.
    + apply Nat.eqb_eq in Ety. cbn [inner_at filter map fold_left].
      destruct (deliver_quiet s id (e_val e) cur Q) as [Q2 _].
      pose proof (deliver_fields s id (e_val e) cur) as F2. cbv zeta in F2. destruct F2 as (L2 & S2 & La2 & Li2 & _ & _).
      pose proof (deliver_grows s id (e_val e) cur) as G2.
      pose proof (deliver_delivered s id (e_val e) cur (proj1 Q)) as Hdel.
      set (s2 := deliver s id (e_val e) cur) in *.
      destruct (save_quiet s2 id N Q2) as [Q4 S4].
      pose proof (save_fields s2 id N) as F4. cbv zeta in F4. destruct F4 as (L4 & La4 & Li4 & _ & _ & _).
      pose proof (save_grows s2 id N) as G4.
      set (s4 := save s2 id N) in *.
      assert (Lall : log s4 = log s) by congruence.
      assert (Hb4 : forall p, typed tys (log s4) id p -> p < S cur -> delivered s4 id p).
      { intros p Htp Hp. eapply delivered_mono; [exact G4|]. destruct (Nat.eq_dec p cur) as [->|Hne]; [exact Hdel|].
        eapply delivered_mono; [exact G2|]. apply Hb; [rewrite <- Lall; exact Htp | lia]. }
      assert (Hlen4 : S cur - 1 + length tl = length (log s4)) by (rewrite Lall; lia).
      specialize (IH (S cur) s4 (S k) Q4 (le_S _ _ Hc) Hlen4 (Hnth' s4 Lall) Hb4). cbv zeta in IH.
      destruct IH as (Q5 & G5 & L5 & Li5 & La5 & O5 & Sv5 & Hall).
      assert (Sid : get_saved s4 id = N) by (unfold get_saved; rewrite S4; apply get_set_same).
      splits; auto.
      * eapply grows_trans; [exact G2|]. eapply grows_trans; eassumption.
      * congruence.
      * congruence.
      * congruence.
      * intros i Hi. rewrite (O5 i Hi). unfold get_saved. rewrite S4, get_set_other by exact Hi. rewrite S2. reflexivity.
      * right. destruct Sv5 as [X|X]; rewrite X; [exact Sid | reflexivity].
      * intros p Htp. apply Hall. rewrite Lall. exact Htp.
    + apply Nat.eqb_neq in Ety.
      assert (Hb1 : forall p, typed tys (log s) id p -> p < S cur -> delivered s id p).
      { intros p Htp Hp. destruct (Nat.eq_dec p cur) as [->|Hne].
        - destruct Htp as [e' [_ [Hn He']]]. rewrite He in Hn. inversion Hn; subst e'. contradiction.
        - apply Hb; [exact Htp | lia]. }
      assert (Hlen1 : S cur - 1 + length tl = length (log s)) by lia.
      apply (IH (S cur) s k Q (le_S _ _ Hc) Hlen1 (Hnth' s eq_refl) Hb1).
Qed.

Lemma replay_pages_unfold f s id ty from k inner :
  replay_pages (S f) s id ty from k inner =
  let '(s1, p, fl) := tick s in
  if negb p || fl then (s1, true)
  else
    let N := length (log s1) in
    match firstn batch (skipn from (indexed (log s1) 1)) with
    | [] => (s1, false)
    | page =>
      let '(s2, k2) := page_loop page s1 id ty N k inner in
      if Nat.eqb N from then (s2, true) else replay_pages f s2 id ty N k2 inner
    end.
Proof. reflexivity. Qed.

(* reading at the end of the log: an empty page, the replay is over *)
Lemma pages_end f s id ty k : quiet s ->
  exists s1, replay_pages (S f) s id ty (length (log s)) k [] = (s1, false) /\ quiet s1 /\
    log s1 = log s /\ saved s1 = saved s /\ last s1 = last s /\ live s1 = live s /\ dels s1 = dels s.
Proof.
  intros Q. rewrite replay_pages_unfold. destruct (tick_quiet s Q) as (s1 & Ht & Q1 & L1 & S1 & La1 & Li1 & D1). rewrite Ht.
  cbn [negb orb]. cbv zeta. rewrite skipn_indexed, L1, skipn_all. cbn [indexed]. rewrite firstn_nil. exists s1. splits; auto.
Qed.

Lemma pages_cov tys id f s :
  quiet s -> wf s -> length (log s) <= batch ->
  (forall p, typed tys (log s) id p -> p <= get_saved s id -> delivered s id p) ->
  let r := replay_pages (S (S f)) s id (nth id tys 0) (get_saved s id) 0 [] in
  snd r = false /\ quiet (fst r) /\ grows s (fst r) /\ log (fst r) = log s /\ live (fst r) = live s /\ last (fst r) = last s /\
  (forall i, i <> id -> get_saved (fst r) i = get_saved s i) /\
  (get_saved (fst r) id = get_saved s id \/ get_saved (fst r) id = length (log s)) /\
  (forall p, typed tys (log s) id p -> delivered (fst r) id p).
Proof.
  intros Q W Hb Hc. set (from := get_saved s id).
  assert (Hfrom : from <= length (log s)) by apply (proj1 (proj2 W)).
  rewrite replay_pages_unfold. destruct (tick_quiet s Q) as (s1 & Ht & Q1 & L1 & S1 & La1 & Li1 & D1). rewrite Ht.
  cbn [negb orb]. cbv zeta. rewrite skipn_indexed, L1.
  rewrite firstn_all2 by (assert (X : forall (l : list ev) i, length (indexed l i) = length l)
                             by (induction l as [|x l IHl]; intros i; cbn; [reflexivity | rewrite IHl; reflexivity]);
                           rewrite X, skipn_length; lia).
  assert (G1 : grows s s1) by (exists []; exact D1).
  destruct (skipn from (log s)) as [|e tl] eqn:Esk.
  - (* nothing after the saved position *)
    cbn [indexed fst snd]. splits; auto.
    + intros i _. unfold get_saved. rewrite S1. reflexivity.
    + left. unfold get_saved. rewrite S1. reflexivity.
    + intros p Ht'. eapply delivered_mono; [exact G1|]. apply (Hc p Ht').
      assert (length (skipn from (log s)) = 0) by (rewrite Esk; reflexivity). rewrite skipn_length in H.
      apply typed_bound in Ht'. fold from. lia.
  - assert (Hlt : from < length (log s)).
    { assert (length (skipn from (log s)) = S (length tl)) by (rewrite Esk; reflexivity). rewrite skipn_length in H. lia. }
    assert (Hlen : 1 + from - 1 + length (e :: tl) = length (log s1)).
    { rewrite L1, <- Esk, skipn_length. lia. }
    assert (Hnth : forall j e', nth_error (e :: tl) j = Some e' -> nth_error (log s1) (1 + from - 1 + j) = Some e').
    { intros j e' Hj. rewrite <- Esk, nth_error_skipn' in Hj. rewrite L1. replace (1 + from - 1 + j) with (from + j) by lia. exact Hj. }
    assert (Hb1 : forall p, typed tys (log s1) id p -> p < 1 + from -> delivered s1 id p).
    { intros p Htp Hp. eapply delivered_mono; [exact G1|]. apply Hc; [rewrite <- L1; exact Htp | fold from; lia]. }
    pose proof (page_cov tys id (length (log s)) (e :: tl) (1 + from) s1 0 Q1 (le_n_S _ _ (Nat.le_0_l from)) Hlen Hnth Hb1) as H.
    cbv zeta in H. cbn [indexed] in H |- *.
    destruct (page_loop ((1 + from, e) :: indexed tl (S (1 + from))) s1 id (nth id tys 0) (length (log s)) 0 []) as [s2 k2].
    cbn [fst] in H. destruct H as (Q2 & G2 & L2 & Li2 & La2 & O2 & Sv2 & Hall).
    assert (Ene : Nat.eqb (length (log s)) from = false) by (apply Nat.eqb_neq; lia). rewrite Ene.
    assert (Ll : length (log s) = length (log s2)) by congruence. rewrite Ll.
    destruct (pages_end f s2 id (nth id tys 0) k2 Q2) as (s3 & E3 & Q3 & L3 & S3 & La3 & Li3 & D3). rewrite E3.
    cbn [fst snd]. splits; auto.
    + eapply grows_trans; [exact G1|]. eapply grows_trans; [exact G2|]. exists []. exact D3.
    + congruence.
    + congruence.
    + congruence.
    + intros i Hi. unfold get_saved. rewrite S3. fold (get_saved s2 i). rewrite (O2 i Hi). unfold get_saved. rewrite S1. reflexivity.
    + assert (X3 : get_saved s3 id = get_saved s2 id) by (unfold get_saved; rewrite S3; reflexivity). rewrite X3.
      destruct Sv2 as [X|X]; [left; rewrite X; unfold from, get_saved; rewrite S1; reflexivity | right; rewrite X; exact Ll].
    + intros p Htp. eapply delivered_mono; [exists []; exact D3|]. apply Hall. rewrite L1. exact Htp.
Qed.

Lemma sub_ds_inv tys f s id :
  inv tys s -> quiet s -> is_live s id = false -> length (log s) <= batch ->
  inv tys (fst (sub_ds (S (S f)) tys s id [])).
Proof.
  intros (W & C & LC) Q NL Hb.
  pose proof (sub_ds_mono (S (S f)) tys s id [] W NL) as SE. cbv zeta in SE. destruct SE as [W' _].
  split; [exact W'|]. clear W'. unfold sub_ds.
  destruct (tick_quiet s Q) as (s1 & Ht & Q1 & L1 & S1 & La1 & Li1 & D1). rewrite Ht. cbn [negb orb].
  assert (W1 : wf s1) by (apply (wf_same s s1); assumption).
  assert (G1 : grows s s1) by (exists []; exact D1).
  assert (Hc : forall p, typed tys (log s1) id p -> p <= get_saved s1 id -> delivered s1 id p).
  { intros p Htp Hp. eapply delivered_mono; [exact G1|]. apply C; [rewrite <- L1; exact Htp | unfold get_saved in *; rewrite <- S1; exact Hp]. }
  pose proof (pages_cov tys id f s1 Q1 W1 ltac:(rewrite L1; exact Hb) Hc) as H. cbv zeta in H.
  destruct (replay_pages (S (S f)) s1 id (nth id tys 0) (get_saved s1 id) 0 []) as [s3 err].
  cbn [fst snd] in H. destruct H as (Er & Q3 & G3 & L3 & Li3 & La3 & O3 & Sv3 & Hall). subst err.
  rewrite (proj1 Q3). cbn [orb fst]. split.
  - intros i q Hq Hle. cbn [log with_live] in Hq. unfold get_saved in Hle. cbn [saved with_live] in Hle. fold (get_saved s3 i) in Hle.
    assert (Hd : delivered s3 i q).
    { destruct (Nat.eq_dec i id) as [->|Hne].
      - apply Hall. rewrite <- L3. exact Hq.
      - rewrite (O3 i Hne) in Hle. eapply delivered_mono; [exact (grows_trans _ _ _ G1 G3)|].
        apply C; [rewrite <- L1, <- L3; exact Hq | unfold get_saved in *; rewrite <- S1; exact Hle]. }
    destruct Hd as [d Hd]. exists d. exact Hd.
  - intros _ i t Hin. cbn [live with_live] in Hin. apply in_app_or in Hin. destruct Hin as [Hin | [Heq | []]].
    + rewrite Li3, Li1 in Hin. destruct (LC (proj1 Q) i t Hin) as [X1 X2]. split; [exact X1|].
      intros q Hq. cbn [log with_live] in Hq.
      destruct (X2 q) as [d Hd]; [rewrite <- L1, <- L3; exact Hq|].
      destruct (delivered_mono s s3 i q (grows_trans _ _ _ G1 G3) (ex_intro _ d Hd)) as [d' Hd']. exists d'. exact Hd'.
    + inversion Heq; subst i t. split; [reflexivity|]. intros q Hq. cbn [log with_live] in Hq.
      destruct (Hall q) as [d Hd]; [rewrite <- L3; exact Hq | exists d; exact Hd].
Qed.

(* a dead process does nothing *)
Lemma sub_ds_dead fuel tys s id inner : dead s = true -> fst (sub_ds fuel tys s id inner) = s.
Proof.
  intros D. unfold sub_ds. destruct (tick s) as [[s1 p] f] eqn:Ht. apply tick_fields in Ht.
  destruct Ht as (_ & _ & _ & _ & _ & P & Dd & _). rewrite D in P. cbn in P. subst p. cbn [negb orb fst]. apply Dd. exact D.
Qed.

Definition sub_clean (x : op * plan) : Prop :=
  match fst x with OSub _ inner => inner = [] /\ snd x = clean | _ => True end.
Definition subs_clean (h : list (op * plan)) : Prop := Forall sub_clean h.

Lemma step_ds_inv tys f s o pl :
  sub_clean (o, pl) -> length (log s) <= batch -> inv tys s -> inv tys (fst (step_ds (S (S f)) tys s o pl)).
Proof.
  intros Hc Hb I. destruct o as [ty val | id inner |]; cbn [step_ds].
  - cbn [fst]. apply pub_inv. apply begin_op_inv. exact I.
  - unfold sub_clean in Hc. cbn [fst snd] in Hc. destruct Hc as [-> ->]. destruct (op_ok s (OSub id [])) eqn:Ok; [|exact I].
    cbn [op_ok] in Ok. apply negb_true_iff in Ok.
    destruct (dead s) eqn:Ds.
    + rewrite sub_ds_dead by (cbn; rewrite Ds; reflexivity). apply begin_op_inv. exact I.
    + apply sub_ds_inv; [apply begin_op_inv; exact I | unfold quiet; cbn; rewrite Ds; auto | exact Ok | exact Hb].
  - cbn [fst]. destruct I as (W & C & LC). destruct (restart_ext s) as [_ W']. split; [apply W'; exact W|]. split.
    + apply (covered_mono tys s (restart s)); [reflexivity | reflexivity | exists []; reflexivity | exact C].
    + intros _ id ty [].
Qed.

Lemma run_ds_inv tys f : forall h s,
  subs_clean h -> length (log (run_ds (S (S f)) tys h s)) <= batch -> inv tys s -> inv tys (run_ds (S (S f)) tys h s).
Proof.
  induction h as [|[o pl] r IH]; intros s Hc Hb I; cbn [run_ds fold_left]; [exact I|].
  inversion Hc; subst. cbn [fst snd] in *.
  set (s1 := fst (step_ds (S (S f)) tys s o pl)) in *.
  assert (W : wf s) by apply I.
  destruct (step_ds_mono (S (S f)) tys s o pl W) as [W1 M1]. fold s1 in W1, M1.
  destruct (run_ds_mono (S (S f)) tys r s1 W1) as [_ M2].
  assert (Hbs : length (log s) <= batch).
  { apply mono_len in M1. apply mono_len in M2. unfold run_ds in Hb, M2. cbn [fold_left fst snd] in Hb. fold s1 in Hb. lia. }
  apply IH; [assumption | exact Hb | apply step_ds_inv; assumption].
Qed.

Theorem nothing_lost_ds tys f h :
  subs_clean h -> length (log (run_ds (S (S f)) tys h init)) <= batch ->
  covered tys (run_ds (S (S f)) tys h init) /\ live_cov tys (run_ds (S (S f)) tys h init).
Proof. intros Hc Hb. destruct (run_ds_inv tys f h init Hc Hb (inv_init tys)) as (_ & C & LC). split; assumption. Qed.


Lemma sub_ds_live tys f s id :
  inv tys s -> quiet s -> is_live s id = false -> length (log s) <= batch ->
  dead (fst (sub_ds (S (S f)) tys s id [])) = false /\ In (id, nth id tys 0) (live (fst (sub_ds (S (S f)) tys s id []))).
Proof.
  intros (W & C & LC) Q NL Hb. unfold sub_ds.
  destruct (tick_quiet s Q) as (s1 & Ht & Q1 & L1 & S1 & La1 & Li1 & D1). rewrite Ht. cbn [negb orb].
  assert (W1 : wf s1) by (apply (wf_same s s1); assumption).
  assert (G1 : grows s s1) by (exists []; exact D1).
  assert (Hc : forall p, typed tys (log s1) id p -> p <= get_saved s1 id -> delivered s1 id p).
  { intros p Htp Hp. eapply delivered_mono; [exact G1|]. apply C; [rewrite <- L1; exact Htp | unfold get_saved in *; rewrite <- S1; exact Hp]. }
  pose proof (pages_cov tys id f s1 Q1 W1 ltac:(rewrite L1; exact Hb) Hc) as H. cbv zeta in H.
  destruct (replay_pages (S (S f)) s1 id (nth id tys 0) (get_saved s1 id) 0 []) as [s3 err].
  cbn [fst snd] in H. destruct H as (Er & Q3 & _). subst err.
  rewrite (proj1 Q3). cbn [orb fst]. split; [cbn; exact (proj1 Q3) | cbn [live with_live]; apply in_or_app; right; left; reflexivity].
Qed.

(* ... and after a clean restart and an undisturbed SubscribeWithReplay the subscription has been delivered every persisted
   event of its type *)
Theorem caught_up_after_resubscribe_ds tys f h id :
  subs_clean h ->
  let s := run_ds (S (S f)) tys (h ++ [(ORestart, clean); (OSub id [], clean)]) init in
  length (log s) <= batch -> forall p, typed tys (log s) id p -> delivered s id p.
Proof.
  intros Hc s Hb.
  assert (Hc' : subs_clean (h ++ [(ORestart, clean); (OSub id [], clean)])).
  { apply Forall_app. split; [exact Hc|]. repeat constructor. }
  destruct (run_ds_inv tys f _ init Hc' Hb (inv_init tys)) as (_ & _ & LC). fold s in LC.
  set (s0 := run_ds (S (S f)) tys h init).
  assert (W0 : wf s0) by (apply (run_ds_mono (S (S f)) tys h init wf_init)).
  assert (Es : s = fst (sub_ds (S (S f)) tys (begin_op (restart s0) clean) id [])).
  { unfold s, run_ds. rewrite fold_left_app. fold (run_ds (S (S f)) tys h init). fold s0. reflexivity. }
  assert (M : mono s0 s).
  { unfold s, run_ds. rewrite fold_left_app. fold (run_ds (S (S f)) tys h init). fold s0.
    apply (run_ds_mono (S (S f)) tys [(ORestart, clean); (OSub id [], clean)] s0 W0). }
  assert (Hb0 : length (log s0) <= batch) by (apply mono_len in M; lia).
  assert (I0 : inv tys s0) by (apply (run_ds_inv tys f h init Hc Hb0 (inv_init tys))).
  assert (I1 : inv tys (begin_op (restart s0) clean)).
  { apply begin_op_inv. destruct I0 as (W & C & _). destruct (restart_ext s0) as [_ W']. split; [apply W'; exact W|]. split.
    - apply (covered_mono tys s0 (restart s0)); [reflexivity | reflexivity | exists []; reflexivity | exact C].
    - intros _ i t []. }
  assert (Q : quiet (begin_op (restart s0) clean)) by (unfold quiet; cbn; auto).
  destruct (sub_ds_live tys f _ id I1 Q eq_refl Hb0) as [D Hin]. rewrite <- Es in D, Hin.
  intros p Hp. exact (proj2 (LC D id _ Hin) p Hp).
Qed.

(* ================================================================== *)
(* Exactly once and in log order when nothing goes wrong (clean plans, no publishes from inside a replay, the log fits
   one page): the invariant K of ResubProofs holds between the operations here too; inside a page the saved position runs
   ahead of the deliveries, so the loop carries "everything delivered to the subscription so far lies below the cursor". *)

Lemma deliver_saveN_K tys s id val pos N :
  K tys s -> (forall p, In p (for_id id (dels s)) -> p < pos) -> pos <= N -> N <= length (log s) ->
  get_saved s id <= N -> typed tys (log s) id pos ->
  let s' := save (deliver s id val pos) id N in
  K tys s' /\ log s' = log s /\ last s' = last s /\ live s' = live s /\ get_saved s' id = N /\
  (forall i, i <> id -> get_saved s' i = get_saved s i) /\
  dels s' = {| d_id := id; d_val := val; d_pos := pos; d_sv := get_saved s id |} :: dels s.
Proof.
  intros [Q W Cv Ds Ty Lv] Hlt HpN HN Hs Ht.
  destruct (deliver_quiet s id val pos Q) as [Q1 D1].
  pose proof (deliver_fields s id val pos) as F1. cbv zeta in F1. destruct F1 as (L1 & S1 & La1 & Li1 & _ & _).
  pose proof (deliver_wf s id val pos W) as W1.
  set (s1 := deliver s id val pos) in *.
  destruct (save_quiet s1 id N Q1) as [Q2 S2].
  pose proof (save_fields s1 id N) as F2. cbv zeta in F2. destruct F2 as (L2 & La2 & Li2 & D2 & _ & _).
  assert (W2 : wf (save s1 id N)) by (apply save_wf; [rewrite L1; exact HN | exact W1]).
  set (s2 := save s1 id N) in *.
  assert (Gid : get_saved s2 id = N) by (unfold get_saved; rewrite S2; apply get_set_same).
  assert (Go : forall i, i <> id -> get_saved s2 i = get_saved s i).
  { intros i Hne. unfold get_saved. rewrite S2, get_set_other by exact Hne. rewrite S1. reflexivity. }
  split; [|splits; try congruence; auto]. constructor; auto.
  - intros d Hin. rewrite D2, D1 in Hin. destruct Hin as [<- | Hin]; cbn [d_pos d_id]; [rewrite Gid; lia|].
    destruct (Nat.eq_dec (d_id d) id) as [E|Hne]; [rewrite E, Gid; specialize (Cv d Hin); rewrite E in Cv; lia | rewrite Go by exact Hne; apply Cv; exact Hin].
  - intros i. rewrite D2, D1. destruct (Nat.eq_dec id i) as [<-|Hne].
    + rewrite for_id_cons_same by reflexivity. cbn [d_pos]. constructor; [apply Ds|].
      apply Forall_forall. intros p Hp. specialize (Hlt p Hp). unfold gt. lia.
    + rewrite for_id_cons_other by exact Hne. apply Ds.
  - intros d Hin. rewrite D2, D1 in Hin. rewrite L2, L1. destruct Hin as [<- | Hin]; [exact Ht | apply Ty; exact Hin].
  - intros i t Hin. rewrite Li2, Li1 in Hin. apply (Lv i t Hin).
Qed.

Lemma page_K tys id N : forall tl cur s k,
  K tys s -> 1 <= cur -> cur - 1 + length tl = length (log s) -> N = length (log s) ->
  (forall j e, nth_error tl j = Some e -> nth_error (log s) (cur - 1 + j) = Some e) ->
  (forall p, In p (for_id id (dels s)) -> p < cur) -> get_saved s id <= N ->
  let r := page_loop (indexed tl cur) s id (nth id tys 0) N k [] in
  K tys (fst r) /\ log (fst r) = log s /\ live (fst r) = live s.
Proof.
  induction tl as [|e tl IH]; intros cur s k Ks Hc Hlen HN Hnth Hlt Hs; cbn [indexed page_loop]; [cbn; auto|].
  assert (He : nth_error (log s) (cur - 1) = Some e) by (rewrite <- (Nat.add_0_r (cur - 1)); apply Hnth; reflexivity).
  cbn [length] in Hlen.
  assert (Hnth' : forall s', log s' = log s -> forall j e', nth_error tl j = Some e' -> nth_error (log s') (S cur - 1 + j) = Some e').
  { intros s' L' j e' Hj. rewrite L'. replace (S cur - 1 + j) with (cur - 1 + S j) by lia. apply Hnth. exact Hj. }
  destruct (Nat.eqb (e_ty e) (nth id tys 0)) eqn:Ety.
  - apply Nat.eqb_eq in Ety. cbn [inner_at filter map fold_left].
    assert (Ht : typed tys (log s) id cur) by (exists e; splits; [lia | exact He | exact Ety]).
    pose proof (deliver_saveN_K tys s id (e_val e) cur N Ks Hlt ltac:(lia) ltac:(lia) Hs Ht) as H. cbv zeta in H.
    destruct H as (K4 & L4 & La4 & Li4 & G4 & O4 & D4).
    set (s4 := save (deliver s id (e_val e) cur) id N) in *.
    assert (Hlt4 : forall p, In p (for_id id (dels s4)) -> p < S cur).
    { intros p Hp. rewrite D4, for_id_cons_same in Hp by reflexivity. destruct Hp as [<-|Hp]; [cbn; lia | specialize (Hlt p Hp); lia]. }
    specialize (IH (S cur) s4 (S k) K4 (le_S _ _ Hc) ltac:(rewrite L4; lia) ltac:(rewrite L4; exact HN) (Hnth' s4 L4) Hlt4 ltac:(rewrite G4; lia)).
    cbv zeta in IH. destruct IH as (K5 & L5 & Li5). splits; congruence.
  - assert (Hlt1 : forall p, In p (for_id id (dels s)) -> p < S cur) by (intros p Hp; specialize (Hlt p Hp); lia).
    apply (IH (S cur) s k Ks (le_S _ _ Hc) ltac:(lia) HN (Hnth' s eq_refl) Hlt1 Hs).
Qed.

Lemma tick_K tys s s1 : K tys s -> tick s = (s1, true, false) -> quiet s1 ->
  log s1 = log s -> saved s1 = saved s -> last s1 = last s -> live s1 = live s -> dels s1 = dels s -> K tys s1.
Proof.
  intros [Q W Cv Ds Ty Lv] _ Q1 L1 S1 La1 Li1 D1. constructor; auto.
  - eapply wf_same; eassumption.
  - intros d Hin. rewrite D1 in Hin. unfold get_saved. rewrite S1. apply Cv. exact Hin.
  - intros i. rewrite D1. apply Ds.
  - intros d Hin. rewrite D1 in Hin. rewrite L1. apply Ty. exact Hin.
  - intros i t Hin. rewrite Li1 in Hin. apply (Lv i t Hin).
Qed.

Lemma pages_K tys id f s :
  K tys s -> length (log s) <= batch ->
  let r := replay_pages (S (S f)) s id (nth id tys 0) (get_saved s id) 0 [] in
  snd r = false /\ K tys (fst r) /\ log (fst r) = log s /\ live (fst r) = live s.
Proof.
  intros Ks Hb. pose proof Ks as [Q W Cv Ds Ty Lv]. set (from := get_saved s id).
  assert (Hfrom : from <= length (log s)) by apply (proj1 (proj2 W)).
  rewrite replay_pages_unfold. destruct (tick_quiet s Q) as (s1 & Ht & Q1 & L1 & S1 & La1 & Li1 & D1). rewrite Ht.
  cbn [negb orb]. cbv zeta. rewrite skipn_indexed, L1.
  rewrite firstn_all2 by (assert (X : forall (l : list ev) i, length (indexed l i) = length l)
                             by (induction l as [|x l IHl]; intros i; cbn; [reflexivity | rewrite IHl; reflexivity]);
                           rewrite X, skipn_length; lia).
  pose proof (tick_K tys s s1 Ks Ht Q1 L1 S1 La1 Li1 D1) as K1.
  destruct (skipn from (log s)) as [|e tl] eqn:Esk.
  - cbn [indexed fst snd]. splits; auto.
  - assert (Hlt : from < length (log s)).
    { assert (length (skipn from (log s)) = S (length tl)) by (rewrite Esk; reflexivity). rewrite skipn_length in H. lia. }
    assert (Hlen : 1 + from - 1 + length (e :: tl) = length (log s1)).
    { rewrite L1, <- Esk, skipn_length. lia. }
    assert (Hnth : forall j e', nth_error (e :: tl) j = Some e' -> nth_error (log s1) (1 + from - 1 + j) = Some e').
    { intros j e' Hj. rewrite <- Esk, nth_error_skipn' in Hj. rewrite L1. replace (1 + from - 1 + j) with (from + j) by lia. exact Hj. }
    assert (Hbelow : forall p, In p (for_id id (dels s1)) -> p < 1 + from).
    { intros p Hp. rewrite D1 in Hp. apply for_id_in in Hp. destruct Hp as [d [Hin [Hid Hp]]]. specialize (Cv d Hin). rewrite Hid in Cv. fold from in Cv. lia. }
    assert (Hs1 : get_saved s1 id <= length (log s)) by (unfold get_saved; rewrite S1; exact Hfrom).
    pose proof (page_K tys id (length (log s)) (e :: tl) (1 + from) s1 0 K1 (le_n_S _ _ (Nat.le_0_l from)) Hlen (f_equal (@length ev) (eq_sym L1)) Hnth Hbelow Hs1) as H.
    cbv zeta in H. cbn [indexed] in H |- *.
    destruct (page_loop ((1 + from, e) :: indexed tl (S (1 + from))) s1 id (nth id tys 0) (length (log s)) 0 []) as [s2 k2].
    cbn [fst] in H. destruct H as (K2 & L2 & Li2).
    assert (Ene : Nat.eqb (length (log s)) from = false) by (apply Nat.eqb_neq; lia). rewrite Ene.
    assert (Ll : length (log s) = length (log s2)) by congruence. rewrite Ll.
    destruct (pages_end f s2 id (nth id tys 0) k2 (K_quiet _ _ K2)) as (s3 & E3 & Q3 & L3 & S3 & La3 & Li3 & D3). rewrite E3.
    cbn [fst snd]. splits; [reflexivity | | congruence | congruence].
    destruct K2 as [Q2 W2 Cv2 Ds2 Ty2 Lv2]. constructor; auto.
    + apply (wf_same s2 s3); assumption.
    + intros d Hin. rewrite D3 in Hin. unfold get_saved. rewrite S3. apply Cv2. exact Hin.
    + intros i. rewrite D3. apply Ds2.
    + intros d Hin. rewrite D3 in Hin. rewrite L3. apply Ty2. exact Hin.
    + intros i t Hin. rewrite Li3 in Hin. apply (Lv2 i t Hin).
Qed.

Lemma sub_ds_K tys f s id :
  K tys s -> is_live s id = false -> length (log s) <= batch -> K tys (fst (sub_ds (S (S f)) tys s id [])).
Proof.
  intros Ks NL Hb. pose proof Ks as [Q W Cv Ds Ty Lv]. unfold sub_ds.
  destruct (tick_quiet s Q) as (s1 & Ht & Q1 & L1 & S1 & La1 & Li1 & D1). rewrite Ht. cbn [negb orb].
  pose proof (tick_K tys s s1 Ks Ht Q1 L1 S1 La1 Li1 D1) as K1.
  pose proof (pages_K tys id f s1 K1 ltac:(rewrite L1; exact Hb)) as H. cbv zeta in H.
  destruct (replay_pages (S (S f)) s1 id (nth id tys 0) (get_saved s1 id) 0 []) as [s3 err].
  cbn [fst snd] in H. destruct H as (Er & K3 & L3 & Li3). subst err.
  rewrite (proj1 (K_quiet _ _ K3)). cbn [orb fst].
  destruct K3 as [Q3 W3 Cv3 Ds3 Ty3 Lv3]. constructor; auto.
  - destruct W3 as [W3a [W3b W3c]]. unfold wf, get_saved. cbn. splits; auto.
    rewrite map_app. cbn. apply nodup_snoc; [exact W3c|]. apply not_live_notin. rewrite (is_live_same s s3 id); [exact NL | congruence].
  - intros i t Hin. cbn [live with_live] in Hin. apply in_app_or in Hin. destruct Hin as [Hin | [Heq | []]]; [apply (Lv3 i t Hin) | inversion Heq; reflexivity].
Qed.

Lemma step_ds_K tys f s o :
  op_inner_free o -> length (log s) <= batch -> K tys s -> K tys (fst (step_ds (S (S f)) tys s o clean)).
Proof.
  intros Hif Hb Ks. destruct o as [ty val | id inner |]; cbn [step_ds].
  - cbn [fst]. apply pub_K. apply begin_clean_K. exact Ks.
  - cbn in Hif. subst inner. destruct (op_ok s (OSub id [])) eqn:Ok; [|exact Ks].
    cbn [op_ok] in Ok. apply negb_true_iff in Ok. apply sub_ds_K; [apply begin_clean_K; exact Ks | exact Ok | exact Hb].
  - cbn [fst]. destruct Ks as [Q W Cv Ds Ty Lv]. destruct (restart_ext s) as [_ W']. constructor; auto.
    + unfold quiet. cbn. auto.
    + intros id t [].
Qed.

Lemma run_ds_K tys f : forall h s,
  clean_hist h -> length (log (run_ds (S (S f)) tys h s)) <= batch -> K tys s -> K tys (run_ds (S (S f)) tys h s).
Proof.
  induction h as [|[o pl] r IH]; intros s Hc Hb Ks; cbn [run_ds fold_left]; [exact Ks|].
  inversion Hc as [|? ? [Hpl Hif] Hc']; subst. cbn [fst snd] in *. subst pl.
  set (s1 := fst (step_ds (S (S f)) tys s o clean)) in *.
  assert (W : wf s) by apply Ks.
  destruct (step_ds_mono (S (S f)) tys s o clean W) as [W1 M1]. fold s1 in W1, M1.
  destruct (run_ds_mono (S (S f)) tys r s1 W1) as [_ M2].
  assert (Hbs : length (log s) <= batch).
  { apply mono_len in M1. apply mono_len in M2. unfold run_ds in Hb, M2. cbn [fold_left fst snd] in Hb. fold s1 in Hb. lia. }
  apply IH; [exact Hc' | exact Hb | apply step_ds_K; assumption].
Qed.

(* exactly once, in log order, over the durable-streams store: over any history of publishes, SubscribeWithReplay calls
   and restarts in which nothing fails (and the log fits one page), the positions delivered to a subscription are
   strictly increasing over the whole history, each is an event of the subscribed type, and each is covered by the
   saved position *)
Theorem exactly_once_in_order_ds tys f h id :
  clean_hist h ->
  let s := run_ds (S (S f)) tys h init in
  length (log s) <= batch ->
  StronglySorted gt (for_id id (dels s)) /\
  (forall d, In d (dels s) -> typed tys (log s) (d_id d) (d_pos d)) /\
  (forall d, In d (dels s) -> d_pos d <= get_saved s (d_id d)).
Proof. intros Hc s Hb. destruct (run_ds_K tys f h init Hc Hb (K_init tys)) as [_ _ Cv Ds Ty _]. splits; auto. Qed.

Lemma clean_subs_clean h : clean_hist h -> subs_clean h.
Proof.
  intros H. eapply Forall_impl; [|exact H]. intros [o pl] [Hpl Hif]. unfold sub_clean. cbn [fst snd] in *.
  destruct o; auto.
Qed.

Theorem exactly_once_complete_ds tys f h id :
  clean_hist h ->
  let s := run_ds (S (S f)) tys (h ++ [(ORestart, clean); (OSub id [], clean)]) init in
  length (log s) <= batch ->
  NoDup (for_id id (dels s)) /\ forall p, typed tys (log s) id p <-> In p (for_id id (dels s)).
Proof.
  intros Hc s Hb.
  assert (Hc' : clean_hist (h ++ [(ORestart, clean); (OSub id [], clean)])).
  { apply Forall_app. split; [exact Hc|]. repeat constructor. }
  destruct (run_ds_K tys f _ init Hc' Hb (K_init tys)) as [_ _ _ Ds Ty _]. fold s in Ds, Ty.
  split; [apply desc_nodup; apply Ds|]. intros p. split.
  - intros Ht. destruct (caught_up_after_resubscribe_ds tys f h id (clean_subs_clean h Hc) Hb p Ht) as [d [Hin [Hid Hp]]].
    unfold for_id. apply in_map_iff. exists d. split; [exact Hp|]. apply filter_In. split; [exact Hin | apply Nat.eqb_eq; exact Hid].
  - intros Hin. apply for_id_in in Hin. destruct Hin as [d [Hin [Hid Hp]]]. subst. apply Ty. exact Hin.
Qed.
