(* C12 over the durable-streams store (model Store/ResubDs.v): what survives, and what does not.
   Survives, over every history with crash points and failing store operations: the saved offset of a subscription
   never moves backwards, saved positions stay within the log.
   Does not: "no event is lost when the process dies" - the replay saves a position that covers the whole page after
   the first handled event (witness below); nor "a delivery happens only while the saved position is below it" (the
   rest of a page is delivered while the saved position already covers it). *)
From Coq Require Import List Arith Bool Lia.
Import ListNotations.
From Ebu Require Import Store.ResubModel Store.ResubProofs Store.ResubDs.

Definition mono (s s' : rs) : Prop :=
  (exists more, log s' = log s ++ more) /\ (forall id, get_saved s id <= get_saved s' id).

Lemma mono_refl s : mono s s.
Proof. split; [exists []; rewrite app_nil_r; reflexivity | auto]. Qed.
Lemma mono_trans a b c : mono a b -> mono b c -> mono a c.
Proof.
  intros [[m1 L1] S1] [[m2 L2] S2]. split.
  - exists (m1 ++ m2). rewrite L2, L1, app_assoc. reflexivity.
  - intros id. specialize (S1 id). specialize (S2 id). lia.
Qed.
Lemma ext_mono s s' : ext s s' -> mono s s'.
Proof. intros [L S _]. split; assumption. Qed.
Lemma mono_len s s' : mono s s' -> length (log s) <= length (log s').
Proof. intros [[m L] _]. rewrite L, app_length. lia. Qed.

Lemma deliver_mono s id val pos : mono s (deliver s id val pos).
Proof.
  pose proof (deliver_fields s id val pos) as H. cbv zeta in H. destruct H as (L & S & _).
  split; [exists []; rewrite app_nil_r; exact L | intros i; unfold get_saved; rewrite S; lia].
Qed.

(* one page *)
Lemma page_loop_mono : forall page s id ty N k inner,
  wf s -> is_live s id = false -> N <= length (log s) -> get_saved s id <= N ->
  let r := page_loop page s id ty N k inner in
  wf (fst r) /\ mono s (fst r) /\ live (fst r) = live s /\ get_saved (fst r) id <= N.
Proof.
  induction page as [|[pos e] page IH]; intros s id ty N k inner W NL HN Hs; cbn [page_loop].
  - cbn. splits; auto using mono_refl.
  - destruct (Nat.eqb (e_ty e) ty).
    + set (s2 := deliver s id (e_val e) pos).
      pose proof (deliver_fields s id (e_val e) pos) as F2. cbv zeta in F2. fold s2 in F2.
      destruct F2 as (L2 & S2 & La2 & Li2 & _).
      pose proof (deliver_wf s id (e_val e) pos W) as W2. fold s2 in W2.
      pose proof (deliver_mono s id (e_val e) pos) as M2. fold s2 in M2.
      pose proof (pubs_ext (inner_at inner k) s2 W2) as F3. cbv zeta in F3.
      set (s3 := fold_left (fun acc tv => pub fixed acc (fst tv) (snd tv)) (inner_at inner k) s2) in *.
      destruct F3 as (W3 & E3 & Li3 & _ & O3).
      assert (NL2 : is_live s2 id = false) by (rewrite (is_live_same s s2 id); [exact NL | congruence]).
      assert (Hs3 : get_saved s3 id <= N) by (rewrite (O3 id NL2); unfold get_saved; rewrite S2; exact Hs).
      assert (HN3 : N <= length (log s3)) by (apply ext_len in E3; rewrite L2 in E3; lia).
      set (s4 := save s3 id N).
      pose proof (save_fields s3 id N) as F4. cbv zeta in F4. fold s4 in F4. destruct F4 as (L4 & La4 & Li4 & _).
      pose proof (save_wf s3 id N HN3 W3) as W4. fold s4 in W4.
      pose proof (save_ext s3 id N Hs3) as E4. fold s4 in E4.
      assert (Hs4 : get_saved s4 id <= N).
      { destruct (save_saved_same s3 id N) as [X | [_ X]]; fold s4 in X; rewrite X; lia. }
      assert (NL4 : is_live s4 id = false) by (rewrite (is_live_same s s4 id); [exact NL | congruence]).
      assert (HN4 : N <= length (log s4)) by (rewrite L4; exact HN3).
      specialize (IH s4 id ty N (S k) inner W4 NL4 HN4 Hs4). cbv zeta in IH. destruct IH as (W5 & M5 & Li5 & Hs5).
      splits; auto.
      * exact (mono_trans _ _ _ M2 (mono_trans _ _ _ (ext_mono _ _ E3) (mono_trans _ _ _ (ext_mono _ _ E4) M5))).
      * congruence.
    + apply IH; assumption.
Qed.

(* the paging loop *)
Lemma replay_pages_mono : forall fuel s id ty from k inner,
  wf s -> is_live s id = false ->
  let r := replay_pages fuel s id ty from k inner in
  wf (fst r) /\ mono s (fst r) /\ live (fst r) = live s.
Proof.
  induction fuel as [|fuel IH]; intros s id ty from k inner W NL; cbn [replay_pages].
  - cbn. auto using mono_refl.
  - destruct (tick s) as [[s1 p] fl] eqn:Ht.
    destruct (tick_ext _ _ _ _ Ht) as [E1 W1]. specialize (W1 W).
    apply tick_fields in Ht. destruct Ht as (L1 & S1 & La1 & Li1 & _).
    destruct (negb p || fl); [cbn; auto using ext_mono|].
    assert (NL1 : is_live s1 id = false) by (rewrite (is_live_same s s1 id); [exact NL | congruence]).
    destruct (firstn batch (skipn from (indexed (log s1) 1))) as [|x page] eqn:Epage; [cbn; auto using ext_mono|].
    pose proof (page_loop_mono (x :: page) s1 id ty (length (log s1)) k inner W1 NL1 (le_n _) (proj1 (proj2 W1) id)) as H.
    cbv zeta in H.
    destruct (page_loop (x :: page) s1 id ty (length (log s1)) k inner) as [s2 k2]. cbn [fst] in H.
    destruct H as (W2 & M2 & Li2 & _).
    destruct (Nat.eqb (length (log s1)) from).
    + cbn [fst]. splits; [exact W2 | exact (mono_trans _ _ _ (ext_mono _ _ E1) M2) | congruence].
    + assert (NL2 : is_live s2 id = false) by (rewrite (is_live_same s s2 id); [exact NL | congruence]).
      specialize (IH s2 id ty (length (log s1)) k2 inner W2 NL2). cbv zeta in IH. destruct IH as (W3 & M3 & Li3).
      splits; [exact W3 | exact (mono_trans _ _ _ (ext_mono _ _ E1) (mono_trans _ _ _ M2 M3)) | congruence].
Qed.

Lemma sub_ds_mono fuel tys s id inner :
  wf s -> is_live s id = false ->
  let r := sub_ds fuel tys s id inner in wf (fst r) /\ mono s (fst r).
Proof.
  intros W NL. unfold sub_ds.
  destruct (tick s) as [[s1 p] f] eqn:Ht.
  destruct (tick_ext _ _ _ _ Ht) as [E1 W1]. specialize (W1 W).
  apply tick_fields in Ht. destruct Ht as (L1 & S1 & La1 & Li1 & _).
  destruct (negb p || f); [cbn; auto using ext_mono|].
  assert (NL1 : is_live s1 id = false) by (rewrite (is_live_same s s1 id); [exact NL | congruence]).
  pose proof (replay_pages_mono fuel s1 id (nth id tys 0) (get_saved s1 id) 0 inner W1 NL1) as H. cbv zeta in H.
  destruct (replay_pages fuel s1 id (nth id tys 0) (get_saved s1 id) 0 inner) as [s3 err]. cbn [fst] in H.
  destruct H as (W3 & M3 & Li3).
  assert (M03 : mono s s3) by (eapply mono_trans; [apply ext_mono; exact E1 | exact M3]).
  destruct (err || dead s3); cbn [fst]; [split; assumption|].
  split; [|eapply mono_trans; [exact M03 | apply ext_mono, with_live_ext]].
  destruct W3 as [W3a [W3b W3c]]. unfold wf, get_saved. cbn. splits; auto.
  rewrite map_app. cbn. apply nodup_snoc; [exact W3c|]. apply not_live_notin. rewrite (is_live_same s s3 id); [exact NL | congruence].
Qed.

Lemma step_ds_mono fuel tys s o pl : wf s -> wf (fst (step_ds fuel tys s o pl)) /\ mono s (fst (step_ds fuel tys s o pl)).
Proof.
  intros W. destruct o as [ty val | id inner |]; cbn [step_ds].
  - destruct (begin_op_ext s pl) as (E0 & W0 & _). specialize (W0 W).
    pose proof (pub_ext (begin_op s pl) ty val W0) as H. cbv zeta in H. destruct H as (W1 & E1 & _).
    cbn [fst]. split; [exact W1 | apply ext_mono; eapply ext_trans; eassumption].
  - destruct (op_ok s (OSub id inner)) eqn:Ok; [|cbn; split; [exact W | apply mono_refl]].
    destruct (begin_op_ext s pl) as (E0 & W0 & Li0). specialize (W0 W).
    cbn [op_ok] in Ok. apply negb_true_iff in Ok.
    assert (NL : is_live (begin_op s pl) id = false) by (rewrite (is_live_same s _ id Li0); exact Ok).
    pose proof (sub_ds_mono fuel tys (begin_op s pl) id inner W0 NL) as H. cbv zeta in H. destruct H as [W1 M1].
    split; [exact W1 | eapply mono_trans; [apply ext_mono; exact E0 | exact M1]].
  - cbn [fst]. destruct (restart_ext s) as [E W']. split; auto using ext_mono.
Qed.

Lemma run_ds_mono fuel tys : forall h s, wf s -> wf (run_ds fuel tys h s) /\ mono s (run_ds fuel tys h s).
Proof.
  induction h as [|[o pl] r IH]; intros s W; cbn [run_ds fold_left].
  - split; [exact W | apply mono_refl].
  - cbn [fst snd]. destruct (step_ds_mono fuel tys s o pl W) as [W1 M1].
    destruct (IH _ W1) as [W2 M2]. unfold run_ds in *. split; [exact W2 | eapply mono_trans; eassumption].
Qed.

(* over every history (any fuel, crash points, failing operations, publishes during replay): the saved offset of a
   subscription never moves backwards, and never points beyond the log *)
Theorem saved_monotone_ds fuel tys h1 h2 id :
  get_saved (run_ds fuel tys h1 init) id <= get_saved (run_ds fuel tys (h1 ++ h2) init) id.
Proof.
  unfold run_ds. rewrite fold_left_app. fold (run_ds fuel tys h1 init).
  destruct (run_ds_mono fuel tys h1 init wf_init) as [W1 _].
  destruct (run_ds_mono fuel tys h2 _ W1) as [_ [_ M]]. apply M.
Qed.

Theorem saved_within_log_ds fuel tys h id :
  get_saved (run_ds fuel tys h init) id <= length (log (run_ds fuel tys h init)).
Proof. destruct (run_ds_mono fuel tys h init wf_init) as [[_ [W _]] _]. apply W. Qed.

(* REFUTED on the faithful model (and reproduced on the real store, suite resubds): three events, the process dies
   during the first SubscribeWithReplay right after the first event has been handled and its offset saved; after the
   restart a clean SubscribeWithReplay delivers nothing: events 2 and 3 are never delivered, the saved position (3)
   covers them *)
Definition h_ds_crash : list (op * plan) :=
  [(OPub 0 1, clean); (OPub 0 2, clean); (OPub 0 3, clean); (OSub 0 [], dying 4); (ORestart, clean); (OSub 0 [], clean)].

Lemma ds_interrupted_replay_loses :
  let s := run_ds 80 [0; 1; 0] h_ds_crash init in
  map e_val (log s) = [1; 2; 3] /\ for_id 0 (dels s) = [1] /\ get_saved s 0 = 3 /\ is_live s 0 = true.
Proof. vm_compute. auto. Qed.

(* the same history without the crash delivers everything once, in order, also when the handler publishes during the
   replay (the next page picks the new event up) *)
Lemma ds_clean_example :
  let s := run_ds 80 [0; 1; 0] [(OPub 0 1, clean); (OPub 1 2, clean); (OPub 0 3, clean); (OSub 0 [(0, 0, 4)], clean);
                                (OPub 0 5, clean); (ORestart, clean); (OSub 0 [], clean)] init in
  map e_val (log s) = [1; 2; 3; 4; 5] /\ rev (for_id 0 (dels s)) = [1; 3; 4; 5] /\ get_saved s 0 = 5.
Proof. vm_compute. auto. Qed.
