From Coq Require Import List NArith ZArith Bool Lia.
Import ListNotations.
From Ebu Require Import Store.Lex Store.StoreModel Store.StoreProofs Store.ReplayModel.

Definition is_prefix_of {A} (d l : list A) : Prop := exists rest, l = d ++ rest.

(* --- streaming iterators: gap-free prefix, nil only if complete, a hit fault gives an error --- *)
Lemma stream_mem_prefix : forall evs idx f c,
  let '(d, res) := stream_mem evs idx f c in
  is_prefix_of d evs /\ (res = RNil -> d = evs) /\ res <> ROutOfFuel.
Proof.
  induction evs as [|e r IH]; intros idx f c; cbn [stream_mem].
  - split; [exists []; reflexivity|]. split; [reflexivity|discriminate].
  - destruct c.
    + split; [exists (e :: r); reflexivity|]. split; [discriminate|discriminate].
    + destruct (cb_fails f idx).
      * split; [exists r; reflexivity|]. split; [discriminate|discriminate].
      * specialize (IH (S idx) f (cancels f idx)). destruct (stream_mem r (S idx) f (cancels f idx)) as [d res].
        destruct IH as [[rest Hr] [Hn Hf]]. split; [exists rest; rewrite Hr at 1; reflexivity|].
        split; [intros H; rewrite (Hn H); reflexivity|exact Hf].
Qed.

Lemma stream_rows_prefix : forall evs idx f c,
  let '(d, res) := stream_rows evs idx f c in
  is_prefix_of d evs /\ (res = RNil -> d = evs) /\ res <> ROutOfFuel.
Proof.
  induction evs as [|e r IH]; intros idx f c; cbn [stream_rows].
  - split; [exists []; reflexivity|]. split; [reflexivity|destruct c; discriminate].
  - destruct (c || row_fails f idx).
    + split; [exists (e :: r); reflexivity|]. split; discriminate.
    + destruct (cb_fails f idx).
      * split; [exists r; reflexivity|]. split; discriminate.
      * specialize (IH (S idx) f (cancels f idx)). destruct (stream_rows r (S idx) f (cancels f idx)) as [d res].
        destruct IH as [[rest Hr] [Hn Hf]]. split; [exists rest; rewrite Hr at 1; reflexivity|].
        split; [intros H; rewrite (Hn H); reflexivity|exact Hf].
Qed.

Lemma stream_batch_prefix : forall evs idx f c,
  let '(d, err, c') := stream_batch evs idx f c in
  is_prefix_of d evs /\ (err = false -> d = evs).
Proof.
  induction evs as [|e r IH]; intros idx f c; cbn [stream_batch].
  - split; [exists []; reflexivity|reflexivity].
  - destruct (c || row_fails f idx).
    + split; [exists (e :: r); reflexivity|discriminate].
    + destruct (cb_fails f idx).
      * split; [exists r; reflexivity|discriminate].
      * specialize (IH (S idx) f (cancels f idx)).
        destruct (stream_batch r (S idx) f (cancels f idx)) as [[d err] c'].
        destruct IH as [[rest Hr] Hn]. split; [exists rest; rewrite Hr at 1; reflexivity|].
        intros H; rewrite (Hn H); reflexivity.
Qed.

Lemma stream_batched_prefix : forall fuel rows b idx f c, 0 < b ->
  let '(d, res) := stream_batched fuel rows b idx f c in
  is_prefix_of d rows /\ (res = RNil -> d = rows) /\ (length rows < fuel -> res <> ROutOfFuel).
Proof.
  induction fuel as [|fuel IH]; intros rows b idx f c Hb; cbn [stream_batched].
  - split; [exists rows; reflexivity|]. split; [discriminate|lia].
  - destruct c.
    + split; [exists rows; reflexivity|]. split; discriminate.
    + pose proof (stream_batch_prefix (firstn b rows) idx f false) as P.
      destruct (stream_batch (firstn b rows) idx f false) as [[d err] c'].
      destruct P as [[rest Hr] Hn].
      destruct err.
      * split; [exists (rest ++ skipn b rows); rewrite app_assoc, <- Hr; symmetry; apply firstn_skipn|].
        split; discriminate.
      * specialize (Hn eq_refl). subst d.
        destruct (Nat.ltb (length (firstn b rows)) b) eqn:E.
        -- apply Nat.ltb_lt in E. rewrite firstn_length in E.
           assert (Hall: firstn b rows = rows) by (apply firstn_all2; lia).
           split; [exists []; rewrite app_nil_r; symmetry; exact Hall|]. split; [intros _; exact Hall|discriminate].
        -- apply Nat.ltb_ge in E. rewrite firstn_length in E.
           specialize (IH (skipn b rows) b (idx + length (firstn b rows)) f c' Hb).
           destruct (stream_batched fuel (skipn b rows) b (idx + length (firstn b rows)) f c') as [d' res].
           destruct IH as [[rest' Hr'] [Hn' Hf']].
           split; [exists rest'; rewrite <- app_assoc, <- Hr'; symmetry; apply firstn_skipn|].
           split; [intros H; rewrite (Hn' H); apply firstn_skipn|].
           intros Hl. apply Hf'. rewrite skipn_length. lia.
Qed.

Lemma deliver_page_prefix : forall evs idx f c,
  let '(d, err, c') := deliver_page evs idx f c in
  is_prefix_of d evs /\ (err = false -> d = evs).
Proof.
  induction evs as [|e r IH]; intros idx f c; cbn [deliver_page].
  - split; [exists []; reflexivity|reflexivity].
  - destruct (cb_fails f idx).
    + split; [exists r; reflexivity|discriminate].
    + specialize (IH (S idx) f (c || cancels f idx)).
      destruct (deliver_page r (S idx) f (c || cancels f idx)) as [[d err] c'].
      destruct IH as [[rest Hr] Hn]. split; [exists rest; rewrite Hr at 1; reflexivity|].
      intros H; rewrite (Hn H); reflexivity.
Qed.

(* --- the paged fallback over any store meeting the read specification --- *)
Section PagedProofs.
  Variable log : list sev.
  Variable off_at : nat -> offset.
  Variable read : offset -> Z -> option (list sev * offset).
  Hypothesis read_spec : forall k limit, k <= length log ->
    read (off_at k) limit = Some (take limit (skipn k log), off_at (k + length (take limit (skipn k log)))).

  Lemma take_pos_nonempty {A} limit (l : list A) : (0 < limit)%Z -> take limit l = [] -> l = [].
  Proof.
    intros Hl H. unfold take in H. replace (limit <=? 0)%Z with false in H by lia.
    destruct l as [|a r]; [reflexivity|]. destruct (Z.to_nat limit) eqn:E; [lia|discriminate].
  Qed.

  Theorem replay_paged_complete_or_error : forall fuel k batch idx nreads f c,
    (0 < batch)%Z -> k <= length log ->
    let '(d, res) := replay_paged read fuel (off_at k) batch idx nreads f c in
    is_prefix_of d (skipn k log) /\ (res = RNil -> d = skipn k log) /\
    (length log - k + 1 < fuel -> res <> ROutOfFuel).
  Proof.
    induction fuel as [|fuel IH]; intros k batch idx nreads f c Hb Hk; cbn [replay_paged].
    - split; [exists (skipn k log); reflexivity|]. split; [discriminate|lia].
    - destruct c; [split; [exists (skipn k log); reflexivity|]; split; discriminate|].
      destruct (read_fails f nreads); [split; [exists (skipn k log); reflexivity|]; split; discriminate|].
      rewrite read_spec by exact Hk.
      destruct (take batch (skipn k log)) as [|e0 r0] eqn:Et.
      + apply take_pos_nonempty in Et; [|exact Hb]. rewrite Et.
        split; [exists []; reflexivity|]. split; [reflexivity|discriminate].
      + rewrite <- Et.
        pose proof (deliver_page_prefix (take batch (skipn k log)) idx f false) as P.
        destruct (deliver_page (take batch (skipn k log)) idx f false) as [[d err] c'].
        destruct P as [[rest Hr] Hn].
        assert (Htp: exists n, take batch (skipn k log) = firstn n (skipn k log) /\ n <= length (skipn k log)).
        { unfold take. destruct (batch <=? 0)%Z.
          - exists (length (skipn k log)). split; [symmetry; apply firstn_all|lia].
          - exists (min (Z.to_nat batch) (length (skipn k log))). split; [|lia].
            destruct (Nat.le_ge_cases (Z.to_nat batch) (length (skipn k log))).
            + rewrite Nat.min_l by assumption. reflexivity.
            + rewrite Nat.min_r by assumption. rewrite firstn_all. apply firstn_all2. assumption. }
        destruct Htp as [n [Hn1 Hn2]].
        destruct err.
        * split; [|split; discriminate].
          exists (rest ++ skipn n (skipn k log)). rewrite app_assoc, <- Hr, Hn1. symmetry. apply firstn_skipn.
        * specialize (Hn eq_refl). subst d.
          destruct (bytes_eqb (off_at (k + length (take batch (skipn k log)))) (off_at k)).
          -- split; [|split; discriminate].
             exists (skipn n (skipn k log)). rewrite Hn1. symmetry. apply firstn_skipn.
          -- assert (Hlen: length (take batch (skipn k log)) = n).
             { rewrite Hn1, firstn_length. lia. }
             rewrite skipn_length in Hn2.
             specialize (IH (k + length (take batch (skipn k log))) batch
                            (idx + length (take batch (skipn k log))) (S nreads) f c' Hb ltac:(lia)).
             destruct (replay_paged read fuel (off_at (k + length (take batch (skipn k log)))) batch
                         (idx + length (take batch (skipn k log))) (S nreads) f c') as [d' res].
             destruct IH as [[rest' Hr'] [Hn' Hf']].
             rewrite Hlen in *.
             assert (Hsk: skipn (k + n) log = skipn n (skipn k log)) by (rewrite skipn_add; reflexivity).
             split; [exists rest'; rewrite Hn1, <- app_assoc, <- Hr', Hsk; symmetry; apply firstn_skipn|].
             split; [intros H; rewrite (Hn' H), Hn1, Hsk; apply firstn_skipn|].
             intros Hl. apply Hf'.
             assert (n <> 0) by (rewrite <- Hlen, Et; cbn [length]; lia).
             lia.
  Qed.
End PagedProofs.

(* a fault that is reached produces an error: callback failure *)
Lemma stream_mem_callback_error : forall evs idx j, idx <= j < idx + length evs ->
  snd (stream_mem evs idx (FCallback j) false) = RErr.
Proof.
  induction evs as [|e r IH]; intros idx j H; cbn [length] in H; [lia|].
  cbn [stream_mem cb_fails cancels]. destruct (Nat.eqb idx j) eqn:E; [reflexivity|].
  apply Nat.eqb_neq in E. specialize (IH (S idx) j ltac:(lia)).
  destruct (stream_mem r (S idx) (FCallback j) false) as [d res]. exact IH.
Qed.
