(* Byte strings, lexicographic order, fixed-width and plain decimal formatting. *)
From Coq Require Import List NArith ZArith Lia Bool ZifyN ZifyBool.
Import ListNotations.
Local Open Scope N_scope.

Definition bytes := list N.

(* Go's string "<": byte-wise, a proper prefix is smaller *)
Fixpoint lexlt (a b : list N) : bool :=
  match a, b with
  | [], [] => false
  | [], _ :: _ => true
  | _ :: _, [] => false
  | x :: a', y :: b' => if x <? y then true else if y <? x then false else lexlt a' b'
  end.

Fixpoint bytes_eqb (a b : list N) : bool :=
  match a, b with
  | [], [] => true
  | x :: a', y :: b' => (x =? y) && bytes_eqb a' b'
  | _, _ => false
  end.

Lemma bytes_eqb_eq a : forall b, bytes_eqb a b = true <-> a = b.
Proof.
  induction a as [|x a IH]; intros [|y b]; simpl; split; intros H; try discriminate; auto.
  - apply andb_true_iff in H. destruct H as [H1 H2]. apply N.eqb_eq in H1. apply IH in H2. subst. reflexivity.
  - inversion H; subst. rewrite N.eqb_refl. simpl. apply IH. reflexivity.
Qed.

Lemma bytes_eqb_refl a : bytes_eqb a a = true.
Proof. apply bytes_eqb_eq. reflexivity. Qed.

Lemma lexlt_irrefl a : lexlt a a = false.
Proof. induction a as [|x a IH]; simpl; [reflexivity|]. rewrite N.ltb_irrefl. exact IH. Qed.

(* most significant digit first, fixed width w *)
Fixpoint digits (w : nat) (n : N) : list N :=
  match w with
  | O => []
  | S w' => (n / 10 ^ N.of_nat w') mod 10 :: digits w' n
  end.

Lemma pow10_pos k : 0 < 10 ^ k.
Proof. apply N.neq_0_lt_0. apply N.pow_nonzero. discriminate. Qed.

Lemma digits_mod w : forall n, digits w n = digits w (n mod 10 ^ N.of_nat w).
Proof.
  induction w as [|w IH]; intros n; [reflexivity|].
  cbn [digits]. f_equal.
  - replace (N.of_nat (S w)) with (N.succ (N.of_nat w)) by lia.
    rewrite N.pow_succ_r'.
    set (p := 10 ^ N.of_nat w). assert (Hp: 0 < p) by apply pow10_pos.
    assert (Hp0 : p <> 0) by lia.
    rewrite (N.mul_comm 10 p).
    rewrite N.mod_mul_r by lia.
    rewrite (N.mul_comm p), N.div_add by lia.
    rewrite (N.div_small (n mod p) p) by (apply N.mod_lt; lia).
    rewrite N.add_0_l. rewrite N.mod_mod by lia. reflexivity.
  - rewrite IH. rewrite (IH (n mod 10 ^ N.of_nat (S w))).
    f_equal.
    replace (N.of_nat (S w)) with (N.succ (N.of_nat w)) by lia.
    rewrite N.pow_succ_r'.
    set (p := 10 ^ N.of_nat w). assert (Hp: 0 < p) by apply pow10_pos.
    rewrite (N.mul_comm 10 p). rewrite N.mod_mul_r by lia.
    rewrite (N.mul_comm p), N.mod_add by lia. rewrite N.mod_mod by lia. reflexivity.
Qed.

Theorem digits_lex w : forall a b,
  a < 10 ^ N.of_nat w -> b < 10 ^ N.of_nat w ->
  (lexlt (digits w a) (digits w b) = true <-> a < b).
Proof.
  induction w as [|w IH]; intros a b Ha Hb.
  - cbn in *. split; [discriminate | lia].
  - cbn [digits lexlt].
    replace (N.of_nat (S w)) with (N.succ (N.of_nat w)) in Ha, Hb by lia.
    rewrite N.pow_succ_r' in Ha, Hb.
    set (p := 10 ^ N.of_nat w) in *. assert (Hp: 0 < p) by apply pow10_pos.
    assert (Hqa : a / p < 10) by (apply N.div_lt_upper_bound; lia).
    assert (Hqb : b / p < 10) by (apply N.div_lt_upper_bound; lia).
    rewrite (N.mod_small (a / p) 10) by exact Hqa.
    rewrite (N.mod_small (b / p) 10) by exact Hqb.
    pose proof (N.div_mod a p ltac:(lia)) as Ea.
    pose proof (N.div_mod b p ltac:(lia)) as Eb.
    pose proof (N.mod_lt a p ltac:(lia)) as Hra.
    pose proof (N.mod_lt b p ltac:(lia)) as Hrb.
    rewrite (digits_mod w a), (digits_mod w b). fold p.
    specialize (IH (a mod p) (b mod p) Hra Hrb).
    destruct (a / p <? b / p) eqn:E1.
    + split; [intros _|reflexivity]. apply N.ltb_lt in E1. nia.
    + destruct (b / p <? a / p) eqn:E2.
      * split; [discriminate|]. apply N.ltb_lt in E2. intros H. exfalso. nia.
      * apply N.ltb_ge in E1. apply N.ltb_ge in E2.
        assert (Eq : a / p = b / p) by lia.
        rewrite IH. split; intros H; nia.
Qed.

(* ASCII rendering: digit d is byte 48 + d *)
Definition ascii_digits (l : list N) : bytes := map (fun d => 48 + d) l.

Lemma lexlt_ascii a : forall b, lexlt (ascii_digits a) (ascii_digits b) = lexlt a b.
Proof.
  induction a as [|x a IH]; intros [|y b]; cbn [ascii_digits map lexlt]; try reflexivity.
  fold (ascii_digits a). fold (ascii_digits b). rewrite IH.
  replace (48 + x <? 48 + y) with (x <? y) by lia.
  replace (48 + y <? 48 + x) with (y <? x) by lia.
  reflexivity.
Qed.

(* fmt.Sprintf("%0<w>d", n) for 0 <= n < 10^w *)
Definition pad (w : nat) (n : N) : bytes := ascii_digits (digits w n).

Theorem pad_lex w a b :
  a < 10 ^ N.of_nat w -> b < 10 ^ N.of_nat w -> (lexlt (pad w a) (pad w b) = true <-> a < b).
Proof. intros Ha Hb. unfold pad. rewrite lexlt_ascii. apply digits_lex; assumption. Qed.

Lemma digits_length w n : length (digits w n) = w.
Proof. revert n. induction w as [|w IH]; intros n; simpl; [reflexivity|]. rewrite IH. reflexivity. Qed.

Lemma pad_nonempty w n : w <> O -> pad w n <> [].
Proof. destruct w; [congruence|]. intros _. discriminate. Qed.

Theorem pad_inj w a b :
  a < 10 ^ N.of_nat w -> b < 10 ^ N.of_nat w -> pad w a = pad w b -> a = b.
Proof.
  intros Ha Hb E.
  destruct (N.lt_trichotomy a b) as [H|[H|H]]; [|exact H|].
  - apply (pad_lex w a b Ha Hb) in H. rewrite E, lexlt_irrefl in H. discriminate.
  - apply (pad_lex w b a Hb Ha) in H. rewrite E, lexlt_irrefl in H. discriminate.
Qed.

(* strconv.FormatInt(n, 10) for n >= 0: no padding *)
Fixpoint strip0 (l : list N) : list N :=
  match l with
  | 0 :: r => strip0 r
  | _ => l
  end.
Definition dec (n : N) : bytes :=
  match strip0 (digits 20 n) with
  | [] => [48]
  | l => ascii_digits l
  end.

(* strconv.ParseInt(s, 10, 64) restricted to what matters here: optional sign, digits, int64 range *)
Fixpoint parse_digits (l : bytes) (acc : N) : option N :=
  match l with
  | [] => Some acc
  | c :: r => if (48 <=? c) && (c <=? 57) then parse_digits r (acc * 10 + (c - 48)) else None
  end.
Definition in_range (neg : bool) (n : N) : option Z :=
  if neg then (if n <=? 9223372036854775808 then Some (- Z.of_N n)%Z else None)
  else (if n <=? 9223372036854775807 then Some (Z.of_N n) else None).
Definition parse_signed (neg : bool) (r : bytes) : option Z :=
  match r with
  | [] => None
  | _ => match parse_digits r 0 with Some n => in_range neg n | None => None end
  end.
Definition parse_int (s : bytes) : option Z :=
  match s with
  | [] => None
  | c :: r => if c =? 45 then parse_signed true r
              else if c =? 43 then parse_signed false r
              else parse_signed false s
  end.

Example nine_ten_not_lex : lexlt (dec 9) (dec 10) = false.
Proof. vm_compute. reflexivity. Qed.
