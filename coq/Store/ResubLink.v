(* The abstract store of Store/ResubModel.v (log = list, offsets = positions, read = suffix, offsets map) is what the
   memory-store model of Store/StoreModel.v implements (proved for C10 in Store/StoreProofs.v). *)
From Coq Require Import List NArith ZArith.
Import ListNotations.
From Ebu Require Import Store.StoreModel Store.StoreProofs.

Lemma memory_store_streams_the_suffix s k :
  mem_wf s -> (m_next s < W)%N -> k <= length (m_events s) -> mem_stream s (mem_off k) = skipn k (m_events s).
Proof.
  intros Hwf Hn Hk. rewrite (mem_stream_eq_read s k Hwf Hn Hk). rewrite (mem_read_spec s k 0%Z Hwf Hn Hk). reflexivity.
Qed.

Lemma memory_store_offsets_are_a_map s id id' o :
  mem_load (mem_save s id o) id = o /\ (id <> id' -> mem_load (mem_save s id o) id' = mem_load s id').
Proof. split; [apply mem_offset_store | intros H; apply mem_offset_store_other; exact H]. Qed.
