(* Proofs about Store/StoreModel.v: MemoryStore and SQLiteStore are append-only, resumable logs. *)
From Coq Require Import List NArith ZArith Bool Lia ZifyN ZifyBool ZifyNat.
Import ListNotations.
From Ebu Require Import Store.Lex Store.StoreModel.

(* ---------- generic: the read loop over a log split by a predicate ---------- *)
Lemma last_off_app from l1 l2 : last_off from (l1 ++ l2) = last_off (last_off from l1) l2.
Proof. revert from. induction l1 as [|e r IH]; intros from; simpl; [reflexivity|apply IH]. Qed.

Definition after (from : offset) (e : sev) : bool := is_oldest from || lexlt from (e_off e).

Lemma loop_skip from limit : forall l1 l2 c last,
  (forall e, In e l1 -> after from e = false) ->
  mem_read_loop (l1 ++ l2) from limit c last = mem_read_loop l2 from limit c last.
Proof.
  induction l1 as [|e r IH]; intros l2 c last H; [reflexivity|].
  cbn [app mem_read_loop]. fold (after from e). rewrite (H e (or_introl eq_refl)).
  apply IH. intros e' He'. apply H. right. exact He'.
Qed.

Lemma loop_all from limit : forall l c last,
  ((limit <= 0)%Z \/ (0 <= c < limit)%Z) ->
  (forall e, In e l -> after from e = true) ->
  mem_read_loop l from limit c last =
  (let res := if (limit <=? 0)%Z then l else firstn (Z.to_nat (limit - c)) l in (res, last_off last res)).
Proof.
  induction l as [|e r IH]; intros c last Hc H; cbv zeta.
  - cbn [mem_read_loop]. destruct (limit <=? 0)%Z; [reflexivity|]. rewrite firstn_nil. reflexivity.
  - cbn [mem_read_loop]. fold (after from e). rewrite (H e (or_introl eq_refl)).
    destruct ((0 <? limit)%Z && (limit <=? c + 1)%Z) eqn:E.
    + assert (Hl: (limit - c = 1)%Z) by lia.
      assert (E0: (limit <=? 0)%Z = false) by lia. rewrite E0, Hl. reflexivity.
    + rewrite IH; [|lia|intros e' He'; apply H; right; exact He'].
      cbv zeta. destruct (limit <=? 0)%Z eqn:E0; [reflexivity|].
      replace (Z.to_nat (limit - c)) with (S (Z.to_nat (limit - (c + 1)))) by lia.
      reflexivity.
Qed.

Theorem mem_read_loop_spec from limit l1 l2 :
  (forall e, In e l1 -> after from e = false) ->
  (forall e, In e l2 -> after from e = true) ->
  mem_read_loop (l1 ++ l2) from limit 0%Z from = (take limit l2, last_off from (take limit l2)).
Proof.
  intros H1 H2. rewrite loop_skip by exact H1.
  rewrite loop_all; [|lia|exact H2]. cbv zeta. unfold take.
  rewrite Z.sub_0_r. reflexivity.
Qed.

Lemma filter_split {A} (f : A -> bool) l1 l2 :
  (forall e, In e l1 -> f e = false) -> (forall e, In e l2 -> f e = true) -> filter f (l1 ++ l2) = l2.
Proof.
  intros H1 H2. rewrite filter_app.
  replace (filter f l1) with (@nil A).
  - simpl. induction l2 as [|e r IH]; simpl; [reflexivity|]. rewrite (H2 e (or_introl eq_refl)).
    f_equal. apply IH. intros e' He'. apply H2. right. exact He'.
  - symmetry. induction l1 as [|e r IH]; simpl; [reflexivity|]. rewrite (H1 e (or_introl eq_refl)).
    apply IH. intros e' He'. apply H1. right. exact He'.
Qed.

(* ---------- MemoryStore ---------- *)
Fixpoint mk_events (i : N) (pays : list nat) : list sev :=
  match pays with
  | [] => []
  | p :: r => {| e_off := pad 20 i; e_pay := p |} :: mk_events (i + 1) r
  end.

Definition mem_wf (s : mem) : Prop :=
  exists pays, m_events s = mk_events 1 pays /\ m_next s = N.of_nat (length pays).

Definition W : N := (10 ^ N.of_nat 20)%N.

Lemma mk_events_app i l1 l2 :
  mk_events i (l1 ++ l2) = mk_events i l1 ++ mk_events (i + N.of_nat (length l1)) l2.
Proof.
  revert i. induction l1 as [|p r IH]; intros i; cbn [app mk_events length].
  - rewrite N.add_0_r. reflexivity.
  - rewrite IH. replace (i + N.of_nat (S (length r)))%N with (i + 1 + N.of_nat (length r))%N by lia. reflexivity.
Qed.

Lemma mk_events_in i pays e :
  In e (mk_events i pays) -> exists j, (i <= j < i + N.of_nat (length pays))%N /\ e_off e = pad 20 j.
Proof.
  revert i. induction pays as [|p r IH]; intros i H; [destruct H|].
  cbn [mk_events] in H. destruct H as [<-|H].
  - exists i. split; [cbn [length]; lia|reflexivity].
  - destruct (IH _ H) as [j [Hj Ho]]. exists j. split; [cbn [length]; lia|exact Ho].
Qed.

Lemma mem_wf_init : mem_wf mem_init.
Proof. exists []. split; reflexivity. Qed.

Lemma mem_wf_append s p : mem_wf s -> mem_wf (fst (mem_append s p)).
Proof.
  intros [pays [He Hn]]. exists (pays ++ [p]). unfold mem_append. cbn [fst m_events m_next]. split.
  - rewrite He, mk_events_app. cbn [mk_events]. rewrite Hn.
    replace (N.of_nat (length pays) + 1)%N with (1 + N.of_nat (length pays))%N by lia. reflexivity.
  - rewrite app_length. cbn [length]. lia.
Qed.

(* Append gives the next padded counter value, which is lexicographically above every earlier offset *)
Theorem mem_offsets_increase s p :
  mem_wf s -> (m_next s + 1 < W)%N ->
  snd (mem_append s p) = pad 20 (m_next s + 1) /\
  forall e, In e (m_events s) -> lexlt (e_off e) (snd (mem_append s p)) = true.
Proof.
  intros [pays [He Hn]] Hb. split; [reflexivity|].
  intros e Hin. cbn [mem_append snd]. rewrite He in Hin.
  destruct (mk_events_in _ _ _ Hin) as [j [Hj Ho]]. rewrite Ho.
  apply pad_lex; unfold W in *; lia.
Qed.

(* positions: 0 = before everything (OffsetOldest), k = the k-th appended event *)
Definition mem_off (k : nat) : offset := match k with O => [] | _ => pad 20 (N.of_nat k) end.

Lemma after_mem k j : (N.of_nat k < W)%N -> (j < W)%N -> (1 <= j)%N ->
  after (mem_off k) {| e_off := pad 20 j; e_pay := 0 |} = (N.of_nat k <? j)%N.
Proof.
  intros Hk Hj H1. unfold after, mem_off. destruct k as [|k]; cbn [is_oldest orb].
  - symmetry. apply N.ltb_lt. lia.
  - assert (Hne: is_oldest (pad 20 (N.of_nat (S k))) = false) by reflexivity.
    rewrite Hne. cbn [orb e_off].
    destruct (N.of_nat (S k) <? j)%N eqn:E.
    + apply pad_lex; unfold W in *; lia.
    + destruct (lexlt (pad 20 (N.of_nat (S k))) (pad 20 j)) eqn:E2; [|reflexivity].
      apply pad_lex in E2; unfold W in *; lia.
Qed.

Theorem mem_read_spec s k limit :
  mem_wf s -> (m_next s < W)%N -> k <= length (m_events s) ->
  mem_read s (mem_off k) limit =
  (take limit (skipn k (m_events s)), last_off (mem_off k) (take limit (skipn k (m_events s)))).
Proof.
  intros [pays [He Hn]] Hb Hk. unfold mem_read.
  rewrite <- (firstn_skipn k (m_events s)) at 1.
  assert (Hlen: length (m_events s) = length pays).
  { rewrite He. clear. generalize 1%N. induction pays; intros; simpl; [reflexivity|]. f_equal. apply IHpays. }
  apply mem_read_loop_spec.
  - intros e Hin. rewrite He in Hin.
    assert (Hin': In e (mk_events 1 (firstn k pays))).
    { clear -Hin. revert Hin. generalize 1%N. revert k. induction pays as [|p r IH]; intros k i Hin.
      - rewrite firstn_nil in *. exact Hin.
      - destruct k; [destruct Hin|]. cbn [firstn mk_events] in *. destruct Hin as [H|H]; [left; exact H|right; eapply IH; exact H]. }
    destruct (mk_events_in _ _ _ Hin') as [j [Hj Ho]].
    rewrite firstn_length in Hj.
    destruct e as [eo ep]. cbn [e_off] in Ho. subst eo.
    unfold after. cbn [e_off]. 
    pose proof (after_mem k j) as A. unfold after in A. cbn [e_off] in A. rewrite A by lia. lia.
  - intros e Hin. rewrite He in Hin.
    assert (Hin': In e (mk_events (1 + N.of_nat k) (skipn k pays))).
    { clear -Hin Hk Hlen. revert Hin. generalize 1%N. revert k Hk. rewrite Hlen. clear Hlen.
      induction pays as [|p r IH]; intros k Hk i Hin.
      - rewrite skipn_nil in *. destruct Hin.
      - destruct k.
        + cbn [skipn] in *. rewrite N.add_0_r. exact Hin.
        + cbn [skipn mk_events length] in *. replace (i + N.of_nat (S k))%N with (i + 1 + N.of_nat k)%N by lia.
          apply IH; [lia|exact Hin]. }
    destruct (mk_events_in _ _ _ Hin') as [j [Hj Ho]].
    rewrite skipn_length in Hj.
    destruct e as [eo ep]. cbn [e_off] in Ho. subst eo.
    unfold after. cbn [e_off].
    pose proof (after_mem k j) as A. unfold after in A. cbn [e_off] in A. rewrite A by lia. lia.
Qed.

Theorem mem_stream_eq_read s k :
  mem_wf s -> (m_next s < W)%N -> k <= length (m_events s) ->
  mem_stream s (mem_off k) = fst (mem_read s (mem_off k) 0%Z).
Proof.
  intros Hw Hb Hk. rewrite mem_read_spec by assumption. cbn [fst]. unfold take. cbn [Z.leb Z.compare].
  destruct Hw as [pays [He Hn]]. unfold mem_stream.
  rewrite <- (firstn_skipn k (m_events s)) at 1.
  assert (Hlen: length (m_events s) = length pays).
  { rewrite He. clear. generalize 1%N. induction pays; intros; simpl; [reflexivity|]. f_equal. apply IHpays. }
  (* reuse the two membership facts through mem_read_loop_spec's hypotheses *)
  apply filter_split.
  - intros e Hin. rewrite He in Hin.
    assert (Hin': In e (mk_events 1 (firstn k pays))).
    { clear -Hin. revert Hin. generalize 1%N. revert k. induction pays as [|p r IH]; intros k i Hin.
      - rewrite firstn_nil in *. exact Hin.
      - destruct k; [destruct Hin|]. cbn [firstn mk_events] in *. destruct Hin as [H|H]; [left; exact H|right; eapply IH; exact H]. }
    destruct (mk_events_in _ _ _ Hin') as [j [Hj Ho]].
    rewrite firstn_length in Hj.
    destruct e as [eo ep]. cbn [e_off] in Ho. subst eo. cbn [e_off].
    pose proof (after_mem k j) as A. unfold after in A. cbn [e_off] in A. rewrite A by lia. lia.
  - intros e Hin. rewrite He in Hin.
    assert (Hin': In e (mk_events (1 + N.of_nat k) (skipn k pays))).
    { clear -Hin Hk Hlen. revert Hin. generalize 1%N. revert k Hk. rewrite Hlen. clear Hlen.
      induction pays as [|p r IH]; intros k Hk i Hin.
      - rewrite skipn_nil in *. destruct Hin.
      - destruct k.
        + cbn [skipn] in *. rewrite N.add_0_r. exact Hin.
        + cbn [skipn mk_events length] in *. replace (i + N.of_nat (S k))%N with (i + 1 + N.of_nat k)%N by lia.
          apply IH; [lia|exact Hin]. }
    destruct (mk_events_in _ _ _ Hin') as [j [Hj Ho]].
    rewrite skipn_length in Hj.
    destruct e as [eo ep]. cbn [e_off] in Ho. subst eo. cbn [e_off].
    pose proof (after_mem k j) as A. unfold after in A. cbn [e_off] in A. rewrite A by lia. lia.
Qed.

Lemma firstn_add {A} n m (l : list A) : firstn (n + m) l = firstn n l ++ firstn m (skipn n l).
Proof.
  revert l. induction n as [|n IH]; intros l; [reflexivity|].
  destruct l as [|a l]; cbn [plus firstn skipn app]; [rewrite firstn_nil; reflexivity|]. rewrite IH. reflexivity.
Qed.
Lemma skipn_add {A} n m (l : list A) : skipn n (skipn m l) = skipn (m + n) l.
Proof.
  revert l. induction m as [|m IH]; intros l; [reflexivity|].
  destruct l as [|a l]; cbn [plus skipn]; [rewrite skipn_nil; reflexivity|]. apply IH.
Qed.

(* ---------- chains of reads over any store that meets the read specification ---------- *)
Section Chain.
  Variable log : list sev.
  Variable off_at : nat -> offset.              (* the offset denoting position k *)
  Variable read : offset -> Z -> list sev * offset.
  Hypothesis read_spec : forall k limit, k <= length log ->
    read (off_at k) limit = (take limit (skipn k log), off_at (k + length (take limit (skipn k log)))).

  (* a chain: each read resumes from the next offset the previous one returned *)
  Fixpoint chain (k : nat) (limits : list Z) : list sev * nat :=
    match limits with
    | [] => ([], k)
    | l :: r => let evs := fst (read (off_at k) l) in
                let '(rest, k') := chain (k + length evs) r in (evs ++ rest, k')
    end.

  Lemma take_length_le {A} limit (l : list A) : length (take limit l) <= length l.
  Proof. unfold take. destruct (limit <=? 0)%Z; [lia|]. rewrite firstn_length. lia. Qed.

  Lemma take_prefix {A} limit (l : list A) : exists n, take limit l = firstn n l /\ n <= length l.
  Proof.
    unfold take. destruct (limit <=? 0)%Z.
    - exists (length l). split; [symmetry; apply firstn_all|lia].
    - exists (min (Z.to_nat limit) (length l)). split; [|lia].
      destruct (Nat.le_ge_cases (Z.to_nat limit) (length l)).
      + rewrite Nat.min_l by assumption. reflexivity.
      + rewrite Nat.min_r by assumption. rewrite firstn_all. apply firstn_all2. assumption.
  Qed.

  (* the chain returns a gap-free, repeat-free segment of the log, starting right after k *)
  Theorem chain_segment : forall limits k, k <= length log ->
    let '(evs, k') := chain k limits in
    evs = firstn (k' - k) (skipn k log) /\ k <= k' <= length log.
  Proof.
    induction limits as [|l r IH]; intros k Hk; cbn [chain].
    - rewrite Nat.sub_diag. split; [reflexivity|lia].
    - rewrite read_spec by exact Hk. cbn [fst].
      destruct (take_prefix l (skipn k log)) as [n [Hn Hle]]. rewrite skipn_length in Hle.
      rewrite Hn. rewrite firstn_length, skipn_length.
      replace (min n (length log - k)) with n by lia.
      specialize (IH (k + n) ltac:(lia)).
      destruct (chain (k + n) r) as [rest k'].
      destruct IH as [IH1 IH2]. split; [|lia].
      rewrite IH1.
      replace (k' - k) with (n + (k' - (k + n))) by lia.
      rewrite firstn_add, skipn_add. reflexivity.
  Qed.

  (* a read that returns nothing means the log is exhausted: continuing until empty reads everything *)
  Theorem empty_read_is_end k limit : k <= length log ->
    fst (read (off_at k) limit) = [] -> skipn k log = [].
  Proof.
    intros Hk H. rewrite read_spec in H by exact Hk. cbn [fst] in H. unfold take in H.
    destruct (limit <=? 0)%Z eqn:E; [exact H|].
    destruct (skipn k log) as [|e r]; [reflexivity|].
    assert (Z.to_nat limit <> 0) by lia. destruct (Z.to_nat limit); [congruence|]. discriminate.
  Qed.
End Chain.

Lemma nth_firstn_lt' {A} n m (l : list A) d : n < m -> nth n (firstn m l) d = nth n l d.
Proof.
  revert n l. induction m as [|m IH]; intros n l H; [lia|].
  destruct l as [|a l]; [destruct n; reflexivity|]. destruct n; [reflexivity|]. cbn [firstn nth]. apply IH. lia.
Qed.
Lemma nth_skipn' {A} n k (l : list A) d : nth n (skipn k l) d = nth (k + n) l d.
Proof.
  revert l. induction k as [|k IH]; intros l; [reflexivity|].
  destruct l as [|a l]; [destruct n; reflexivity|]. cbn [skipn plus nth]. apply IH.
Qed.

Lemma last_nth {A} (l : list A) d : List.last l d = nth (length l - 1) l d.
Proof.
  induction l as [|a r IH]; [reflexivity|]. destruct r as [|b r']; [reflexivity|].
  change (List.last (a :: b :: r') d) with (List.last (b :: r') d). rewrite IH. cbn [length].
  replace (S (S (length r')) - 1) with (S (S (length r') - 1)) by lia. reflexivity.
Qed.

(* the next offset returned by the memory store denotes the position after the returned events *)
Lemma mem_last_off s k l : mem_wf s -> k + length l <= length (m_events s) ->
  l = firstn (length l) (skipn k (m_events s)) ->
  last_off (mem_off k) l = mem_off (k + length l).
Proof.
  intros [pays [He Hn]] Hk Hl.
  destruct l as [|e0 r0] eqn:El; [rewrite Nat.add_0_r; reflexivity|]. rewrite <- El in *.
  assert (Hlast: forall from l', l' <> [] -> last_off from l' = e_off (List.last l' {| e_off := []; e_pay := 0 |})).
  { intros from l' Hne. revert from. induction l' as [|a r IH]; intros from; [congruence|].
    cbn [last_off]. destruct r as [|b r']; [reflexivity|]. rewrite IH by discriminate. reflexivity. }
  rewrite Hlast by (rewrite El; discriminate).
  (* the last element of l is the (k + length l)-th event *)
  assert (Hnth: forall i pays0 n, n < length pays0 ->
            nth n (mk_events i pays0) {| e_off := []; e_pay := 0 |} =
            {| e_off := pad 20 (i + N.of_nat n); e_pay := nth n pays0 0 |}).
  { intros i pays0. revert i. induction pays0 as [|p r IH]; intros i n Hlt; [simpl in Hlt; lia|].
    destruct n; cbn [mk_events nth].
    - rewrite N.add_0_r. reflexivity.
    - rewrite IH by (simpl in Hlt; lia). do 2 f_equal. lia. }
  assert (Hlen: length (m_events s) = length pays).
  { rewrite He. clear. generalize 1%N. induction pays; intros; simpl; [reflexivity|]. f_equal. apply IHpays. }
  set (d := {| e_off := []; e_pay := 0 |}).
  assert (Hlen_l : length l <> 0) by (rewrite El; discriminate).
  rewrite last_nth.
  rewrite Hl at 2. rewrite nth_firstn_lt' by lia.
  rewrite nth_skipn'. rewrite He. rewrite Hnth by lia. cbn [e_off].
  unfold mem_off. destruct (k + length l) eqn:E; [lia|]. f_equal. lia.
Qed.

(* ---------- decimal formatting round trip (SQLite offsets) ---------- *)
Local Open Scope N_scope.
Fixpoint dval (l : list N) (acc : N) : N :=
  match l with [] => acc | d :: r => dval r (acc * 10 + d) end.

Lemma parse_digits_ascii l : forall acc, (forall d, In d l -> d < 10) ->
  parse_digits (ascii_digits l) acc = Some (dval l acc).
Proof.
  induction l as [|d r IH]; intros acc H; [reflexivity|].
  cbn [ascii_digits map parse_digits dval]. fold (ascii_digits r).
  assert (Hd: d < 10) by (apply H; left; reflexivity).
  replace ((48 <=? 48 + d) && (48 + d <=? 57)) with true by lia.
  replace (48 + d - 48) with d by lia.
  apply IH. intros d' Hd'. apply H. right. exact Hd'.
Qed.

Lemma digits_lt10 w : forall n d, In d (digits w n) -> d < 10.
Proof.
  induction w as [|w IH]; intros n d H; [destruct H|].
  cbn [digits] in H. destruct H as [<-|H]; [apply N.mod_lt; lia|eapply IH; exact H].
Qed.

Lemma dval_digits w : forall n acc, dval (digits w n) acc = acc * 10 ^ N.of_nat w + n mod 10 ^ N.of_nat w.
Proof.
  induction w as [|w IH]; intros n acc.
  - cbn [digits dval]. change (N.of_nat 0) with 0. rewrite N.pow_0_r, N.mod_1_r. lia.
  - cbn [digits dval]. rewrite IH.
    replace (N.of_nat (S w)) with (N.succ (N.of_nat w)) by lia. rewrite N.pow_succ_r'.
    set (p := 10 ^ N.of_nat w). assert (Hp: 0 < p) by apply pow10_pos.
    rewrite (N.mul_comm 10 p). rewrite N.mod_mul_r by lia. lia.
Qed.

Lemma dval_strip0 l : dval (strip0 l) 0 = dval l 0.
Proof.
  induction l as [|d r IH]; [reflexivity|].
  cbn [strip0]. destruct d as [|p]; [|reflexivity]. rewrite IH. reflexivity.
Qed.

Lemma strip0_in l d : In d (strip0 l) -> In d l.
Proof.
  induction l as [|x r IH]; [auto|]. cbn [strip0]. destruct x as [|p]; [|auto].
  intros H. right. apply IH, H.
Qed.

Lemma strip0_head l : match strip0 l with [] => True | d :: _ => d <> 0 end.
Proof. induction l as [|x r IH]; [exact I|]. cbn [strip0]. destruct x; [exact IH|discriminate]. Qed.

Theorem parse_dec n : n < 10 ^ N.of_nat 20 -> parse_digits (dec n) 0 = Some n /\ dec n <> [] /\
  match dec n with c :: _ => 48 <= c <= 57 | [] => False end.
Proof.
  intros Hn. unfold dec.
  pose proof (dval_strip0 (digits 20 n)) as Hv. rewrite dval_digits in Hv.
  rewrite N.mod_small in Hv by exact Hn. rewrite N.mul_0_l, N.add_0_l in Hv.
  destruct (strip0 (digits 20 n)) as [|d r] eqn:E.
  - cbn [dval] in Hv. subst n. split; [reflexivity|]. split; [discriminate|lia].
  - assert (Hlt: forall x, In x (d :: r) -> x < 10).
    { intros x Hx. rewrite <- E in Hx. apply strip0_in in Hx. eapply digits_lt10; exact Hx. }
    split; [rewrite parse_digits_ascii by exact Hlt; rewrite Hv; reflexivity|].
    split; [discriminate|]. cbn [ascii_digits map]. specialize (Hlt d (or_introl eq_refl)). lia.
Qed.

Theorem parse_fmt_pos (p : Z) : (0 <= p <= 9223372036854775807)%Z -> parse_int (fmt_pos p) = Some p.
Proof.
  intros Hp. unfold fmt_pos. replace (p <? 0)%Z with false by lia.
  assert (Hn: Z.to_N p < 10 ^ N.of_nat 20).
  { change (10 ^ N.of_nat 20) with 100000000000000000000. lia. }
  destruct (parse_dec (Z.to_N p) Hn) as [H1 [H2 H3]].
  destruct (dec (Z.to_N p)) as [|c r] eqn:E; [congruence|].
  unfold parse_int. replace (c =? 45) with false by lia. replace (c =? 43) with false by lia.
  unfold parse_signed. rewrite H1. unfold in_range.
  replace (Z.to_N p <=? 9223372036854775807) with true by lia. f_equal. lia.
Qed.
Local Close Scope N_scope.

(* ---------- SQLiteStore ---------- *)
Fixpoint mk_rows (i : Z) (pays : list nat) : list (Z * nat) :=
  match pays with [] => [] | p :: r => (i, p) :: mk_rows (i + 1)%Z r end.

Definition sq_wf (s : sq) : Prop :=
  exists pays, q_rows s = mk_rows 1 pays /\ q_seq s = Z.of_nat (length pays).

Definition row_ev (r : Z * nat) : sev := {| e_off := fmt_pos (fst r); e_pay := snd r |}.
Definition sq_events (s : sq) : list sev := map row_ev (q_rows s).

Lemma sq_wf_init : sq_wf sq_init.
Proof. exists []. split; reflexivity. Qed.

Lemma mk_rows_app i l1 l2 : mk_rows i (l1 ++ l2) = mk_rows i l1 ++ mk_rows (i + Z.of_nat (length l1))%Z l2.
Proof.
  revert i. induction l1 as [|p r IH]; intros i; cbn [app mk_rows length].
  - rewrite Z.add_0_r. reflexivity.
  - rewrite IH. replace (i + Z.of_nat (S (length r)))%Z with (i + 1 + Z.of_nat (length r))%Z by lia. reflexivity.
Qed.

Lemma sq_wf_append s p : sq_wf s -> sq_wf (fst (sq_append s p)).
Proof.
  intros [pays [He Hn]]. exists (pays ++ [p]). unfold sq_append. cbn [fst q_rows q_seq]. split.
  - rewrite He, mk_rows_app. cbn [mk_rows]. rewrite Hn.
    replace (Z.of_nat (length pays) + 1)%Z with (1 + Z.of_nat (length pays))%Z by lia. reflexivity.
  - rewrite app_length. cbn [length]. lia.
Qed.

(* positions strictly increase with append order and are never reused; the returned offset parses back *)
Theorem sq_offsets_increase_numeric s p :
  sq_wf s -> (q_seq s + 1 <= 9223372036854775807)%Z ->
  parse_int (snd (sq_append s p)) = Some (q_seq s + 1)%Z /\
  forall r, In r (q_rows s) -> (fst r < q_seq s + 1)%Z.
Proof.
  intros [pays [He Hn]] Hb. split.
  - cbn [sq_append snd]. apply parse_fmt_pos. lia.
  - intros r Hin. rewrite He in Hin. rewrite Hn.
    assert (H: forall pays0 i, In r (mk_rows i pays0) -> (fst r < i + Z.of_nat (length pays0))%Z).
    { clear. induction pays0 as [|p r0 IH]; intros i H; [destruct H|]. cbn [mk_rows length] in *.
      destruct H as [<-|H]; [simpl; lia|]. specialize (IH _ H). lia. }
    specialize (H pays 1%Z Hin). lia.
Qed.

Definition sq_off (k : nat) : offset := match k with O => [] | _ => fmt_pos (Z.of_nat k) end.

Lemma parse_sq_off k : (Z.of_nat k <= 9223372036854775807)%Z -> parse_offset (sq_off k) = Some (Z.of_nat k).
Proof.
  intros H. destruct k as [|k]; [reflexivity|]. unfold sq_off, parse_offset.
  pose proof (parse_fmt_pos (Z.of_nat (S k)) ltac:(lia)) as P.
  destruct (fmt_pos (Z.of_nat (S k))) eqn:E; [|exact P].
  unfold parse_int in P. discriminate.
Qed.

Lemma sq_select_skipn s k : sq_wf s -> sq_select s (Z.of_nat k) = skipn k (sq_events s).
Proof.
  intros [pays [He Hn]]. unfold sq_select, sq_events. rewrite He. clear He Hn.
  assert (H: forall i k, (1 <= i)%Z ->
            map row_ev (filter (fun r => (Z.of_nat k + (i - 1) <? fst r)%Z) (mk_rows i pays)) =
            skipn k (map row_ev (mk_rows i pays))).
  { induction pays as [|p r IH]; intros i k0 Hi; [rewrite skipn_nil; reflexivity|].
    cbn [mk_rows filter fst map]. destruct k0 as [|k0].
    - replace (Z.of_nat 0 + (i - 1) <? i)%Z with true by lia. cbn [map skipn]. f_equal.
      specialize (IH (i + 1)%Z 0 ltac:(lia)). cbn [skipn] in IH. rewrite <- IH.
      f_equal. apply filter_ext_in. intros a Ha.
      assert (Hge: (i + 1 <= fst a)%Z).
      { clear -Ha. revert Ha. generalize (i + 1)%Z. induction r as [|p0 r0 IH0]; intros j Ha; [destruct Ha|].
        cbn [mk_rows] in Ha. destruct Ha as [<-|Ha]; [simpl; lia|]. specialize (IH0 _ Ha). lia. }
      lia.
    - replace (Z.of_nat (S k0) + (i - 1) <? i)%Z with false by lia. cbn [skipn].
      rewrite <- (IH (i + 1)%Z k0 ltac:(lia)). f_equal. apply filter_ext. intros a. f_equal. lia. }
  specialize (H 1%Z k ltac:(lia)). rewrite <- H. f_equal. apply filter_ext. intros a. f_equal. lia.
Qed.

Theorem sq_read_spec s k limit :
  sq_wf s -> (Z.of_nat k <= 9223372036854775807)%Z ->
  sq_read s (sq_off k) limit =
  Some (take limit (skipn k (sq_events s)), last_off (sq_off k) (take limit (skipn k (sq_events s)))).
Proof.
  intros Hw Hk. unfold sq_read. rewrite parse_sq_off by exact Hk. rewrite sq_select_skipn by exact Hw. reflexivity.
Qed.

Theorem sq_stream_eq_read s k :
  sq_wf s -> (Z.of_nat k <= 9223372036854775807)%Z ->
  sq_stream s (sq_off k) = option_map fst (sq_read s (sq_off k) 0%Z).
Proof.
  intros Hw Hk. rewrite sq_read_spec by assumption. unfold sq_stream.
  rewrite parse_sq_off by exact Hk. rewrite sq_select_skipn by exact Hw. reflexivity.
Qed.

(* subscription offsets: last saved, or oldest *)
Theorem mem_offset_store s id o : mem_load (mem_save s id o) id = o.
Proof.
  unfold mem_load, mem_save. cbn [m_subs].
  induction (m_subs s) as [|[k v] r IH]; cbn [sub_set sub_get].
  - rewrite Nat.eqb_refl. reflexivity.
  - destruct (Nat.eqb k id) eqn:E; cbn [sub_get]; [rewrite Nat.eqb_refl; reflexivity|]. rewrite E. exact IH.
Qed.
Theorem mem_offset_store_other s id id' o : id <> id' -> mem_load (mem_save s id o) id' = mem_load s id'.
Proof.
  intros N. unfold mem_load, mem_save. cbn [m_subs].
  induction (m_subs s) as [|[k v] r IH]; cbn [sub_set sub_get].
  - destruct (Nat.eqb id id') eqn:E; [apply Nat.eqb_eq in E; contradiction|reflexivity].
  - destruct (Nat.eqb k id) eqn:E; cbn [sub_get].
    + apply Nat.eqb_eq in E. subst k. destruct (Nat.eqb id id') eqn:E2; [apply Nat.eqb_eq in E2; contradiction|reflexivity].
    + destruct (Nat.eqb k id'); [reflexivity|exact IH].
Qed.

(* separately created stores do not see each other: an operation addressed to one store value
   leaves the other unchanged, and its result does not depend on the other *)
Theorem stores_isolated (S : Type) (I : store_impl S) (st : S * S) (o : sop) :
  (Nat.eqb (store_of o) 0 = true -> snd (fst (step S I st o)) = snd st) /\
  (Nat.eqb (store_of o) 0 = false -> fst (fst (step S I st o)) = fst st).
Proof.
  destruct st as [a b]. destruct o as [k p|k f l|k f|k id off|k id]; cbn [step store_of]; unfold pick, put;
    destruct (Nat.eqb k 0); cbn [fst snd]; split; intros H; try discriminate; try reflexivity.
  - destruct (i_append S I a p); reflexivity.
  - destruct (i_append S I b p); reflexivity.
  - destruct (i_save S I a id off); reflexivity.
  - destruct (i_save S I b id off); reflexivity.
Qed.
