(* Proofs about the resumable-subscription model (Store/ResubModel.v), for the repaired code (variant fixed).
   Part A (every history, crash point, failing operation, publishes from replay handlers included):
     saved offsets never move backwards; every delivery of a persisted event is beyond the subscription's saved
     position at that moment; hence a position that has been saved is never delivered again.
   Part B (histories without publishes from inside a replay): nothing at or below a saved position is undelivered,
     a live subscription has seen everything of its type; after a clean restart + SubscribeWithReplay everything
     persisted of the type has been delivered.
   Part C (no crash, no failing operation): per subscription the delivered positions are strictly increasing over the
     whole history (exactly once, in log order), and each is an event of the subscribed type. *)
From Coq Require Import List Arith Bool Lia Sorted.
Import ListNotations.
From Ebu Require Import Store.ResubModel.

Ltac splits := repeat match goal with |- _ /\ _ => split end.

(* ---------- saved-offset map ---------- *)
Lemma get_set_same l id p : get_saved' (set_saved' l id p) id = p.
Proof.
  induction l as [|[i q] r IH]; cbn [set_saved' get_saved'].
  - rewrite Nat.eqb_refl. reflexivity.
  - destruct (Nat.eqb i id) eqn:E; cbn [get_saved']; rewrite E; [reflexivity | exact IH].
Qed.

Lemma get_set_other l id id' p : id' <> id -> get_saved' (set_saved' l id p) id' = get_saved' l id'.
Proof.
  intros Hne. induction l as [|[i q] r IH]; cbn [set_saved' get_saved'].
  - destruct (Nat.eqb id id') eqn:E; [apply Nat.eqb_eq in E; congruence | reflexivity].
  - destruct (Nat.eqb i id) eqn:E; cbn [get_saved'].
    + apply Nat.eqb_eq in E. subst i. destruct (Nat.eqb id id') eqn:E'; [apply Nat.eqb_eq in E'; congruence | reflexivity].
    + destruct (Nat.eqb i id'); [reflexivity | exact IH].
Qed.

(* ---------- tick ---------- *)
Lemma tick_fields s s1 p f : tick s = (s1, p, f) ->
  log s1 = log s /\ saved s1 = saved s /\ last s1 = last s /\ live s1 = live s /\ dels s1 = dels s /\
  p = negb (dead s) /\ (dead s = true -> s1 = s) /\ (dead s = true -> dead s1 = true).
Proof.
  unfold tick. destruct (dead s) eqn:D; intros H; inversion H; subst; cbn; repeat split; auto; discriminate.
Qed.

Definition wf (s : rs) : Prop :=
  (last s = 0 \/ last s = length (log s)) /\ (forall id, get_saved s id <= length (log s)) /\ NoDup (map fst (live s)).

Definition good_del (base : rs) (d : del) : Prop :=
  get_saved base (d_id d) <= d_sv d /\ (d_pos d = 0 \/ d_sv d < d_pos d).

Record ext (s s' : rs) : Prop := {
  ext_log : exists more, log s' = log s ++ more;
  ext_saved : forall id, get_saved s id <= get_saved s' id;
  ext_dels : exists new, dels s' = new ++ dels s /\ Forall (good_del s) new
}.

Lemma ext_refl s : ext s s.
Proof. split; [exists []; rewrite app_nil_r; reflexivity | auto | exists []; split; [reflexivity | constructor]]. Qed.

Lemma ext_trans a b c : ext a b -> ext b c -> ext a c.
Proof.
  intros [[m1 L1] S1 [n1 [D1 F1]]] [[m2 L2] S2 [n2 [D2 F2]]]. split.
  - exists (m1 ++ m2). rewrite L2, L1, app_assoc. reflexivity.
  - intros id. specialize (S1 id). specialize (S2 id). lia.
  - exists (n2 ++ n1). split; [rewrite D2, D1, app_assoc; reflexivity|].
    apply Forall_app. split; [|exact F1].
    eapply Forall_impl; [|exact F2]. intros d [G1 G2]. split; [|exact G2]. specialize (S1 (d_id d)). lia.
Qed.

Lemma ext_same s s' : log s' = log s -> saved s' = saved s -> dels s' = dels s -> ext s s'.
Proof.
  intros L S D. split.
  - exists []. rewrite app_nil_r. exact L.
  - intros id. unfold get_saved. rewrite S. lia.
  - exists []. split; [exact D | constructor].
Qed.

Lemma wf_same s s' : log s' = log s -> saved s' = saved s -> last s' = last s -> live s' = live s -> wf s -> wf s'.
Proof. intros L S La Li [W1 [W2 W3]]. unfold wf, get_saved in *. rewrite L, S, La, Li. auto. Qed.

Lemma tick_ext s s1 p f : tick s = (s1, p, f) -> ext s s1 /\ (wf s -> wf s1).
Proof.
  intros H. apply tick_fields in H. destruct H as (L & S & La & Li & D & _).
  split; [apply ext_same; assumption | apply wf_same; assumption].
Qed.

(* ---------- deliver, save ---------- *)
Lemma deliver_fields s id val pos :
  let s' := deliver s id val pos in
  log s' = log s /\ saved s' = saved s /\ last s' = last s /\ live s' = live s /\
  (dead s = true -> s' = s) /\
  (dead s = false -> dels s' = {| d_id := id; d_val := val; d_pos := pos; d_sv := get_saved s id |} :: dels s).
Proof.
  unfold deliver. destruct (tick s) as [[s1 p] f] eqn:Ht. apply tick_fields in Ht.
  destruct Ht as (L & S & La & Li & D & P & Dd & _).
  destruct (dead s) eqn:Ds; cbn in P; subst p; cbn.
  - rewrite (Dd eq_refl). splits; auto; discriminate.
  - splits; auto; try discriminate. intros _. rewrite D. reflexivity.
Qed.

Lemma deliver_ext s id val pos : (pos = 0 \/ get_saved s id < pos) -> ext s (deliver s id val pos).
Proof.
  intros Hp. pose proof (deliver_fields s id val pos) as H. cbv zeta in H.
  destruct H as (L & S & La & Li & Dd & Dl). split.
  - exists []. rewrite app_nil_r. exact L.
  - intros i. unfold get_saved. rewrite S. lia.
  - destruct (dead s) eqn:Ds.
    + rewrite (Dd eq_refl). exists []. split; [reflexivity | constructor].
    + exists [{| d_id := id; d_val := val; d_pos := pos; d_sv := get_saved s id |}]. split; [rewrite (Dl eq_refl); reflexivity|].
      constructor; [|constructor]. split; cbn; [lia | exact Hp].
Qed.

Lemma deliver_wf s id val pos : wf s -> wf (deliver s id val pos).
Proof.
  pose proof (deliver_fields s id val pos) as H. cbv zeta in H. destruct H as (L & S & La & Li & _).
  apply wf_same; assumption.
Qed.

Lemma save_fields s id pos :
  let s' := save s id pos in
  log s' = log s /\ last s' = last s /\ live s' = live s /\ dels s' = dels s /\
  (dead s = true -> s' = s) /\
  (saved s' = saved s \/ (dead s = false /\ saved s' = set_saved' (saved s) id pos)).
Proof.
  unfold save. destruct (tick s) as [[s1 p] f] eqn:Ht. apply tick_fields in Ht.
  destruct Ht as (L & S & La & Li & D & P & Dd & _).
  destruct (dead s) eqn:Ds; cbn in P; subst p; cbn.
  - rewrite (Dd eq_refl). splits; auto.
  - destruct f; cbn; splits; auto; try discriminate. right. split; [reflexivity | rewrite S; reflexivity].
Qed.

Lemma save_saved s id pos id' : id' <> id -> get_saved (save s id pos) id' = get_saved s id'.
Proof.
  intros Hne. pose proof (save_fields s id pos) as H. cbv zeta in H. destruct H as (_ & _ & _ & _ & _ & [S | [_ S]]);
    unfold get_saved; rewrite S; [reflexivity | apply get_set_other; exact Hne].
Qed.

Lemma save_saved_same s id pos : get_saved (save s id pos) id = get_saved s id \/ (dead s = false /\ get_saved (save s id pos) id = pos).
Proof.
  pose proof (save_fields s id pos) as H. cbv zeta in H. destruct H as (_ & _ & _ & _ & _ & [S | [D S]]);
    unfold get_saved; rewrite S; [left; reflexivity | right; split; [exact D | apply get_set_same]].
Qed.

Lemma save_ext s id pos : get_saved s id <= pos -> ext s (save s id pos).
Proof.
  intros Hp. pose proof (save_fields s id pos) as H. cbv zeta in H. destruct H as (L & La & Li & D & _ & _). split.
  - exists []. rewrite app_nil_r. exact L.
  - intros i. destruct (Nat.eq_dec i id) as [->|Hne].
    + destruct (save_saved_same s id pos) as [E | [_ E]]; rewrite E; lia.
    + rewrite (save_saved s id pos i Hne). lia.
  - exists []. split; [exact D | constructor].
Qed.

Lemma save_wf s id pos : pos <= length (log s) -> wf s -> wf (save s id pos).
Proof.
  intros Hp [W1 [W2 W3]]. pose proof (save_fields s id pos) as H. cbv zeta in H. destruct H as (L & La & Li & D & _ & _).
  unfold wf. rewrite L, La, Li. splits; auto. intros i. destruct (Nat.eq_dec i id) as [->|Hne].
  - destruct (save_saved_same s id pos) as [E | [_ E]]; rewrite E; [apply W2 | exact Hp].
  - rewrite (save_saved s id pos i Hne). apply W2.
Qed.

(* ---------- the live handler ---------- *)
Lemma live_handle_fields s id val pos :
  let s' := live_handle fixed s id val pos in
  log s' = log s /\ last s' = last s /\ live s' = live s /\ (dead s = true -> s' = s) /\
  (forall id', id' <> id -> get_saved s' id' = get_saved s id').
Proof.
  unfold live_handle. cbn [v_save_empty fixed negb andb].
  pose proof (deliver_fields s id val pos) as H. cbv zeta in H. destruct H as (L & S & La & Li & Dd & _).
  set (s1 := deliver s id val pos) in *.
  destruct (Nat.eqb (last s1) 0) eqn:E; cbn [andb].
  - splits; auto. intros id' _. unfold get_saved. rewrite S. reflexivity.
  - pose proof (save_fields s1 id (last s1)) as H. cbv zeta in H. destruct H as (L2 & La2 & Li2 & _ & Dd2 & _).
    splits; try congruence.
    + intros Ds. rewrite Dd2; rewrite (Dd Ds); auto.
    + intros id' Hne. rewrite save_saved by exact Hne. unfold get_saved. rewrite S. reflexivity.
Qed.

Lemma live_handle_ext s id val pos :
  wf s -> (pos = 0 \/ get_saved s id < pos) -> wf (live_handle fixed s id val pos) /\ ext s (live_handle fixed s id val pos).
Proof.
  intros W Hp. unfold live_handle. cbn [v_save_empty fixed negb andb].
  pose proof (deliver_fields s id val pos) as H. cbv zeta in H. destruct H as (L & S & La & Li & _ & _).
  pose proof (deliver_wf s id val pos W) as W1. pose proof (deliver_ext s id val pos Hp) as E1.
  set (s1 := deliver s id val pos) in *.
  destruct (Nat.eqb (last s1) 0) eqn:E; cbn [andb]; [split; assumption|].
  apply Nat.eqb_neq in E. destruct W1 as [[W1a | W1a] [W1b W1c]]; [congruence|].
  split.
  - apply save_wf; [lia | unfold wf; auto].
  - eapply ext_trans; [exact E1|]. apply save_ext. rewrite W1a. apply W1b.
Qed.

(* ---------- the fold over the live registrations ---------- *)
Definition live_step (ty val pos : nat) (acc : rs) (l : nat * nat) : rs :=
  if Nat.eqb (snd l) ty then live_handle fixed acc (fst l) val pos else acc.

Lemma live_fold_ext : forall l acc ty val pos,
  wf acc -> NoDup (map fst l) ->
  (pos = 0 \/ forall id, In id (map fst l) -> get_saved acc id < pos) ->
  let acc' := fold_left (live_step ty val pos) l acc in
  wf acc' /\ ext acc acc' /\ live acc' = live acc /\ last acc' = last acc /\ log acc' = log acc /\
  (dead acc = true -> acc' = acc) /\
  (forall id, ~ In id (map fst l) -> get_saved acc' id = get_saved acc id).
Proof.
  induction l as [|[id t] r IH]; intros acc ty val pos W ND Hp; cbn [fold_left].
  - splits; auto using ext_refl.
  - cbn [map fst] in ND. inversion ND as [|? ? Hnin ND']; subst.
    replace (live_step ty val pos acc (id, t)) with (if Nat.eqb t ty then live_handle fixed acc id val pos else acc) by reflexivity.
    destruct (Nat.eqb t ty).
    + assert (Hp1 : pos = 0 \/ get_saved acc id < pos) by (destruct Hp as [->|Hp]; [left; reflexivity | right; apply Hp; left; reflexivity]).
      destruct (live_handle_ext acc id val pos W Hp1) as [W1 E1].
      pose proof (live_handle_fields acc id val pos) as F. cbv zeta in F. destruct F as (L1 & La1 & Li1 & Dd1 & O1).
      set (a1 := live_handle fixed acc id val pos) in *.
      assert (Hp' : pos = 0 \/ forall i, In i (map fst r) -> get_saved a1 i < pos).
      { destruct Hp as [->|Hp]; [left; reflexivity | right]. intros i Hi. rewrite O1; [apply Hp; right; exact Hi|]. intros ->. contradiction. }
      specialize (IH a1 ty val pos W1 ND' Hp'). cbv zeta in IH. destruct IH as (W2 & E2 & Li2 & La2 & L2 & Dd2 & O2).
      splits; try congruence.
      * eapply ext_trans; eassumption.
      * intros Ds. rewrite Dd2; rewrite (Dd1 Ds); auto.
      * intros i Hi. rewrite O2; [apply O1|]; intro; apply Hi; [left; cbn; congruence | right; assumption].
    + assert (Hp' : pos = 0 \/ forall i, In i (map fst r) -> get_saved acc i < pos).
      { destruct Hp as [->|Hp]; [left; reflexivity | right]. intros i Hi. apply Hp. right. exact Hi. }
      specialize (IH acc ty val pos W ND' Hp'). cbv zeta in IH. destruct IH as (W2 & E2 & Li2 & La2 & L2 & Dd2 & O2).
      splits; auto. intros i Hi. apply O2. intro. apply Hi. right. assumption.
Qed.

(* ---------- Publish ---------- *)
Lemma pub_unfold s ty val :
  pub fixed s ty val =
  let '(s1, p, f) := tick s in
  let ok := p && negb f in
  let s2 := if ok then with_append s1 {| e_ty := ty; e_val := val |} else s1 in
  let pos := if ok then last s2 else 0 in
  fold_left (live_step ty val pos) (live s2) s2.
Proof. reflexivity. Qed.

Lemma pub_ext s ty val :
  wf s ->
  let s' := pub fixed s ty val in
  wf s' /\ ext s s' /\ live s' = live s /\ (dead s = true -> s' = s) /\
  (forall id, is_live s id = false -> get_saved s' id = get_saved s id).
Proof.
  intros W. rewrite pub_unfold. destruct (tick s) as [[s1 p] f] eqn:Ht.
  destruct (tick_ext _ _ _ _ Ht) as [E1 W1]. specialize (W1 W).
  apply tick_fields in Ht. destruct Ht as (L & S & La & Li & D & P & Dd & _).
  cbv zeta.
  assert (Hnl : forall id, is_live s id = false -> ~ In id (map fst (live s))).
  { intros id H. unfold is_live in H. intros Hin. apply in_map_iff in Hin. destruct Hin as [[i t] [Hi Hin]]. cbn in Hi. subst i.
    assert (existsb (fun l => Nat.eqb (fst l) id) (live s) = true) by (apply existsb_exists; exists (id, t); split; [exact Hin | cbn; apply Nat.eqb_refl]).
    congruence. }
  destruct (p && negb f) eqn:Ok.
  - set (s2 := with_append s1 {| e_ty := ty; e_val := val |}).
    assert (W2 : wf s2).
    { destruct W1 as [W1a [W1b W1c]]. unfold wf, s2, get_saved. cbn. rewrite app_length. cbn. splits; auto.
      - right. lia.
      - intros id. specialize (W1b id). unfold get_saved in W1b. lia. }
    assert (E2 : ext s1 s2).
    { split; cbn; [eexists; reflexivity | auto | exists []; split; [reflexivity | constructor]]. }
    assert (Hp : last s2 = 0 \/ forall id, In id (map fst (live s2)) -> get_saved s2 id < last s2).
    { right. intros id _. unfold s2, get_saved. cbn. destruct W1 as [_ [W1b _]]. specialize (W1b id). unfold get_saved in W1b. lia. }
    pose proof (live_fold_ext (live s2) s2 ty val (last s2) W2 (proj2 (proj2 W2)) Hp) as H. cbv zeta in H.
    destruct H as (W3 & E3 & Li3 & La3 & L3 & Dd3 & O3).
    assert (Ds : dead s = false) by (destruct (dead s); [cbn in P; subst p; discriminate | reflexivity]).
    splits; auto.
    + eapply ext_trans; [exact E1|]. eapply ext_trans; eassumption.
    + rewrite Li3. unfold s2. cbn. exact Li.
    + intros X. congruence.
    + intros id Hid. rewrite O3; [unfold s2, get_saved; cbn; rewrite S; reflexivity|].
      unfold s2. cbn. rewrite Li. apply Hnl. exact Hid.
  - pose proof (live_fold_ext (live s1) s1 ty val 0 W1 (proj2 (proj2 W1)) (or_introl eq_refl)) as H. cbv zeta in H.
    destruct H as (W3 & E3 & Li3 & La3 & L3 & Dd3 & O3).
    splits; auto.
    + eapply ext_trans; eassumption.
    + congruence.
    + intros Ds. rewrite Dd3; rewrite (Dd Ds); auto.
    + intros id Hid. rewrite O3; [unfold get_saved; rewrite S; reflexivity|]. rewrite Li. apply Hnl. exact Hid.
Qed.

Lemma pubs_ext : forall (l : list (nat * nat)) s,
  wf s ->
  let s' := fold_left (fun acc tv => pub fixed acc (fst tv) (snd tv)) l s in
  wf s' /\ ext s s' /\ live s' = live s /\ (dead s = true -> s' = s) /\
  (forall id, is_live s id = false -> get_saved s' id = get_saved s id).
Proof.
  induction l as [|[t v] r IH]; intros s W; cbn [fold_left].
  - splits; auto using ext_refl.
  - cbn [fst snd]. pose proof (pub_ext s t v W) as H. cbv zeta in H. destruct H as (W1 & E1 & Li1 & Dd1 & O1).
    specialize (IH _ W1). cbv zeta in IH. destruct IH as (W2 & E2 & Li2 & Dd2 & O2).
    splits; auto.
    + eapply ext_trans; eassumption.
    + congruence.
    + intros Ds. rewrite Dd2; rewrite (Dd1 Ds); auto.
    + intros id Hid. rewrite O2; [apply O1; exact Hid|]. unfold is_live in *. rewrite Li1. exact Hid.
Qed.

(* ---------- the replay loop ---------- *)
Lemma ext_len s s' : ext s s' -> length (log s) <= length (log s').
Proof. intros [[m L] _ _]. rewrite L, app_length. lia. Qed.

Lemma skipn_indexed : forall k l i, skipn k (indexed l i) = indexed (skipn k l) (i + k).
Proof.
  induction k as [|k IH]; intros l i.
  - cbn. rewrite Nat.add_0_r. reflexivity.
  - destruct l as [|e r]; cbn [skipn indexed]; [reflexivity|]. rewrite IH. f_equal. lia.
Qed.

Lemma is_live_same s s' id : live s' = live s -> is_live s' id = is_live s id.
Proof. unfold is_live. intros ->. reflexivity. Qed.

Lemma replay_ext : forall tl cur s id ty k inner,
  wf s -> is_live s id = false -> get_saved s id < cur -> cur + length tl <= S (length (log s)) ->
  let r := replay_loop fixed (indexed tl cur) s id ty k inner in
  wf (fst r) /\ ext s (fst r) /\ live (fst r) = live s /\ (dead s = true -> fst r = s).
Proof.
  induction tl as [|e tl IH]; intros cur s id ty k inner W NL Hs Hlen; cbn [indexed replay_loop].
  - cbn. splits; auto using ext_refl.
  - destruct (tick s) as [[s1 p] f] eqn:Ht.
    destruct (tick_ext _ _ _ _ Ht) as [E1 W1]. specialize (W1 W).
    apply tick_fields in Ht. destruct Ht as (L1 & S1 & La1 & Li1 & D1 & P & Dd1 & _).
    destruct (negb p || f) eqn:Stop.
    + cbn. splits; auto.
    + assert (Hs1 : get_saved s1 id < cur) by (unfold get_saved; rewrite S1; exact Hs).
      cbn [length] in Hlen.
      destruct (Nat.eqb (e_ty e) ty).
      * set (s2 := deliver s1 id (e_val e) cur).
        pose proof (deliver_fields s1 id (e_val e) cur) as F2. cbv zeta in F2. fold s2 in F2.
        destruct F2 as (L2 & S2 & La2 & Li2 & Dd2 & _).
        pose proof (deliver_wf s1 id (e_val e) cur W1) as W2. fold s2 in W2.
        pose proof (deliver_ext s1 id (e_val e) cur (or_intror Hs1)) as E2. fold s2 in E2.
        pose proof (pubs_ext (inner_at inner k) s2 W2) as F3. cbv zeta in F3.
        set (s3 := fold_left (fun acc tv => pub fixed acc (fst tv) (snd tv)) (inner_at inner k) s2) in *.
        destruct F3 as (W3 & E3 & Li3 & Dd3 & O3).
        assert (NL2 : is_live s2 id = false) by (rewrite (is_live_same s s2 id); [exact NL | congruence]).
        assert (Hs3 : get_saved s3 id < cur).
        { rewrite (O3 id NL2). unfold get_saved. rewrite S2. exact Hs1. }
        assert (Hl3 : cur <= length (log s3)).
        { apply ext_len in E3. rewrite L2, L1 in E3. lia. }
        set (s4 := save s3 id cur).
        pose proof (save_fields s3 id cur) as F4. cbv zeta in F4. fold s4 in F4. destruct F4 as (L4 & La4 & Li4 & D4 & Dd4 & _).
        pose proof (save_wf s3 id cur Hl3 W3) as W4. fold s4 in W4.
        assert (E4 : ext s3 s4) by (apply save_ext; lia).
        assert (Hs4 : get_saved s4 id < S cur).
        { destruct (save_saved_same s3 id cur) as [X | [_ X]]; fold s4 in X; rewrite X; lia. }
        assert (E04 : ext s s4) by (eapply ext_trans; [exact E1|]; eapply ext_trans; [exact E2|]; eapply ext_trans; eassumption).
        assert (Hlen4 : S cur + length tl <= S (length (log s4))) by (apply ext_len in E04; lia).
        assert (NL4 : is_live s4 id = false) by (rewrite (is_live_same s s4 id); [exact NL | congruence]).
        specialize (IH (S cur) s4 id ty (S k) inner W4 NL4 Hs4 Hlen4). cbv zeta in IH.
        destruct IH as (W5 & E5 & Li5 & Dd5).
        splits; auto.
        -- eapply ext_trans; eassumption.
        -- congruence.
        -- intros Ds. assert (X1 : s1 = s) by auto. assert (X2 : s2 = s) by (rewrite Dd2; congruence).
           assert (X3 : s3 = s) by (rewrite Dd3; congruence). assert (X4 : s4 = s) by (rewrite Dd4; congruence).
           rewrite Dd5; congruence.
      * assert (NL1 : is_live s1 id = false) by (rewrite (is_live_same s s1 id); [exact NL | congruence]).
        assert (Hlen1 : S cur + length tl <= S (length (log s1))) by (rewrite L1; lia).
        assert (Hs1' : get_saved s1 id < S cur) by lia.
        specialize (IH (S cur) s1 id ty k inner W1 NL1 Hs1' Hlen1). cbv zeta in IH.
        destruct IH as (W5 & E5 & Li5 & Dd5).
        splits; auto.
        -- eapply ext_trans; eassumption.
        -- congruence.
        -- intros Ds. rewrite Dd5; rewrite (Dd1 Ds); auto.
Qed.

(* ---------- SubscribeWithReplay ---------- *)
Lemma with_live_ext s id ty : ext s (with_live s id ty).
Proof. apply ext_same; reflexivity. Qed.

Lemma not_live_notin s id : is_live s id = false -> ~ In id (map fst (live s)).
Proof.
  intros H Hin. apply in_map_iff in Hin. destruct Hin as [[i t] [Hi Hin]]. cbn in Hi. subst i. unfold is_live in H.
  assert (existsb (fun l => Nat.eqb (fst l) id) (live s) = true) by (apply existsb_exists; exists (id, t); split; [exact Hin | cbn; apply Nat.eqb_refl]).
  congruence.
Qed.

Lemma nodup_snoc (l : list nat) x : NoDup l -> ~ In x l -> NoDup (l ++ [x]).
Proof.
  induction l as [|a r IH]; intros ND Hn; cbn.
  - constructor; [intros []|constructor].
  - inversion ND; subst. constructor.
    + rewrite in_app_iff. intros [H|[H|[]]]; [contradiction | subst; apply Hn; left; reflexivity].
    + apply IH; [assumption | intro; apply Hn; right; assumption].
Qed.

Lemma sub_ext tys s id inner :
  wf s -> is_live s id = false ->
  let r := sub fixed tys s id inner in wf (fst r) /\ ext s (fst r).
Proof.
  intros W NL. unfold sub. cbn [v_ignore_load_err fixed negb andb].
  destruct (tick s) as [[s1 p] f] eqn:Ht.
  destruct (tick_ext _ _ _ _ Ht) as [E1 W1]. specialize (W1 W).
  apply tick_fields in Ht. destruct Ht as (L1 & S1 & La1 & Li1 & D1 & P & Dd1 & _).
  destruct (negb p); [cbn; split; assumption|].
  rewrite andb_true_r.
  destruct f; [cbn; split; assumption|].
  destruct (tick s1) as [[s2 p2] f2] eqn:Ht2.
  destruct (tick_ext _ _ _ _ Ht2) as [E2 W2]. specialize (W2 W1).
  apply tick_fields in Ht2. destruct Ht2 as (L2 & S2 & La2 & Li2 & D2 & P2 & Dd2 & _).
  assert (E02 : ext s s2) by (eapply ext_trans; eassumption).
  destruct (negb p2 || f2); [cbn; split; assumption|].
  rewrite skipn_indexed.
  assert (NL2 : is_live s2 id = false) by (rewrite (is_live_same s s2 id); [exact NL | congruence]).
  assert (Hs2 : get_saved s2 id < 1 + get_saved s1 id) by (unfold get_saved; rewrite S2; lia).
  assert (Hlen : 1 + get_saved s1 id + length (skipn (get_saved s1 id) (log s2)) <= S (length (log s2))).
  { rewrite skipn_length. pose proof (proj1 (proj2 W1) id) as X. rewrite L2. lia. }
  pose proof (replay_ext (skipn (get_saved s1 id) (log s2)) (1 + get_saved s1 id) s2 id (nth id tys 0) 0 inner W2 NL2 Hs2 Hlen) as H.
  cbv zeta in H.
  destruct (replay_loop fixed (indexed (skipn (get_saved s1 id) (log s2)) (1 + get_saved s1 id)) s2 id (nth id tys 0) 0 inner) as [s3 err].
  cbn [fst] in H. destruct H as (W3 & E3 & Li3 & _).
  assert (E03 : ext s s3) by (eapply ext_trans; eassumption).
  destruct (err || dead s3); cbn [fst]; [split; assumption|].
  split; [|eapply ext_trans; [exact E03 | apply with_live_ext]].
  destruct W3 as [W3a [W3b W3c]]. unfold wf, get_saved. cbn. splits; auto.
  rewrite map_app. cbn. apply nodup_snoc; [exact W3c|]. apply not_live_notin. rewrite (is_live_same s s3 id); [exact NL | congruence].
Qed.

(* ---------- operations and histories ---------- *)
Lemma begin_op_ext s pl : ext s (begin_op s pl) /\ (wf s -> wf (begin_op s pl)) /\ live (begin_op s pl) = live s.
Proof. splits; [apply ext_same; reflexivity | apply wf_same; reflexivity | reflexivity]. Qed.

Lemma restart_ext s : ext s (restart s) /\ (wf s -> wf (restart s)).
Proof.
  split; [apply ext_same; reflexivity|]. intros [W1 [W2 W3]]. unfold wf, get_saved. cbn. splits; auto. constructor.
Qed.

Lemma step_ext tys s o pl : wf s -> wf (fst (step fixed tys s o pl)) /\ ext s (fst (step fixed tys s o pl)).
Proof.
  intros W. destruct o as [ty val | id inner |]; cbn [step].
  - destruct (begin_op_ext s pl) as (E0 & W0 & _). specialize (W0 W).
    pose proof (pub_ext (begin_op s pl) ty val W0) as H. cbv zeta in H. destruct H as (W1 & E1 & _).
    cbn [fst]. split; [exact W1 | eapply ext_trans; eassumption].
  - destruct (op_ok s (OSub id inner)) eqn:Ok; [|cbn; split; [exact W | apply ext_refl]].
    destruct (begin_op_ext s pl) as (E0 & W0 & Li0). specialize (W0 W).
    cbn [op_ok] in Ok. apply negb_true_iff in Ok.
    assert (NL : is_live (begin_op s pl) id = false) by (rewrite (is_live_same s _ id Li0); exact Ok).
    pose proof (sub_ext tys (begin_op s pl) id inner W0 NL) as H. cbv zeta in H. destruct H as [W1 E1].
    split; [exact W1 | eapply ext_trans; eassumption].
  - cbn [fst]. destruct (restart_ext s) as [E W']. split; auto.
Qed.

Lemma run_ext tys : forall h s, wf s -> wf (run fixed tys h s) /\ ext s (run fixed tys h s).
Proof.
  induction h as [|[o pl] r IH]; intros s W; cbn [run fold_left].
  - split; [exact W | apply ext_refl].
  - cbn [fst snd]. destruct (step_ext tys s o pl W) as [W1 E1].
    destruct (IH _ W1) as [W2 E2]. unfold run in *. split; [exact W2 | eapply ext_trans; eassumption].
Qed.

Lemma wf_init : wf init.
Proof. unfold wf, get_saved. cbn. splits; auto. constructor. Qed.

(* ===== Part A: the theorems ===== *)

(* the saved offset of a subscription never moves backwards: across any continuation of any history *)
Theorem saved_monotone tys h1 h2 id :
  get_saved (run fixed tys h1 init) id <= get_saved (run fixed tys (h1 ++ h2) init) id.
Proof.
  unfold run. rewrite fold_left_app. fold (run fixed tys h1 init).
  destruct (run_ext tys h1 init wf_init) as [W1 _].
  destruct (run_ext tys h2 _ W1) as [_ E]. apply E.
Qed.

(* every delivery of a persisted event happens while the subscription's saved position is below it *)
Theorem delivered_beyond_saved tys h d :
  In d (dels (run fixed tys h init)) -> d_pos d = 0 \/ d_sv d < d_pos d.
Proof.
  intros Hin. destruct (run_ext tys h init wf_init) as [_ [_ _ [new [D F]]]].
  cbn in D. rewrite app_nil_r in D. rewrite D in Hin. rewrite Forall_forall in F. apply (F d Hin).
Qed.

(* hence: once a position has been saved for a subscription, no continuation delivers it again *)
Theorem no_redelivery_once_saved tys h1 h2 id p :
  0 < p -> p <= get_saved (run fixed tys h1 init) id ->
  exists new, dels (run fixed tys (h1 ++ h2) init) = new ++ dels (run fixed tys h1 init) /\
              forall d, In d new -> ~ (d_id d = id /\ d_pos d = p).
Proof.
  intros Hp Hs. unfold run. rewrite fold_left_app. fold (run fixed tys h1 init).
  destruct (run_ext tys h1 init wf_init) as [W1 _].
  destruct (run_ext tys h2 _ W1) as [_ [_ _ [new [D F]]]].
  exists new. split; [exact D|]. intros d Hin [Hid Hpos]. rewrite Forall_forall in F. destruct (F d Hin) as [G1 G2].
  rewrite Hid in G1. lia.
Qed.

(* ===== Part B: nothing is lost (histories without publishes from inside a replay) ===== *)
Definition delivered (s : rs) (id p : nat) : Prop := exists d, In d (dels s) /\ d_id d = id /\ d_pos d = p.
Definition typed (tys : list nat) (lg : list ev) (id p : nat) : Prop :=
  exists e, 1 <= p /\ nth_error lg (p - 1) = Some e /\ e_ty e = nth id tys 0.
(* everything of the subscription's type at or below its saved position has been delivered to it *)
Definition covered (tys : list nat) (s : rs) : Prop :=
  forall id p, typed tys (log s) id p -> p <= get_saved s id -> delivered s id p.
(* a live subscription has been delivered everything of its type that is in the log *)
Definition live_cov (tys : list nat) (s : rs) : Prop :=
  dead s = false -> forall id ty, In (id, ty) (live s) ->
  ty = nth id tys 0 /\ forall p, typed tys (log s) id p -> delivered s id p.

Definition grows (s s' : rs) : Prop := exists new, dels s' = new ++ dels s.
Lemma grows_refl s : grows s s. Proof. exists []. reflexivity. Qed.
Lemma grows_trans a b c : grows a b -> grows b c -> grows a c.
Proof. intros [n1 D1] [n2 D2]. exists (n2 ++ n1). rewrite D2, D1, app_assoc. reflexivity. Qed.
Lemma delivered_mono s s' id p : grows s s' -> delivered s id p -> delivered s' id p.
Proof. intros [n D] [d [Hin H]]. exists d. split; [rewrite D; apply in_or_app; right; exact Hin | exact H]. Qed.

Lemma typed_app tys lg m id p : typed tys lg id p -> typed tys (lg ++ m) id p.
Proof.
  intros [e [H1 [H2 H3]]]. exists e. splits; auto. rewrite nth_error_app1; [exact H2|]. apply nth_error_Some. congruence.
Qed.

Lemma typed_snoc_inv tys lg e id p :
  typed tys (lg ++ [e]) id p -> typed tys lg id p \/ (p = S (length lg) /\ e_ty e = nth id tys 0).
Proof.
  intros [e' [H1 [H2 H3]]]. destruct (Nat.lt_ge_cases (p - 1) (length lg)) as [Hlt|Hge].
  - left. exists e'. splits; auto. rewrite nth_error_app1 in H2; assumption.
  - right. rewrite nth_error_app2 in H2 by exact Hge.
    destruct (p - 1 - length lg) as [|n] eqn:E; cbn in H2; [|destruct n; discriminate].
    inversion H2; subst e'. split; [lia | exact H3].
Qed.

Lemma typed_bound tys lg id p : typed tys lg id p -> 1 <= p <= length lg.
Proof. intros [e [H1 [H2 _]]]. assert (p - 1 < length lg) by (apply nth_error_Some; congruence). lia. Qed.

Lemma covered_mono tys s s' : log s' = log s -> saved s' = saved s -> grows s s' -> covered tys s -> covered tys s'.
Proof.
  intros L S G C id p Ht Hp. rewrite L in Ht. unfold get_saved in Hp. rewrite S in Hp.
  eapply delivered_mono; [exact G | apply C; assumption].
Qed.

Lemma live_cov_mono tys s s' :
  log s' = log s -> live s' = live s -> grows s s' -> (dead s' = false -> dead s = false) -> live_cov tys s -> live_cov tys s'.
Proof.
  intros L Li G Dd C Hd id ty Hin. rewrite Li in Hin. destruct (C (Dd Hd) id ty Hin) as [C1 C2].
  split; [exact C1|]. intros p Ht. rewrite L in Ht. eapply delivered_mono; [exact G | apply C2; exact Ht].
Qed.

Lemma tick_grows s s1 p f : tick s = (s1, p, f) -> grows s s1.
Proof. intros H. apply tick_fields in H. destruct H as (_ & _ & _ & _ & D & _). exists []. exact D. Qed.

Lemma deliver_grows s id val pos : grows s (deliver s id val pos).
Proof.
  pose proof (deliver_fields s id val pos) as H. cbv zeta in H. destruct H as (_ & _ & _ & _ & Dd & Dl).
  destruct (dead s) eqn:Ds; [rewrite (Dd eq_refl); apply grows_refl|]. eexists [_]. rewrite (Dl eq_refl). reflexivity.
Qed.

Lemma deliver_delivered s id val pos : dead s = false -> delivered (deliver s id val pos) id pos.
Proof.
  intros Ds. pose proof (deliver_fields s id val pos) as H. cbv zeta in H. destruct H as (_ & _ & _ & _ & _ & Dl).
  eexists. split; [rewrite (Dl Ds); left; reflexivity | split; reflexivity].
Qed.

Lemma deliver_dead s id val pos : dead s = true -> dead (deliver s id val pos) = true.
Proof. intros Ds. pose proof (deliver_fields s id val pos) as H. cbv zeta in H. destruct H as (_ & _ & _ & _ & Dd & _). rewrite (Dd Ds). exact Ds. Qed.

Lemma save_grows s id pos : grows s (save s id pos).
Proof. pose proof (save_fields s id pos) as H. cbv zeta in H. destruct H as (_ & _ & _ & D & _). exists []. exact D. Qed.

(* saving position pos for id keeps "covered" if everything of id's type up to pos has been delivered *)
Lemma save_covered tys s id pos :
  covered tys s -> (dead s = false -> forall p, typed tys (log s) id p -> p <= pos -> delivered s id p) ->
  covered tys (save s id pos).
Proof.
  intros C H. pose proof (save_fields s id pos) as F. cbv zeta in F. destruct F as (L & _ & _ & D & _ & Sv).
  intros i p Ht Hp. rewrite L in Ht. eapply delivered_mono; [exists []; exact D|].
  destruct (Nat.eq_dec i id) as [->|Hne].
  - destruct (save_saved_same s id pos) as [E | [Ds E]]; rewrite E in Hp; [apply C; assumption | apply H; assumption].
  - rewrite (save_saved s id pos i Hne) in Hp. apply C; assumption.
Qed.

Lemma live_handle_cov tys s id val pos :
  (last s = 0 \/ last s = length (log s)) -> covered tys s ->
  (dead s = false -> forall p, typed tys (log s) id p -> p <> pos -> delivered s id p) ->
  let s' := live_handle fixed s id val pos in
  covered tys s' /\ (dead s' = false -> delivered s' id pos) /\ grows s s'.
Proof.
  intros Hl C Hb. unfold live_handle. cbn [v_save_empty fixed negb andb].
  pose proof (deliver_fields s id val pos) as F. cbv zeta in F. destruct F as (L & S & La & Li & Dd & Dl).
  pose proof (deliver_grows s id val pos) as G1.
  set (s1 := deliver s id val pos) in *.
  assert (C1 : covered tys s1) by (eapply covered_mono; eassumption).
  assert (Hdel : dead s1 = false -> delivered s1 id pos).
  { intros D1. destruct (dead s) eqn:Ds; [rewrite (Dd eq_refl) in D1; congruence|]. apply deliver_delivered. exact Ds. }
  assert (Hdead : dead s1 = false -> dead s = false).
  { intros D1. destruct (dead s) eqn:Ds; [rewrite (Dd eq_refl) in D1; congruence | reflexivity]. }
  destruct (Nat.eqb (last s1) 0) eqn:E; cbn [andb]; [splits; auto|].
  apply Nat.eqb_neq in E.
  pose proof (save_fields s1 id (last s1)) as F2. cbv zeta in F2. destruct F2 as (L2 & _ & _ & D2 & Dd2 & _).
  splits.
  - apply save_covered; [exact C1|]. intros D1 p Ht Hp.
    destruct (Nat.eq_dec p pos) as [->|Hne]; [apply Hdel; exact D1|].
    eapply delivered_mono; [exact G1|]. apply Hb; [apply Hdead; exact D1 | rewrite <- L; exact Ht | exact Hne].
  - intros D3. eapply delivered_mono; [apply save_grows|]. apply Hdel.
    destruct (dead s1) eqn:D1; [rewrite (Dd2 eq_refl) in D3; congruence | reflexivity].
  - eapply grows_trans; [exact G1 | apply save_grows].
Qed.

Lemma live_fold_cov tys ty val pos : forall l acc,
  wf acc -> NoDup (map fst l) ->
  (pos = 0 \/ forall id, In id (map fst l) -> get_saved acc id < pos) ->
  covered tys acc ->
  (dead acc = false -> forall id t, In (id, t) l -> t = nth id tys 0 /\ forall p, typed tys (log acc) id p -> p <> pos -> delivered acc id p) ->
  let acc' := fold_left (live_step ty val pos) l acc in
  covered tys acc' /\ grows acc acc' /\
  (dead acc' = false -> forall id t, In (id, t) l -> t = ty -> delivered acc' id pos).
Proof.
  induction l as [|[id t] r IH]; intros acc W ND Hp C Hb; cbn [fold_left].
  - splits; auto using grows_refl. intros _ ? ? [].
  - cbn [map fst] in ND. inversion ND as [|? ? Hnin ND']; subst.
    replace (live_step ty val pos acc (id, t)) with (if Nat.eqb t ty then live_handle fixed acc id val pos else acc) by reflexivity.
    destruct (Nat.eqb t ty) eqn:Et.
    + apply Nat.eqb_eq in Et. subst t.
      assert (Hp1 : pos = 0 \/ get_saved acc id < pos) by (destruct Hp as [->|Hp]; [left; reflexivity | right; apply Hp; left; reflexivity]).
      destruct (live_handle_ext acc id val pos W Hp1) as [W1 _].
      pose proof (live_handle_fields acc id val pos) as F. cbv zeta in F. destruct F as (L1 & La1 & Li1 & Dd1 & O1).
      assert (Hb1 : dead acc = false -> forall p, typed tys (log acc) id p -> p <> pos -> delivered acc id p).
      { intros Da. apply (Hb Da id ty). left. reflexivity. }
      pose proof (live_handle_cov tys acc id val pos (proj1 W) C Hb1) as H. cbv zeta in H. destruct H as (C1 & Hd1 & G1).
      set (a1 := live_handle fixed acc id val pos) in *.
      assert (Hdead : dead a1 = false -> dead acc = false).
      { intros D1. destruct (dead acc) eqn:Da; [rewrite (Dd1 eq_refl) in D1; congruence | reflexivity]. }
      assert (Hp' : pos = 0 \/ forall i, In i (map fst r) -> get_saved a1 i < pos).
      { destruct Hp as [->|Hp]; [left; reflexivity | right]. intros i Hi. rewrite O1; [apply Hp; right; exact Hi|]. intros ->. contradiction. }
      assert (Hb' : dead a1 = false -> forall i t, In (i, t) r -> t = nth i tys 0 /\ forall p, typed tys (log a1) i p -> p <> pos -> delivered a1 i p).
      { intros D1 i t Hin. destruct (Hb (Hdead D1) i t (or_intror Hin)) as [X1 X2]. split; [exact X1|].
        intros p Ht Hne. rewrite L1 in Ht. eapply delivered_mono; [exact G1 | apply X2; assumption]. }
      specialize (IH a1 W1 ND' Hp' C1 Hb'). cbv zeta in IH. destruct IH as (C2 & G2 & Hd2).
      pose proof (live_fold_ext r a1 ty val pos W1 ND' Hp') as FE. cbv zeta in FE. destruct FE as (_ & _ & _ & _ & _ & Dd2 & _).
      splits; auto.
      * eapply grows_trans; eassumption.
      * intros D2 i t [Heq | Hin] Ht; [|apply (Hd2 D2 i t Hin Ht)].
        inversion Heq; subst i t. eapply delivered_mono; [exact G2|]. apply Hd1.
        destruct (dead a1) eqn:D1; [rewrite (Dd2 eq_refl) in D2; congruence | reflexivity].
    + assert (Hp' : pos = 0 \/ forall i, In i (map fst r) -> get_saved acc i < pos).
      { destruct Hp as [->|Hp]; [left; reflexivity | right]. intros i Hi. apply Hp. right. exact Hi. }
      assert (Hb' : dead acc = false -> forall i t, In (i, t) r -> t = nth i tys 0 /\ forall p, typed tys (log acc) i p -> p <> pos -> delivered acc i p).
      { intros Da i t' Hin. apply (Hb Da i t'). right. exact Hin. }
      specialize (IH acc W ND' Hp' C Hb'). cbv zeta in IH. destruct IH as (C2 & G2 & Hd2).
      splits; auto. intros D2 i t' [Heq | Hin] Ht; [|apply (Hd2 D2 i t' Hin Ht)].
      inversion Heq; subst i t'. apply Nat.eqb_neq in Et. congruence.
Qed.

Definition inv (tys : list nat) (s : rs) : Prop := wf s /\ covered tys s /\ live_cov tys s.

Lemma pub_inv tys s ty val : inv tys s -> inv tys (pub fixed s ty val).
Proof.
  intros (W & C & LC).
  pose proof (pub_ext s ty val W) as PE. cbv zeta in PE. destruct PE as (W' & _ & Li' & Dd' & _).
  destruct (dead s) eqn:Ds; [rewrite (Dd' eq_refl); unfold inv; auto|].
  split; [exact W'|]. clear W' Dd'.
  specialize (LC Ds). revert Li'. rewrite pub_unfold. destruct (tick s) as [[s1 p] f] eqn:Ht.
  destruct (tick_ext _ _ _ _ Ht) as [_ W1]. specialize (W1 W). pose proof (tick_grows _ _ _ _ Ht) as G1.
  apply tick_fields in Ht. destruct Ht as (L & Sv & La & Li & D & P & _ & _).
  rewrite Ds in P. cbn in P. subst p. cbv zeta. cbn [andb].
  assert (C1 : covered tys s1) by (eapply covered_mono; eassumption).
  destruct f; cbn [negb].
  - (* the append failed: nothing new in the log *)
    intros Li'.
    assert (Hb : dead s1 = false -> forall id t, In (id, t) (live s1) -> t = nth id tys 0 /\ forall p, typed tys (log s1) id p -> p <> 0 -> delivered s1 id p).
    { intros _ id t Hin. rewrite Li in Hin. destruct (LC id t Hin) as [X1 X2]. split; [exact X1|].
      intros p Ht _. rewrite L in Ht. eapply delivered_mono; [exact G1 | apply X2; exact Ht]. }
    pose proof (live_fold_cov tys ty val 0 (live s1) s1 W1 (proj2 (proj2 W1)) (or_introl eq_refl) C1 Hb) as H. cbv zeta in H.
    destruct H as (C2 & G2 & _).
    pose proof (live_fold_ext (live s1) s1 ty val 0 W1 (proj2 (proj2 W1)) (or_introl eq_refl)) as FE. cbv zeta in FE.
    destruct FE as (_ & _ & Li2 & _ & L2 & _ & _).
    split; [exact C2|]. intros Dd id t Hin. rewrite Li2, Li in Hin. destruct (LC id t Hin) as [X1 X2]. split; [exact X1|].
    intros p Ht. rewrite L2, L in Ht. eapply delivered_mono; [exact (grows_trans _ _ _ G1 G2) | apply X2; exact Ht].
  - (* appended at position S (length (log s)) *)
    set (e := {| e_ty := ty; e_val := val |}). set (s2 := with_append s1 e). intros Li'.
    assert (W2 : wf s2).
    { destruct W1 as [W1a [W1b W1c]]. unfold wf, s2, get_saved. cbn. rewrite app_length. cbn. splits; auto.
      - right. lia.
      - intros id. specialize (W1b id). unfold get_saved in W1b. lia. }
    assert (Hlast : last s2 = S (length (log s))) by (unfold s2; cbn; rewrite L; reflexivity).
    assert (Hlog : log s2 = log s ++ [e]) by (unfold s2; cbn; rewrite L; reflexivity).
    assert (C2 : covered tys s2).
    { intros id p Ht Hp. unfold s2, get_saved in Hp. cbn in Hp. fold (get_saved s1 id) in Hp.
      rewrite Hlog in Ht. apply typed_snoc_inv in Ht. destruct Ht as [Ht | [Hpe _]].
      - destruct (C1 id p) as [d Hd]; [rewrite L; exact Ht | exact Hp | exists d; exact Hd].
      - pose proof (proj1 (proj2 W1) id) as X. rewrite L in X. lia. }
    assert (Hp : last s2 = 0 \/ forall id, In id (map fst (live s2)) -> get_saved s2 id < last s2).
    { right. intros id _. pose proof (proj1 (proj2 W1) id) as X. unfold s2, get_saved in *. cbn. lia. }
    assert (Hb : dead s2 = false -> forall id t, In (id, t) (live s2) -> t = nth id tys 0 /\ forall p, typed tys (log s2) id p -> p <> last s2 -> delivered s2 id p).
    { intros _ id t Hin. unfold s2 in Hin. cbn in Hin. rewrite Li in Hin. destruct (LC id t Hin) as [X1 X2]. split; [exact X1|].
      intros p Ht Hne. rewrite Hlog in Ht. apply typed_snoc_inv in Ht. destruct Ht as [Ht | [Hpe _]]; [|lia].
      destruct (X2 p Ht) as [d Hd]. exists d. unfold s2. cbn. rewrite D. exact Hd. }
    pose proof (live_fold_cov tys ty val (last s2) (live s2) s2 W2 (proj2 (proj2 W2)) Hp C2 Hb) as H. cbv zeta in H.
    destruct H as (C3 & G3 & Hd3).
    pose proof (live_fold_ext (live s2) s2 ty val (last s2) W2 (proj2 (proj2 W2)) Hp) as FE. cbv zeta in FE.
    destruct FE as (_ & _ & Li3 & _ & L3 & _ & _).
    split; [exact C3|]. intros Dd id t Hin. rewrite Li3 in Hin.
    assert (Hin' : In (id, t) (live s)) by (unfold s2 in Hin; cbn in Hin; rewrite Li in Hin; exact Hin).
    destruct (LC id t Hin') as [X1 X2]. split; [exact X1|].
    intros p Ht. rewrite L3, Hlog in Ht. apply typed_snoc_inv in Ht. destruct Ht as [Ht | [Hpe Hty]].
    + eapply delivered_mono; [exact G3|]. destruct (X2 p Ht) as [d Hd]. exists d. unfold s2. cbn. rewrite D. exact Hd.
    + subst p. rewrite <- Hlast. apply (Hd3 Dd id t Hin). cbn in Hty. congruence.
Qed.

Lemma nth_error_skipn' {A} : forall k (l : list A) j, nth_error (skipn k l) j = nth_error l (k + j).
Proof.
  induction k as [|k IH]; intros l j; [reflexivity|]. destruct l as [|a r]; cbn [skipn].
  - destruct j; reflexivity.
  - cbn [Nat.add nth_error]. apply IH.
Qed.

Lemma tick_dead_mono s s1 p f : tick s = (s1, p, f) -> dead s1 = false -> dead s = false.
Proof.
  intros H D1. apply tick_fields in H. destruct H as (_ & _ & _ & _ & _ & _ & _ & Dd).
  destruct (dead s); [rewrite Dd in D1; [discriminate | reflexivity] | reflexivity].
Qed.

Lemma deliver_dead_mono s id val pos : dead (deliver s id val pos) = false -> dead s = false.
Proof. intros D1. destruct (dead s) eqn:Ds; [rewrite deliver_dead in D1; [discriminate | exact Ds] | reflexivity]. Qed.

Lemma save_dead_mono s id pos : dead (save s id pos) = false -> dead s = false.
Proof.
  intros D1. pose proof (save_fields s id pos) as H. cbv zeta in H. destruct H as (_ & _ & _ & _ & Dd & _).
  destruct (dead s) eqn:Ds; [rewrite (Dd eq_refl) in D1; congruence | reflexivity].
Qed.

Lemma replay_cov tys id : forall tl cur s k,
  1 <= cur -> cur - 1 + length tl = length (log s) ->
  (forall j e, nth_error tl j = Some e -> nth_error (log s) (cur - 1 + j) = Some e) ->
  covered tys s ->
  (dead s = false -> forall p, typed tys (log s) id p -> p < cur -> delivered s id p) ->
  let r := replay_loop fixed (indexed tl cur) s id (nth id tys 0) k [] in
  covered tys (fst r) /\ grows s (fst r) /\ log (fst r) = log s /\ live (fst r) = live s /\
  (dead (fst r) = false -> dead s = false) /\
  (snd r = false -> dead (fst r) = false -> forall p, typed tys (log s) id p -> delivered (fst r) id p).
Proof.
  induction tl as [|e tl IH]; intros cur s k Hc Hlen Hnth C Hb; cbn [indexed replay_loop].
  - cbn [fst snd]. splits; auto using grows_refl. intros _ Ds p Ht. apply (Hb Ds p Ht).
    apply typed_bound in Ht. cbn in Hlen. lia.
  - destruct (tick s) as [[s1 p] f] eqn:Ht.
    pose proof (tick_grows _ _ _ _ Ht) as G1. pose proof (tick_dead_mono _ _ _ _ Ht) as DM1.
    apply tick_fields in Ht. destruct Ht as (L1 & S1 & La1 & Li1 & D1 & P & _ & _).
    assert (C1 : covered tys s1) by (eapply covered_mono; eassumption).
    destruct (negb p || f) eqn:Stop; [cbn [fst snd]; splits; auto; discriminate|].
    apply orb_false_iff in Stop. destruct Stop as [Pp Ff]. apply negb_false_iff in Pp. subst p f.
    assert (Ds : dead s = false) by (destruct (dead s); [discriminate | reflexivity]).
    assert (He : nth_error (log s) (cur - 1) = Some e) by (rewrite <- (Nat.add_0_r (cur - 1)); apply Hnth; reflexivity).
    cbn [length] in Hlen.
    assert (Hnth' : forall s', log s' = log s -> forall j e', nth_error tl j = Some e' -> nth_error (log s') (S cur - 1 + j) = Some e').
    { intros s' L' j e' Hj. rewrite L'. replace (S cur - 1 + j) with (cur - 1 + S j) by lia. apply Hnth. exact Hj. }
    destruct (Nat.eqb (e_ty e) (nth id tys 0)) eqn:Ety.
    + apply Nat.eqb_eq in Ety. cbn [inner_at filter map fold_left].
      pose proof (deliver_fields s1 id (e_val e) cur) as F2. cbv zeta in F2. destruct F2 as (L2 & S2 & La2 & Li2 & _ & _).
      pose proof (deliver_grows s1 id (e_val e) cur) as G2. pose proof (deliver_dead_mono s1 id (e_val e) cur) as DM2.
      pose proof (deliver_delivered s1 id (e_val e) cur) as Hdel.
      set (s2 := deliver s1 id (e_val e) cur) in *.
      assert (C2 : covered tys s2) by (eapply covered_mono; eassumption).
      assert (Hb2 : dead s2 = false -> forall p, typed tys (log s2) id p -> p <= cur -> delivered s2 id p).
      { intros D2 p Htp Hp. destruct (Nat.eq_dec p cur) as [->|Hne]; [apply Hdel; auto|].
        eapply delivered_mono; [exact (grows_trans _ _ _ G1 G2)|]. apply (Hb Ds); [rewrite <- L1, <- L2; exact Htp | lia]. }
      pose proof (save_covered tys s2 id cur C2 Hb2) as C4.
      pose proof (save_fields s2 id cur) as F4. cbv zeta in F4. destruct F4 as (L4 & La4 & Li4 & D4 & _ & _).
      pose proof (save_grows s2 id cur) as G4. pose proof (save_dead_mono s2 id cur) as DM4.
      set (s4 := save s2 id cur) in *.
      assert (Lall : log s4 = log s) by congruence.
      assert (Hb4 : dead s4 = false -> forall p, typed tys (log s4) id p -> p < S cur -> delivered s4 id p).
      { intros D4' p Htp Hp. eapply delivered_mono; [exact G4|]. apply Hb2; [auto | rewrite <- L4; exact Htp | lia]. }
      assert (Hlen4 : S cur - 1 + length tl = length (log s4)) by (rewrite Lall; lia).
      specialize (IH (S cur) s4 (S k) (le_S _ _ Hc) Hlen4 (Hnth' s4 Lall) C4 Hb4). cbv zeta in IH.
      destruct IH as (C5 & G5 & L5 & Li5 & DM5 & Hall).
      splits; auto.
      * eapply grows_trans; [exact G1|]. eapply grows_trans; [exact G2|]. eapply grows_trans; eassumption.
      * congruence.
      * congruence.
      * intros Er Dr p Htp. apply (Hall Er Dr). rewrite Lall. exact Htp.
    + apply Nat.eqb_neq in Ety.
      assert (Hb1 : dead s1 = false -> forall p, typed tys (log s1) id p -> p < S cur -> delivered s1 id p).
      { intros D1' p Htp Hp. destruct (Nat.eq_dec p cur) as [->|Hne].
        - destruct Htp as [e' [_ [Hn He']]]. rewrite L1, He in Hn. inversion Hn; subst e'. contradiction.
        - eapply delivered_mono; [exact G1|]. apply (Hb Ds); [rewrite <- L1; exact Htp | lia]. }
      assert (Hlen1 : S cur - 1 + length tl = length (log s1)) by (rewrite L1; lia).
      specialize (IH (S cur) s1 k (le_S _ _ Hc) Hlen1 (Hnth' s1 L1) C1 Hb1). cbv zeta in IH.
      destruct IH as (C5 & G5 & L5 & Li5 & DM5 & Hall).
      splits; auto.
      * eapply grows_trans; eassumption.
      * congruence.
      * congruence.
      * intros Er Dr p Htp. apply (Hall Er Dr). rewrite L1. exact Htp.
Qed.

Lemma sub_inv tys s id : inv tys s -> is_live s id = false -> inv tys (fst (sub fixed tys s id [])).
Proof.
  intros (W & C & LC) NL.
  pose proof (sub_ext tys s id [] W NL) as SE. cbv zeta in SE. destruct SE as [W' _].
  split; [exact W'|]. clear W'. unfold sub. cbn [v_ignore_load_err fixed negb andb].
  destruct (tick s) as [[s1 p] f] eqn:Ht.
  destruct (tick_ext _ _ _ _ Ht) as [_ W1]. specialize (W1 W).
  pose proof (tick_grows _ _ _ _ Ht) as G1. pose proof (tick_dead_mono _ _ _ _ Ht) as DM1.
  apply tick_fields in Ht. destruct Ht as (L1 & S1 & La1 & Li1 & D1 & P & _ & _).
  assert (C1 : covered tys s1) by (eapply covered_mono; eassumption).
  assert (LC1 : live_cov tys s1) by (eapply live_cov_mono; eassumption).
  destruct (negb p); [cbn [fst]; split; assumption|].
  rewrite andb_true_r. destruct f; [cbn [fst]; split; assumption|].
  destruct (tick s1) as [[s2 p2] f2] eqn:Ht2.
  pose proof (tick_grows _ _ _ _ Ht2) as G2. pose proof (tick_dead_mono _ _ _ _ Ht2) as DM2.
  apply tick_fields in Ht2. destruct Ht2 as (L2 & S2 & La2 & Li2 & D2 & P2 & _ & _).
  assert (C2 : covered tys s2) by (eapply covered_mono; eassumption).
  assert (LC2 : live_cov tys s2) by (eapply live_cov_mono; eassumption).
  destruct (negb p2 || f2); [cbn [fst]; split; assumption|].
  rewrite skipn_indexed.
  set (from := get_saved s1 id).
  assert (Hfrom : from <= length (log s2)) by (rewrite L2; apply (proj1 (proj2 W1))).
  assert (Hlen : 1 + from - 1 + length (skipn from (log s2)) = length (log s2)) by (rewrite skipn_length; lia).
  assert (Hnth : forall j e, nth_error (skipn from (log s2)) j = Some e -> nth_error (log s2) (1 + from - 1 + j) = Some e).
  { intros j e Hj. rewrite nth_error_skipn' in Hj. replace (1 + from - 1 + j) with (from + j) by lia. exact Hj. }
  assert (Hb : dead s2 = false -> forall p, typed tys (log s2) id p -> p < 1 + from -> delivered s2 id p).
  { intros _ q Hq Hlt. apply C2; [exact Hq|]. unfold get_saved. rewrite S2. fold (get_saved s1 id). fold from. lia. }
  pose proof (replay_cov tys id (skipn from (log s2)) (1 + from) s2 0 (le_n_S _ _ (Nat.le_0_l from)) Hlen Hnth C2 Hb) as H.
  cbv zeta in H.
  destruct (replay_loop fixed (indexed (skipn from (log s2)) (1 + from)) s2 id (nth id tys 0) 0 []) as [s3 err].
  cbn [fst snd] in H. destruct H as (C3 & G3 & L3 & Li3 & DM3 & Hall).
  assert (LC3 : live_cov tys s3) by (eapply live_cov_mono; eassumption).
  destruct (err || dead s3) eqn:Stop; cbn [fst]; [split; assumption|].
  apply orb_false_iff in Stop. destruct Stop as [Er Dr]. split.
  - intros i q Hq Hle. destruct (C3 i q Hq Hle) as [d Hd]. exists d. exact Hd.
  - intros _ i t Hin. cbn [live with_live] in Hin. apply in_app_or in Hin. destruct Hin as [Hin | [Heq | []]].
    + destruct (LC3 Dr i t Hin) as [X1 X2]. split; [exact X1|]. intros q Hq. destruct (X2 q Hq) as [d Hd]. exists d. exact Hd.
    + inversion Heq; subst i t. split; [reflexivity|]. intros q Hq. cbn [log with_live] in Hq.
      destruct (Hall Er Dr q) as [d Hd]; [rewrite <- L3; exact Hq | exists d; exact Hd].
Qed.

Definition op_inner_free (o : op) : Prop := match o with OSub _ inner => inner = [] | _ => True end.

Lemma begin_op_inv tys s pl : inv tys s -> inv tys (begin_op s pl).
Proof.
  intros (W & C & LC). destruct (begin_op_ext s pl) as (_ & W0 & _). split; [apply W0; exact W|]. split.
  - apply (covered_mono tys s (begin_op s pl)); [reflexivity | reflexivity | exists []; reflexivity | exact C].
  - apply (live_cov_mono tys s (begin_op s pl)); [reflexivity | reflexivity | exists []; reflexivity | | exact LC].
    cbn. intros H. apply orb_false_iff in H. apply H.
Qed.

Lemma step_inv tys s o pl : op_inner_free o -> inv tys s -> inv tys (fst (step fixed tys s o pl)).
Proof.
  intros Hif I. destruct o as [ty val | id inner |]; cbn [step].
  - cbn [fst]. apply pub_inv. apply begin_op_inv. exact I.
  - cbn in Hif. subst inner. destruct (op_ok s (OSub id [])) eqn:Ok; [|exact I].
    cbn [op_ok] in Ok. apply negb_true_iff in Ok. apply sub_inv; [apply begin_op_inv; exact I | exact Ok].
  - cbn [fst]. destruct I as (W & C & LC). destruct (restart_ext s) as [_ W']. split; [apply W'; exact W|]. split.
    + apply (covered_mono tys s (restart s)); [reflexivity | reflexivity | exists []; reflexivity | exact C].
    + intros _ id ty [].
Qed.

Definition inner_free (h : list (op * plan)) : Prop := Forall (fun x => op_inner_free (fst x)) h.

Lemma run_inv tys : forall h s, inner_free h -> inv tys s -> inv tys (run fixed tys h s).
Proof.
  induction h as [|[o pl] r IH]; intros s Hif I; cbn [run fold_left]; [exact I|].
  inversion Hif; subst. cbn [fst snd] in *. apply IH; [assumption|]. apply step_inv; assumption.
Qed.

Lemma inv_init tys : inv tys init.
Proof.
  split; [exact wf_init|]. split.
  - intros id p Ht. apply typed_bound in Ht. cbn in Ht. lia.
  - intros _ id ty [].
Qed.

(* no event is lost: in every history (crashes and failing operations included) everything of a subscription's type
   at or below its saved position has been delivered to it, and a live subscription is up to date *)
Theorem nothing_lost tys h : inner_free h -> covered tys (run fixed tys h init) /\ live_cov tys (run fixed tys h init).
Proof. intros Hif. destruct (run_inv tys h init Hif (inv_init tys)) as (_ & C & LC). split; assumption. Qed.

(* ---------- operations that run undisturbed ---------- *)
Definition quiet (s : rs) : Prop := dead s = false /\ budget s = None /\ failat s = None.

Lemma tick_quiet s : quiet s -> exists s1, tick s = (s1, true, false) /\ quiet s1 /\
  log s1 = log s /\ saved s1 = saved s /\ last s1 = last s /\ live s1 = live s /\ dels s1 = dels s.
Proof.
  intros (D & B & F). unfold tick. rewrite D, B, F. eexists. split; [reflexivity|]. unfold quiet. cbn. splits; auto.
Qed.

Lemma deliver_quiet s id val pos : quiet s -> quiet (deliver s id val pos) /\
  dels (deliver s id val pos) = {| d_id := id; d_val := val; d_pos := pos; d_sv := get_saved s id |} :: dels s.
Proof.
  intros Q. unfold deliver. destruct (tick_quiet s Q) as (s1 & Ht & Q1 & _ & _ & _ & _ & D1). rewrite Ht.
  split; [exact Q1 | cbn; rewrite D1; reflexivity].
Qed.

Lemma save_quiet s id pos : quiet s -> quiet (save s id pos) /\ saved (save s id pos) = set_saved' (saved s) id pos.
Proof.
  intros Q. unfold save. destruct (tick_quiet s Q) as (s1 & Ht & Q1 & _ & S1 & _). rewrite Ht. cbn [andb negb].
  split; [exact Q1 | cbn; rewrite S1; reflexivity].
Qed.

Lemma replay_quiet : forall snap s id ty k, quiet s ->
  snd (replay_loop fixed snap s id ty k []) = false /\ quiet (fst (replay_loop fixed snap s id ty k [])).
Proof.
  induction snap as [|[pos e] r IH]; intros s id ty k Q; cbn [replay_loop]; [split; [reflexivity | exact Q]|].
  destruct (tick_quiet s Q) as (s1 & Ht & Q1 & _). rewrite Ht. cbn [negb orb].
  destruct (Nat.eqb (e_ty e) ty); [|apply IH; exact Q1].
  cbn [inner_at filter map fold_left]. apply IH. apply save_quiet. apply deliver_quiet. exact Q1.
Qed.

Lemma sub_quiet tys s id : quiet s ->
  snd (sub fixed tys s id []) = false /\ quiet (fst (sub fixed tys s id [])) /\
  In (id, nth id tys 0) (live (fst (sub fixed tys s id []))).
Proof.
  intros Q. unfold sub. cbn [v_ignore_load_err fixed negb andb].
  destruct (tick_quiet s Q) as (s1 & Ht & Q1 & _). rewrite Ht. cbn [negb andb].
  destruct (tick_quiet s1 Q1) as (s2 & Ht2 & Q2 & _). rewrite Ht2. cbn [negb orb].
  pose proof (replay_quiet (skipn (get_saved s1 id) (indexed (log s2) 1)) s2 id (nth id tys 0) 0 Q2) as H.
  destruct (replay_loop fixed (skipn (get_saved s1 id) (indexed (log s2) 1)) s2 id (nth id tys 0) 0 []) as [s3 err].
  cbn [fst snd] in H. destruct H as [Er Q3]. subst err. destruct Q3 as (D3 & B3 & F3). rewrite D3. cbn [orb fst snd].
  splits; [reflexivity | unfold quiet; cbn; auto | cbn; apply in_or_app; right; left; reflexivity].
Qed.

(* after a clean restart and an undisturbed SubscribeWithReplay the subscription has been delivered every persisted
   event of its type, whatever happened before *)
Theorem caught_up_after_resubscribe tys h id :
  inner_free h ->
  let s := run fixed tys (h ++ [(ORestart, clean); (OSub id [], clean)]) init in
  forall p, typed tys (log s) id p -> delivered s id p.
Proof.
  intros Hif s.
  assert (Hif' : inner_free (h ++ [(ORestart, clean); (OSub id [], clean)])).
  { apply Forall_app. split; [exact Hif|]. repeat constructor. }
  destruct (run_inv tys _ init Hif' (inv_init tys)) as (_ & _ & LC). fold s in LC.
  unfold s, run in *. rewrite fold_left_app in *. cbn [fold_left fst snd step] in *.
  set (s0 := fold_left (fun acc x => fst (step fixed tys acc (fst x) (snd x))) h init) in *.
  assert (Ok : op_ok (restart s0) (OSub id []) = true) by reflexivity.
  rewrite Ok in *.
  assert (Q : quiet (begin_op (restart s0) clean)) by (unfold quiet; cbn; auto).
  destruct (sub_quiet tys _ id Q) as (_ & (D & _ & _) & Hin).
  intros p Hp. exact (proj2 (LC D id _ Hin) p Hp).
Qed.

(* ===== Part C: exactly once and in log order when nothing goes wrong ===== *)
Definition for_id (id : nat) (l : list del) : list nat := map d_pos (filter (fun d => Nat.eqb (d_id d) id) l).

(* K: the state between undisturbed operations *)
Record K (tys : list nat) (s : rs) : Prop := {
  K_quiet : quiet s;
  K_wf : wf s;
  K_covers : forall d, In d (dels s) -> d_pos d <= get_saved s (d_id d);          (* every delivered position has been saved *)
  K_desc : forall id, StronglySorted gt (for_id id (dels s));                      (* newest first: strictly decreasing *)
  K_typed : forall d, In d (dels s) -> typed tys (log s) (d_id d) (d_pos d);      (* only events of the subscribed type *)
  K_live : forall id t, In (id, t) (live s) -> t = nth id tys 0
}.

Lemma for_id_cons_same id d l : d_id d = id -> for_id id (d :: l) = d_pos d :: for_id id l.
Proof. intros H. unfold for_id. cbn [filter]. rewrite H, Nat.eqb_refl. reflexivity. Qed.
Lemma for_id_cons_other id d l : d_id d <> id -> for_id id (d :: l) = for_id id l.
Proof. intros H. unfold for_id. cbn [filter]. apply Nat.eqb_neq in H. rewrite H. reflexivity. Qed.
Lemma for_id_in id l p : In p (for_id id l) -> exists d, In d l /\ d_id d = id /\ d_pos d = p.
Proof.
  unfold for_id. intros H. apply in_map_iff in H. destruct H as [d [Hp Hin]]. apply filter_In in Hin. destruct Hin as [Hin Hid].
  apply Nat.eqb_eq in Hid. exists d. auto.
Qed.

(* deliver position pos to id, then save it: the step both the replay and the live handler perform *)
Lemma deliver_save_K tys s id val pos :
  K tys s -> get_saved s id < pos -> pos <= length (log s) -> typed tys (log s) id pos ->
  let s' := save (deliver s id val pos) id pos in
  K tys s' /\ log s' = log s /\ last s' = last s /\ live s' = live s /\ get_saved s' id = pos /\
  (forall i, i <> id -> get_saved s' i = get_saved s i).
Proof.
  intros [Q W Cv Ds Ty Lv] Hs Hle Ht.
  destruct (deliver_quiet s id val pos Q) as [Q1 D1].
  pose proof (deliver_fields s id val pos) as F1. cbv zeta in F1. destruct F1 as (L1 & S1 & La1 & Li1 & _ & _).
  pose proof (deliver_wf s id val pos W) as W1.
  set (s1 := deliver s id val pos) in *.
  destruct (save_quiet s1 id pos Q1) as [Q2 S2].
  pose proof (save_fields s1 id pos) as F2. cbv zeta in F2. destruct F2 as (L2 & La2 & Li2 & D2 & _ & _).
  assert (W2 : wf (save s1 id pos)) by (apply save_wf; [rewrite L1; exact Hle | exact W1]).
  set (s2 := save s1 id pos) in *.
  assert (Gid : get_saved s2 id = pos) by (unfold get_saved; rewrite S2; apply get_set_same).
  assert (Go : forall i, i <> id -> get_saved s2 i = get_saved s i).
  { intros i Hne. unfold get_saved. rewrite S2, get_set_other by exact Hne. rewrite S1. reflexivity. }
  split; [|splits; try congruence; auto]. constructor; auto.
  - intros d Hin. rewrite D2, D1 in Hin. destruct Hin as [<- | Hin]; cbn [d_pos d_id]; [rewrite Gid; lia|].
    destruct (Nat.eq_dec (d_id d) id) as [E|Hne]; [rewrite E, Gid; specialize (Cv d Hin); rewrite E in Cv; lia | rewrite Go by exact Hne; apply Cv; exact Hin].
  - intros i. rewrite D2, D1. destruct (Nat.eq_dec id i) as [<-|Hne].
    + rewrite for_id_cons_same by reflexivity. cbn [d_pos]. constructor; [apply Ds|].
      apply Forall_forall. intros p Hp. apply for_id_in in Hp. destruct Hp as [d [Hin [Hid Hp]]].
      specialize (Cv d Hin). rewrite Hid in Cv. unfold gt. lia.
    + rewrite for_id_cons_other by exact Hne. apply Ds.
  - intros d Hin. rewrite D2, D1 in Hin. rewrite L2, L1. destruct Hin as [<- | Hin]; [exact Ht | apply Ty; exact Hin].
  - intros i t Hin. rewrite Li2, Li1 in Hin. apply (Lv i t Hin).
Qed.

Lemma live_handle_K tys s id val :
  K tys s -> last s = length (log s) -> get_saved s id < last s -> typed tys (log s) id (last s) ->
  live_handle fixed s id val (last s) = save (deliver s id val (last s)) id (last s).
Proof.
  intros Ks Hl Hs Ht. unfold live_handle. cbn [v_save_empty fixed negb andb].
  pose proof (deliver_fields s id val (last s)) as F. cbv zeta in F. destruct F as (_ & _ & La & _).
  rewrite La. destruct (Nat.eqb (last s) 0) eqn:E; [apply Nat.eqb_eq in E; lia | reflexivity].
Qed.

Lemma live_fold_K tys ty val pos : forall l acc,
  K tys acc -> NoDup (map fst l) -> pos = last acc -> pos = length (log acc) ->
  (forall id, In id (map fst l) -> get_saved acc id < pos) ->
  (forall id t, In (id, t) l -> t = ty -> typed tys (log acc) id pos) ->
  let acc' := fold_left (live_step ty val pos) l acc in
  K tys acc' /\ log acc' = log acc /\ live acc' = live acc.
Proof.
  induction l as [|[id t] r IH]; intros acc Ka ND Hpl Hpn Hs Ht; cbn [fold_left]; [auto|].
  cbn [map fst] in ND. apply NoDup_cons_iff in ND. destruct ND as [Hnin ND'].
  replace (live_step ty val pos acc (id, t)) with (if Nat.eqb t ty then live_handle fixed acc id val pos else acc) by reflexivity.
  destruct (Nat.eqb t ty) eqn:Et.
  - apply Nat.eqb_eq in Et.
    assert (Hs1 : get_saved acc id < pos) by (apply Hs; left; reflexivity).
    assert (Ht1 : typed tys (log acc) id pos) by (apply (Ht id t); [left; reflexivity | exact Et]).
    assert (Hle : pos <= length (log acc)) by lia.
    assert (E : live_handle fixed acc id val pos = save (deliver acc id val pos) id pos).
    { rewrite Hpl. apply (live_handle_K tys); [exact Ka | congruence | rewrite <- Hpl; exact Hs1 | rewrite <- Hpl; exact Ht1]. }
    rewrite E.
    pose proof (deliver_save_K tys acc id val pos Ka Hs1 Hle Ht1) as H. cbv zeta in H.
    destruct H as (K1 & L1 & La1 & Li1 & _ & O1).
    set (a1 := save (deliver acc id val pos) id pos) in *.
    assert (IHa : K tys (fold_left (live_step ty val pos) r a1) /\ log (fold_left (live_step ty val pos) r a1) = log a1 /\
                  live (fold_left (live_step ty val pos) r a1) = live a1).
    { apply IH; auto; try congruence.
      - intros i Hi. rewrite O1; [apply Hs; right; exact Hi | intros ->; contradiction].
      - intros i t' Hin Htt. rewrite L1. apply (Ht i t'); [right; exact Hin | exact Htt]. }
    destruct IHa as (K2 & L2 & Li2). splits; congruence.
  - apply IH; auto.
    + intros i Hi. apply Hs. right. exact Hi.
    + intros i t' Hin Htt. apply (Ht i t'); [right; exact Hin | exact Htt].
Qed.

Lemma pub_K tys s ty val : K tys s -> K tys (pub fixed s ty val) /\ live (pub fixed s ty val) = live s.
Proof.
  intros Ks. pose proof Ks as [Q W Cv Ds Ty Lv]. rewrite pub_unfold.
  destruct (tick_quiet s Q) as (s1 & Ht & Q1 & L1 & S1 & La1 & Li1 & D1). rewrite Ht. cbv zeta. cbn [andb negb].
  set (e := {| e_ty := ty; e_val := val |}). set (s2 := with_append s1 e).
  assert (Hlog : log s2 = log s ++ [e]) by (unfold s2; cbn; rewrite L1; reflexivity).
  assert (Hlast : last s2 = length (log s2)) by (unfold s2; cbn; rewrite app_length; cbn; lia).
  assert (W2 : wf s2).
  { destruct W as [Wa [Wb Wc]]. unfold wf. rewrite Hlast. splits; [right; reflexivity | | unfold s2; cbn; rewrite Li1; exact Wc].
    intros id. unfold s2, get_saved. cbn. rewrite S1, app_length. specialize (Wb id). unfold get_saved in Wb. rewrite L1. lia. }
  assert (K2 : K tys s2).
  { constructor; auto.
    - intros d Hin. unfold s2 in Hin. cbn in Hin. rewrite D1 in Hin. unfold s2, get_saved. cbn. rewrite S1. apply Cv. exact Hin.
    - intros id. unfold s2. cbn. rewrite D1. apply Ds.
    - intros d Hin. unfold s2 in Hin. cbn in Hin. rewrite D1 in Hin. rewrite Hlog. apply typed_app. apply Ty. exact Hin.
    - intros id t Hin. unfold s2 in Hin. cbn in Hin. rewrite Li1 in Hin. apply (Lv id t Hin). }
  pose proof (live_fold_K tys ty val (last s2) (live s2) s2 K2 (proj2 (proj2 W2)) eq_refl Hlast) as H.
  cbv zeta in H. destruct H as (K3 & L3 & Li3).
  - intros id _. rewrite Hlast, Hlog, app_length. cbn. unfold s2, get_saved. cbn. rewrite S1.
    pose proof (proj1 (proj2 W) id) as X. unfold get_saved in X. lia.
  - intros id t Hin Ett. exists e. splits.
    + rewrite Hlast, Hlog, app_length. cbn. lia.
    + rewrite Hlast, Hlog, app_length. cbn. rewrite nth_error_app2 by lia. replace (length (log s) + 1 - 1 - length (log s)) with 0 by lia. reflexivity.
    + cbn. unfold s2 in Hin. cbn in Hin. rewrite Li1 in Hin. rewrite <- (Lv id t Hin). symmetry. exact Ett.
  - split; [exact K3|]. rewrite Li3. unfold s2. cbn. exact Li1.
Qed.

Lemma replay_K tys id : forall tl cur s k,
  K tys s -> 1 <= cur -> cur - 1 + length tl = length (log s) ->
  (forall j e, nth_error tl j = Some e -> nth_error (log s) (cur - 1 + j) = Some e) ->
  get_saved s id < cur ->
  let r := replay_loop fixed (indexed tl cur) s id (nth id tys 0) k [] in
  K tys (fst r) /\ live (fst r) = live s.
Proof.
  induction tl as [|e tl IH]; intros cur s k Ks Hc Hlen Hnth Hs; cbn [indexed replay_loop]; [cbn; auto|].
  pose proof Ks as [Q W Cv Ds Ty Lv].
  destruct (tick_quiet s Q) as (s1 & Ht & Q1 & L1 & S1 & La1 & Li1 & D1). rewrite Ht. cbn [negb orb].
  assert (K1 : K tys s1).
  { constructor; auto.
    - eapply wf_same; eassumption.
    - intros d Hin. rewrite D1 in Hin. unfold get_saved. rewrite S1. apply Cv. exact Hin.
    - intros i. rewrite D1. apply Ds.
    - intros d Hin. rewrite D1 in Hin. rewrite L1. apply Ty. exact Hin.
    - intros i t Hin. rewrite Li1 in Hin. apply (Lv i t Hin). }
  assert (He : nth_error (log s) (cur - 1) = Some e) by (rewrite <- (Nat.add_0_r (cur - 1)); apply Hnth; reflexivity).
  cbn [length] in Hlen.
  assert (Hnth' : forall s', log s' = log s -> forall j e', nth_error tl j = Some e' -> nth_error (log s') (S cur - 1 + j) = Some e').
  { intros s' L' j e' Hj. rewrite L'. replace (S cur - 1 + j) with (cur - 1 + S j) by lia. apply Hnth. exact Hj. }
  assert (Hs1 : get_saved s1 id < cur) by (unfold get_saved; rewrite S1; exact Hs).
  destruct (Nat.eqb (e_ty e) (nth id tys 0)) eqn:Ety.
  - apply Nat.eqb_eq in Ety. cbn [inner_at filter map fold_left].
    assert (Htyp : typed tys (log s1) id cur) by (exists e; splits; [exact Hc | rewrite L1; exact He | exact Ety]).
    assert (Hle : cur <= length (log s1)) by (rewrite L1; lia).
    pose proof (deliver_save_K tys s1 id (e_val e) cur K1 Hs1 Hle Htyp) as H. cbv zeta in H.
    destruct H as (K4 & L4 & La4 & Li4 & G4 & _).
    set (s4 := save (deliver s1 id (e_val e) cur) id cur) in *.
    assert (Lall : log s4 = log s) by congruence.
    assert (H5 : K tys (fst (replay_loop fixed (indexed tl (S cur)) s4 id (nth id tys 0) (S k) [])) /\
                 live (fst (replay_loop fixed (indexed tl (S cur)) s4 id (nth id tys 0) (S k) [])) = live s4).
    { apply IH; auto; first [rewrite Lall; lia | rewrite G4; lia | lia]. }
    destruct H5 as [K5 Li5]. split; [exact K5 | congruence].
  - assert (H5 : K tys (fst (replay_loop fixed (indexed tl (S cur)) s1 id (nth id tys 0) k [])) /\
                 live (fst (replay_loop fixed (indexed tl (S cur)) s1 id (nth id tys 0) k [])) = live s1).
    { apply IH; auto; first [rewrite L1; lia | lia]. }
    destruct H5 as [K5 Li5]. split; [exact K5 | congruence].
Qed.

Lemma sub_K tys s id : K tys s -> is_live s id = false -> K tys (fst (sub fixed tys s id [])).
Proof.
  intros Ks NL. pose proof Ks as [Q W Cv Ds Ty Lv].
  pose proof (sub_ext tys s id [] W NL) as SE. cbv zeta in SE. destruct SE as [W' _]. revert W'.
  unfold sub. cbn [v_ignore_load_err fixed negb andb].
  destruct (tick_quiet s Q) as (s1 & Ht & Q1 & L1 & S1 & La1 & Li1 & D1). rewrite Ht. cbn [negb andb].
  destruct (tick_quiet s1 Q1) as (s2 & Ht2 & Q2 & L2 & S2 & La2 & Li2 & D2). rewrite Ht2. cbn [negb orb].
  assert (K2 : K tys s2).
  { constructor; auto.
    - eapply wf_same; [| | | |exact W]; congruence.
    - intros d Hin. rewrite D2, D1 in Hin. unfold get_saved. rewrite S2, S1. apply Cv. exact Hin.
    - intros i. rewrite D2, D1. apply Ds.
    - intros d Hin. rewrite D2, D1 in Hin. rewrite L2, L1. apply Ty. exact Hin.
    - intros i t Hin. rewrite Li2, Li1 in Hin. apply (Lv i t Hin). }
  rewrite skipn_indexed. set (from := get_saved s1 id).
  assert (Hfrom : from <= length (log s2)).
  { unfold from, get_saved. rewrite S1, L2, L1. apply (proj1 (proj2 W)). }
  assert (Hlen : 1 + from - 1 + length (skipn from (log s2)) = length (log s2)) by (rewrite skipn_length; lia).
  assert (Hnth : forall j e, nth_error (skipn from (log s2)) j = Some e -> nth_error (log s2) (1 + from - 1 + j) = Some e).
  { intros j e Hj. rewrite nth_error_skipn' in Hj. replace (1 + from - 1 + j) with (from + j) by lia. exact Hj. }
  assert (Hs2 : get_saved s2 id < 1 + from) by (unfold from, get_saved; rewrite S2; lia).
  pose proof (replay_K tys id (skipn from (log s2)) (1 + from) s2 0 K2 (le_n_S _ _ (Nat.le_0_l from)) Hlen Hnth Hs2) as H.
  cbv zeta in H.
  pose proof (replay_quiet (indexed (skipn from (log s2)) (1 + from)) s2 id (nth id tys 0) 0 Q2) as RQ.
  destruct (replay_loop fixed (indexed (skipn from (log s2)) (1 + from)) s2 id (nth id tys 0) 0 []) as [s3 err].
  cbn [fst snd] in *. destruct RQ as [Er _]. subst err. destruct H as [K3 Li3].
  pose proof K3 as [Q3 W3 Cv3 Ds3 Ty3 Lv3]. rewrite (proj1 Q3). cbn [orb fst]. intros W'.
  constructor; [exact Q3 | exact W' | exact Cv3 | exact Ds3 | exact Ty3 |].
  intros i t Hin. cbn in Hin. apply in_app_or in Hin. destruct Hin as [Hin | [Heq | []]]; [apply (Lv3 i t Hin) | inversion Heq; reflexivity].
Qed.

Definition clean_hist (h : list (op * plan)) : Prop := Forall (fun x => snd x = clean /\ op_inner_free (fst x)) h.

Lemma begin_clean_K tys s : K tys s -> K tys (begin_op s clean).
Proof.
  intros [Q W Cv Ds Ty Lv]. constructor; [| apply (wf_same s); auto | exact Cv | exact Ds | exact Ty | exact Lv].
  destruct Q as (D & _ & _). unfold quiet. cbn. rewrite D. auto.
Qed.

Lemma step_K tys s o : op_inner_free o -> K tys s -> K tys (fst (step fixed tys s o clean)).
Proof.
  intros Hif Ks. destruct o as [ty val | id inner |]; cbn [step].
  - cbn [fst]. apply pub_K. apply begin_clean_K. exact Ks.
  - cbn in Hif. subst inner. destruct (op_ok s (OSub id [])) eqn:Ok; [|exact Ks].
    cbn [op_ok] in Ok. apply negb_true_iff in Ok. apply sub_K; [apply begin_clean_K; exact Ks | exact Ok].
  - cbn [fst]. destruct Ks as [Q W Cv Ds Ty Lv]. destruct (restart_ext s) as [_ W']. constructor; auto.
    + unfold quiet. cbn. auto.
    + intros id t [].
Qed.

Lemma run_K tys : forall h s, clean_hist h -> K tys s -> K tys (run fixed tys h s).
Proof.
  induction h as [|[o pl] r IH]; intros s Hc Ks; cbn [run fold_left]; [exact Ks|].
  inversion Hc as [|? ? [Hpl Hif] Hc']; subst. cbn [fst snd] in *. subst pl. apply IH; [exact Hc'|]. apply step_K; assumption.
Qed.

Lemma K_init tys : K tys init.
Proof.
  constructor; cbn; auto.
  - unfold quiet. auto.
  - exact wf_init.
  - intros d [].
  - intros id. constructor.
  - intros d [].
  - intros id t [].
Qed.

(* exactly once, in log order: over any history of publishes, SubscribeWithReplay calls and restarts in which nothing
   fails, the positions delivered to a subscription are strictly increasing over the whole history (newest first:
   strictly decreasing), each is an event of the subscribed type, and each has been saved *)
Theorem exactly_once_in_order tys h id :
  clean_hist h ->
  let s := run fixed tys h init in
  StronglySorted gt (for_id id (dels s)) /\
  (forall d, In d (dels s) -> typed tys (log s) (d_id d) (d_pos d)) /\
  (forall d, In d (dels s) -> d_pos d <= get_saved s (d_id d)).
Proof. intros Hc s. destruct (run_K tys h init Hc (K_init tys)) as [_ _ Cv Ds Ty _]. splits; auto. Qed.

Lemma desc_nodup l : StronglySorted gt l -> NoDup l.
Proof.
  induction 1 as [|a l Hs IH Hf]; constructor; [|exact IH].
  intros Hin. rewrite Forall_forall in Hf. specialize (Hf a Hin). unfold gt in Hf. lia.
Qed.

Lemma clean_inner_free h : clean_hist h -> inner_free h.
Proof. intros H. eapply Forall_impl; [|exact H]. intros x [_ X]. exact X. Qed.

(* the two halves together: after the closing restart + SubscribeWithReplay of an undisturbed history every persisted
   event of the type has been delivered to the subscription, and none twice *)
Theorem exactly_once_complete tys h id :
  clean_hist h ->
  let s := run fixed tys (h ++ [(ORestart, clean); (OSub id [], clean)]) init in
  NoDup (for_id id (dels s)) /\ forall p, typed tys (log s) id p <-> In p (for_id id (dels s)).
Proof.
  intros Hc s.
  assert (Hc' : clean_hist (h ++ [(ORestart, clean); (OSub id [], clean)])).
  { apply Forall_app. split; [exact Hc|]. repeat constructor. }
  destruct (run_K tys _ init Hc' (K_init tys)) as [_ _ _ Ds Ty _]. fold s in Ds, Ty.
  split; [apply desc_nodup; apply Ds|]. intros p. split.
  - intros Ht. destruct (caught_up_after_resubscribe tys h id (clean_inner_free h Hc) p Ht) as [d [Hin [Hid Hp]]].
    unfold for_id. apply in_map_iff. exists d. split; [exact Hp|]. apply filter_In. split; [exact Hin | apply Nat.eqb_eq; exact Hid].
  - intros Hin. apply for_id_in in Hin. destruct Hin as [d [Hin [Hid Hp]]]. subst. apply Ty. exact Hin.
Qed.

(* ===== Part D: subscriptions progress independently (frame properties) ===== *)
Definition only_for (P : nat -> Prop) (s s' : rs) : Prop :=
  exists new, dels s' = new ++ dels s /\ Forall (fun d => P (d_id d)) new.
Lemma only_for_refl (P : nat -> Prop) s : only_for P s s. Proof. exists []. split; [reflexivity | constructor]. Qed.
Lemma only_for_trans (P : nat -> Prop) a b c : only_for P a b -> only_for P b c -> only_for P a c.
Proof.
  intros [n1 [D1 F1]] [n2 [D2 F2]]. exists (n2 ++ n1). split; [rewrite D2, D1, app_assoc; reflexivity | apply Forall_app; split; assumption].
Qed.
Lemma only_for_same (P : nat -> Prop) s s' : dels s' = dels s -> only_for P s s'.
Proof. intros D. exists []. split; [exact D | constructor]. Qed.

Lemma deliver_only (P : nat -> Prop) s id val pos : P id -> only_for P s (deliver s id val pos).
Proof.
  intros Hp. pose proof (deliver_fields s id val pos) as H. cbv zeta in H. destruct H as (_ & _ & _ & _ & Dd & Dl).
  destruct (dead s) eqn:Ds; [rewrite (Dd eq_refl); apply only_for_refl|].
  eexists [_]. split; [rewrite (Dl eq_refl); reflexivity | constructor; [exact Hp | constructor]].
Qed.

(* SubscribeWithReplay of id (no publishes from its handler) delivers to id only and leaves every other saved offset alone *)
Lemma replay_frame id ty : forall snap s k,
  let r := replay_loop fixed snap s id ty k [] in
  only_for (fun i => i = id) s (fst r) /\ forall i, i <> id -> get_saved (fst r) i = get_saved s i.
Proof.
  induction snap as [|[pos e] rest IH]; intros s k; cbn [replay_loop]; [cbn; split; [apply only_for_refl | auto]|].
  destruct (tick s) as [[s1 p] f] eqn:Ht. apply tick_fields in Ht. destruct Ht as (L1 & S1 & _ & _ & D1 & _).
  assert (O1 : only_for (fun i => i = id) s s1) by (apply only_for_same; exact D1).
  assert (G1 : forall i, get_saved s1 i = get_saved s i) by (intros i; unfold get_saved; rewrite S1; reflexivity).
  destruct (negb p || f); [cbn; split; [exact O1 | intros i _; apply G1]|].
  destruct (Nat.eqb (e_ty e) ty).
  - cbn [inner_at filter map fold_left].
    specialize (IH (save (deliver s1 id (e_val e) pos) id pos) (S k)). cbv zeta in IH. destruct IH as [O5 G5].
    pose proof (deliver_fields s1 id (e_val e) pos) as F2. cbv zeta in F2. destruct F2 as (_ & S2 & _).
    pose proof (save_fields (deliver s1 id (e_val e) pos) id pos) as F4. cbv zeta in F4. destruct F4 as (_ & _ & _ & D4 & _).
    split.
    + eapply only_for_trans; [exact O1|]. eapply only_for_trans; [apply deliver_only; reflexivity|].
      eapply only_for_trans; [apply only_for_same; exact D4 | exact O5].
    + intros i Hne. rewrite G5 by exact Hne. rewrite save_saved by exact Hne. unfold get_saved. rewrite S2. apply G1.
  - specialize (IH s1 k). cbv zeta in IH. destruct IH as [O5 G5]. split.
    + eapply only_for_trans; eassumption.
    + intros i Hne. rewrite G5 by exact Hne. apply G1.
Qed.

Theorem sub_frame tys s id :
  let s' := fst (sub fixed tys s id []) in
  only_for (fun i => i = id) s s' /\ forall i, i <> id -> get_saved s' i = get_saved s i.
Proof.
  unfold sub. cbn [v_ignore_load_err fixed negb andb].
  destruct (tick s) as [[s1 p] f] eqn:Ht. apply tick_fields in Ht. destruct Ht as (_ & S1 & _ & _ & D1 & _).
  assert (O1 : only_for (fun i => i = id) s s1) by (apply only_for_same; exact D1).
  assert (G1 : forall i, get_saved s1 i = get_saved s i) by (intros i; unfold get_saved; rewrite S1; reflexivity).
  destruct (negb p); [cbn; split; [exact O1 | intros i _; apply G1]|].
  rewrite andb_true_r. destruct f; [cbn; split; [exact O1 | intros i _; apply G1]|].
  destruct (tick s1) as [[s2 p2] f2] eqn:Ht2. apply tick_fields in Ht2. destruct Ht2 as (_ & S2 & _ & _ & D2 & _).
  assert (O2 : only_for (fun i => i = id) s s2) by (apply only_for_same; congruence).
  assert (G2 : forall i, get_saved s2 i = get_saved s i) by (intros i; unfold get_saved; rewrite S2; apply G1).
  destruct (negb p2 || f2); [cbn; split; [exact O2 | intros i _; apply G2]|].
  pose proof (replay_frame id (nth id tys 0) (skipn (get_saved s1 id) (indexed (log s2) 1)) s2 0) as H. cbv zeta in H.
  destruct (replay_loop fixed (skipn (get_saved s1 id) (indexed (log s2) 1)) s2 id (nth id tys 0) 0 []) as [s3 err].
  cbn [fst] in H. destruct H as [O3 G3].
  destruct (err || dead s3); cbn [fst]; (split; [eapply only_for_trans; eassumption | intros i Hne; cbn; fold (get_saved s3 i); rewrite G3 by exact Hne; apply G2]).
Qed.

(* a publish delivers only to live subscriptions of its type and moves only their saved offsets *)
Lemma live_fold_frame ty val pos : forall l acc,
  let acc' := fold_left (live_step ty val pos) l acc in
  only_for (fun i => In (i, ty) l) acc acc' /\ forall i, ~ In (i, ty) l -> get_saved acc' i = get_saved acc i.
Proof.
  induction l as [|[id t] r IH]; intros acc; cbn [fold_left]; [split; [apply only_for_refl | auto]|].
  replace (live_step ty val pos acc (id, t)) with (if Nat.eqb t ty then live_handle fixed acc id val pos else acc) by reflexivity.
  assert (Weak : forall a b, only_for (fun i => In (i, ty) r) a b -> only_for (fun i => In (i, ty) ((id, t) :: r)) a b).
  { intros a b [n [D F]]. exists n. split; [exact D|]. eapply Forall_impl; [|exact F]. intros d Hd. right. exact Hd. }
  destruct (Nat.eqb t ty) eqn:Et.
  - apply Nat.eqb_eq in Et. subst t.
    specialize (IH (live_handle fixed acc id val pos)). cbv zeta in IH. destruct IH as [O2 G2].
    pose proof (live_handle_fields acc id val pos) as F. cbv zeta in F. destruct F as (_ & _ & _ & _ & O1).
    split.
    + eapply only_for_trans; [|apply Weak; exact O2].
      unfold live_handle. cbn [v_save_empty fixed negb andb].
      assert (X : only_for (fun i => In (i, ty) ((id, ty) :: r)) acc (deliver acc id val pos)) by (apply deliver_only; left; reflexivity).
      destruct (Nat.eqb (last (deliver acc id val pos)) 0); cbn [andb]; [exact X|].
      eapply only_for_trans; [exact X|]. apply only_for_same.
      pose proof (save_fields (deliver acc id val pos) id (last (deliver acc id val pos))) as F4. cbv zeta in F4. apply F4.
    + intros i Hn. rewrite G2 by (intro; apply Hn; right; assumption). apply O1. intros ->. apply Hn. left. reflexivity.
  - specialize (IH acc). cbv zeta in IH. destruct IH as [O2 G2]. split; [apply Weak; exact O2|].
    intros i Hn. apply G2. intro. apply Hn. right. assumption.
Qed.

Theorem pub_frame s ty val :
  let s' := pub fixed s ty val in
  only_for (fun i => In (i, ty) (live s)) s s' /\ forall i, ~ In (i, ty) (live s) -> get_saved s' i = get_saved s i.
Proof.
  rewrite pub_unfold. destruct (tick s) as [[s1 p] f] eqn:Ht. apply tick_fields in Ht. destruct Ht as (_ & S1 & _ & Li1 & D1 & _).
  cbv zeta.
  set (s2 := if p && negb f then with_append s1 {| e_ty := ty; e_val := val |} else s1).
  assert (Li2 : live s2 = live s) by (unfold s2; destruct (p && negb f); cbn; exact Li1).
  assert (D2 : dels s2 = dels s) by (unfold s2; destruct (p && negb f); cbn; exact D1).
  assert (S2 : saved s2 = saved s) by (unfold s2; destruct (p && negb f); cbn; exact S1).
  pose proof (live_fold_frame ty val (if p && negb f then last s2 else 0) (live s2) s2) as H. cbv zeta in H.
  rewrite Li2 in H |- *. destruct H as [O G]. split.
  - eapply only_for_trans; [apply only_for_same; exact D2 | exact O].
  - intros i Hn. rewrite G by exact Hn. unfold get_saved. rewrite S2. reflexivity.
Qed.

(* ===== witnesses ===== *)
Definition failing (k : nat) : plan := {| p_budget := None; p_fail := Some k |}.
Definition dying (k : nat) : plan := {| p_budget := Some k; p_fail := None |}.

(* F10b (known finding): an event published while SubscribeWithReplay is running is lost for that subscription *)
Definition h_inner : list (op * plan) :=
  [(OPub 0 1, clean); (OSub 0 [(0, 0, 2)], clean); (OPub 0 3, clean); (ORestart, clean); (OSub 0 [], clean)].
Lemma publish_during_replay_lost :
  let s := run fixed [0] h_inner init in
  log s = [{| e_ty := 0; e_val := 1 |}; {| e_ty := 0; e_val := 2 |}; {| e_ty := 0; e_val := 3 |}] /\
  for_id 0 (dels s) = [3; 1] /\ get_saved s 0 = 3.
Proof. vm_compute. auto. Qed.

(* the two defects of the pinned code, as they were before the fix: commits *)
Definition h_empty_save : list (op * plan) :=
  [(OPub 0 1, clean); (OSub 0 [], clean); (ORestart, clean); (OSub 0 [], clean); (OPub 0 2, failing 0)].
Lemma pinned_empty_save_regresses :
  get_saved (run pinned [0] (firstn 4 h_empty_save) init) 0 = 1 /\ get_saved (run pinned [0] h_empty_save init) 0 = 0 /\
  get_saved (run fixed [0] h_empty_save init) 0 = 1.
Proof. vm_compute. auto. Qed.

Definition h_load_fails : list (op * plan) :=
  [(OPub 0 1, clean); (OSub 0 [], clean); (ORestart, clean); (OSub 0 [], failing 0)].
Lemma pinned_load_error_redelivers :
  for_id 0 (dels (run pinned [0] h_load_fails init)) = [1; 1] /\ get_saved (run pinned [0] (firstn 3 h_load_fails) init) 0 = 1 /\
  for_id 0 (dels (run fixed [0] h_load_fails init)) = [1].
Proof. vm_compute. auto. Qed.

(* non-vacuity: a process that dies between the handler and the save gets that one event again, and only that one *)
Definition h_crash : list (op * plan) :=
  [(OPub 0 1, clean); (OPub 0 2, clean); (OSub 0 [], dying 7); (ORestart, clean); (OSub 0 [], clean)].
Lemma crash_redelivers_unsaved_only :
  let s := run fixed [0] h_crash init in
  map (fun d => (d_pos d, d_sv d)) (dels s) = [(2, 1); (2, 1); (1, 0)] /\ get_saved s 0 = 2.
Proof. vm_compute. auto. Qed.

Lemma clean_example :
  clean_hist [(OPub 0 1, clean); (OSub 0 [], clean); (OPub 1 2, clean); (OPub 0 3, clean); (ORestart, clean); (OPub 0 4, clean)] /\
  for_id 0 (dels (run fixed [0; 1] ([(OPub 0 1, clean); (OSub 0 [], clean); (OPub 1 2, clean); (OPub 0 3, clean); (ORestart, clean); (OPub 0 4, clean)]
                                    ++ [(ORestart, clean); (OSub 0 [], clean)]) init)) = [4; 3; 1].
Proof. split; [repeat constructor | vm_compute; reflexivity]. Qed.

(* F10c (known finding): two overlapping publishers and a crash.  While the live handler handles event 2 a second
   publisher appends event 3; the first delivery's save reads the bus's lastOffset - already 3 - and the process dies
   before event 3 is handled: after the restart the subscription resumes behind it, and event 3 is never delivered.
   The composite step below is the interleaving observed on the real bus (suite resubrace). *)
Definition overlap_crash (s : rs) (ty v1 v2 : nat) : rs :=
  let s1 := with_append (begin_op s clean) {| e_ty := ty; e_val := v1 |} in
  let pos1 := last s1 in
  let s2 := with_append s1 {| e_ty := ty; e_val := v2 |} in
  let s3 := fold_left (fun acc l =>
              if Nat.eqb (snd l) ty
              then with_saved (with_del acc {| d_id := fst l; d_val := v1; d_pos := pos1; d_sv := get_saved acc (fst l) |}) (fst l) (last acc)
              else acc) (live s2) s2 in
  {| log := log s3; saved := saved s3; last := last s3; live := live s3; dead := true; tickno := tickno s3;
     budget := budget s3; failat := failat s3; dels := dels s3 |}.

Lemma overlapping_publishers_lose_an_event :
  let s1 := run fixed [0] [(OPub 0 1, clean); (OSub 0 [], clean)] init in
  let s2 := overlap_crash s1 0 2 3 in
  let s3 := run fixed [0] [(ORestart, clean); (OSub 0 [], clean); (OPub 0 4, clean); (ORestart, clean); (OSub 0 [], clean)] s2 in
  map e_val (log s3) = [1; 2; 3; 4] /\ for_id 0 (dels s3) = [4; 2; 1] /\ get_saved s3 0 = 4.
Proof. vm_compute. auto. Qed.
